#!/usr/bin/env python3
"""Native oracle / replay driver for unit SCOPE (C09): small programs whose output, per lexical scoping,
does not depend on the caller's locals.   scope_oracle.py <bloch> sweep"""
import sys, os, subprocess, tempfile, re, json
CASES = [
    ('lookup.result_not_below_frame_base',
     'class C { public int x; public constructor() -> C { this.x = 5; return this; } public function get() -> int { return x; } }\n'
     'function main() -> void { C c = new C(); int x = 100; echo(c.get()); }', '5', "a method's bare field name reads the CALLER's local of the same name"),
    ('assign.frame_below_base_unchanged',
     'class C { public int x; public constructor() -> C { this.x = 5; return this; } public function set() -> void { x = 9; } }\n'
     'function main() -> void { C c = new C(); int x = 100; c.set(); echo(x); }', '100', "a method's assignment to its field overwrites the CALLER's local of the same name"),
    ('lookup.scope_walk.finds_innermost_binding',
     'function main() -> void { int x = 1; if (true) { int y = 2; echo(x + y); } }', '3', 'inner block sees the enclosing block'),
    ('lookup.scope_walk.finds_innermost_binding',
     'function f(int a) -> int { int b = a + 1; return b; }\nfunction main() -> void { int a = 10; int b = 20; echo(f(1)); echo(a + b); }', '2\n30', 'a callee with the same local names as its caller'),
    ('frame_setup.call.caller_scopes_untouched',
     'function bump(int n) -> int { n = n + 1; return n; }\nfunction main() -> void { int n = 10; int r = bump(1); echo(n); echo(r); }', '10\n2', "binding / updating a parameter must not touch the caller's local of the same name"),
    ('frame_setup.call.every_parameter_is_bound_in_the_new_frame',
     'function fact(int n) -> int { if (n <= 1) { return 1; } int r = fact(n - 1); return n * r; }\nfunction main() -> void { echo(fact(4)); }', '24', 'each recursive activation has its own parameter'),
    ('frame_setup.callMethod.caller_scopes_untouched',
     'class K { public constructor() -> K = default; public function bump(int n) -> int { n = n + 1; return n; } }\nfunction main() -> void { K k = new K(); int n = 10; int r = k.bump(1); echo(n); echo(r); }', '10\n2', "a method parameter must not alias the caller's local of the same name"),
    ('frame_setup.runConstructorChain.caller_scopes_untouched',
     'class K { public int v; public constructor(int n) -> K { n = n + 1; this.v = n; return this; } }\nfunction main() -> void { int n = 10; K k = new K(1); echo(n); echo(k.v); }', '10\n2', "a constructor parameter must not alias the caller's local of the same name"),
    ('assign.int_stored_in_a_long_variable_is_widened',
     'function main() -> void { long y = 5L; y = 2147483647; y = y + 1L; echo(y); int i = 7; long z = 1L; z = i; z = z * 1000000 * 1000000; echo(z); }', '2147483648\n7000000000000', 'an int assigned to a long variable, then long arithmetic'),
    ('assign.int_stored_in_a_long_variable_is_widened',
     'function main() -> void { long y = 5L; y = 2147483647; y = y + 1; echo(y); }', '2147483648', 'an int assigned to a long variable: the next `y + 1` must be 64-bit arithmetic'),
]
def run(bloch, src):
    d = tempfile.mkdtemp(prefix='scope_'); p = os.path.join(d, 'p.bloch'); open(p, 'w').write(src)
    try:
        r = subprocess.run([bloch, p], capture_output=True, text=True, timeout=20, env=dict(os.environ, BLOCH_NO_UPDATE_CHECK='1'))
        return r.returncode, re.sub(r'\x1b\[[0-9;]*m', '', r.stdout + r.stderr)
    finally:
        import shutil; shutil.rmtree(d, ignore_errors=True)
def main():
    bloch = sys.argv[1]; fails = 0
    for label, src, want, what in CASES:
        rc, out = run(bloch, src)
        got = '\n'.join(l.strip() for l in out.strip().split('\n') if l.strip() and not l.startswith('['))
        if rc != 0 or got != want:
            fails += 1; print('FAIL label=%s program=%s detail=%s: printed %r, expected %r' % (label, json.dumps(src), what, got, want))
    print(json.dumps(dict(oracle_checks=len(CASES), oracle_failures=fails)))
    sys.exit(1 if fails else 0)
main()
