// Transliteration validation for unit LEX: lowered C (native build of the verified file) vs the
// real Lexer on a corpus and seeded random byte strings; every token field and every diagnostic
// (category, line, column) must agree exactly.
#include "lex_common.hpp"
#define _Bool bool
extern "C" {
#include "lex.h"
struct Lexer;
struct Lexer* bl_lexer_new(const char* p, size_t n);
vec_Token Lexer_tokenize(struct Lexer* self);
extern int bl_exc, bl_exc_line, bl_exc_col;
}
int main(int argc, char** argv) {
    unsigned seed = argc > 1 ? atoi(argv[1]) : 1; int count = argc > 2 ? atoi(argv[2]) : 3000; int maxlen = argc > 3 ? atoi(argv[3]) : 24;
    std::mt19937 g(seed); long checks = 0, diffs = 0, toks = 0, throws = 0;
    std::vector<std::string> inputs = corpus();
    for (int i = 1; i < argc - 4 + 1 && argc > 4; i++) {}
    for (int i = 0; i < count; i++) inputs.push_back(rand_src(g, maxlen));
    for (int a = 4; a < argc; a++) { FILE* f = fopen(argv[a], "rb"); if (!f) continue; std::string s; char b[4096]; size_t k; while ((k = fread(b, 1, sizeof b, f)) > 0) s.append(b, k); fclose(f); inputs.push_back(s); }
    for (auto& src : inputs) {
        RealRun r = run_real(src);
        bl_exc = 0;
        struct Lexer* lx = bl_lexer_new(src.data(), src.size());
        vec_Token v = Lexer_tokenize(lx);
        checks++;
        bool bad = false;
        if (r.threw != (bl_exc != 0)) bad = true;
        else if (r.threw) { throws++; if (r.raw ? bl_exc != BL_EXC_STD : (bl_exc != r.cat + 1 || bl_exc_line != r.line || bl_exc_col != r.col)) bad = true; }
        else {
            if (v.size != r.toks.size()) bad = true;
            else for (size_t i = 0; i < v.size; i++) {
                toks++; checks++;
                Token& t = v.data[i];
                if (t.type != r.toks[i].type || t.line != r.toks[i].line || t.column != r.toks[i].column || t.value.n != r.toks[i].value.size() || memcmp(t.value.p, r.toks[i].value.data(), t.value.n)) { bad = true; break; }
            }
        }
        if (bad) { diffs++; if (diffs < 6) printf("DIFF on source hex=%s (real threw=%d low exc=%d)\n", hex(src).c_str(), r.threw, bl_exc); }
        free(v.data); free(lx);
    }
    printf("{\"checks\": %ld, \"diffs\": %ld, \"inputs\": %zu, \"tokens\": %ld, \"throws\": %ld, \"seed\": %u}\n", checks, diffs, inputs.size(), toks, throws, seed);
    return diffs ? 3 : 0;
}
