#!/usr/bin/env python3
"""Native oracle / replay driver for unit OBJM (C08, destructor walk): for class chains of depth <= 4 in which an arbitrary
subset of the classes declares a destructor, `destroy` of an instance of each class must print the destructors of exactly the
declaring classes on its chain, derived first, each once.   objm_oracle.py <bloch> sweep"""
import sys, os, subprocess, tempfile, re, json, itertools
def run(bloch, src):
    d = tempfile.mkdtemp(prefix='objm_'); p = os.path.join(d, 'p.bloch'); open(p, 'w').write(src)
    try:
        r = subprocess.run([bloch, p], capture_output=True, text=True, timeout=20, env=dict(os.environ, BLOCH_NO_UPDATE_CHECK='1'), cwd=d)
        return r.returncode, re.sub(r'\x1b\[[0-9;]*m', '', r.stdout + r.stderr)
    finally:
        import shutil; shutil.rmtree(d, ignore_errors=True)
def program(depth, has):
    src = ''
    for k in range(depth):
        ext = ' extends C%d' % (k - 1) if k else ''
        dt = ' destructor() -> void { echo("~C%d"); }' % k if has[k] else ''
        src += 'class C%d%s { public constructor() -> C%d = default;%s }\n' % (k, ext, k, dt)
    body = ''
    for k in range(depth):
        body += 'C%d o%d = new C%d(); echo("d%d"); destroy o%d; ' % (k, k, k, k, k)
    want = []
    for k in range(depth):
        want.append('d%d' % k)
        want += ['~C%d' % j for j in range(k, -1, -1) if has[j]]
    return src + 'function main() -> void { %s echo("end"); }\n' % body, want + ['end']
def main():
    bloch = sys.argv[1]; fails = 0; n = 0
    probe = run(bloch, program(1, [True])[0])
    if '~C0' not in probe[1]:
        print('ORACLE-UNUSABLE: destructor syntax not accepted: %s' % probe[1].strip()[-200:]); print(json.dumps(dict(oracle_checks=0, oracle_failures=0, unusable=True))); sys.exit(0)
    for depth in (1, 2, 3, 4):
        for has in itertools.product([False, True], repeat=depth):
            src, want = program(depth, has)
            rc, out = run(bloch, src); n += 1
            got = [l.strip() for l in out.strip().split('\n') if l.strip()]
            if rc != 0 or got != want:
                fails += 1
                lab = 'destroyObject.dtor_walk.derived_before_base' if sorted(got) == sorted(want) else 'destroyObject.dtor_walk.every_declared_destructor_of_the_chain_runs_once'
                print('FAIL label=%s program=%s detail=depth %d destructors declared %s: printed %s, expected %s' % (lab, json.dumps(src), depth, list(has), got, want))
    print(json.dumps(dict(oracle_checks=n, oracle_failures=fails)))
    sys.exit(1 if fails else 0)
main()
