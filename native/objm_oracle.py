#!/usr/bin/env python3
"""Native oracle / replay driver for unit OBJM (C08, destructor walk): for class chains of depth <= 4 in which an arbitrary
subset of the classes declares a destructor, `destroy` of an instance of each class must print the destructors of exactly the
declaring classes on its chain, derived first, each once.   objm_oracle.py <bloch> sweep"""
import sys, os, subprocess, tempfile, re, json, itertools
def run(bloch, src):
    d = tempfile.mkdtemp(prefix='objm_'); p = os.path.join(d, 'p.bloch'); open(p, 'w').write(src)
    try:
        r = subprocess.run([bloch, p], capture_output=True, text=True, timeout=20, env=dict(os.environ, BLOCH_NO_UPDATE_CHECK='1'), cwd=d)
        return r.returncode, re.sub(r'\x1b\[[0-9;]*m', '', r.stdout + r.stderr)
    finally:
        import shutil; shutil.rmtree(d, ignore_errors=True)
def program(depth, has):
    src = ''
    for k in range(depth):
        ext = ' extends C%d' % (k - 1) if k else ''
        dt = ' destructor() -> void { echo("~C%d"); }' % k if has[k] else ''
        src += 'class C%d%s { public constructor() -> C%d = default;%s }\n' % (k, ext, k, dt)
    body = ''
    for k in range(depth):
        body += 'C%d o%d = new C%d(); echo("d%d"); destroy o%d; ' % (k, k, k, k, k)
    want = []
    for k in range(depth):
        want.append('d%d' % k)
        want += ['~C%d' % j for j in range(k, -1, -1) if has[j]]
    return src + 'function main() -> void { %s echo("end"); }\n' % body, want + ['end']
def main():
    bloch = sys.argv[1]; fails = 0; n = 0
    probe = run(bloch, program(1, [True])[0])
    if '~C0' not in probe[1]:
        print('ORACLE-UNUSABLE: destructor syntax not accepted: %s' % probe[1].strip()[-200:]); print(json.dumps(dict(oracle_checks=0, oracle_failures=0, unusable=True))); sys.exit(0)
    for depth in (1, 2, 3, 4):
        for has in itertools.product([False, True], repeat=depth):
            src, want = program(depth, has)
            rc, out = run(bloch, src); n += 1
            got = [l.strip() for l in out.strip().split('\n') if l.strip()]
            if rc != 0 or got != want:
                fails += 1
                lab = 'destroyObject.dtor_walk.derived_before_base' if sorted(got) == sorted(want) else 'destroyObject.dtor_walk.every_declared_destructor_of_the_chain_runs_once'
                print('FAIL label=%s program=%s detail=depth %d destructors declared %s: printed %s, expected %s' % (lab, json.dumps(src), depth, list(has), got, want))
    # ---- a block closes its scope on every path: after a callee returns from inside a nested block, nothing of the callee stays visible
    blk = [('function clamp(int n, int limit) -> int { int x = 7; if (n > limit) { return limit; } return n; }\n'
            'function main() -> void { int x = 50; int n = 1; int limit = 2; int r = clamp(5, 3); echo(x); echo(n); echo(limit); echo(r); }\n', ['50', '1', '2', '3']),
           ('function f(int a) -> int { int t = a * 2; while (true) { { return t; } } return 0; }\n'
            'function main() -> void { int t = 9; int a = 4; int r = f(10); echo(t); echo(a); echo(r); }\n', ['9', '4', '20']),
           ('function first(int lim) -> int { for (int i = 0; i < lim; i = i + 1) { if (i == 2) { return i; } } return 0; }\n'
            'function main() -> void { int i = 77; int lim = 88; int r = first(5); echo(i); echo(lim); echo(r); for (int k = 0; k < 2; k = k + 1) { int i2 = k; } echo(i); }\n', ['77', '88', '2', '77']),
           ('class K { public constructor() -> K = default; public function g(int v) -> int { int w = v + 1; if (v > 0) { if (v > 1) { return w; } } return 0; } }\n'
            'function main() -> void { K k = new K(); int v = 100; int w = 200; int r = k.g(5); echo(v); echo(w); echo(r); }\n', ['100', '200', '6'])]
    for src, want in blk:
        rc, out = run(bloch, src); n += 1
        got = [l.strip() for l in out.strip().split('\n') if l.strip()]
        if rc != 0 or got != want:
            fails += 1
            print('FAIL label=%s program=%s detail=after a return from inside a nested block the caller sees the callee\'s variables: printed %s, expected %s' % ('exec.for.scope_closed_on_every_path' if 'for (' in src.split('function main')[0] else 'exec.block.scope_closed_on_every_path', json.dumps(src), got, want))
    # ---- a return inside a loop / block leaves it at once: nothing more of the loop or the block runs (C07)
    ret = [('function f(int n) -> int { for (int i = 0; i < 10; i = i + 1) { if (i * i > n) { return i; } } return -1; }\nfunction main() -> void { echo(f(10)); }\n', ['4'], 'exec.for.nothing_runs_once_the_body_has_returned'),
           ('function g() -> int { for (int i = 0; i < 6; i = i + 1) { echo("visit"); if (i == 2) { return i; } } return -1; }\nfunction main() -> void { echo(g()); }\n', ['visit', 'visit', 'visit', '2'], 'exec.for.nothing_runs_once_the_body_has_returned'),
           ('function hh(int n) -> int { int i = 0; while (i < 10) { if (i * i > n) { return i; } i = i + 1; } return -1; }\nfunction main() -> void { echo(hh(10)); }\n', ['4'], 'exec.while.nothing_runs_once_the_body_has_returned'),
           ('function w() -> int { int i = 0; while (i < 6) { echo("visit"); if (i == 1) { return i; } i = i + 1; } return -1; }\nfunction main() -> void { echo(w()); }\n', ['visit', 'visit', '1'], 'exec.while.nothing_runs_once_the_body_has_returned'),
           ('function b(int n) -> int { { if (n > 0) { return 1; } echo("after"); } echo("end"); return 2; }\nfunction main() -> void { echo(b(5)); echo(b(0)); }\n', ['1', 'after', 'end', '2'], 'exec.block.nothing_runs_once_a_statement_has_returned')]
    for src, want, lab in ret:
        rc, out = run(bloch, src); n += 1
        got = [l.strip() for l in out.strip().split('\n') if l.strip()]
        if rc != 0 or got != want:
            fails += 1
            print('FAIL label=%s program=%s detail=printed %s, expected %s' % (lab, json.dumps(src), got, want))
    # ---- which method runs for obj.m(...): the override of the receiver's dynamic class; super.m() the base version
    H3 = ('class Shape { public constructor() -> Shape = default; public virtual function name() -> string { return "Shape"; } public function describe() -> string { return "I am " + this.name(); } public function plain() -> string { return "plainShape"; } }\n'
          'class Circle extends Shape { public constructor() -> Circle = default; public override function name() -> string { return "Circle"; } public function viaSuper() -> string { return super.plain(); } }\n'
          'class Ring extends Shape { public constructor() -> Ring = default; public override function name() -> string { return "Ring"; } }\n')
    disp = [(H3 + 'function main() -> void { Shape s = new Shape(); echo(s.name()); s = new Circle(); echo(s.name()); echo(s.describe()); s = new Ring(); echo(s.name()); echo(s.describe()); }\n', ['Shape', 'Circle', 'I am Circle', 'Ring', 'I am Ring'], 'eval.member_call.virtual_call_runs_override_of_dynamic_class'),
            (H3 + 'function main() -> void { Shape c = new Ring(); echo(c.describe()); Shape t = new Circle(); echo(t.describe()); echo(t.plain()); }\n', ['I am Ring', 'I am Circle', 'plainShape'], 'eval.member_call.virtual_call_runs_override_of_dynamic_class'),
            (H3 + 'function main() -> void { Circle c = new Circle(); echo(c.viaSuper()); }\n', ['plainShape'], 'eval.member_call.super_call_runs_the_base_version'),
            # super.m() runs the base version ON THE SAME OBJECT: the base method reads this.x / calls this.name()
            ('class A { public int x; public constructor() -> A { this.x = 3; return this; } public virtual function m() -> int { return this.x + 1; } }\n'
             'class B extends A { public constructor() -> B { super(); return this; } public override function m() -> int { return super.m() + 10; } }\n'
             'function main() -> void { B b = new B(); echo(b.m()); }\n', ['14'], 'eval.member_call.super_call_keeps_the_receiver'),
            ('class A { public constructor() -> A = default; public virtual function name() -> string { return "A"; } public virtual function hello() -> string { return "hello from " + this.name(); } }\n'
             'class B extends A { public constructor() -> B = default; public override function name() -> string { return "B"; } public override function hello() -> string { return super.hello() + "!"; } }\n'
             'function main() -> void { A a = new B(); echo(a.hello()); }\n', ['hello from B!'], 'eval.member_call.super_call_keeps_the_receiver'),
            ('class U { public constructor() -> U = default; public static function twice(int v) -> int { return v * 2; } }\nfunction main() -> void { echo(U.twice(4)); }\n', ['8'], 'eval.member_call.class_qualified_call_runs_that_classes_version')]
    for src, want, lab in disp:
        rc, out = run(bloch, src); n += 1
        got = [l.strip() for l in out.strip().split('\n') if l.strip()]
        if rc != 0 or got != want:
            fails += 1
            print('FAIL label=%s program=%s detail=printed %s, expected %s' % (lab, json.dumps(src), got, want))
    # ---- construction order: base constructor chain, then this class's field initialisers, then its constructor body
    NOTE = 'function note(string s) -> int { echo(s); return 1; }\n'
    for exp_super in (False, True):
        sup = 'super(); ' if exp_super else ''
        src = (NOTE + 'class Base { public int bf = note("Base.field"); public constructor() -> Base { echo("Base.ctor"); } }\n'
               'class Mid extends Base { public int mf = note("Mid.field"); public constructor() -> Mid { %secho("Mid.ctor"); } }\n'
               'class Leaf extends Mid { public int lf = note("Leaf.field"); public constructor() -> Leaf { %secho("Leaf.ctor"); } }\n'
               'function main() -> void { Leaf l = new Leaf(); echo("done"); Mid m = new Mid(); echo("done2"); }\n') % (sup, sup)
        want = ['Base.field', 'Base.ctor', 'Mid.field', 'Mid.ctor', 'Leaf.field', 'Leaf.ctor', 'done', 'Base.field', 'Base.ctor', 'Mid.field', 'Mid.ctor', 'done2']
        rc, out = run(bloch, src); n += 1
        got = [l.strip() for l in out.strip().split('\n') if l.strip()]
        if rc != 0 or got != want:
            fails += 1
            lab = 'construction.base_constructor_chain_runs_first' if sorted(got) == sorted(want) else 'construction.field_initialisers_once_before_the_body'
            print('FAIL label=%s program=%s detail=explicit super=%s: printed %s, expected %s' % (lab, json.dumps(src), exp_super, got, want))
    # ---- static fields: one slot per DECLARING class, whichever subclass / object it is reached through
    st = [('class Counter { public static int made = 0; public constructor() -> Counter { made = made + 1; return this; } }\n'
           'class Special extends Counter { public static int bonus = 100; public constructor() -> Special { super(); made = made + 10; bonus = bonus + 1; return this; } }\n'
           'function main() -> void { Counter a = new Counter(); Special b = new Special(); echo(Counter.made); echo(Special.made); echo(Special.bonus); Special.made = Special.made + 5; echo(Counter.made); echo(b.made); echo(Special.bonus); }\n',
           ['12', '12', '101', '17', '17', '101'], 'static_field.owner_is_the_nearest_declaring_class'),
          ('class P { public static int s = 1; public constructor() -> P = default; }\nclass Q extends P { public constructor() -> Q { super(); return this; } public function bump() -> void { s = s + 1; } }\n'
           'function main() -> void { Q q = new Q(); q.bump(); q.bump(); echo(P.s); echo(Q.s); }\n', ['3', '3'], 'static_field.owner_is_the_nearest_declaring_class')]
    for src, want, lab in st:
        rc, out = run(bloch, src); n += 1
        got = [l.strip() for l in out.strip().split('\n') if l.strip()]
        if rc != 0 or got != want:
            fails += 1
            print('FAIL label=%s program=%s detail=printed %s, expected %s' % (lab, json.dumps(src), got, want))
    # ---- explicit super(args): the applicable base constructor of lowest conversion cost runs, whatever the order of declaration

    CT = {'Dog': 'public constructor(Dog d) -> Base { echo("Base(Dog)"); return this; }', 'Animal': 'public constructor(Animal a) -> Base { echo("Base(Animal)"); return this; }',
          'int': 'public constructor(int n) -> Base { echo("Base(int)"); return this; }', 'long': 'public constructor(long n) -> Base { echo("Base(long)"); return this; }'}
    for order in list(itertools.permutations(['Dog', 'Animal', 'int', 'long']))[::3]:
        src = ('class Animal { public constructor() -> Animal = default; }\nclass Dog extends Animal { public constructor() -> Dog { super(); return this; } }\n'
               'class Base { ' + ' '.join(CT[k] for k in order) + ' }\n'
               'class FromDog extends Base { public constructor(Dog d) -> FromDog { super(d); echo("FromDog"); return this; } }\n'
               'class FromInt extends Base { public constructor() -> FromInt { super(7); echo("FromInt"); return this; } }\n'
               'function main() -> void { Dog d = new Dog(); FromDog a = new FromDog(d); FromInt b = new FromInt(); }\n')
        want = ['Base(Dog)', 'FromDog', 'Base(int)', 'FromInt']
        rc, out = run(bloch, src); n += 1
        got = [l.strip() for l in out.strip().split('\n') if l.strip()]
        if rc != 0 or got != want:
            fails += 1
            print('FAIL label=construction.explicit_super_runs_the_cheapest_applicable_base_constructor program=%s detail=base constructors declared in the order %s: printed %s, expected %s' % (json.dumps(src), list(order), got, want))
    print(json.dumps(dict(oracle_checks=n, oracle_failures=fails)))
    sys.exit(1 if fails else 0)
main()
