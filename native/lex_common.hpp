// shared by lex_coexec.cpp / lex_oracle.cpp: run the REAL lexer and collect tokens / the error
#include <string>
#include <vector>
#include <cstdio>
#include <cstring>
#include <random>
#include "bloch/compiler/lexer/lexer.hpp"
struct RealTok { int type; std::string value; int line, column; };
struct RealRun { std::vector<RealTok> toks; bool threw = false; int cat = -1, line = 0, col = 0; bool raw = false; };
static RealRun run_real(const std::string& src) {
    RealRun r;
    try {
        bloch::compiler::Lexer lx(src);
        for (auto& t : lx.tokenize()) r.toks.push_back({(int)t.type, t.value, t.line, t.column});
    } catch (const bloch::support::BlochError& e) { r.threw = true; r.cat = (int)e.category; r.line = e.line; r.col = e.column; }
    catch (const std::exception&) { r.threw = true; r.raw = true; }
    return r;
}
static const char ALPHA[] = "ab_zfLb01 9\n\t \"'//.=+-<>!&|^~*%?:;,@(){}[]\\#$\x80\xff\r";
static std::string rand_src(std::mt19937& g, int maxlen) {
    int n = g() % (maxlen + 1); std::string s;
    for (int i = 0; i < n; i++) s.push_back(ALPHA[g() % (sizeof(ALPHA) - 1)]);
    return s;
}
static std::string hex(const std::string& s) { std::string o; char b[4]; for (unsigned char c : s) { snprintf(b, 4, "%02x", c); o += b; } return o; }
static std::string unhex(const char* h) { std::string o; for (size_t i = 0; h[i] && h[i + 1]; i += 2) { unsigned v; sscanf(h + i, "%2x", &v); o.push_back((char)v); } return o; }
static std::vector<std::string> corpus() {
    return {"", " ", "\n", "a", "\"a\nb\" zz", "'\n' x", "// c\nx", "x // c", "1.5f 3f 7L 1b 0b 2b", "1.5", "\"unterminated", "'u", "a\n\n  b", "\"\n\n\"\n q",
            "@shots(10) function main() -> void { qubit q; h(q); }", "x==y!=z<=w>=v&&u||t++--->", "/ /", "//", "/", "\"//\" x", "'/'/ 1", "\t\ta", "\r\n a", "\x80", "a\x00b"};
}
