// Native oracle / replay driver for unit UPD (C20): the contracts' postconditions re-stated
// independently and evaluated on the REAL functions of update_manager.cpp (the translation unit is
// included, so the anonymous-namespace functions are reachable).  Supporting evidence + replay.
//   upd_oracle sweep <seed> <count>
//   upd_oracle semver <hex string>            upd_oracle gate <hex current> <hex latest>
//   upd_oracle checksum <hex content> <hex asset>
#include <random>
#include <cstdio>
#include <sstream>
#include <iostream>
#include <climits>
#include REAL_CPP
using namespace bloch::update;
static long n_checks = 0, n_fail = 0;
static std::string hex(const std::string& s) { std::string o; char b[4]; for (unsigned char c : s) { snprintf(b, 4, "%02x", c); o += b; } return o; }
static std::string unhex(const char* h) { std::string o; for (size_t i = 0; h[i] && h[i + 1]; i += 2) { unsigned v; sscanf(h + i, "%2x", &v); o.push_back((char)v); } return o; }
static void fail(const char* label, const std::string& in, const std::string& detail) { n_fail++; if (n_fail <= 25) printf("FAIL label=%s input_hex=%s detail=%s\n", label, in.c_str(), detail.c_str()); }

struct Ref { bool valid = false; bool fits = true; long long c[3] = {0, 0, 0}; int n = 0; };
static Ref ref_parse(const std::string& s) {
    Ref r; size_t p = 0; if (!s.empty() && s[0] == 'v') p = 1;
    for (int i = 0; i < 3; i++) {
        size_t st = p; unsigned long long v = 0; bool big = false;
        while (p < s.size() && s[p] >= '0' && s[p] <= '9') { v = v * 10 + (s[p] - '0'); if (v > (unsigned long long)INT_MAX) big = true; if (v > 1000000000000000000ULL) v = 1000000000000000000ULL; p++; }
        if (p == st) break;
        if (p - st > 9) big = true;   // what to do with such a component is the implementation's choice (reject or accept if it fits)
        r.c[i] = (long long)v; r.n = i + 1; r.valid = true; if (big) r.fits = false;
        if (p >= s.size() || s[p] != '.') break;
        p++;
    }
    return r;
}
static bool real_parse(const std::string& s, SemVer& out, std::string& what) {
    try { out = parseSemVer(s); return true; } catch (const std::exception& e) { what = e.what(); return false; } catch (...) { what = "unknown"; return false; }
}
static void check_semver(const std::string& s) {
    n_checks++; SemVer v; std::string what; Ref r = ref_parse(s);
    if (!real_parse(s, v, what)) { fail("parseSemVer.never_raises", hex(s), "raw C++ exception '" + what + "' for version string '" + s + "'"); return; }
    if (!r.fits) return;   // the property only demands "never acts on it, never crashes"
    if (v.valid != r.valid) { fail(r.valid ? "parseSemVer.valid_if_first_component_is_a_number" : "parseSemVer.valid_only_if_first_component_is_a_number", hex(s), "valid flag"); return; }
    if (v.valid && (v.major != r.c[0] || v.minor != r.c[1] || v.patch != r.c[2])) fail("parseSemVer.major_is_first_run", hex(s), "components differ from the decimal runs");
    if (!v.valid && (v.major || v.minor || v.patch)) fail("parseSemVer.invalid_is_all_zero", hex(s), "non-zero fields");
}
static int ref_cmp(const Ref& a, const Ref& b) { if (!a.valid || !b.valid) return 0; for (int i = 0; i < 3; i++) if (a.c[i] != b.c[i]) return a.c[i] < b.c[i] ? -1 : 1; return 0; }
static void check_gate(const std::string& cur, const std::string& lat) {
    n_checks++; Ref a = ref_parse(cur), b = ref_parse(lat); bool h; 
    try { h = hasLatest(cur, lat); } catch (const std::exception& e) { fail("hasLatest.never_raises", hex(cur) + "/" + hex(lat), e.what()); return; }
    if (!a.fits || !b.fits) return;
    bool want = a.valid && b.valid && ref_cmp(a, b) >= 0;
    if (h != want) fail("hasLatest.true_iff_both_valid_and_not_older", hex(cur) + "/" + hex(lat), "hasLatest");
    // (the gate inside performSelfUpdate cannot be replayed offline: the release tag comes from the network)
}
bool g_gate_has_validity_check = false;
static void check_cmp_laws(std::mt19937& g) {
    auto mk = [&]() { SemVer s; s.major = g() % 4; s.minor = g() % 4; s.patch = g() % 4; s.valid = g() % 5 != 0; if (g() % 7 == 0) s.major = INT_MAX - (int)(g() % 2); return s; };
    SemVer a = mk(), b = mk(), c = mk(); n_checks++;
    int ab = compareSemVer(a, b), ba = compareSemVer(b, a), bc = compareSemVer(b, c), ac = compareSemVer(a, c);
    if (ab != -ba) fail("compareSemVer.is_sign_of_numeric_lexicographic_order", "-", "antisymmetry");
    if (a.valid && b.valid && c.valid && ab < 0 && bc < 0 && !(ac < 0)) fail("compareSemVer.is_sign_of_numeric_lexicographic_order", "-", "transitivity");
    if (a.valid && b.valid) { long long x[3] = {a.major, a.minor, a.patch}, y[3] = {b.major, b.minor, b.patch}; int w = 0; for (int i = 0; i < 3 && !w; i++) if (x[i] != y[i]) w = x[i] < y[i] ? -1 : 1; if (w != ab) fail("compareSemVer.is_sign_of_numeric_lexicographic_order", "-", "order"); }
}
static void check_notice(const std::string& lat, const std::string& cur, long long dt_hours) {
    n_checks++; UpdateCache c; auto now = Clock::now(); c.lastNotified = now - std::chrono::hours(dt_hours); c.latestVersion = "old"; auto before = c.lastNotified;
    std::ostringstream cap; auto* old = std::cout.rdbuf(cap.rdbuf()); bool r = false; bool threw = false;
    try { r = maybePrintNotice(lat, cur, now, c); } catch (...) { threw = true; }
    std::cout.rdbuf(old);
    if (threw) { fail("maybePrintNotice.never_raises", hex(lat) + "/" + hex(cur), "exception"); return; }
    Ref a = ref_parse(cur), b = ref_parse(lat); if (!a.fits || !b.fits) return;
    bool due = !lat.empty() && dt_hours >= 72 && a.valid && b.valid && ref_cmp(a, b) < 0;
    bool printed = !cap.str().empty();
    if (printed != r) fail("maybePrintNotice.prints_exactly_when_it_returns_true", hex(lat), "output vs result");
    if (r && dt_hours < 72) fail("maybePrintNotice.only_after_72h_window", hex(lat), "printed inside the window");
    if (r && !(a.valid && b.valid && ref_cmp(a, b) < 0)) fail("maybePrintNotice.only_for_parsable_strictly_newer", hex(lat) + "/" + hex(cur), "printed for a release that is not strictly newer");
    if (due && !r) fail("maybePrintNotice.notifies_when_due", hex(lat) + "/" + hex(cur), "silent although due");
    if (r && c.lastNotified != now) fail("maybePrintNotice.stamps_the_window", hex(lat), "lastNotified not stamped");
    if (!r && (c.lastNotified != before || c.latestVersion != "old")) fail("maybePrintNotice.silent_call_leaves_cache", hex(lat), "cache changed");
    if (r) { std::ostringstream cap2; old = std::cout.rdbuf(cap2.rdbuf()); bool r2 = maybePrintNotice(lat, cur, now + std::chrono::hours(1), c); std::cout.rdbuf(old); if (r2) fail("maybePrintNotice.only_after_72h_window", hex(lat), "second notice one hour later"); }
}
static void check_checksum(const std::string& content, const std::string& asset) {
    n_checks++; std::optional<std::string> got; try { got = parseChecksum(content, asset); } catch (...) { fail("parseChecksum.never_raises", hex(content), "exception"); return; }
    std::optional<std::string> want; std::istringstream in(content); std::string line;
    while (std::getline(in, line)) { std::istringstream p(line); std::string h, nme; if (!(p >> h >> nme)) continue; if (!nme.empty() && nme[0] == '*') nme.erase(0, 1); if (nme == asset) { want = h; break; } }
    if (got != want) fail("parseChecksum.result_is_hash_of_the_line_naming_exactly_this_asset", hex(content) + "/" + hex(asset), "got '" + got.value_or("<none>") + "' want '" + want.value_or("<none>") + "'");
}
static std::string rnd(std::mt19937& g, const char* alpha, int maxlen) { int n = g() % (maxlen + 1); std::string s; size_t k = strlen(alpha); for (int i = 0; i < n; i++) s.push_back(alpha[g() % k]); return s; }
int main(int argc, char** argv) {
    std::string mode = argc > 1 ? argv[1] : "sweep";
    g_gate_has_validity_check = (mode == "sweep");   // the gate itself is only replayed after the verifier refuted it
    if (mode == "semver" && argc > 2) check_semver(unhex(argv[2]));
    else if (mode == "gate" && argc > 2) check_gate(unhex(argv[2]), argc > 3 ? unhex(argv[3]) : std::string());
    else if (mode == "checksum" && argc > 3) check_checksum(unhex(argv[2]), unhex(argv[3]));
    else {
        unsigned seed = argc > 2 ? atoi(argv[2]) : 1; int count = argc > 3 ? atoi(argv[3]) : 2000; std::mt19937 g(seed);
        const char* corpus[] = {"", "v", "1", "v1", "1.2", "1.2.3", "v1.2.3", "1.2.3.4", "1..2", ".1", "1.", "v.1", "01.002.0003", "1.2.3-rc1", "2147483647.0.0", "2147483648.0.0", "99999999999", "1.99999999999", "1.2.99999999999999999999", "latest", "v1.x", "0000000000001.0.0", "1.2.3\n"};
        for (auto c : corpus) { check_semver(c); for (auto d : corpus) check_gate(c, d); }
        for (int i = 0; i < count; i++) { std::string a = rnd(g, "v0123456789..-ax", 14), b = rnd(g, "v0123456789..", 14); check_semver(a); check_gate(a, b); check_cmp_laws(g); check_notice(b, a, (long long)(g() % 160)); }
        const char* assets[] = {"bloch-v1.2.3-Linux-X64.tar.gz", "a", "bloch.tar.gz"};
        for (auto as : assets) {
            std::string A = as;
            check_checksum("abc  " + A + "\n", A); check_checksum("111  " + A + ".sig\n222  " + A + "\n", A); check_checksum("111  old-" + A + "\n222  " + A + "\n", A);
            check_checksum("222 *" + A + "\n", A); check_checksum("", A); check_checksum("111  other\n", A); check_checksum(A + "\n222  " + A + "\n", A);
        }
    }
    printf("{\"oracle_checks\": %ld, \"oracle_failures\": %ld}\n", n_checks, n_fail);
    return n_fail ? 1 : 0;
}
