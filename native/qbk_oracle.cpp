// Native oracle / replay driver for unit QBK: the evaluator's qubit bookkeeping on the REAL
// RuntimeEvaluator (private members reached through the header), linked against /repo's libraries
// built from the current working tree.
//   qbk_oracle sweep <seed> <steps>
#include <random>
#include <cstdio>
#include <set>
#include <string>
#include <vector>
#include <sstream>
#include <complex>
#include <atomic>
#include <thread>
#include <mutex>
#include <condition_variable>
#include <unordered_map>
#include <memory>
#include <iostream>
#include <array>
#include <optional>
#include <functional>
#include <map>
#include "bloch/compiler/ast/ast.hpp"
#include "bloch/runtime/qasm_simulator.hpp"
#define private public
#include "bloch/runtime/runtime_evaluator.hpp"
#undef private
using namespace bloch::runtime;
static long n_checks = 0, n_fail = 0;
static void fail(const char* label, const std::string& hist, const std::string& detail) { n_fail++; if (n_fail <= 20) printf("FAIL label=%s history=%s detail=%s\n", label, hist.c_str(), detail.c_str()); }
int main(int argc, char** argv) {
    unsigned seed = argc > 2 ? atoi(argv[2]) : 1; int steps = argc > 3 ? atoi(argv[3]) : 40; std::mt19937 g(seed);
    for (int trial = 0; trial < 300; trial++) {
        RuntimeEvaluator ev(false);
        std::set<int> live; std::string hist;
        for (int s = 0; s < steps; s++) {
            int op = g() % 5; n_checks++;
            if (op <= 1 || live.empty()) {
                if (ev.m_qubits.size() >= 6 && ev.m_freeQubitIndices.empty()) continue;
                int h = ev.allocateTrackedQubit("q" + std::to_string(s)); hist += "A" + std::to_string(h) + " ";
                if (h < 0 || h >= (int)ev.m_qubits.size()) { fail("allocateTrackedQubit.handle_in_range", hist, "out of range"); break; }
                if (live.count(h)) { fail("allocateTrackedQubit.handle_differs_from_every_live_handle", hist, "handle " + std::to_string(h) + " handed out while still live: two declarations share one simulator qubit"); break; }
                if (ev.m_qubits[h].measured || ev.m_lastMeasurement[h] != -1) fail("allocateTrackedQubit.handle_is_usable", hist, "stale flag");
                live.insert(h);
            } else if (op == 2) {   // release a live handle (possibly twice: a qubit handle copied between two objects that are both destroyed)
                auto it = live.begin(); std::advance(it, g() % live.size()); int h = *it; live.erase(it);
                ev.m_sim.reset(h); ev.releaseQubit(h); hist += "R" + std::to_string(h) + " ";
                if (g() % 3 == 0) { ev.m_sim.reset(h); ev.releaseQubit(h); hist += "R" + std::to_string(h) + " "; }
                else if (g() % 2 == 0 && !live.empty()) {   // the same handle released again AFTER another release (handle shared by two objects destroyed at different times)
                    auto it2 = live.begin(); std::advance(it2, g() % live.size()); int k = *it2; live.erase(it2);
                    ev.m_sim.reset(k); ev.releaseQubit(k); hist += "R" + std::to_string(k) + " ";
                    ev.m_sim.reset(h); ev.releaseQubit(h); hist += "R" + std::to_string(h) + " ";
                }
                std::set<int> seen; for (int f : ev.m_freeQubitIndices) { if (!seen.insert(f).second) { fail("releaseQubit.free_list_stays_duplicate_free", hist, "index " + std::to_string(f) + " is on the free list twice"); s = steps; break; } }
            } else if (op == 3) {
                auto it = live.begin(); std::advance(it, g() % live.size()); int h = *it;
                ev.m_sim.measure(h); ev.markMeasured(h); hist += "M" + std::to_string(h) + " ";
                bool threw = false; try { ev.ensureQubitActive(h, 3, 4); } catch (const bloch::support::BlochError& e) { threw = e.category == bloch::support::ErrorCategory::Runtime && e.line == 3 && e.column == 4; }
                if (!threw) fail("ensureQubitActive.located_error_iff_out_of_range_or_measured", hist, "measured qubit not refused with a located runtime error");
                ev.m_sim.reset(h); ev.unmarkMeasured(h);
                threw = false; try { ev.ensureQubitActive(h, 3, 4); } catch (...) { threw = true; }
                if (threw) fail("ensureQubitActive.located_error_iff_out_of_range_or_measured", hist, "reset qubit refused");
            } else {
                bool threw = false; try { ev.ensureQubitActive((int)ev.m_qubits.size(), 1, 2); } catch (const bloch::support::BlochError&) { threw = true; }
                if (!threw) fail("ensureQubitExists.located_error_iff_out_of_range", hist, "out-of-range handle accepted");
            }
        }
    }
    printf("{\"oracle_checks\": %ld, \"oracle_failures\": %ld}\n", n_checks, n_fail);
    return n_fail ? 1 : 0;
}
