#!/usr/bin/env python3
"""Native oracle / replay driver for unit OVL: overload resolution of the REAL interpreter on small programs
(expected output from docs/bloch_class_system.md: the most specific applicable overload runs; exact match
beats widening; a tie is an error).   ovl_oracle.py <bloch> sweep"""
import sys, os, subprocess, tempfile, re, json
PRE = '''class A { public constructor() -> A = default; }
class Sub extends A { public constructor() -> Sub = default; }
class K {
  public constructor() -> K = default;
  public function f(int v) -> void { echo("int"); }
  public function f(long v) -> void { echo("long"); }
  public function g(A v) -> void { echo("A"); }
  public function g(Sub v) -> void { echo("Sub"); }
  public function h(long v) -> void { echo("long"); }
}
'''
CASES = [
    ('valueConversionCost.primitive_exact_0_int_to_long_1', 'K k = new K(); k.f(1);', 'int'),
    ('valueConversionCost.primitive_exact_0_int_to_long_1', 'K k = new K(); k.f(1L);', 'long'),
    ('valueConversionCost.primitive_exact_0_int_to_long_1', 'K k = new K(); k.h(1);', 'long'),
    ('valueConversionCost.class_cost_is_inheritance_distance', 'K k = new K(); Sub s = new Sub(); k.g(s);', 'Sub'),
    ('valueConversionCost.class_cost_is_inheritance_distance', 'K k = new K(); A a = new A(); k.g(a);', 'A'),
    # static vs dynamic type of the argument: the analyser resolves g(A); the run-time cost function reads the value's class stamp (not under contract here)
    ('site.binding.reference_is_stamped_with_its_declared_class', 'K k = new K(); A a = new Sub(); k.g(a);', 'A'),
]
def run(bloch, src):
    d = tempfile.mkdtemp(prefix='ovl_'); p = os.path.join(d, 'p.bloch'); open(p, 'w').write(src)
    try:
        r = subprocess.run([bloch, p], capture_output=True, text=True, timeout=20, env=dict(os.environ, BLOCH_NO_UPDATE_CHECK='1'))
        return r.returncode, re.sub(r'\x1b\[[0-9;]*m', '', r.stdout + r.stderr)
    finally:
        import shutil; shutil.rmtree(d, ignore_errors=True)
def main():
    bloch = sys.argv[1]; fails = 0
    for label, body, want in CASES:
        rc, out = run(bloch, PRE + 'function main() -> void { %s }\n' % body)
        got = out.strip().split('\n')[-1].strip() if out.strip() else ''
        if rc != 0 or got != want:
            fails += 1; print('FAIL label=%s program=%s detail=status %d, printed %r, expected %r' % (label, json.dumps(body), rc, got, want))
    print(json.dumps(dict(oracle_checks=len(CASES), oracle_failures=fails)))
    sys.exit(1 if fails else 0)
main()
