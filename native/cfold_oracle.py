#!/usr/bin/env python3
"""Native oracle / replay driver for unit CFOLD (C12/C13): constant integer expressions in final int initialisers and
array sizes.   cfold_oracle.py <bloch> sweep"""
import sys, os, subprocess, tempfile, re, json
def run(bloch, src):
    d = tempfile.mkdtemp(prefix='cfold_'); p = os.path.join(d, 'p.bloch'); open(p, 'w').write(src)
    try:
        r = subprocess.run([bloch, p], capture_output=True, text=True, timeout=20, env=dict(os.environ, BLOCH_NO_UPDATE_CHECK='1'), cwd=d)
        return r.returncode, re.sub(r'\x1b\[[0-9;]*m', '', r.stdout + r.stderr)
    finally:
        import shutil; shutil.rmtree(d, ignore_errors=True)
MIN = '(-2147483647 - 1)'
CASES = [  # (expression, expected printed value or 'SEM' for one Semantic diagnostic, label)
    ('7 % 3', '1', 'evaluateConstInt.quotient_and_remainder'), ('7 % 0', 'SEM', 'evaluateConstInt.zero_divisor_is_a_semantic_error'),
    ('(4 - 4) % 1', '0', 'evaluateConstInt.quotient_and_remainder'), ('9 % (3 - 3)', 'SEM', 'evaluateConstInt.zero_divisor_is_a_semantic_error'),
    ('7 % -1', '0', 'evaluateConstInt.modulo_by_minus_one_is_zero'), (MIN + ' % -1', '0', 'evaluateConstInt.modulo_by_minus_one_is_zero'),
    (MIN + ' % (0 - 1)', '0', 'evaluateConstInt.modulo_by_minus_one_is_zero'), ('2 + 3 * 4', '14', 'evaluateConstInt.sum_difference_product'), ('10 - 2 - 3', '5', 'evaluateConstInt.sum_difference_product'),
]
def main():
    bloch = sys.argv[1]; fails = 0; n = 0
    for expr, want, lab in CASES:
        src = 'function main() -> void { final int n = %s; echo(n); }\n' % expr
        rc, out = run(bloch, src); n += 1
        got = [l.strip() for l in out.strip().split('\n') if l.strip()]
        ok = (rc == 1 and len(re.findall(r'Semantic error', out)) == 1) if want == 'SEM' else (rc == 0 and got == [want])
        if not ok:
            fails += 1; print('FAIL label=%s program=%s detail=exit %s (a negative or > 1 exit status is a crash), printed %s, expected %s' % (lab, json.dumps(src), rc, got[:3], want))
    for size, want, lab in (('(6 % 4)', '2', 'evaluateConstInt.quotient_and_remainder'), ('(4 % z)', 'SEM', 'evaluateConstInt.zero_divisor_is_a_semantic_error'), ('(' + MIN + ' % m + 2)', '2', 'evaluateConstInt.modulo_by_minus_one_is_zero')):
        src = 'function main() -> void { final int z = 0; final int m = 0 - 1; int[%s] a; a[0] = 5; echo(a[0]); }\n' % size
        rc, out = run(bloch, src); n += 1
        ok = (rc == 1 and 'Semantic error' in out) if want == 'SEM' else (rc == 0 and '5' in out)
        if not ok:
            fails += 1; print('FAIL label=%s program=%s detail=array size %s: exit %s, printed %r' % (lab, json.dumps(src), size, rc, out.strip()[-120:]))
    print(json.dumps(dict(oracle_checks=n, oracle_failures=fails)))
    sys.exit(1 if fails else 0)
main()
