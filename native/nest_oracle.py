#!/usr/bin/env python3
"""Native oracle / replay driver for unit NEST (C16): a final field may be assigned only as a top-level constructor
statement.   nest_oracle.py <bloch> sweep"""
import sys, os, subprocess, tempfile, re, json
def run(bloch, src):
    d = tempfile.mkdtemp(prefix='nest_'); p = os.path.join(d, 'p.bloch'); open(p, 'w').write(src)
    try:
        r = subprocess.run([bloch, p], capture_output=True, text=True, timeout=20, env=dict(os.environ, BLOCH_NO_UPDATE_CHECK='1'), cwd=d)
        return r.returncode, re.sub(r'\x1b\[[0-9;]*m', '', r.stdout + r.stderr)
    finally:
        import shutil; shutil.rmtree(d, ignore_errors=True)
P = 'class C { public final int x; public constructor(boolean f) -> C { %s return this; } }\nfunction main() -> void { C c = new C(true); echo(c.x); }\n'
NESTED = 'every_part_is_analysed_as_nested'
RESTORED = 'nesting_depth_restored_on_every_exit'
CASES = [   # (visitor, clause, constructor body, expected output or None = must be rejected by the analyser)
    ('IfStatement', NESTED, 'if (f) { this.x = 1; } else { this.x = 2; }', None),
    ('BlockStatement', NESTED, '{ this.x = 1; }', None),
    ('WhileStatement', NESTED, 'while (f) { this.x = 1; f = false; }', None),
    ('ForStatement', NESTED, 'for (int i = 0; i < 1; i = i + 1) { this.x = 1; }', None),
    ('ForStatement', NESTED, 'for (this.x = 0; false; 0) { }', None),
    ('ForStatement', NESTED, 'for (x = 0; false; 0) { }', None),
    ('ForStatement', NESTED, 'for (int i = 0; i < 3; this.x = i) { i = i + 1; }', None),
    ('TernaryStatement', NESTED, 'f ? this.x = 1; : this.x = 2;', None),
    ('IfStatement', NESTED, 'if (!f) { } else { this.x = 1; }', None),
    ('TernaryStatement', NESTED, 'f ? echo(1); : this.x = 2;', None),
    ('IfStatement', RESTORED, 'if (f) { } this.x = 5;', '5'),
    ('IfStatement', RESTORED, 'if (f) { int a = 1; } else { int b = 2; } this.x = 5;', '5'),
    ('ForStatement', RESTORED, 'for (int i = 0; i < 1; i = i + 1) { } this.x = 6;', '6'),
    ('WhileStatement', RESTORED, 'while (false) { } this.x = 7;', '7'),
    ('BlockStatement', RESTORED, '{ int q = 1; } this.x = 8;', '8'),
    ('TernaryStatement', RESTORED, 'f ? echo(1); : echo(2); this.x = 9;', '1\n9'),
    ('BlockStatement', RESTORED, 'this.x = 1;', '1'),
]
def main():
    bloch = sys.argv[1]; fails = 0
    for site, clause, body, want in CASES:
        src = P % body
        rc, out = run(bloch, src)
        got = '\n'.join(l.strip() for l in out.strip().split('\n') if l.strip())
        lab = 'visit_%s.%s' % (site, clause)
        if want is None:
            if rc == 0 or 'Semantic error' not in out:
                fails += 1; print('FAIL label=%s program=%s detail=a final field assigned inside a compound statement of a constructor was accepted: exit %d, printed %r' % (lab, json.dumps(src), rc, got[-160:]))
        elif rc != 0 or got != want:
            fails += 1; print('FAIL label=%s program=%s detail=a top-level assignment of a final field (after a compound statement) was not accepted: exit %d, printed %r, expected %r' % (lab, json.dumps(src), rc, got[-160:], want))
    print(json.dumps(dict(oracle_checks=len(CASES), oracle_failures=fails)))
    sys.exit(1 if fails else 0)
main()
