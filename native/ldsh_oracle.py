#!/usr/bin/env python3
"""Native oracle / replay driver for unit LDSH (C13/C17): @shots values of every length and the main-function count
through the REAL front end (CLI).   ldsh_oracle.py <bloch> sweep"""
import sys, os, subprocess, tempfile, re, json
def run(bloch, src, args=()):
    d = tempfile.mkdtemp(prefix='ldsh_'); p = os.path.join(d, 'p.bloch'); open(p, 'w').write(src)
    try:
        r = subprocess.run([bloch] + list(args) + [p], capture_output=True, text=True, timeout=60, env=dict(os.environ, BLOCH_NO_UPDATE_CHECK='1'), cwd=d)
        return r.returncode, re.sub(r'\x1b\[[0-9;]*m', '', r.stdout + r.stderr)
    finally:
        import shutil; shutil.rmtree(d, ignore_errors=True)
CAT = r'(Lexical|Parse|Semantic|Runtime) error'
def main():
    bloch = sys.argv[1]; fails = 0; n = 0
    def fail(label, what):
        nonlocal fails
        fails += 1; print('FAIL label=%s detail=%s' % (label, what))
    for digits in ('1', '3', '12', '2147483648', '99999999999', '9' * 25, '00000000003'):
        src = '@shots(%s)\nfunction main() -> void { }\n' % digits
        rc, out = run(bloch, src); n += 1
        crashed = rc < 0 or rc >= 128
        if crashed or (rc != 0 and not re.search(CAT, out)) or re.search(r'\bstoi\b|out_of_range|terminate called', out):
            fail('loader.main_and_shots.only_semantic_errors', '@shots(%s): exit %d without a categorised diagnostic: %r' % (digits, rc, out.strip()[-100:]))
        elif rc == 0 and int(digits) <= 12:
            m = re.search(r'^Shots: (\d+)', out, re.M)
            if not m or int(m.group(1)) != int(digits):
                fail('loader.shots.annotation_value_is_carried', '@shots(%s): reported %r' % (digits, m and m.group(0)))
    for src, ok, label in (('function main() -> void { }\nfunction main() -> void { }\n', False, 'loader.main.two_mains_are_rejected'),
                           ('function f() -> void { }\n', False, 'loader.main.two_mains_are_rejected'),
                           ('function main() -> void { echo(1); }\n', True, 'loader.main.single_main_without_annotation_is_accepted')):
        rc, out = run(bloch, src); n += 1
        if ok and rc != 0: fail(label, 'rejected: %r' % out.strip()[-100:])
        if not ok and (rc == 0 or not re.search(CAT, out)): fail(label, 'exit %d: %r' % (rc, out.strip()[-100:]))
    print(json.dumps(dict(oracle_checks=n, oracle_failures=fails)))
    sys.exit(1 if fails else 0)
main()
