// Native oracle / replay driver for unit SIM (DESIGN.md §2.6): the postconditions of the sidecar
// contracts, re-stated independently in plain C++ from the property text (qelib1 matrices,
// Born rule, normalised projection, local reset) and evaluated on the REAL QasmSimulator in
// double arithmetic with a tolerance.  Used (a) to replay CBMC counterexamples on the real code
// and (b) as a supporting sweep.  It never decides a property by itself.
//
//   sim_oracle sweep <seed> <nmax> <reps>
//   sim_oracle case  <op> <n> <q> <t> <theta> <logops> <measured_mask> <seed>
// prints one line per failed postcondition:  FAIL label=<obligation label> <inputs> detail=<...>
#include <random>
#include <cstdio>
#include <cstring>
#include <array>
#include <complex>
#include <string>
#include <vector>
#include <sstream>
#include <stdexcept>
#include <cmath>
#include <functional>
#include <cstdarg>
#include "bloch/support/error/bloch_error.hpp"
#define private public
#include "bloch/runtime/qasm_simulator.hpp"
#undef private
#include REAL_CPP

using C = std::complex<double>;
using V = std::vector<C>;
using Sim = bloch::runtime::QasmSimulator;
static const double TOL = 1e-11;
static long n_checks = 0, n_fail = 0;
static std::string ctx;

static void fail(const std::string& label, const std::string& detail) {
    n_fail++;
    if (n_fail <= 40) printf("FAIL label=%s %s detail=%s\n", label.c_str(), ctx.c_str(), detail.c_str());
}
static double norm2(const V& v) { double s = 0; for (auto& c : v) s += std::norm(c); return s; }
static bool finite(const V& v) { for (auto& c : v) if (!std::isfinite(c.real()) || !std::isfinite(c.imag())) return false; return true; }
static double dist(const V& a, const V& b) { double m = 0; for (size_t i = 0; i < a.size(); i++) m = std::max(m, std::abs(a[i] - b[i])); return m; }
// distance up to a global phase
static double dist_phase(const V& got, const V& want) {
    size_t k = 0; for (size_t i = 0; i < want.size(); i++) if (std::abs(want[i]) > std::abs(want[k])) k = i;
    if (std::abs(want[k]) < 1e-14) return dist(got, want);
    C ph = got[k] / want[k];
    if (std::abs(std::abs(ph) - 1.0) > 1e-9) return 1.0;
    V w(want); for (auto& c : w) c *= ph;
    return dist(got, w);
}
static std::array<C, 4> ideal(int op, double t) {
    const C I(0, 1); double c = std::cos(t / 2), s = std::sin(t / 2), r = 1 / std::sqrt(2.0);
    switch (op) {
        case 0: return {r, r, r, -r};
        case 1: return {0, 1, 1, 0};
        case 2: return {0, -I, I, 0};
        case 3: return {1, 0, 0, -1};
        case 4: return {c, -I * s, -I * s, c};
        case 5: return {c, -s, s, c};
        default: return {std::exp(-I * (t / 2)), 0, 0, std::exp(I * (t / 2))};
    }
}
static V apply1(const V& v, int q, const std::array<C, 4>& m) {
    V o(v); size_t bit = size_t{1} << q;
    for (size_t i = 0; i < v.size(); i++) if (!(i & bit)) { o[i] = m[0] * v[i] + m[1] * v[i | bit]; o[i | bit] = m[2] * v[i] + m[3] * v[i | bit]; }
    return o;
}
static const char* NAMES[] = {"h", "x", "y", "z", "rx", "ry", "rz", "cx", "reset", "measure", "allocateQubit", "getQasm"};

static V make_state(int n, int family, unsigned seed) {
    size_t N = size_t{1} << n; V v(N, 0.0);
    std::mt19937 g(seed * 7919u + family);
    std::uniform_real_distribution<double> U(-1, 1);
    if (family < 0) { v[(size_t)(-family - 1) % N] = 1; return v; }          // basis state
    switch (family % 5) {
        case 0: for (auto& c : v) c = 1.0 / std::sqrt((double)N); break;     // uniform
        case 1: v[0] = v[N - 1] = 1 / std::sqrt(2.0); if (N == 1) v[0] = 1; break;   // GHZ / Bell
        case 2: { double s = 0; for (auto& c : v) { c = {U(g), U(g)}; s += std::norm(c); } for (auto& c : v) c /= std::sqrt(s); break; }
        case 3: { double s = 0; for (size_t i = 0; i < N; i++) if (g() % 2) { v[i] = {U(g), U(g)}; s += std::norm(v[i]); } if (s == 0) { v[0] = 1; s = 1; } for (auto& c : v) c /= std::sqrt(s); break; }  // sparse
        default: { v[g() % N] = C(0.6, 0); size_t j = g() % N; if (std::abs(v[j]) > 0) v[j] = 1; else v[j] = C(0, 0.8); break; }  // two-term
    }
    return v;
}

static Sim fresh(int n, const V& st, bool logops, unsigned mask) {
    Sim s(logops);
    for (int i = 0; i < n; i++) s.allocateQubit();
    s.m_ops.clear();
    s.m_state = st;
    for (int i = 0; i < n; i++) s.m_measured[i] = (mask >> i) & 1;
    return s;
}
static double predict_draw() { auto copy = bloch::runtime::rng; std::uniform_real_distribution<double> d(0.0, 1.0); return d(copy); }

static std::string fmt(const char* f, ...) { char b[512]; va_list ap; va_start(ap, f); vsnprintf(b, sizeof b, f, ap); va_end(ap); return b; }

// one case; returns nothing, reports through fail()
static void run_case(int op, int n, int q, int t, double th, bool logops, unsigned mask, int family, unsigned seed) {
    V st = make_state(n, family, seed);
    Sim s = fresh(n, st, logops, mask);
    std::string g = NAMES[op];
    ctx = fmt("op=%s n=%d q=%d t=%d theta=%.17g logops=%d measured_mask=%u state_family=%d seed=%u", NAMES[op], n, q, t, th, (int)logops, mask, family, seed);
    auto qok = [&](int k) { return k >= 0 && k < n; };
    auto meas = [&](int k) { return qok(k) && ((mask >> k) & 1); };
    bool threw = false; int cat = -1; int ret = -1;
    bloch::runtime::rng.seed(seed * 2654435761u + 17);
    double r = predict_draw();
    size_t ops0 = s.m_ops.size();
    try {
        switch (op) {
            case 0: s.h(q); break; case 1: s.x(q); break; case 2: s.y(q); break; case 3: s.z(q); break;
            case 4: s.rx(q, th); break; case 5: s.ry(q, th); break; case 6: s.rz(q, th); break;
            case 7: s.cx(q, t); break; case 8: s.reset(q); break; case 9: ret = s.measure(q); break;
            case 10: ret = s.allocateQubit(); break;
        }
    } catch (const bloch::support::BlochError& e) { threw = true; cat = (int)e.category; }
    catch (const std::exception&) { threw = true; cat = 98; }
    n_checks++;
    if (op <= 6) {
        bool refuse = !qok(q) || meas(q);
        if (threw != refuse || (threw && cat != 3)) { fail(g + ".refused_iff_out_of_range_or_measured", fmt("threw=%d cat=%d expected_refusal=%d", threw, cat, refuse)); return; }
        if (refuse) { if (dist(s.m_state, st) != 0 || s.m_ops.size() != ops0) fail(g + ".refused_leaves_state_and_log", "state or log changed by a refused gate"); return; }
        V want = apply1(st, q, ideal(op, th));
        double d = dist_phase(s.m_state, want);
        if (!(d < TOL)) fail(g + ".acts_as_unitary_on_q.row0", fmt("max amplitude deviation %.3g from the qelib1 unitary on qubit %d (x) identity", d, q));
        if (!finite(s.m_state) || std::abs(norm2(s.m_state) - norm2(st)) > 1e-9) fail(g + ".unit_norm", fmt("norm^2 %.17g -> %.17g", norm2(st), norm2(s.m_state)));
        std::string want_line = op <= 3 ? g + " q[" + std::to_string(q) + "];\n" : g + "(" + std::to_string(th) + ") q[" + std::to_string(q) + "];\n";
        if (logops ? (s.m_ops.size() != ops0 + 1 || s.m_ops.back() != want_line) : s.m_ops.size() != ops0)
            fail(g + ".logs_exactly_own_line", "log is '" + (s.m_ops.empty() ? std::string("") : s.m_ops.back()) + "'");
    } else if (op == 7) {
        bool refuse = !qok(q) || !qok(t) || meas(q) || meas(t) || q == t;
        if (threw != refuse || (threw && cat != 3)) { fail("cx.refused_iff_out_of_range_or_measured_or_same_qubit", fmt("threw=%d cat=%d expected_refusal=%d%s", threw, cat, refuse, (!threw && q == t && logops && !s.m_ops.empty()) ? (" emitted: " + s.m_ops.back()).c_str() : "")); return; }
        if (refuse) { if (dist(s.m_state, st) != 0 || s.m_ops.size() != ops0) fail("cx.refused_leaves_state_and_log", "state or log changed by a refused cx"); return; }
        V want(st); size_t cb = size_t{1} << q, tb = size_t{1} << t;
        for (size_t i = 0; i < st.size(); i++) if (i & cb) want[i] = st[i ^ tb];
        if (dist(s.m_state, want) != 0) fail("cx.swaps_target_pairs_where_control_is_1", fmt("state is not the cx permutation (max dev %.3g)", dist(s.m_state, want)));
        std::string want_line = "cx q[" + std::to_string(q) + "],q[" + std::to_string(t) + "];\n";
        if (logops ? (s.m_ops.size() != ops0 + 1 || s.m_ops.back() != want_line) : s.m_ops.size() != ops0) fail("cx.logs_exactly_own_line", "wrong log");
    } else if (op == 8 || op == 9) {
        bool refuse = op == 9 ? (!qok(q) || meas(q)) : !qok(q);
        std::string lbl = op == 9 ? "measure" : "reset";
        if (threw != refuse || (threw && cat != 3)) { fail(lbl + (op == 9 ? ".refused_iff_out_of_range_or_measured" : ".refused_iff_out_of_range"), fmt("threw=%d cat=%d", threw, cat)); return; }
        if (refuse) { if (dist(s.m_state, st) != 0 || s.m_ops.size() != ops0) fail(lbl + ".refused_leaves_state_and_log", "state or log changed"); return; }
        size_t bit = size_t{1} << q; double p1 = 0;
        for (size_t i = 0; i < st.size(); i++) if (i & bit) p1 += std::norm(st[i]);
        if (std::abs(r - p1) < 1e-9) return;   // draw too close to the boundary to call
        int b = r < p1 ? 1 : 0; double p = b ? p1 : 1 - p1;
        V want(st.size(), 0.0);
        if (op == 9) {
            if (ret != b) { fail("measure.outcome_follows_born_draw", fmt("draw r=%.17g, p1=%.17g, returned %d", r, p1, ret)); return; }
            for (size_t i = 0; i < st.size(); i++) if ((((i & bit) ? 1 : 0)) == b) want[i] = st[i] / std::sqrt(p);
            if (!(dist(s.m_state, want) < TOL)) fail("measure.collapse_is_normalised_projection", fmt("max dev %.3g", dist(s.m_state, want)));
            if (!s.m_measured[q]) fail("measure.marks_measured", "flag not set");
            std::string wl = "measure q[" + std::to_string(q) + "] -> c[" + std::to_string(q) + "];\n";
            if (logops ? (s.m_ops.size() != ops0 + 1 || s.m_ops.back() != wl) : s.m_ops.size() != ops0) fail("measure.logs_exactly_own_line", "wrong log");
        } else {
            // property C04: sample the qubit (Born), collapse, move |1> to |0>  (Kraus {P0, X P1})
            for (size_t i = 0; i < st.size(); i++) if (!(i & bit)) want[i] = (b ? st[i | bit] : st[i]) / std::sqrt(p);
            double d = dist_phase(s.m_state, want);
            if (!(d < TOL)) fail("reset.branch_follows_born", fmt("draw r=%.17g p1=%.17g: expected branch %d moved into |0>; max deviation %.3g (post-selection instead of sampling changes the partners' statistics)", r, p1, b, d));
            for (size_t i = 0; i < st.size(); i++) if ((i & bit) && std::abs(s.m_state[i]) > TOL) { fail("reset.target_left_in_zero", "amplitude left in the |1> subspace"); break; }
            if (s.m_measured[q]) fail("reset.clears_measured_flag", "flag still set");
            std::string wl = "reset q[" + std::to_string(q) + "];\n";
            if (logops ? (s.m_ops.size() != ops0 + 1 || s.m_ops.back() != wl) : s.m_ops.size() != ops0) fail("reset.logs_exactly_own_line", "wrong log");
        }
        if (!finite(s.m_state) || std::abs(norm2(s.m_state) - 1.0) > 1e-9) fail(lbl + ".unit_norm", fmt("norm^2 after = %.17g", norm2(s.m_state)));
    } else if (op == 10) {
        if (threw) { fail("allocateQubit.returns_next_index", "threw"); return; }
        if (ret != n || s.m_qubits != n + 1) fail("allocateQubit.returns_next_index", fmt("ret=%d", ret));
        if (s.m_state.size() != 2 * st.size()) { fail("allocateQubit.size_doubles", "size"); return; }
        for (size_t i = 0; i < st.size(); i++) { if (s.m_state[i] != st[i]) { fail("allocateQubit.existing_amplitudes_kept", "amplitude changed"); break; } }
        for (size_t i = st.size(); i < 2 * st.size(); i++) if (s.m_state[i] != C(0, 0)) { fail("allocateQubit.new_half_is_zero", "non-zero"); break; }
        if (s.m_measured.size() < (size_t)n + 1 || s.m_measured[n]) fail("allocateQubit.new_qubit_unmeasured", "flag");
        for (int i = 0; i < n; i++) if ((bool)s.m_measured[i] != (bool)((mask >> i) & 1)) fail("allocateQubit.other_flags_kept", "flag changed");
    }
}

int main(int argc, char** argv) {
    std::string mode = argc > 1 ? argv[1] : "sweep";
    if (mode == "case") {
        if (argc < 10) { fprintf(stderr, "usage: case op n q t theta logops mask seed\n"); return 2; }
        int op = -1; for (int i = 0; i < 11; i++) if (!strcmp(argv[2], NAMES[i])) op = i;
        if (op < 0) return 2;
        int n = atoi(argv[3]), q = atoi(argv[4]), t = atoi(argv[5]); double th = atof(argv[6]); bool lo = atoi(argv[7]); unsigned mask = (unsigned)atoi(argv[8]), seed = (unsigned)atoi(argv[9]);
        if (n < 1 || n > 12) { printf("{\"skipped\": \"n=%d outside the native replay range 1..12\"}\n", n); return 0; }
        for (int fam = -(int)std::min<size_t>(size_t{1} << n, 16); fam < 10; fam++)
            for (unsigned s = seed; s < seed + 6; s++) run_case(op, n, q, t, th, lo, mask, fam, s);
    } else {
        unsigned seed = argc > 2 ? (unsigned)atoi(argv[2]) : 1; int nmax = argc > 3 ? atoi(argv[3]) : 4; int reps = argc > 4 ? atoi(argv[4]) : 2;
        std::mt19937 g(seed); std::uniform_real_distribution<double> U(-7, 7);
        for (int n = 1; n <= nmax; n++)
            for (int op = 0; op <= 10; op++)
                for (int q = -1; q <= n; q++)
                    for (int t = (op == 7 ? -1 : 0); t <= (op == 7 ? n : 0); t++)
                        for (int fam = -(int)std::min<size_t>(size_t{1} << n, 8); fam < 5; fam++)
                            for (int rep = 0; rep < reps; rep++) {
                                unsigned mask = (rep % 2) ? (g() % (1u << n)) : 0u;
                                run_case(op, n, q, t, U(g), rep % 3 != 2, mask, fam, seed + 13 * rep + g() % 5);
                            }
    }
    printf("{\"oracle_checks\": %ld, \"oracle_failures\": %ld}\n", n_checks, n_fail);
    return n_fail ? 1 : 0;
}
