#!/usr/bin/env python3
"""Native oracle / replay driver for unit SIGS (C10): a program and its top-level permutation must be
accepted alike and print the same.   sigs_oracle.py <bloch> sweep"""
import sys, os, subprocess, tempfile, re, json, itertools
PROGRAMS = [
    ('analyse.predeclare.signatures_complete', ['function main() -> void { f(1); g(2, 3L); }', 'function f(int a) -> void { echo(a); }', 'function g(int a, long b) -> void { echo(a); echo(b); }']),
    ('analyse.predeclare.signatures_complete', ['function main() -> void { echo(hh(2)); }', 'function hh(int a) -> int { if (a > 0) { return kk(a - 1); } return 0; }', 'function kk(int a) -> int { return hh(a) + 1; }']),
]
def run(bloch, src):
    d = tempfile.mkdtemp(prefix='sigs_'); p = os.path.join(d, 'p.bloch'); open(p, 'w').write(src)
    try:
        r = subprocess.run([bloch, p], capture_output=True, text=True, timeout=20, env=dict(os.environ, BLOCH_NO_UPDATE_CHECK='1'))
        return r.returncode, re.sub(r'Ln \d+, Col \d+', 'Ln _, Col _', re.sub(r'\x1b\[[0-9;]*m', '', r.stdout + r.stderr)).strip()
    finally:
        import shutil; shutil.rmtree(d, ignore_errors=True)
def main():
    bloch = sys.argv[1]; fails = 0; checks = 0
    for label, decls in PROGRAMS:
        results = {}
        for perm in itertools.permutations(decls):
            checks += 1
            results[perm] = run(bloch, '\n'.join(perm))
        ref = results[tuple(sorted(decls, key=lambda s: 'main' in s))]      # main last: every callee declared before its use
        for perm, r in results.items():
            if r != ref:
                fails += 1
                print('FAIL label=%s program=%s detail=declaration order changes the outcome: this order gives status %d %r, with every function declared before its use: status %d %r'
                      % (label, json.dumps('\n'.join(perm)), r[0], r[1][-70:], ref[0], ref[1][-40:]))
                break
    print(json.dumps(dict(oracle_checks=checks, oracle_failures=fails)))
    sys.exit(1 if fails else 0)
main()
