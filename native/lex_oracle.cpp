// Native oracle / replay driver for unit LEX: properties C15/C13 re-stated independently and
// evaluated on the REAL lexer.  Reference position = definition of a 1-based (line, column):
// a '\n' starts a new line at column 1, any other byte advances the column by one.
//   lex_oracle sweep <seed> <count> <maxlen>      random + corpus
//   lex_oracle small <k>                          every string of length <= k over a small alphabet
//   lex_oracle case <hex source>
#include "lex_common.hpp"
static long n_checks = 0, n_fail = 0;
static void fail(const char* label, const std::string& src, const std::string& detail) {
    n_fail++; if (n_fail <= 25) printf("FAIL label=%s source_hex=%s detail=%s\n", label, hex(src).c_str(), detail.c_str());
}
static bool is_space(unsigned char c) { return c == ' ' || (c >= 9 && c <= 13); }
static void check(const std::string& s) {
    n_checks++;
    RealRun r = run_real(s);
    char buf[256];
    if (r.threw) { if (r.raw || r.cat != 0) fail("tokenize.only_lexical_errors", s, r.raw ? "raw C++ exception" : "non-lexical category"); return; }
    size_t off = 0; int line = 1, col = 1;
    auto step = [&](size_t k) { for (size_t i = 0; i < k; i++) { if (s[off] == '\n') { line++; col = 1; } else col++; off++; } };
    auto skip_trivia = [&]() {
        for (;;) {
            if (off < s.size() && is_space((unsigned char)s[off])) step(1);
            else if (off + 1 < s.size() && s[off] == '/' && s[off + 1] == '/') { while (off < s.size() && s[off] != '\n') step(1); }
            else break;
        }
    };
    if (r.toks.empty() || r.toks.back().type != r.toks.back().type) { fail("tokenize.ends_with_eof_at_true_end", s, "no tokens"); return; }
    for (size_t i = 0; i + 1 < r.toks.size(); i++) {
        skip_trivia();
        const RealTok& t = r.toks[i];
        if (off + t.value.size() > s.size() || s.compare(off, t.value.size(), t.value) != 0 || t.value.empty()) {
            snprintf(buf, sizeof buf, "token %zu text '%s' is not the source text at offset %zu", i, hex(t.value).c_str(), off); fail("scanToken.token_text_is_consumed_bytes", s, buf); return; }
        if (t.line != line || t.column != col) {
            snprintf(buf, sizeof buf, "token %zu ('%s') reported at Ln %d, Col %d but its first character is at Ln %d, Col %d", i, hex(t.value).c_str(), t.line, t.column, line, col);
            fail("scanToken.token_located_at_first_char", s, buf); return; }
        step(t.value.size());
    }
    skip_trivia();
    if (off != s.size()) { fail("tokenize.consumes_whole_source", s, "bytes left after the last token"); return; }
    const RealTok& e = r.toks.back();
    if (!e.value.empty() || e.line != line || e.column != col) { snprintf(buf, sizeof buf, "Eof at Ln %d, Col %d, true end Ln %d, Col %d", e.line, e.column, line, col); fail("tokenize.ends_with_eof_at_true_end", s, buf); }
}
int main(int argc, char** argv) {
    std::string mode = argc > 1 ? argv[1] : "sweep";
    if (mode == "case" && argc > 2) check(unhex(argv[2]));
    else if (mode == "small") {
        int k = argc > 2 ? atoi(argv[2]) : 4; const char A[] = "\"\n a'/1.f"; int na = sizeof(A) - 1;
        std::vector<std::string> cur{""};
        for (int len = 0; len <= k; len++) { for (auto& s : cur) check(s); std::vector<std::string> nx; if (len < k) for (auto& s : cur) for (int a = 0; a < na; a++) nx.push_back(s + A[a]); cur.swap(nx); }
    } else {
        unsigned seed = argc > 2 ? atoi(argv[2]) : 1; int count = argc > 3 ? atoi(argv[3]) : 3000; int maxlen = argc > 4 ? atoi(argv[4]) : 24;
        std::mt19937 g(seed); for (auto& s : corpus()) check(s); for (int i = 0; i < count; i++) check(rand_src(g, maxlen));
    }
    printf("{\"oracle_checks\": %ld, \"oracle_failures\": %ld}\n", n_checks, n_fail);
    return n_fail ? 1 : 0;
}
