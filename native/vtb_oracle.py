#!/usr/bin/env python3
"""Native oracle / replay driver for unit VTB (C08/C12): virtual overloads of one name.   vtb_oracle.py <bloch> sweep"""
import sys, os, subprocess, tempfile, re, json, itertools
def run(bloch, src):
    d = tempfile.mkdtemp(prefix='vtb_'); p = os.path.join(d, 'p.bloch'); open(p, 'w').write(src)
    try:
        r = subprocess.run([bloch, p], capture_output=True, text=True, timeout=20, env=dict(os.environ, BLOCH_NO_UPDATE_CHECK='1'), cwd=d)
        return r.returncode, re.sub(r'\x1b\[[0-9;]*m', '', r.stdout + r.stderr)
    finally:
        import shutil; shutil.rmtree(d, ignore_errors=True)
TYPES = [('int', '1'), ('float', '1.5f'), ('string', '"s"'), ('boolean', 'true')]
def main():
    bloch = sys.argv[1]; fails = 0; n = 0
    for k in (1, 2, 3, 4):
        for over in itertools.product([False, True], repeat=k):
            if k == 4 and sum(over) not in (0, 2, 4):
                continue
            a = 'class A { public constructor() -> A = default;\n' + ''.join('  public virtual function f(%s a) -> string { return "A.f(%s)"; }\n' % (t, t) for t, _ in TYPES[:k]) + '}\n'
            b = 'class B extends A { public constructor() -> B { super(); return this; }\n' + ''.join('  public override function f(%s a) -> string { return "B.f(%s)"; }\n' % (t, t) for (t, _), o in zip(TYPES[:k], over) if o) + '}\n'
            main_ = 'function main() -> void { A x = new B(); ' + ' '.join('echo(x.f(%s));' % v for _, v in TYPES[:k]) + ' A y = new A(); ' + ' '.join('echo(y.f(%s));' % v for _, v in TYPES[:k]) + ' }\n'
            want = [('B' if o else 'A') + '.f(%s)' % t for (t, _), o in zip(TYPES[:k], over)] + ['A.f(%s)' % t for t, _ in TYPES[:k]]
            src = a + b + main_
            rc, out = run(bloch, src); n += 1
            got = [l.strip() for l in out.strip().split('\n') if l.strip()]
            if rc != 0 or got != want:
                lab = 'buildClassTable.vtable_entries_point_to_live_methods' if rc < 0 or rc > 1 else 'buildClassTable.vtable_entry_is_the_classes_own_method'
                fails += 1; print('FAIL label=%s program=%s detail=%d virtual overloads of f, overridden %s: exit %s, printed %s, expected %s' % (lab, json.dumps(src), k, list(over), rc, got[:8], want))
    # an override whose virtual original is declared further up than the direct base, reached through this.f() in the top class
    for mid in (False,):
        src = ('class A { public constructor() -> A = default; public virtual function f() -> int { return 1; } public function viaThis() -> int { return this.f(); } }\n'
               'class B extends A { public constructor() -> B { super(); return this; }%s }\n' % (' public override function f() -> int { return 2; }' if mid else '') +
               'class C extends B { public constructor() -> C { super(); return this; } public override function f() -> int { return 3; } }\n'
               'function main() -> void { A x = new C(); echo(x.f()); echo(x.viaThis()); A y = new B(); echo(y.viaThis()); }\n')
        want = ['3', '3', '2' if mid else '1']
        rc, out = run(bloch, src); n += 1
        got = [l.strip() for l in out.strip().split('\n') if l.strip()]
        if rc != 0 or got != want:
            fails += 1; print('FAIL label=buildClassTable.every_virtual_or_override_method_gets_its_entry program=%s detail=three-level hierarchy, middle class %s f: exit %s, printed %s, expected %s' % (json.dumps(src), 'overrides' if mid else 'does not declare', rc, got, want))
    print(json.dumps(dict(oracle_checks=n, oracle_failures=fails)))
    sys.exit(1 if fails else 0)
main()
