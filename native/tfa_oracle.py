#!/usr/bin/env python3
"""Native oracle / replay driver for unit TFA (C10, class half): a program whose classes mention each other in member types,
generic arguments and bounds must be accepted, and print the same, in every order of its class declarations that keeps
each base class before its derived classes (the derived-before-base layout defect of buildClassTable is a separate, known issue).
   tfa_oracle.py <bloch> sweep"""
import sys, os, subprocess, tempfile, re, json, itertools
def run(bloch, src):
    d = tempfile.mkdtemp(prefix='tfa_'); p = os.path.join(d, 'p.bloch'); open(p, 'w').write(src)
    try:
        r = subprocess.run([bloch, p], capture_output=True, text=True, timeout=30, env=dict(os.environ, BLOCH_NO_UPDATE_CHECK='1'), cwd=d)
        return r.returncode, re.sub(r'\x1b\[[0-9;]*m', '', r.stdout + r.stderr)
    finally:
        import shutil; shutil.rmtree(d, ignore_errors=True)
CLS = {
 'Base': 'class Base { public int k; public constructor() -> Base { this.k = 1; return this; } public virtual function id() -> int { return 1; } }\n',
 'Box': 'class Box<T extends Base> { public T v; public constructor(T v) -> Box<T> { this.v = v; return this; } public function get() -> T { return this.v; } }\n',
 'Child': 'class Child extends Base { public int n; public constructor() -> Child { super(); this.n = 7; return this; } public override function id() -> int { return 42; } }\n',
 'Holder': 'class Holder { public Box<Child> b; public constructor() -> Holder { this.b = new Box<Child>(new Child()); return this; } public function show() -> void { Child c = this.b.get(); echo(c.id()); echo(c.n); } }\n',
 'User': 'class User { public Holder h; public constructor() -> User { this.h = new Holder(); return this; } public function run() -> void { this.h.show(); } }\n',
}
MAIN = 'function main() -> void { User u = new User(); u.run(); }\n'
def main():
    bloch = sys.argv[1]; fails = 0; n = 0; ref = None
    for order in itertools.permutations(['Base', 'Box', 'Child', 'Holder', 'User']):
        if order.index('Base') > order.index('Child'):
            continue                     # derived before base: known separate defect
        src = ''.join(CLS[c] for c in order) + MAIN
        rc, out = run(bloch, src); n += 1
        got = (rc, [l.strip() for l in out.strip().split('\n') if l.strip()])
        if ref is None:
            ref = got
            if rc != 0:
                fails += 1; print('FAIL label=typeFromAst.registry_build_never_consults_the_class_table program=%s detail=reference order rejected: %r' % (json.dumps(src), out.strip()[-120:]))
        elif got != ref:
            fails += 1
            print('FAIL label=typeFromAst.registry_build_never_consults_the_class_table program=%s detail=class order %s: exit %d output %s; order Base,Box,Child,Holder,User: exit %d output %s' % (json.dumps(src), ','.join(order), rc, got[1][-2:], ref[0], ref[1][-2:]))
    print(json.dumps(dict(oracle_checks=n, oracle_failures=fails)))
    sys.exit(1 if fails else 0)
main()
