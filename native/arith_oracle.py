#!/usr/bin/env python3
"""Native oracle / replay driver for unit ARITH: runs the REAL interpreter (bloch binary built from
/repo's working tree) on small generated programs and checks them against a reference written from
docs/language (promotion int -> long -> float, '/' always float, integer '%', errors located).
   arith_oracle.py <bloch> sweep <seed> <count>       arith_oracle.py <bloch> case <label>
prints  FAIL label=<obligation label> program=<source> detail=<...>"""
import sys, os, subprocess, random, tempfile, re, json

def run(bloch, src):
    d = tempfile.mkdtemp(prefix='arith_')
    p = os.path.join(d, 'p.bloch')
    open(p, 'w').write(src)
    try:
        r = subprocess.run([bloch, p], capture_output=True, text=True, timeout=20, env=dict(os.environ, BLOCH_NO_UPDATE_CHECK='1'))
        return r.returncode, re.sub(r'\x1b\[[0-9;]*m', '', r.stdout + r.stderr)
    except subprocess.TimeoutExpired:
        return -99, 'TIMEOUT'
    finally:
        import shutil; shutil.rmtree(d, ignore_errors=True)

fails = 0; checks = 0
def fail(label, src, detail):
    global fails
    fails += 1
    if fails <= 20: print('FAIL label=%s program=%s detail=%s' % (label, json.dumps(src), detail))

def crashed(rc): return rc < 0 or rc >= 128
def lit(t, v):
    if t == 'long': return ('%dL' % v) if v >= 0 else ('(0L - %dL)' % -v) if v > -2**63 else '(0L - 9223372036854775807L - 1L)'
    if t == 'int': return str(v) if v >= 0 else '(0 - %d)' % -v if v > -2**31 else '(0 - 2147483647 - 1)'
    return repr(float(v)) + 'f'

def check_binary(bloch, t1, a, t2, b, op):
    global checks
    checks += 1
    src = 'function main() -> void { %s a = %s; %s b = %s; echo(a %s b); }' % (t1, lit(t1, a), t2, lit(t2, b), op)
    rc, out = run(bloch, src)
    lab = {'+': 'add', '-': 'sub', '*': 'mul'}.get(op)
    if crashed(rc):
        fail('eval.binary.mod.by_minus_one_is_zero' if op == '%' and b == -1 else 'eval.binary.only_runtime_errors', src, 'interpreter died with status %d (signal)' % rc); return
    if re.search(r'\bsto[ifl]+\b|out_of_range|invalid_argument|terminate called', out):
        fail('eval.binary.only_runtime_errors', src, 'raw C++ exception text: ' + out.strip()[-80:]); return
    isf = 'float' in (t1, t2)
    if op in '/%' and (b == 0):
        if rc == 0 or 'Runtime error' not in out: fail('eval.binary.div.by_zero_is_located_error' if op == '/' else 'eval.binary.mod.by_zero_is_located_error', src, 'no runtime error: ' + out.strip()[-60:])
        return
    if rc != 0:
        return
    got = out.strip().split('\n')[-1].strip()
    try:
        if op == '/': want = float(a) / float(b); ok = abs(float(got) - want) <= 1e-5 * max(1, abs(want))
        elif isf: want = eval('float(a) %s float(b)' % op); ok = abs(float(got) - want) <= 1e-4 * max(1, abs(want))
        elif op == '%': want = abs(a) % abs(b) * (1 if a >= 0 else -1); ok = int(got) == want
        else:
            want = eval('a %s b' % op); bits = 64 if 'long' in (t1, t2) else 32
            if not -(2**(bits-1)) <= want < 2**(bits-1): return     # outside the range in which the docs fix a result
            ok = int(got) == want
    except Exception as e:
        ok = False; want = 'unparsable output'
    if not ok:
        fail('eval.binary.%s' % ({'+': 'add.int_otherwise', '-': 'sub.int_otherwise', '*': 'mul.int_otherwise', '/': 'div.always_float', '%': 'mod.truncated_remainder'}[op]), src, 'printed %s, expected %s' % (got, want))

CMP = {'>': 'gt', '<': 'lt', '>=': 'ge', '<=': 'le', '==': 'eq', '!=': 'ne'}
def check_compare(bloch, t1, a, t2, b, op):
    global checks
    checks += 1
    src = 'function main() -> void { %s a = %s; %s b = %s; echo(a %s b); }' % (t1, lit(t1, a), t2, lit(t2, b), op)
    rc, out = run(bloch, src)
    if crashed(rc): fail('eval.binary.only_runtime_errors', src, 'interpreter died with status %d' % rc); return
    if rc != 0: return
    got = out.strip().split('\n')[-1].strip()
    want = eval('(float(a) if isf else a) %s (float(b) if isf else b)' % op, dict(a=a, b=b, isf='float' in (t1, t2)))
    if got not in ('true', 'false') or (got == 'true') != want:
        fail('eval.binary.%s.compares_promoted_values' % CMP[op], src, 'printed %s, expected %s' % (got, 'true' if want else 'false'))

def check_logic(bloch, a, b, op):
    global checks
    checks += 1
    src = 'function main() -> void { boolean a = %s; boolean b = %s; echo(a %s b); }' % ('true' if a else 'false', 'true' if b else 'false', op)
    rc, out = run(bloch, src)
    if rc != 0: return
    got = out.strip().split('\n')[-1].strip(); want = (a and b) if op == '&&' else (a or b)
    if (got == 'true') != want: fail('eval.binary.and_or.on_boolean_or_bit', src, 'printed %s, expected %s' % (got, want))

def check_bits(bloch, a, b, op):
    global checks
    checks += 1
    src = 'function main() -> void { bit a = %db; bit b = %db; echo(a %s b); }' % (a, b, op)
    rc, out = run(bloch, src)
    if rc != 0: return
    got = out.strip().split('\n')[-1].strip(); want = {'&': a & b, '|': a | b, '^': a ^ b}[op]
    if got != str(want): fail('eval.binary.bitwise.scalar_bits', src, 'printed %s, expected %d' % (got, want))

def check_unary(bloch):
    global checks
    for src, want, lab in (('int a = 5; echo(-a);', '-5', 'eval.unary.neg.keeps_tag_and_negates'), ('long a = 7L; echo(-a);', '-7', 'eval.unary.neg.keeps_tag_and_negates'), ('float a = 1.5f; echo(-a);', '-1.5', 'eval.unary.neg.keeps_tag_and_negates'),
                           ('boolean a = true; echo(!a);', 'false', 'eval.unary.not.on_boolean_or_bit'), ('boolean a = false; echo(!a);', 'true', 'eval.unary.not.on_boolean_or_bit'),
                           ('bit a = 1b; echo(~a);', '0', 'eval.unary.tilde.flips_bit'), ('bit a = 0b; echo(~a);', '1', 'eval.unary.tilde.flips_bit')):
        checks += 1
        rc, out = run(bloch, 'function main() -> void { %s }' % src)
        got = out.strip().split('\n')[-1].strip() if rc == 0 else '<exit %d>' % rc
        if got != want: fail(lab, src, 'printed %s, expected %s' % (got, want))

def check_literal(bloch, t, text):
    global checks
    checks += 1
    src = 'function main() -> void { %s x = %s; echo(x); }' % (t, text)
    rc, out = run(bloch, src)
    if crashed(rc): fail('eval.literal.no_raw_exception', src, 'died with status %d' % rc); return
    if rc != 0 and not re.search(r'(Runtime|Semantic|Parse|Lexical) error', out):
        fail('eval.literal.no_raw_exception', src, 'status %d without a categorised diagnostic: %s' % (rc, out.strip()[-60:]))

def main():
    bloch, mode = sys.argv[1], sys.argv[2]
    seed = int(sys.argv[3]) if len(sys.argv) > 3 and sys.argv[3].isdigit() else 1
    count = int(sys.argv[4]) if len(sys.argv) > 4 and sys.argv[4].isdigit() else 60
    rnd = random.Random(seed)
    edge = {'int': [0, 1, -1, 7, -7, 2**31 - 1, -2**31], 'long': [0, 1, -1, 2**31, -2**63, 2**63 - 1], 'float': [0.0, 1.5, -2.25]}
    # the boundary cases first (division and remainder by 0 and -1, extreme values), then seeded random ones
    if mode == 'pair':
        # targeted replay of a counterexample: operand types and operator taken from the verifier's trace
        t1, t2, op = sys.argv[3], sys.argv[4], sys.argv[5]
        for a in edge[t1][:5] + [10, 3]:
            for b in edge[t2][:5] + [4, 7, 10]:
                if op in CMP: check_compare(bloch, t1, a, t2, b, op)
                elif not (op == '%' and 'float' in (t1, t2)): check_binary(bloch, t1, a, t2, b, op)
        print(json.dumps(dict(oracle_checks=checks, oracle_failures=fails))); sys.exit(1 if fails else 0)
    for t1, t2 in (('long', 'long'), ('int', 'int'), ('int', 'long'), ('long', 'int')):
        for a in (edge[t1][-1], edge[t1][-2], 5):
            for b in (-1, 0, 3):
                for op in '%/': check_binary(bloch, t1, a, t2, b, op)
    for t, text in (('int', '99999999999'), ('int', '2147483648'), ('float', '9' * 60 + '.0f'), ('long', '99999999999999999999L'), ('bit', '1b'), ('int', '2147483647')):
        check_literal(bloch, t, text)
    # comparisons: equal, adjacent and mixed-type operands for every operator
    for op in CMP:
        for (t1, a, t2, b) in (('int', 3, 'int', 3), ('int', 2, 'int', 3), ('int', 3, 'int', 2), ('long', 7, 'long', 7), ('int', 5, 'long', 5), ('long', 2**31, 'int', 1), ('float', 1.5, 'int', 1), ('int', 2, 'float', 2.0), ('float', 2.5, 'float', 2.5), ('int', -1, 'int', 0)):
            check_compare(bloch, t1, a, t2, b, op)
    for a in (0, 1):
        for b in (0, 1):
            for op in ('&&', '||'): check_logic(bloch, a, b, op)
            for op in '&|^': check_bits(bloch, a, b, op)
    check_unary(bloch)
    for _ in range(count):
        t1, t2 = rnd.choice(['int', 'long', 'float']), rnd.choice(['int', 'long', 'float'])
        a, b = rnd.choice(edge[t1] + [rnd.randint(-1000, 1000)]), rnd.choice(edge[t2] + [rnd.randint(-1000, 1000)])
        op = rnd.choice('+-*/%')
        if op == '%' and 'float' in (t1, t2): continue
        check_binary(bloch, t1, a, t2, b, op)
    print(json.dumps(dict(oracle_checks=checks, oracle_failures=fails)))
    sys.exit(1 if fails else 0)
main()
