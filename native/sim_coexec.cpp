// Transliteration validation for unit SIM (DESIGN.md §2.2): the lowered C text (compiled natively
// from the very file CBMC verifies) is co-executed with the real QasmSimulator on boundary and
// seeded random operation sequences; every amplitude is compared bit for bit, plus flags, thrown
// category, return values and the rendered log lines.  Any difference => exit 3.
#include <random>
#include <cstdio>
#include <cstring>
#include <array>
#include <complex>
#include <string>
#include <vector>
#include <sstream>
#include <stdexcept>
#include <cmath>
#include "bloch/support/error/bloch_error.hpp"
#define private public
#include "bloch/runtime/qasm_simulator.hpp"
#undef private
#include REAL_CPP   // the real translation unit (gives access to the file-static rng)
#define _Bool bool
extern "C" {
#include "sim.h"
extern const char *const bl_lit_tab[];
extern int bl_exc, bl_exc_line, bl_exc_col, bl_draw_count;
extern double bl_next_draw;
void QasmSimulator_ensureQubitActive(struct ::QasmSimulator *self, int q);
int QasmSimulator_allocateQubit(struct ::QasmSimulator *self);
void QasmSimulator_h(struct ::QasmSimulator *self, int q);
void QasmSimulator_x(struct ::QasmSimulator *self, int q);
void QasmSimulator_y(struct ::QasmSimulator *self, int q);
void QasmSimulator_z(struct ::QasmSimulator *self, int q);
void QasmSimulator_rx(struct ::QasmSimulator *self, int q, double t);
void QasmSimulator_ry(struct ::QasmSimulator *self, int q, double t);
void QasmSimulator_rz(struct ::QasmSimulator *self, int q, double t);
void QasmSimulator_cx(struct ::QasmSimulator *self, int control, int target);
void QasmSimulator_reset(struct ::QasmSimulator *self, int q);
int QasmSimulator_measure(struct ::QasmSimulator *self, int q);
bl_rope QasmSimulator_getQasm(struct ::QasmSimulator *self);
}

static std::string render(const bl_str& s) {
    std::string out;
    for (int i = 0; i < s.n; i++) {
        const bl_piece& p = s.p[i];
        if (p.kind == 0) out += bl_lit_tab[p.lit];
        else if (p.kind == 1) out += std::to_string((int)p.ival);
        else out += std::to_string(p.dval);
    }
    return out;
}
extern "C" size_t bl_str_size(bl_str s) { return render(s).size(); }

static long checks = 0, diffs = 0;
static void diff(const char* what, int n, int op, int q, int t) {
    diffs++;
    if (diffs < 10) printf("DIFF %s n=%d op=%d q=%d t=%d\n", what, n, op, q, t);
}

int main(int argc, char** argv) {
    unsigned seed = argc > 1 ? (unsigned)atoi(argv[1]) : 1u;
    int nmax = argc > 2 ? atoi(argv[2]) : 5;
    int trials = argc > 3 ? atoi(argv[3]) : 40;
    std::mt19937 g(seed);
    std::uniform_real_distribution<double> U(-1, 1);
    long ops_run = 0, throws = 0;
    for (int n = 1; n <= nmax; n++)
        for (int trial = 0; trial < trials; trial++) {
            bloch::runtime::QasmSimulator real(trial % 7 != 3);
            struct ::QasmSimulator low;
            memset(&low, 0, sizeof low);
            low.m_state = vec_cplx_make(1);
            low.m_state.data[0].re = 1;
            low.m_logOps = real.m_logOps;
            low.m_ops.cap = 256; low.m_ops.data = (bl_str*)calloc(256, sizeof(bl_str));
            int nq = 0;
            for (int k = 0; k < n; k++) {
                int a = real.allocateQubit();
                int b = QasmSimulator_allocateQubit(&low);
                nq++;
                if (a != b) diff("alloc index", n, -1, a, b);
            }
            if (trial % 2) {  // random (unnormalised is fine for bit-exact comparison; normalise anyway)
                double nrm = 0;
                std::vector<std::complex<double>> v(real.m_state.size());
                for (auto& c : v) { c = {U(g), U(g)}; nrm += std::norm(c); }
                for (size_t i = 0; i < v.size(); i++) {
                    v[i] /= std::sqrt(nrm);
                    real.m_state[i] = v[i];
                    low.m_state.data[i].re = v[i].real(); low.m_state.data[i].im = v[i].imag();
                }
            }
            for (int step = 0; step < 14; step++) {
                int op = g() % 12;
                int q = (int)(g() % (nq + 2)) - 1;       // -1 .. nq : includes both out-of-range sides
                int t = (int)(g() % (nq + 1));            // may equal q, may be nq (out of range)
                if (g() % 4) { q = g() % nq; t = g() % nq; }
                double th = U(g) * 7;
                if (op == 11 && nq >= 7) op = 0;
                bl_exc = 0;
                bool threw = false; int cat = -1;
                int rr = -7, rl = -7;
                {   // predict the next draw of the real simulator's rng
                    auto copy = bloch::runtime::rng;
                    std::uniform_real_distribution<double> d(0.0, 1.0);
                    bl_next_draw = d(copy);
                }
                try {
                    switch (op) {
                        case 0: real.h(q); break; case 1: real.x(q); break; case 2: real.y(q); break;
                        case 3: real.z(q); break; case 4: real.rx(q, th); break; case 5: real.ry(q, th); break;
                        case 6: real.rz(q, th); break; case 7: case 8: real.cx(q, t); break;
                        case 9: real.reset(q); break; case 10: rr = real.measure(q); break;
                        case 11: rr = real.allocateQubit(); break;
                    }
                } catch (const bloch::support::BlochError& e) { threw = true; cat = (int)e.category; }
                catch (const std::exception&) { threw = true; cat = 98; }
                switch (op) {
                    case 0: QasmSimulator_h(&low, q); break; case 1: QasmSimulator_x(&low, q); break;
                    case 2: QasmSimulator_y(&low, q); break; case 3: QasmSimulator_z(&low, q); break;
                    case 4: QasmSimulator_rx(&low, q, th); break; case 5: QasmSimulator_ry(&low, q, th); break;
                    case 6: QasmSimulator_rz(&low, q, th); break; case 7: case 8: QasmSimulator_cx(&low, q, t); break;
                    case 9: QasmSimulator_reset(&low, q); break; case 10: rl = QasmSimulator_measure(&low, q); break;
                    case 11: rl = QasmSimulator_allocateQubit(&low); nq++; break;
                }
                ops_run++;
                if (threw) throws++;
                checks++;
                if (threw != (bl_exc != 0)) diff("throw/no-throw", n, op, q, t);
                else if (threw && cat + 1 != bl_exc) diff("category", n, op, q, t);
                if (!threw && rr != rl) diff("return value", n, op, q, t);
                if ((int)real.m_qubits != low.m_qubits || real.m_state.size() != low.m_state.size) { diff("size", n, op, q, t); break; }
                for (size_t i = 0; i < real.m_state.size(); i++) {
                    checks++;
                    double re = real.m_state[i].real(), im = real.m_state[i].imag();
                    if (memcmp(&re, &low.m_state.data[i].re, 8) || memcmp(&im, &low.m_state.data[i].im, 8)) {
                        diff("amplitude", n, op, q, (int)i);
                        if (diffs < 5) printf("   %a %a vs %a %a\n", re, im, low.m_state.data[i].re, low.m_state.data[i].im);
                    }
                }
                if (real.m_measured.size() != low.m_measured.size) diff("measured.size", n, op, q, t);
                else for (size_t i = 0; i < real.m_measured.size(); i++) { checks++; if ((bool)real.m_measured[i] != (bool)low.m_measured.data[i]) diff("measured flag", n, op, q, (int)i); }
                if (real.m_ops.size() != low.m_ops.size) diff("log length", n, op, q, t);
                else if (!real.m_ops.empty() && low.m_ops.size <= low.m_ops.cap) {
                    checks++;
                    if (real.m_ops.back() != render(low.m_ops.data[low.m_ops.size - 1])) {
                        diff("log line", n, op, q, t);
                        if (diffs < 5) printf("   real=%s low=%s", real.m_ops.back().c_str(), render(low.m_ops.data[low.m_ops.size - 1]).c_str());
                    }
                }
            }
            // getQasm: same number of appended pieces, and the concatenation of the lowered log is the real text
            std::string text = real.getQasm();
            bl_rope r = QasmSimulator_getQasm(&low);
            checks++;
            if (r.n_appended != 3 + low.m_ops.size) diff("getQasm appends", n, -2, 0, 0);
            std::string mine = std::string("OPENQASM 2.0;\ninclude \"qelib1.inc\";\n") + "qreg q[" + std::to_string(low.m_qubits) + "];\ncreg c[" + std::to_string(low.m_qubits) + "];\n";
            for (size_t i = 0; i < low.m_ops.size && i < low.m_ops.cap; i++) mine += render(low.m_ops.data[i]);
            if (mine != text) diff("getQasm text", n, -2, 0, 0);
            free(low.m_ops.data);
        }
    printf("{\"checks\": %ld, \"diffs\": %ld, \"ops\": %ld, \"throws\": %ld, \"seed\": %u, \"nmax\": %d}\n", checks, diffs, ops_run, throws, seed, nmax);
    return diffs ? 3 : 0;
}
