#!/usr/bin/env python3
"""Native oracle / replay driver for unit ACC (C16): private / protected / public members of a base class reached from
different places and by different routes.   acc_oracle.py <bloch> sweep"""
import sys, os, subprocess, tempfile, re, json
def run(bloch, src):
    d = tempfile.mkdtemp(prefix='acc_'); p = os.path.join(d, 'p.bloch'); open(p, 'w').write(src)
    try:
        r = subprocess.run([bloch, p], capture_output=True, text=True, timeout=20, env=dict(os.environ, BLOCH_NO_UPDATE_CHECK='1'), cwd=d)
        return r.returncode, re.sub(r'\x1b\[[0-9;]*m', '', r.stdout + r.stderr)
    finally:
        import shutil; shutil.rmtree(d, ignore_errors=True)
BASE = ('class Base { %s int f; public constructor() -> Base { this.f = 1; return this; }\n'
        '  %s function m() -> int { return 42; }\n  public function inBaseThis() -> int { return this.m() + this.f; }\n  public function inBaseOther(Base o) -> int { return o.m() + o.f; } }\n')
DER = ('class Derived extends Base { public constructor() -> Derived { super(); return this; }\n'
       '  public function viaThisMethod() -> int { return this.m(); }\n  public function viaThisField() -> int { return this.f; }\n'
       '  public function viaTyped(Derived d) -> int { return d.m(); }\n  public function viaTypedField(Derived d) -> int { return d.f; }\n  public function setField() -> void { this.f = 5; } }\n')
OTHER = 'class Other { public constructor() -> Other = default; public function peekM(Base b) -> int { return b.m(); } public function peekF(Base b) -> int { return b.f; } }\n'
def main():
    bloch = sys.argv[1]; fails = 0; n = 0
    for vis in ('private', 'protected', 'public'):
        # (program tail, allowed?) per route
        routes = [
            ('function main() -> void { Base b = new Base(); echo(b.inBaseThis()); echo(b.inBaseOther(b)); }\n', True, True, 'in the declaring class'),
            ('function main() -> void { Derived d = new Derived(); echo(d.viaThisMethod()); }\n', vis != 'private', False, 'this.m() in a subclass'),
            ('function main() -> void { Derived d = new Derived(); echo(d.viaThisField()); }\n', vis != 'private', False, 'this.f in a subclass'),
            ('function main() -> void { Derived d = new Derived(); echo(d.viaTyped(d)); }\n', vis != 'private', False, 'd.m() on a subclass-typed receiver inside the subclass'),
            ('function main() -> void { Derived d = new Derived(); echo(d.viaTypedField(d)); }\n', vis != 'private', False, 'd.f on a subclass-typed receiver inside the subclass'),
            ('function main() -> void { Other o = new Other(); Base b = new Base(); echo(o.peekM(b)); }\n', vis == 'public', False, 'b.m() from an unrelated class'),
            ('function main() -> void { Other o = new Other(); Base b = new Base(); echo(o.peekF(b)); }\n', vis == 'public', False, 'b.f from an unrelated class'),
            ('function main() -> void { Base b = new Base(); echo(b.m()); }\n', vis == 'public', False, 'b.m() from a free function'),
        ]
        for tail, allowed, uses_all, what in routes:
            der = DER
            oth = OTHER
            # keep only the routes the visibility allows inside the helper classes, except for the route under test
            src = BASE % (vis, vis)
            if 'new Derived' in tail:
                m = re.search(r'd\.(\w+)\(', tail).group(1)
                der = re.sub(r'  public function (?!%s\b)\w+\([^)]*\) -> \w+ \{[^}]*\}\n?' % m, '', DER)
                src += der
            if 'new Other' in tail:
                m = re.search(r'o\.(\w+)\(', tail).group(1)
                oth = re.sub(r' public function (?!%s\b)\w+\([^)]*\) -> \w+ \{[^}]*\}' % m, '', OTHER)
                src += oth
            src += tail
            rc, out = run(bloch, src); n += 1
            rejected = rc == 1 and 'not accessible' in out
            ok = (rc == 0) if allowed else rejected
            if not ok:
                fails += 1
                print('FAIL label=access.member_checked_against_its_declaring_class program=%s detail=%s member, %s: %s expected, exit %s, printed %r' % (json.dumps(src), vis, what, 'accepted' if allowed else 'rejected as inaccessible', rc, out.strip()[-140:]))
    print(json.dumps(dict(oracle_checks=n, oracle_failures=fails)))
    sys.exit(1 if fails else 0)
main()
