#!/usr/bin/env python3
"""Native oracle / replay driver for unit CYC (C13/C16): inheritance cycles must be answered by ONE Semantic
diagnostic - never a hang - whatever the cycle length, wherever it is entered from and in whatever order the classes
are declared; acyclic hierarchies are accepted.   cyc_oracle.py <bloch> sweep"""
import sys, os, subprocess, tempfile, re, json, itertools
def run(bloch, src):
    d = tempfile.mkdtemp(prefix='cyc_'); p = os.path.join(d, 'p.bloch'); open(p, 'w').write(src)
    try:
        try:
            r = subprocess.run([bloch, p], capture_output=True, text=True, timeout=8, env=dict(os.environ, BLOCH_NO_UPDATE_CHECK='1'), cwd=d)
            return r.returncode, re.sub(r'\x1b\[[0-9;]*m', '', r.stdout + r.stderr)
        except subprocess.TimeoutExpired:
            return 'timeout', ''
    finally:
        import shutil; shutil.rmtree(d, ignore_errors=True)
def cls(n, base):
    return 'class %s%s { public constructor() -> %s = default; }\n' % (n, ' extends ' + base if base else '', n)
def main():
    bloch = sys.argv[1]; fails = 0; n = 0
    cases = []
    # (classes as (name, base), cyclic?)
    cases.append(([('A', 'A')], True))
    cases.append(([('A', 'B'), ('B', 'A')], True))
    cases.append(([('A', 'B'), ('B', 'C'), ('C', 'A')], True))
    cases.append(([('A', 'B'), ('B', 'A'), ('S', 'A'), ('T', 'A')], True))        # entered from outside the cycle
    cases.append(([('A', 'B'), ('B', 'A'), ('S', 'B'), ('U', 'S')], True))
    cases.append(([('A', 'A'), ('S', 'A')], True))
    # the class table is an unordered_map: which class the walk starts from depends on the hash order of the names, so the
    # outsider is given many different names (and the cycle members too)
    for out in ('S', 'T', 'Zed', 'Outer', 'K9', 'Mm', 'Q', 'Alpha', 'beta', 'Xy', 'Square', 'Triangle', 'Node', 'Leaf'):
        cases.append(([('A', 'B'), ('B', 'A'), (out, 'A')], True))
        cases.append(([('Shape', 'Circle'), ('Circle', 'Shape'), (out, 'Shape'), (out + '2', 'Circle')], True))
    cases.append(([('A', None), ('B', 'A'), ('C', 'B'), ('D', 'A')], False))
    cases.append(([('A', None), ('B', 'A')], False))
    for classes, cyclic in cases:
        orders = (list(itertools.permutations(classes)) if len(classes) <= 2 or (len(classes) == 3 and classes[2][0] in ('C',)) else [classes, list(reversed(classes))]) if len(classes) <= 3 else [classes, list(reversed(classes)), classes[2:] + classes[:2], classes[1:] + classes[:1], [classes[2], classes[0], classes[3], classes[1]]]
        for order in orders:
            src = ''.join(cls(a, b) for a, b in order) + 'function main() -> void { echo("ok"); }\n'
            rc, out = run(bloch, src); n += 1
            what = 'classes %s' % ' '.join('%s<-%s' % (a, b) for a, b in order)
            if rc == 'timeout':
                fails += 1; print('FAIL label=buildClassRegistry.cycle_walk.ends_within_the_number_of_names program=%s detail=%s: no answer within 8 s (the analyser does not terminate)' % (json.dumps(src), what))
            elif cyclic and (rc == 0 or len(re.findall(r'Semantic error', out)) != 1):
                fails += 1; print('FAIL label=buildClassRegistry.cycle_walk.two_class_cycle_is_rejected program=%s detail=%s: cyclic hierarchy not answered by one Semantic diagnostic: exit %s %r' % (json.dumps(src), what, rc, out.strip()[-120:]))
            elif not cyclic and (rc != 0 or 'ok' not in out):
                fails += 1; print('FAIL label=buildClassRegistry.cycle_walk.root_class_is_accepted program=%s detail=%s: acyclic hierarchy rejected: %r' % (json.dumps(src), what, out.strip()[-120:]))
    # ---- validateClass: a class that does not implement an abstract method of its base's base is abstract itself, whatever the declaration order
    SH = ('class Shape { public constructor() -> Shape = default; public virtual function sides() -> int; }\n',
          'class Polygon extends Shape { public constructor() -> Polygon = default; }\n',
          'class Square extends Polygon { public constructor() -> Square = default; }\n')
    OKSQ = 'class Square extends Polygon { public constructor() -> Square = default; public override function sides() -> int { return 4; } }\n'
    for order in itertools.permutations(range(3)):
        for leaf_ok in (False, True):
            parts = [SH[0], SH[1], OKSQ if leaf_ok else SH[2]]
            src = ''.join(parts[i] for i in order) + 'function main() -> void { Square s = new Square(); echo("made"); }\n'
            rc, out = run(bloch, src); n += 1
            if rc == 'timeout':
                fails += 1; print('FAIL label=buildClassRegistry.validate_class.base_class_is_validated_before_the_derived_class program=%s detail=no answer within 8 s' % json.dumps(src))
            elif leaf_ok and (rc != 0 or 'made' not in out):
                fails += 1; print('FAIL label=buildClassRegistry.validate_class.the_class_ends_up_validated program=%s detail=a concrete leaf class was rejected in declaration order %s: %r' % (json.dumps(src), order, out.strip()[-160:]))
            elif not leaf_ok and (rc == 0 or 'Semantic error' not in out):
                fails += 1; print('FAIL label=buildClassRegistry.validate_class.base_class_is_validated_before_the_derived_class program=%s detail=`new` of a class that inherits an unimplemented abstract method was accepted in declaration order %s: exit %s %r' % (json.dumps(src), order, rc, out.strip()[-160:]))
    print(json.dumps(dict(oracle_checks=n, oracle_failures=fails)))
    sys.exit(1 if fails else 0)
main()
