#!/usr/bin/env python3
"""Native oracle / replay driver for unit CLI (C17): the REAL command line (bloch binary built from /repo's working
tree): which shot count is used, when echo output appears, and the probability column of the aggregate table.
   cli_oracle.py <bloch> sweep"""
import sys, os, subprocess, tempfile, re, json, itertools
def run(bloch, src, args):
    d = tempfile.mkdtemp(prefix='cli_'); p = os.path.join(d, 'p.bloch'); open(p, 'w').write(src)
    try:
        r = subprocess.run([bloch] + list(args) + [p], capture_output=True, text=True, timeout=60, env=dict(os.environ, BLOCH_NO_UPDATE_CHECK='1'), cwd=d)
        return r.returncode, re.sub(r'\x1b\[[0-9;]*m', '', r.stdout), re.sub(r'\x1b\[[0-9;]*m', '', r.stderr)
    finally:
        import shutil; shutil.rmtree(d, ignore_errors=True)
def main():
    bloch = sys.argv[1]; fails = 0; n = 0
    def fail(label, what):
        nonlocal fails
        fails += 1; print('FAIL label=%s detail=%s' % (label, what))
    # ---- shots precedence and echo policy
    for ann, flag, echo in itertools.product([None, 1, 3], [None, 1, 2], [None, 'all', 'auto', 'none']):
        src = ('@shots(%d)\n' % ann if ann else '') + 'function main() -> void { echo("hi"); }\n'
        args = (['--shots=%d' % flag] if flag else []) + (['--echo=%s' % echo] if echo else [])
        rc, out, err = run(bloch, src, args); n += 1
        eff = ann if ann else (flag if flag else 1)
        his = len([l for l in out.split('\n') if l.strip() == 'hi'])
        m = re.search(r'^Shots: (\d+)', out, re.M)
        what = 'annotation=%s flag=%s echo=%s: stdout=%r' % (ann, flag, echo, out[:120])
        if rc != 0:
            fail('cli.shots.annotation_takes_precedence_over_flag', 'exit %d; %s' % (rc, what)); continue
        if (ann or flag):
            if not m or int(m.group(1)) != eff:
                fail('cli.shots.annotation_takes_precedence_over_flag' if ann else 'cli.shots.flag_used_only_without_annotation', 'expected Shots: %d; %s' % (eff, what))
        elif m:
            fail('cli.shots.single_run_without_flag_or_annotation', 'a shots table was printed; ' + what)
        want = eff if echo == 'all' else 0 if echo == 'none' else (1 if eff == 1 else 0)
        if his != want:
            fail('cli.echo.all_always' if echo == 'all' else 'cli.echo.none_never' if echo == 'none' else 'cli.echo.auto_exactly_for_a_single_shot', 'echo printed %d time(s), expected %d; %s' % (his, want, what))
    # ---- probability column: counts / that variable's total
    for shots, exits in itertools.product([1, 4, 7], [1, 2, 3]):
        src = '@shots(%d)\nfunction main() -> void { for (int i = 0; i < %d; i = i + 1) { @tracked qubit q; if (i == 1) { x(q); } measure q; } }\n' % (shots, exits)
        rc, out, err = run(bloch, src, []); n += 1
        rows = re.findall(r'^([01?]+)\s*\|\s*(\d+)\s*\|\s*([0-9.]+)\s*$', out, re.M)
        what = 'shots=%d scope exits per shot=%d: rows=%s' % (shots, exits, rows)
        if rc != 0 or not rows:
            fail('cli.table.one_row_per_outcome', 'no table; ' + what + ' ' + err[-100:]); continue
        total = sum(int(c) for _, c, _ in rows)
        if total != shots * exits:
            fail('cli.aggregate.adds_this_shots_counts', 'counts sum to %d, expected %d (shots x scope exits per shot); %s' % (total, shots * exits, what))
        bad = [(o, c, p) for o, c, p in rows if abs(float(p) - int(c) / total) > 0.0006]
        if bad or abs(sum(float(p) for _, _, p in rows) - 1.0) > 0.002 * len(rows):
            fail('cli.table.prob_is_count_over_total', 'probabilities are not count/total (total %d); %s' % (total, what))
    print(json.dumps(dict(oracle_checks=n, oracle_failures=fails)))
    sys.exit(1 if fails else 0)
main()
