#!/usr/bin/env python3
"""Native oracle / replay driver for unit PANN (C14/C13): documented annotations in every documented position must parse;
an unknown annotation is exactly one Parse diagnostic.   pann_oracle.py <bloch> sweep"""
import sys, os, subprocess, tempfile, re, json
def run(bloch, src):
    d = tempfile.mkdtemp(prefix='pann_'); p = os.path.join(d, 'p.bloch'); open(p, 'w').write(src)
    try:
        r = subprocess.run([bloch, p], capture_output=True, text=True, timeout=30, env=dict(os.environ, BLOCH_NO_UPDATE_CHECK='1'), cwd=d)
        return r.returncode, re.sub(r'\x1b\[[0-9;]*m', '', r.stdout + r.stderr)
    finally:
        import shutil; shutil.rmtree(d, ignore_errors=True)
K = 'class K { public constructor() -> K = default; %s }\n'
CASES = [
    ('parseAnnotations.accepts_quantum', '@quantum\nfunction f() -> bit { qubit q; bit r = measure q; return r; }\nfunction main() -> void { echo(f()); }\n', True),
    ('parseAnnotations.accepts_quantum', K % '@quantum public function f() -> bit { qubit q; bit r = measure q; return r; }' + 'function main() -> void { K k = new K(); echo(k.f()); }\n', True),
    ('parseAnnotations.accepts_quantum', K % 'public @quantum function f() -> bit { qubit q; bit r = measure q; return r; }' + 'function main() -> void { K k = new K(); echo(k.f()); }\n', True),
    ('parseAnnotations.accepts_shots_n', '@shots(2)\nfunction main() -> void { @tracked qubit q; measure q; }\n', True),
    ('parseAnnotations.accepts_tracked', 'function main() -> void { @tracked qubit q; measure q; echo(1); }\n', True),
    ('parseAnnotations.accepts_tracked', 'class H { @tracked public qubit q; public constructor() -> H = default; }\nfunction main() -> void { H h = new H(); echo(1); }\n', True),
    ('isTypeAhead.name_followed_by_name_is_a_declaration', 'class P { public int v; public constructor(int v) -> P { this.v = v; return this; } }\nfunction main() -> void { P p = new P(3); echo(p.v); }\n', True),
    ('isTypeAhead.only_type_keywords_and_identifiers_can_start_one', 'function main() -> void { int[] a = {1, 2}; a[0] = 5; echo(a[0]); int i = 0; i = i + 1; echo(i); }\n', True),
    ('isTypeAhead.skipTypeArgs.moves_only_onto_a_closing_angle', 'class Box<T> { public T v; public constructor(T v) -> Box<T> { this.v = v; return this; } }\nfunction main() -> void { Box<int> b = new Box<int>(4); int x = 1; boolean c = x < 2; echo(b.v); echo(c); }\n', True),
    ('parseAssignmentExpression.right_operand_is_an_assignment_expression', 'function main() -> void { int a = 0; int b = 0; int c = 0; a = b = c = 7; echo(a + b + c); }\n', True),
    ('parseAssignmentExpression.right_operand_is_an_assignment_expression', 'function f(int v) -> int { return v; }\nfunction main() -> void { int a = 0; int b = 0; echo(f(a = b = 2)); echo(a + b); }\n', True),
    ('parseAssignmentExpression.right_operand_is_an_assignment_expression', 'function main() -> void { int[] arr = {1, 2}; int a = 0; int b = 0; arr[1] = a = b = 5; echo(arr[1] + a + b); }\n', True),
    ('parseType.array_size.value_is_the_literals', 'function main() -> void { int[3] a; a[2] = 7; echo(a[2]); }\n', True),
    ('parseType.array_size.too_large_a_literal_is_reported', 'function main() -> void { int[99999999999] a; echo(1); }\n', False),
    ('parseType.array_size.too_large_a_literal_is_reported', 'function f(int[2147483648] p) -> void { }\nfunction main() -> void { }\n', False),
    ('parseAnnotations.unknown_annotation_is_rejected', 'function main() -> void { @bogus qubit q; }\n', False),
    ('parseAnnotations.unknown_annotation_is_rejected', '@bogus\nfunction main() -> void { }\n', False),
    ('parseAnnotations.unknown_annotation_is_rejected', K % '@bogus public function f() -> void { }' + 'function main() -> void { }\n', False),
]
def main():
    bloch = sys.argv[1]; fails = 0
    for label, src, ok in CASES:
        rc, out = run(bloch, src)
        perr = len(re.findall(r'Parse error', out))
        if ok and (rc != 0 or perr):
            fails += 1; print('FAIL label=%s program=%s detail=a documented annotation was not accepted: %r' % (label, json.dumps(src), out.strip()[-120:]))
        if not ok and (rc == 0 or perr != 1):
            fails += 1; print('FAIL label=%s program=%s detail=must be rejected with exactly one Parse diagnostic: exit %d %r' % (label, json.dumps(src), rc, out.strip()[-120:]))
    print(json.dumps(dict(oracle_checks=len(CASES), oracle_failures=fails)))
    sys.exit(1 if fails else 0)
main()
