#!/usr/bin/env python3
"""Native oracle / replay driver for unit SEMK: the REAL analyser (bloch binary built from /repo's working
tree) must accept / reject small programs as the compatibility rule of property C16 says.
   semk_oracle.py <bloch> sweep          prints FAIL label=<obligation> program=<source> detail=..."""
import sys, os, subprocess, tempfile, re, json
PRE = ('class A { public constructor() -> A = default; }\nclass Sub extends A { public constructor() -> Sub = default; }\nclass B { public constructor() -> B = default; }\n'
       'function takesInt(int v) -> void { echo(v); }\nfunction takesA(A v) -> void { echo(1); }\n')
CASES = [
    # (label, body of main, accepted?)
    ('validateTypedInitializer.primitive_slot_accepts_only_compatible', 'B b = new B(); int x = b;', False),
    ('validateTypedInitializer.primitive_slot_accepts_only_compatible', 'int[] arr = {1,2}; int y = arr;', False),
    ('validateTypedInitializer.primitive_slot_accepts_only_compatible', 'int x = 1.5f;', False),
    ('validateTypedInitializer.compatible_primitive_is_accepted', 'long l = 1; echo(l);', True),
    ('validateTypedInitializer.compatible_primitive_is_accepted', 'int i = 1; float f = 2.0f; echo(i);', True),
    ('validateTypedInitializer.class_slot_accepts_same_class_or_subclass', 'A a = new B(); echo(1);', False),
    ('validateTypedInitializer.class_slot_accepts_same_class_or_subclass', 'A a = new Sub(); echo(1);', True),
    ('validateTypedInitializer.class_slot_accepts_same_class_or_subclass', 'A a = new A(); echo(1);', True),
    ('validateTypedInitializer.null_only_for_class_references', 'A a = null; echo(1);', True),
    ('validateTypedInitializer.null_only_for_class_references', 'int a = null;', False),
    ('validateTypedInitializer.array_slot_accepts_same_array_type', 'B b = new B(); int[] arr = b;', False),
    # argument / assignment sites compare primitive tags themselves (not under contract): reported under their own labels
    ('call.arguments.accepted_value_has_the_declared_type', 'B b = new B(); takesInt(b);', False),
    ('assignment_statement.accepted_value_has_the_declared_type', 'B b = new B(); int x = 0; x = b;', False),
    ('call.arguments.accepted_value_has_the_declared_type', 'int[] arr = {1,2}; takesInt(arr);', False),
    ('call.arguments.accepted_value_has_the_declared_type', 'takesInt(1.5f);', False),
    ('call.arguments.accepted_value_has_the_declared_type', 'takesInt(3); takesA(new Sub()); takesA(null);', True),
    ('call.arguments.accepted_value_has_the_declared_type', 'takesInt(null);', False),
    ('call.arguments.arity_mismatch_rejected_at_the_call', 'takesInt(1, 2);', False),
    ('call.arguments.accepted_value_has_the_declared_type', 'B b = new B(); takesA(b);', False),
    ('isAssignableType.class_expected_needs_same_class_or_subclass', 'B b = new B(); takesA(b);', False),
    ('isAssignableType.class_expected_needs_same_class_or_subclass', 'Sub s = new Sub(); takesA(s);', True),
]
HOLDER = ('class H { public int n; public A a; public final int fx; public static int sn; private int secret;\n'
          '  public constructor() -> H { this.n = 0; this.a = new A(); this.fx = 1; this.secret = 7; return this; }\n  %s\n}\n')
# whole programs: (label, program, accepted?) - one per rule site (the visitor methods under contract)
FULL = [
    ('return.accepted_value_has_the_declared_type', PRE + 'function f() -> int { B b = new B(); return b; }\nfunction main() -> void { echo(f()); }\n', False),
    ('return.accepted_value_has_the_declared_type', PRE + 'function f() -> A { return new B(); }\nfunction main() -> void { A a = f(); echo(1); }\n', False),
    ('return.accepted_value_has_the_declared_type', PRE + 'function f() -> int { return 1.5f; }\nfunction main() -> void { echo(f()); }\n', False),
    ('return.accepted_value_has_the_declared_type', PRE + 'function f() -> A { return new Sub(); }\nfunction g() -> long { return 1; }\nfunction main() -> void { A a = f(); echo(g()); }\n', True),
    ('return.accepted_value_has_the_declared_type', PRE + 'function f() -> int { return null; }\nfunction main() -> void { echo(f()); }\n', False),
    ('return.value_in_void_function_rejected', PRE + 'function f() -> void { return 1; }\nfunction main() -> void { f(); }\n', False),
    ('return.bare_return_in_non_void_function_rejected', PRE + 'function f() -> int { return; }\nfunction main() -> void { echo(f()); }\n', False),
    ('return.bare_return_in_void_function_accepted', PRE + 'function f() -> void { return; }\nfunction main() -> void { f(); echo(1); }\n', True),
    ('assignment_statement.accepted_value_has_the_declared_type', PRE + 'function main() -> void { B b = new B(); int x = 0; x = b; echo(x); }\n', False),
    ('assignment_statement.accepted_value_has_the_declared_type', PRE + 'function main() -> void { int[] arr = {1,2}; int x = 0; x = arr; echo(x); }\n', False),
    ('assignment_statement.accepted_value_has_the_declared_type', PRE + 'function main() -> void { A a = new A(); a = new B(); echo(1); }\n', False),
    ('assignment_statement.accepted_value_has_the_declared_type', PRE + 'function main() -> void { A a = new A(); a = new Sub(); a = null; long l = 0; l = 3; echo(l); }\n', True),
    ('assignment_statement.accepted_value_has_the_declared_type', PRE + 'function main() -> void { int x = 0; x = null; echo(x); }\n', False),
    ('assignment_expression.accepted_value_has_the_declared_type', PRE + 'function main() -> void { B b = new B(); int x = 0; for (int i = 0; i < 1; x = b) { i = i + 1; } echo(x); }\n', False),
    ('assignment_expression.accepted_value_has_the_declared_type', PRE + 'function main() -> void { A a = new A(); int y = 0; for (int i = 0; i < 1; a = new B()) { i = i + 1; } echo(y); }\n', False),
    ('assignment_expression.accepted_value_has_the_declared_type', PRE + 'function main() -> void { int x = 0; long y = 0; y = (x = 2); A a = new A(); for (int i = 0; i < 1; a = new Sub()) { i = i + 1; } echo(y); }\n', True),
    ('assignment_expression.final_variable_never_assigned', PRE + 'function main() -> void { final int x = 1; int y = 0; y = (x = 2); echo(y); }\n', False),
    ('assignment_expression.accepted_field_value_has_the_declared_type', PRE + HOLDER % 'public function set(B b) -> void { for (int i = 0; i < 1; n = b) { i = i + 1; } }' + 'function main() -> void { H h = new H(); h.set(new B()); echo(1); }\n', False),
    ('assignment_expression.accepted_field_value_has_the_declared_type', PRE + HOLDER % 'public function set(B b) -> void { for (int i = 0; i < 1; a = b) { i = i + 1; } }' + 'function main() -> void { H h = new H(); h.set(new B()); echo(1); }\n', False),
    ('assignment_expression.accepted_field_value_has_the_declared_type', PRE + HOLDER % 'public function set(Sub s) -> void { for (int i = 0; i < 1; a = s) { i = i + 1; } }' + 'function main() -> void { H h = new H(); h.set(new Sub()); echo(1); }\n', True),
    ('assignment_statement.final_variable_never_assigned', PRE + 'function main() -> void { final int x = 1; x = 2; echo(x); }\n', False),
    ('assignment_statement.accepted_field_value_has_the_declared_type', PRE + HOLDER % 'public function set(B b) -> void { n = b; }' + 'function main() -> void { H h = new H(); h.set(new B()); echo(1); }\n', False),
    ('assignment_statement.accepted_field_value_has_the_declared_type', PRE + HOLDER % 'public function set(B b) -> void { a = b; }' + 'function main() -> void { H h = new H(); h.set(new B()); echo(1); }\n', False),
    ('assignment_statement.accepted_field_value_has_the_declared_type', PRE + HOLDER % 'public function set(Sub s) -> void { a = s; n = 4; }' + 'function main() -> void { H h = new H(); h.set(new Sub()); echo(h.n); }\n', True),
    ('member_assignment.accepted_value_has_the_declared_type', PRE + HOLDER % '' + 'function main() -> void { H h = new H(); h.n = new B(); echo(1); }\n', False),
    ('member_assignment.accepted_value_has_the_declared_type', PRE + HOLDER % '' + 'function main() -> void { H h = new H(); h.a = new B(); echo(1); }\n', False),
    ('member_assignment.accepted_value_has_the_declared_type', PRE + HOLDER % '' + 'function main() -> void { H h = new H(); h.a = new Sub(); h.a = null; h.n = 5; echo(h.n); }\n', True),
    ('member_assignment.accepted_value_has_the_declared_type', PRE + HOLDER % '' + 'function main() -> void { H h = new H(); h.n = null; echo(1); }\n', False),
    ('member_assignment.inaccessible_field_rejected', PRE + HOLDER % '' + 'function main() -> void { H h = new H(); h.secret = 1; echo(1); }\n', False),
    ('member_assignment.instance_field_not_assigned_via_type', PRE + HOLDER % '' + 'function main() -> void { H.n = 1; echo(1); }\n', False),
    ('member_assignment.instance_field_not_assigned_via_type', PRE + HOLDER % '' + 'function main() -> void { H.sn = 1; echo(H.sn); }\n', True),
    ('member_assignment.final_field_only_through_this_in_a_constructor', PRE + HOLDER % '' + 'function main() -> void { H h = new H(); h.fx = 2; echo(1); }\n', False),
    ('member_assignment.final_field_only_through_this_in_a_constructor', PRE + HOLDER % 'public constructor(H other) -> H { other.fx = 5; this.n = 0; this.a = new A(); this.secret = 1; return this; }' + 'function main() -> void { H h = new H(); H k = new H(h); echo(h.fx); }\n', False),
    ('member_assignment.final_field_only_through_this_in_a_constructor', PRE + HOLDER % 'public function poke() -> void { this.fx = 9; }' + 'function main() -> void { H h = new H(); h.poke(); echo(1); }\n', False),
    ('recordFinalFieldAssignment.final_exactly_once_per_constructor', PRE + HOLDER % 'public constructor(int v) -> H { this.fx = v; this.fx = v; this.n = 0; this.a = new A(); this.secret = 1; return this; }' + 'function main() -> void { H h = new H(3); echo(1); }\n', False),
    ('recordFinalFieldAssignment.final_only_in_own_constructor_at_top_level', PRE + HOLDER % 'public constructor(boolean c) -> H { if (c) { this.fx = 2; } this.n = 0; this.a = new A(); this.secret = 1; return this; }' + 'function main() -> void { H h = new H(true); echo(1); }\n', False),
    ('recordFinalFieldAssignment.first_top_level_assignment_accepted', PRE + HOLDER % '' + 'function main() -> void { H h = new H(); echo(h.fx); }\n', True),
    ('postfix.final_variable_never_incremented', PRE + 'function main() -> void { final int x = 1; x++; echo(x); }\n', False),
    ('postfix.final_field_never_incremented', PRE + HOLDER % 'public function poke() -> void { fx++; }' + 'function main() -> void { H h = new H(); h.poke(); echo(1); }\n', False),
    ('postfix.final_field_never_incremented', PRE + 'class Cn { public final int n; public constructor() -> Cn { n++; return this; } }\nfunction main() -> void { Cn c = new Cn(); echo(1); }\n', False),
    ('postfix.final_field_never_incremented', PRE + 'class Cn { public final int n; public constructor() -> Cn { n--; return this; } }\nfunction main() -> void { Cn c = new Cn(); echo(1); }\n', False),
    ('postfix.only_int_or_long_variables', PRE + 'function main() -> void { float f = 1.0f; f++; echo(f); }\n', False),
    ('postfix.int_variable_is_accepted', PRE + HOLDER % 'public function inc() -> void { n++; }' + 'function main() -> void { int i = 0; i++; long l = 1L; l--; H h = new H(); h.inc(); echo(i); }\n', True),
    ('resolveField.inaccessible_field_rejected', PRE + HOLDER % '' + 'class D extends H { public constructor() -> D { super(); return this; } public function leak() -> void { secret = 2; } }\nfunction main() -> void { D d = new D(); d.leak(); echo(1); }\n', False),
    ('resolveField.instance_field_in_static_context_rejected', PRE + HOLDER % 'public static function st() -> void { n = 3; }' + 'function main() -> void { H.st(); echo(1); }\n', False),
]
def run(bloch, src):
    d = tempfile.mkdtemp(prefix='semk_'); p = os.path.join(d, 'p.bloch'); open(p, 'w').write(src)
    try:
        r = subprocess.run([bloch, p], capture_output=True, text=True, timeout=20, env=dict(os.environ, BLOCH_NO_UPDATE_CHECK='1'))
        return r.returncode, re.sub(r'\x1b\[[0-9;]*m', '', r.stdout + r.stderr)
    finally:
        import shutil; shutil.rmtree(d, ignore_errors=True)
def main():
    bloch = sys.argv[1]; fails = 0
    for label, body, ok in CASES + FULL:
        src = body if body.startswith(PRE[:20]) else PRE + 'function main() -> void { %s }\n' % body
        rc, out = run(bloch, src)
        rejected = 'Semantic error' in out
        if rc < 0 or rc >= 128:
            fails += 1; print('FAIL label=%s program=%s detail=crashed with status %d' % (label, json.dumps(body[len(PRE):] if body.startswith(PRE[:20]) else body), rc))
        elif ok and rejected:
            fails += 1; print('FAIL label=%s program=%s detail=rejected although the value has a compatible type: %s' % (label, json.dumps(body[len(PRE):] if body.startswith(PRE[:20]) else body), out.strip()[-80:]))
        elif not ok and not rejected:
            fails += 1; print('FAIL label=%s program=%s detail=accepted although the value has an incompatible known type (output: %s)' % (label, json.dumps(body[len(PRE):] if body.startswith(PRE[:20]) else body), out.strip()[-40:]))
    print(json.dumps(dict(oracle_checks=len(CASES) + len(FULL), oracle_failures=fails)))
    sys.exit(1 if fails else 0)
main()
