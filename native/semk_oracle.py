#!/usr/bin/env python3
"""Native oracle / replay driver for unit SEMK: the REAL analyser (bloch binary built from /repo's working
tree) must accept / reject small programs as the compatibility rule of property C16 says.
   semk_oracle.py <bloch> sweep          prints FAIL label=<obligation> program=<source> detail=..."""
import sys, os, subprocess, tempfile, re, json
PRE = ('class A { public constructor() -> A = default; }\nclass Sub extends A { public constructor() -> Sub = default; }\nclass B { public constructor() -> B = default; }\n'
       'function takesInt(int v) -> void { echo(v); }\nfunction takesA(A v) -> void { echo(1); }\n')
CASES = [
    # (label, body of main, accepted?)
    ('validateTypedInitializer.primitive_slot_accepts_only_compatible', 'B b = new B(); int x = b;', False),
    ('validateTypedInitializer.primitive_slot_accepts_only_compatible', 'int[] arr = {1,2}; int y = arr;', False),
    ('validateTypedInitializer.primitive_slot_accepts_only_compatible', 'int x = 1.5f;', False),
    ('validateTypedInitializer.compatible_primitive_is_accepted', 'long l = 1; echo(l);', True),
    ('validateTypedInitializer.compatible_primitive_is_accepted', 'int i = 1; float f = 2.0f; echo(i);', True),
    ('validateTypedInitializer.class_slot_accepts_same_class_or_subclass', 'A a = new B(); echo(1);', False),
    ('validateTypedInitializer.class_slot_accepts_same_class_or_subclass', 'A a = new Sub(); echo(1);', True),
    ('validateTypedInitializer.class_slot_accepts_same_class_or_subclass', 'A a = new A(); echo(1);', True),
    ('validateTypedInitializer.null_only_for_class_references', 'A a = null; echo(1);', True),
    ('validateTypedInitializer.null_only_for_class_references', 'int a = null;', False),
    ('validateTypedInitializer.array_slot_accepts_same_array_type', 'B b = new B(); int[] arr = b;', False),
    # argument / assignment sites compare primitive tags themselves (not under contract): reported under their own labels
    ('site.argument.primitive_parameter_rejects_class_value', 'B b = new B(); takesInt(b);', False),
    ('site.assignment.primitive_variable_rejects_class_value', 'B b = new B(); int x = 0; x = b;', False),
    ('isAssignableType.class_expected_needs_same_class_or_subclass', 'B b = new B(); takesA(b);', False),
    ('isAssignableType.class_expected_needs_same_class_or_subclass', 'Sub s = new Sub(); takesA(s);', True),
]
def run(bloch, src):
    d = tempfile.mkdtemp(prefix='semk_'); p = os.path.join(d, 'p.bloch'); open(p, 'w').write(src)
    try:
        r = subprocess.run([bloch, p], capture_output=True, text=True, timeout=20, env=dict(os.environ, BLOCH_NO_UPDATE_CHECK='1'))
        return r.returncode, re.sub(r'\x1b\[[0-9;]*m', '', r.stdout + r.stderr)
    finally:
        import shutil; shutil.rmtree(d, ignore_errors=True)
def main():
    bloch = sys.argv[1]; fails = 0
    for label, body, ok in CASES:
        src = PRE + 'function main() -> void { %s }\n' % body
        rc, out = run(bloch, src)
        rejected = 'Semantic error' in out
        if rc < 0 or rc >= 128:
            fails += 1; print('FAIL label=%s program=%s detail=crashed with status %d' % (label, json.dumps(body), rc))
        elif ok and rejected:
            fails += 1; print('FAIL label=%s program=%s detail=rejected although the value has a compatible type: %s' % (label, json.dumps(body), out.strip()[-80:]))
        elif not ok and not rejected:
            fails += 1; print('FAIL label=%s program=%s detail=accepted although the value has an incompatible known type (output: %s)' % (label, json.dumps(body), out.strip()[-40:]))
    print(json.dumps(dict(oracle_checks=len(CASES), oracle_failures=fails)))
    sys.exit(1 if fails else 0)
main()
