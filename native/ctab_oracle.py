#!/usr/bin/env python3
"""Native oracle / replay driver for unit CTAB (C10): a class hierarchy with inherited fields and overridden methods
prints the same in every declaration order.   ctab_oracle.py <bloch> sweep"""
import sys, os, subprocess, tempfile, re, json, itertools
def run(bloch, src):
    d = tempfile.mkdtemp(prefix='ctab_'); p = os.path.join(d, 'p.bloch'); open(p, 'w').write(src)
    try:
        r = subprocess.run([bloch, p], capture_output=True, text=True, timeout=20, env=dict(os.environ, BLOCH_NO_UPDATE_CHECK='1'), cwd=d)
        return r.returncode, re.sub(r'\x1b\[[0-9;]*m', '', r.stdout + r.stderr)
    finally:
        import shutil; shutil.rmtree(d, ignore_errors=True)
B = ('class B { public int x; public int x2; public constructor() -> B { this.x = 7; this.x2 = 8; return this; }\n'
     '  public virtual function who() -> string { return "B"; } public function hello() -> string { return "hello " + this.who(); } public virtual function base_only() -> string { return "b-only"; } }\n')
D = ('class D extends B { public int y; public constructor() -> D { super(); this.y = 9; return this; }\n'
     '  public override function who() -> string { return "D"; } }\n')
E_ = ('class E extends D { public int z; public constructor() -> E { super(); this.z = 11; return this; }\n'
      '  public function zed() -> int { return this.z + this.x; } }\n')
MAIN = ('function main() -> void { D d = new D(); echo(d.x); echo(d.x2); echo(d.y); echo(d.hello()); echo(d.base_only());\n'
        '  E e = new E(); echo(e.x); echo(e.y); echo(e.z); echo(e.hello()); B b = new E(); echo(b.who()); echo(b.base_only()); }\n')
WANT = ['7', '8', '9', 'hello D', 'b-only', '7', '9', '11', 'hello D', 'D', 'b-only']
def main():
    bloch = sys.argv[1]; fails = 0; n = 0
    for order in itertools.permutations([B, D, E_]):
        for main_first in (False, True):
            src = (MAIN if main_first else '') + ''.join(order) + ('' if main_first else MAIN)
            rc, out = run(bloch, src); n += 1
            got = [l.strip() for l in out.strip().split('\n') if l.strip()]
            names = ''.join(re.findall(r'class (\w)', ''.join(order)))
            if rc != 0 or got != WANT:
                fails += 1
                print('FAIL label=buildClassTable.base_class_is_populated_before_the_derived_class program=%s detail=classes declared in the order %s%s: printed %s, expected %s' % (json.dumps(src), names, ' after main' if main_first else '', got[:12], WANT))
    # a generic class in the middle of the chain
    GB = 'class Base { public int x; public constructor() -> Base { this.x = 7; return this; } public virtual function name() -> string { return "base"; } }\n'
    GX = 'class Box<T> extends Base { public int w; public constructor() -> Box<T> { super(); this.w = 3; return this; } public override function name() -> string { return "box"; } }\n'
    GD = 'class Derived extends Box<int> { public int y; public constructor() -> Derived { super(); this.y = 9; return this; } }\n'
    GM = 'function main() -> void { Derived d = new Derived(); echo(d.x); echo(d.w); echo(d.y); Base b = d; echo(b.name()); }\n'
    for order in itertools.permutations([GB, GX, GD]):
        src = ''.join(order) + GM
        rc, out = run(bloch, src); n += 1
        got = [l.strip() for l in out.strip().split('\n') if l.strip()]
        if rc != 0 or got != ['7', '3', '9', 'box']:
            fails += 1
            print('FAIL label=buildClassTable.base_class_is_populated_before_the_derived_class program=%s detail=generic class in the middle of the chain, classes declared in the order %s: printed %s, expected %s' % (json.dumps(src), ''.join(re.findall(r'class (\w)', ''.join(order))), got[:6], ['7', '3', '9', 'box']))
    print(json.dumps(dict(oracle_checks=n, oracle_failures=fails)))
    sys.exit(1 if fails else 0)
main()
