#!/usr/bin/env python3
"""Native oracle / replay driver for unit ASTORE (C12/C07): a[i] = v with a computed index.   astore_oracle.py <bloch> sweep"""
import sys, os, subprocess, tempfile, re, json
def run(bloch, src):
    d = tempfile.mkdtemp(prefix='astore_'); p = os.path.join(d, 'p.bloch'); open(p, 'w').write(src)
    try:
        r = subprocess.run([bloch, p], capture_output=True, text=True, timeout=20, env=dict(os.environ, BLOCH_NO_UPDATE_CHECK='1'), cwd=d)
        return r.returncode, re.sub(r'\x1b\[[0-9;]*m', '', r.stdout + r.stderr)
    finally:
        import shutil; shutil.rmtree(d, ignore_errors=True)
KINDS = [('int', '{10, 20, 30}', '77', ['10', '20', '30'], '77'), ('long', '{10L, 20L, 30L}', '77L', ['10', '20', '30'], '77'), ('float', '{1.5f, 2.5f, 3.5f}', '9.5f', ['1.5', '2.5', '3.5'], '9.5'),
         ('bit', '{0b, 1b, 0b}', '1b', ['0', '1', '0'], '1'), ('boolean', '{true, false, true}', 'false', ['true', 'false', 'true'], 'false'),
         ('string', '{"a", "b", "c"}', '"z"', ['a', 'b', 'c'], 'z'), ('char', "{'a', 'b', 'c'}", "'z'", ["'a'", "'b'", "'c'"], "'z'")]
def main():
    bloch = sys.argv[1]; fails = 0; n = 0
    for ty, lit, val, elems, shown in KINDS:
        for idx in (-200000000, -1, 0, 1, 2, 3, 200000000):
            src = ('function main() -> void { %s[] a = %s; int i = 0; i = i + (%d); a[i] = %s; echo(a[0]); echo(a[1]); echo(a[2]); }\n' % (ty, lit, idx, val))
            rc, out = run(bloch, src); n += 1
            got = [l.strip() for l in out.strip().split('\n') if l.strip()]
            if 0 <= idx < 3:
                want = list(elems); want[idx] = shown
                norm = [g.rstrip('0').rstrip('.') if ty == 'float' and '.' in g else g for g in got]
                wantn = [w.rstrip('0').rstrip('.') if ty == 'float' and '.' in w else w for w in want]
                if rc != 0 or norm != wantn:
                    fails += 1; print('FAIL label=eval.array_store.other_elements_and_length_kept program=%s detail=%s[] store at index %d: exit %s, printed %s, expected %s' % (json.dumps(src), ty, idx, rc, got, want))
            else:
                if rc != 1 or not re.search(r'Runtime error at Ln \d+, Col \d+: index', out):
                    fails += 1; print('FAIL label=eval.array_store.index_outside_the_array_is_a_located_runtime_error program=%s detail=%s[] store at index %d must be a located Runtime error: exit %s, printed %r' % (json.dumps(src), ty, idx, rc, out.strip()[-160:]))
    for ty, lit, val, elems, shown in KINDS:
        for idx in (-200000000, -1, 0, 1, 2, 3, 200000000):
            src = ('function main() -> void { %s[] a = %s; int i = 0; i = i + (%d); echo(a[i]); }\n' % (ty, lit, idx))
            rc, out = run(bloch, src); n += 1
            got = [l.strip() for l in out.strip().split('\n') if l.strip()]
            if 0 <= idx < 3:
                norm = [g.rstrip('0').rstrip('.') if ty == 'float' and '.' in g else g for g in got]
                w = elems[idx]; w = w.rstrip('0').rstrip('.') if ty == 'float' and '.' in w else w
                if rc != 0 or norm != [w]:
                    fails += 1; print('FAIL label=eval.array_load.result_is_the_element program=%s detail=%s[] read at index %d: exit %s, printed %s, expected %s' % (json.dumps(src), ty, idx, rc, got, [elems[idx]]))
            else:
                if rc != 1 or not re.search(r'Runtime error at Ln \d+, Col \d+: index', out):
                    fails += 1; print('FAIL label=eval.array_load.index_outside_the_array_is_a_located_runtime_error program=%s detail=%s[] read at index %d must be a located Runtime error: exit %s, printed %r' % (json.dumps(src), ty, idx, rc, out.strip()[-160:]))
    CASTS = [('int n = 3; float w = (float)n; echo(w / 2);', ['1.5'], 'eval.cast.to_float'), ('float f = 3.99f; int t = (int)f; echo(t);', ['3'], 'eval.cast.to_int'),
             ('float f = 0.0f; f = f - 3.99f; int t = (int)f; echo(t);', ['-3'], 'eval.cast.to_int'), ('float f = 2.5f; bit b = (bit)f; echo(b);', ['1'], 'eval.cast.to_bit'),
             ('int z = 0; bit b = (bit)z; echo(b); int k = 6; bit c = (bit)k; echo(c);', ['0', '1'], 'eval.cast.to_bit'), ('bit b = 1b; int i = (int)b; float g = (float)b; echo(i); echo(g + 0.5f);', ['1', '1.5'], 'eval.cast.to_int'),
             ('int i = 5; long l = (long)i; echo(l * 1000000 * 1000000);', ['5000000000000'], 'eval.cast.to_long_widens')]
    for bodyc, want, lab in CASTS:
        src = 'function main() -> void { %s }\n' % bodyc
        rc, out = run(bloch, src); n += 1
        got = [l.strip() for l in out.strip().split('\n') if l.strip()]
        norm = [g.rstrip('0').rstrip('.') if re.match(r'^-?\d+\.\d+$', g) else g for g in got]
        if rc != 0 or norm != want:
            fails += 1; print('FAIL label=%s program=%s detail=printed %s, expected %s' % (lab, json.dumps(src), got, want))
    POST = [('int i = 5; int j = i++; echo(j); echo(i); int k = i--; echo(k); echo(i);', ['5', '6', '6', '5'], 'eval.postfix.yields_the_old_value'),
            ('long l = 4000000000L; long m = l++; echo(m); echo(l); l--; l--; echo(l);', ['4000000000', '4000000001', '3999999999'], 'eval.postfix.long_moves_by_one'),
            ('int n = 0; for (int i = 0; i < 4; i++) { n = n + i; } echo(n);', ['6'], 'eval.postfix.int_moves_by_one')]
    for bodyc, want, lab in POST:
        src = 'function main() -> void { %s }\n' % bodyc
        rc, out = run(bloch, src); n += 1
        got = [l.strip() for l in out.strip().split('\n') if l.strip()]
        if rc != 0 or got != want:
            fails += 1; print('FAIL label=%s program=%s detail=printed %s, expected %s' % (lab, json.dumps(src), got, want))
    print(json.dumps(dict(oracle_checks=n, oracle_failures=fails)))
    sys.exit(1 if fails else 0)
main()
