// Native oracle / replay driver for unit TRK (C17): RuntimeEvaluator::endScope and ::recordTrackedValue on the
// REAL class (private members reached through the header): random scopes of tracked / untracked qubits and qubit
// arrays with random last-measurement tables; the counts must grow by exactly one per tracked qubit value, under
// the documented key, with the documented outcome string.
//   trk_oracle sweep <seed> <trials>
#include <random>
#include <cstdio>
#include <set>
#include <string>
#include <vector>
#include <sstream>
#include <complex>
#include <atomic>
#include <thread>
#include <mutex>
#include <condition_variable>
#include <unordered_map>
#include <memory>
#include <iostream>
#include <array>
#include <optional>
#include <functional>
#include <map>
#include "bloch/compiler/ast/ast.hpp"
#include "bloch/runtime/qasm_simulator.hpp"
#define private public
#include "bloch/runtime/runtime_evaluator.hpp"
#undef private
using namespace bloch::runtime;
static long n_checks = 0, n_fail = 0;
static void fail(const char* label, const std::string& what) { n_fail++; if (n_fail <= 20) printf("FAIL label=%s detail=%s\n", label, what.c_str()); }
typedef std::map<std::string, std::map<std::string, int>> Counts;
static Counts snapshot(const RuntimeEvaluator& ev) { Counts c; for (auto& kv : ev.m_trackedCounts) for (auto& o : kv.second) c[kv.first][o.first] = o.second; return c; }
// the outcome as the property states it, written independently of the code
static std::string spec_outcome(const Value& v, const std::vector<int>& last) {
    auto known = [&](int q) { return q >= 0 && q < (int)last.size() && last[q] != -1; };
    if (v.type == Value::Type::Qubit) return known(v.qubit) ? (last[v.qubit] ? "1" : "0") : "?";
    std::string s; for (int q : v.qubitArray) { if (!known(q)) return "?"; s.push_back(last[q] ? '1' : '0'); } return s;
}
static std::string show(const Counts& c) { std::string s; for (auto& kv : c) for (auto& o : kv.second) s += "[" + kv.first + "|" + o.first + "=" + std::to_string(o.second) + "]"; return s; }
int main(int argc, char** argv) {
    unsigned seed = argc > 2 ? atoi(argv[2]) : 1; int trials = argc > 3 ? atoi(argv[3]) : 300; std::mt19937 g(seed);
    for (int t = 0; t < trials; t++) {
        RuntimeEvaluator ev(false);
        int nq = g() % 6; ev.m_lastMeasurement.clear(); for (int i = 0; i < nq; i++) ev.m_lastMeasurement.push_back((int)(g() % 3) - 1);
        auto mkval = [&](int kind) { Value v; if (kind == 0) { v.type = Value::Type::Qubit; v.qubit = (int)(g() % (nq + 2)) - 1; } else if (kind == 1) { v.type = Value::Type::QubitArray; int n = g() % 5; for (int i = 0; i < n; i++) v.qubitArray.push_back((g() % 7 == 0) ? nq + 1 : (nq ? (int)(g() % nq) : 0)); } else { v.type = Value::Type::Int; v.intValue = 3; } return v; };
        // --- recordTrackedValue
        {
            Value v = mkval(g() % 3); std::string name = "Cls.f" + std::to_string(g() % 3);
            Counts before = snapshot(ev); ev.recordTrackedValue(name, v); Counts after = snapshot(ev); n_checks++;
            Counts want = before; if (v.type == Value::Type::Qubit || v.type == Value::Type::QubitArray) want[name][spec_outcome(v, ev.m_lastMeasurement)]++;
            if (after != want) fail(v.type == Value::Type::QubitArray ? "recordTrackedValue.array_outcome_is_bit_string_in_index_order_or_unknown" : "recordTrackedValue.exactly_one_outcome_per_tracked_qubit_value", "recordTrackedValue: counts " + show(after) + " expected " + show(want));
        }
        // --- endScope
        {
            ev.m_env.clear(); ev.m_env.push_back({}); ev.m_env.push_back({});
            int ne = g() % 5; Counts want = snapshot(ev);
            for (int e = 0; e < ne; e++) {
                int kind = g() % 3; bool tracked = g() % 3 != 0; std::string nm = "v" + std::to_string(e);
                RuntimeEvaluator::VarEntry en; en.value = mkval(kind); en.tracked = tracked; en.initialized = true; ev.m_env.back()[nm] = en;
                if (tracked && kind <= 1) want[std::string(kind == 0 ? "qubit " : "qubit[] ") + nm][spec_outcome(en.value, ev.m_lastMeasurement)]++;
            }
            size_t depth = ev.m_env.size(); ev.endScope(); Counts after = snapshot(ev); n_checks++;
            if (ev.m_env.size() != depth - 1) fail("endScope.pops_exactly_one_scope", "scope stack " + std::to_string(depth) + " -> " + std::to_string(ev.m_env.size()));
            if (after != want) {
                long sa = 0, sw = 0; for (auto& kv : after) for (auto& o : kv.second) sa += o.second; for (auto& kv : want) for (auto& o : kv.second) sw += o.second;
                fail(sa != sw ? "endScope.exactly_one_outcome_per_tracked_entry" : "endScope.outcome_is_last_measurement_bit_string_or_unknown", "endScope: counts " + show(after) + " expected " + show(want));
            }
            ev.m_env.clear();
        }
    }
    printf("{\"oracle_checks\": %ld, \"oracle_failures\": %ld}\n", n_checks, n_fail);
    return n_fail ? 1 : 0;
}
