#!/usr/bin/env python3
"""Native oracle / replay driver for unit QEV (evaluator side of C01/C02/C05/C06): the REAL interpreter, through the CLI.
   qev_oracle.py <bloch> sweep"""
import sys, os, subprocess, tempfile, re, json
def run(bloch, src, args=()):
    d = tempfile.mkdtemp(prefix='qev_'); p = os.path.join(d, 'p.bloch'); open(p, 'w').write(src)
    try:
        r = subprocess.run([bloch] + list(args) + [p], capture_output=True, text=True, timeout=60, env=dict(os.environ, BLOCH_NO_UPDATE_CHECK='1'), cwd=d)
        return r.returncode, re.sub(r'\x1b\[[0-9;]*m', '', r.stdout), re.sub(r'\x1b\[[0-9;]*m', '', r.stderr)
    finally:
        import shutil; shutil.rmtree(d, ignore_errors=True)
def main():
    bloch = sys.argv[1]; fails = 0; n = 0
    def fail(label, what):
        nonlocal fails
        fails += 1; print('FAIL label=%s detail=%s' % (label, what))
    # ---- every built-in gate reaches the simulator once, with its own operands in order (read back from the emitted OpenQASM)
    gates = [('h(b);', 'h q[1];'), ('x(b);', 'x q[1];'), ('y(b);', 'y q[1];'), ('z(b);', 'z q[1];'), ('rx(b, 0.5f);', 'rx(0.500000) q[1];'), ('ry(b, 0.25f);', 'ry(0.250000) q[1];'),
             ('rz(b, 1.5f);', 'rz(1.500000) q[1];'), ('cx(b, a);', 'cx q[1],q[0];'), ('cx(a, c);', 'cx q[0],q[2];'), ('h(c);', 'h q[2];')]
    for call, want in gates:
        src = 'function main() -> void { qubit a; qubit b; qubit c; %s }\n' % call
        rc, out, err = run(bloch, src, ['--emit-qasm']); n += 1
        ops = [l.strip() for l in out.split('\n') if l.strip() and not l.startswith(('OPENQASM', 'include', 'qreg', 'creg'))]
        if rc != 0 or ops != [want]:
            fail('eval.gate.simulator_gets_the_calls_own_operands_in_order' if rc == 0 and len(ops) == 1 else 'eval.gate.exactly_one_like_named_simulator_operation', 'call %s emitted %s, expected [%s] (%s)' % (call, ops, want, err.strip()[-80:]))
    # ---- the measured lock: refused with a diagnostic located at the call; other qubits stay usable
    lock = [('eval.gate.lock_consulted_for_every_qubit_operand_before_the_simulator', 'function main() -> void {\n qubit a;\n qubit b;\n measure b;\n h(b);\n}\n', (5, 2)),
            ('eval.gate.lock_consulted_for_every_qubit_operand_before_the_simulator', 'function main() -> void {\n qubit a;\n qubit b;\n measure a;\n cx(b, a);\n}\n', (5, 2)),
            ('exec.measure.array.every_element_lock_then_simulator_then_flag', 'function main() -> void {\n qubit a;\n qubit[2] q;\n measure q;\n h(q[1]);\n}\n', (5, 2)),
            ('exec.measure.array.every_element_lock_then_simulator_then_flag', 'function main() -> void {\n qubit a;\n qubit[2] q;\n measure q;\n h(q[0]);\n}\n', (5, 2)),
            ('eval.measure.lock_then_simulator_then_flag', 'function main() -> void {\n qubit a;\n qubit b;\n bit r = measure b;\n x(b);\n}\n', (5, 2)),
            ('exec.measure.scalar.lock_then_simulator_then_flag', 'function main() -> void {\n qubit a;\n qubit b;\n measure b;\n measure b;\n}\n', (5, 2))]
    for label, src, (ln, col) in lock:
        rc, out, err = run(bloch, src); n += 1
        m = re.search(r'Runtime error at Ln (\d+), Col (\d+)', out + err)
        if rc == 0 or not m or (int(m.group(1)), int(m.group(2))) != (ln, col):
            fail(label, 'operation on a measured qubit must be refused with a runtime error located at Ln %d, Col %d: exit %d, output %r' % (ln, col, rc, (out + err).strip()[-160:]))
    free = [('exec.measure.array.every_element_lock_then_simulator_then_flag', 'function main() -> void { qubit a; qubit[2] q; measure q; h(a); x(a); echo("ok"); }\n'),
            ('exec.reset.exists_check_then_simulator_reset_then_unlock', 'function main() -> void { qubit a; qubit b; measure b; reset b; h(b); measure b; reset b; x(b); echo("ok"); }\n'),
            ('exec.measure.scalar.lock_then_simulator_then_flag', 'function main() -> void { qubit a; qubit b; measure b; h(a); cx(a, a == b ? a : a); echo("ok"); }\n')]
    for label, src in free[:2]:
        rc, out, err = run(bloch, src); n += 1
        if rc != 0 or 'ok' not in out:
            fail(label, 'an unmeasured (or reset) qubit must stay usable: exit %d, output %r' % (rc, (out + err).strip()[-160:]))
    # ---- the bit returned by measure is the simulator's bit (deterministic states), and it is what @tracked reports
    for prep, want in (('', '0'), ('x(q);', '1'), ('x(q); x(q);', '0'), ('h(q); h(q); x(q);', '1')):
        src = '@shots(3)\nfunction main() -> void { qubit pad; @tracked qubit q; %s bit r = measure q; echo(r); }\n' % prep
        rc, out, err = run(bloch, src, ['--echo=all']); n += 1
        echoed = [l.strip() for l in out.split('\n') if l.strip() in ('0', '1')]
        rows = re.findall(r'^([01?]+)\s*\|\s*(\d+)\s*\|', out, re.M)
        if rc != 0 or echoed != [want] * 3:
            fail('eval.measure.returned_bit_is_the_simulators_bit', 'prep %r: echoed %s, expected %s x3' % (prep, echoed, want))
        elif rows != [(want, '3')]:
            fail('eval.measure.recorded_and_tracked_bit_is_the_simulators_bit', 'prep %r: tracked rows %s, expected [(%s, 3)]' % (prep, rows, want))
    # ---- whole-register measurement: each element's tracked bit is the simulator's bit of THAT qubit (registers that do not start at qubit 0)
    src = '@shots(3)\nfunction main() -> void { qubit pad; @tracked qubit[2] lo; @tracked qubit[2] hi; x(hi[0]); x(hi[1]); measure lo; measure hi; }\n'
    rc, out, err = run(bloch, src); n += 1
    tab = dict(re.findall(r'^qubit\[\] (\w+)\n(?:.*\n){2}([01?]+)\s*\|', out, re.M))
    if rc != 0 or tab != {'lo': '00', 'hi': '11'}:
        fail('exec.measure.array.tracked_bit_is_the_simulators_bit', 'two tracked registers after a pad qubit: tracked outcomes %s, expected lo=00 hi=11 (%s)' % (tab, err.strip()[-80:]))
    print(json.dumps(dict(oracle_checks=n, oracle_failures=fails)))
    sys.exit(1 if fails else 0)
main()
