// Transliteration validation for unit UPD: lowered C vs the real functions of update_manager.cpp.
#include <random>
#include <cstdio>
#include <sstream>
#include <iostream>
#include <cstring>
#include REAL_CPP
#define _Bool bool
extern "C" {
#include "upd.h"
#include "upd_gen.h"
::SemVer upd_parseSemVer(bl_sv version);
int upd_compareSemVer(::SemVer a, ::SemVer b);
bl_sv upd_changeLabel(::SemVer a, ::SemVer b);
_Bool upd_hasLatest(bl_sv a, bl_sv b);
_Bool upd_hasExpired(bl_time tp, bl_time now);
_Bool upd_maybePrintNotice(bl_sv latest, bl_sv current, bl_time now, ::UpdateCache* cache);
extern int bl_exc, bl_out_count[3];
}
namespace U = bloch::update;
static bl_sv sv(const std::string& s) { bl_sv r; r.p = s.data(); r.n = s.size(); return r; }
static std::string rnd(std::mt19937& g, const char* alpha, int maxlen) { int n = g() % (maxlen + 1); std::string s; size_t k = strlen(alpha); for (int i = 0; i < n; i++) s.push_back(alpha[g() % k]); return s; }
int main(int argc, char** argv) {
    unsigned seed = argc > 1 ? atoi(argv[1]) : 1; int count = argc > 2 ? atoi(argv[2]) : 3000; std::mt19937 g(seed);
    long checks = 0, diffs = 0;
    auto diff = [&](const char* w, const std::string& a) { diffs++; if (diffs < 8) printf("DIFF %s on '%s'\n", w, a.c_str()); };
    for (int i = 0; i < count; i++) {
        std::string a = rnd(g, "v0123456789..-ax", 14), b = rnd(g, "v0123456789..", 14);
        if (i % 50 == 0) a = "99999999999"; if (i % 50 == 1) a = "1.2147483648";
        // parseSemVer
        bool threw = false; U::SemVer r{};
        try { r = U::parseSemVer(a); } catch (...) { threw = true; }
        bl_exc = 0; ::SemVer l = upd_parseSemVer(sv(a)); checks++;
        if (threw != (bl_exc == BL_EXC_STD)) diff("parseSemVer throw", a);
        else if (!threw && (r.major != l.major || r.minor != l.minor || r.patch != l.patch || r.valid != (bool)l.valid)) diff("parseSemVer fields", a);
        if (threw) continue;
        bool threw2 = false; U::SemVer r2{};
        try { r2 = U::parseSemVer(b); } catch (...) { threw2 = true; }
        if (threw2) continue;
        bl_exc = 0; ::SemVer l2 = upd_parseSemVer(sv(b));
        checks++; if (U::compareSemVer(r, r2) != upd_compareSemVer(l, l2)) diff("compareSemVer", a + "/" + b);
        checks++; { std::string x = U::changeLabel(r, r2); bl_sv y = upd_changeLabel(l, l2); if (x.size() != y.n || memcmp(x.data(), y.p, y.n)) diff("changeLabel", a + "/" + b); }
        checks++; bl_exc = 0; if (U::hasLatest(a, b) != (bool)upd_hasLatest(sv(a), sv(b))) diff("hasLatest", a + "/" + b);
        // hasExpired / maybePrintNotice
        long long h = g() % 150; auto now = U::Clock::now(); U::UpdateCache c; c.lastNotified = now - std::chrono::hours(h); c.latestVersion = "zz";
        ::UpdateCache lc; memset(&lc, 0, sizeof lc); lc.lastNotified = c.lastNotified.time_since_epoch().count(); std::string zz = "zz"; lc.latestVersion = sv(zz);
        bl_time lnow = now.time_since_epoch().count();
        checks++; if (U::hasExpired(c.lastNotified, now) != (bool)upd_hasExpired(lc.lastNotified, lnow)) diff("hasExpired", std::to_string(h));
        std::ostringstream cap; auto* old = std::cout.rdbuf(cap.rdbuf()); bool pr = U::maybePrintNotice(b, a, now, c); std::cout.rdbuf(old);
        int before = bl_out_count[1]; bl_exc = 0; bool pl = upd_maybePrintNotice(sv(b), sv(a), lnow, &lc);
        checks++; if (pr != pl || (bl_out_count[1] - before) != (cap.str().empty() ? 0 : 1) || c.lastNotified.time_since_epoch().count() != lc.lastNotified || c.latestVersion.size() != lc.latestVersion.n) diff("maybePrintNotice", b + "/" + a);
    }
    printf("{\"checks\": %ld, \"diffs\": %ld, \"seed\": %u}\n", checks, diffs, seed);
    return diffs ? 3 : 0;
}
