/* Shim for unit UPD (update/update_manager.cpp): std::string as read-only slices (a by-value
 * copy may be shortened from the front), std::stoi, std::getenv, chrono time points as int64
 * nanosecond ticks, iostream sinks as ghost output counters. */
#ifndef BL_UPD_H
#define BL_UPD_H
#include "common.h"

typedef struct { const char *p; size_t n; } bl_sv;
#define SV_SIZE(s) ((s).n)
#define SV_AT(s, i) ((s).p[BL_IDX(i, (s).n)])
#define BL_SV_LIT(lit) ((bl_sv){ (lit), sizeof(lit) - 1 })
static inline int bl_isdigit(int c) { return c >= '0' && c <= '9'; }

/* std::string::substr(pos, count): throws std::out_of_range when pos > size() */
static inline bl_sv bl_sv_substr(bl_sv s, size_t pos, size_t count) {
  bl_sv r; r.p = s.p; r.n = 0;
  if (pos > s.n) { bl_throw_std(); return r; }
  r.p = s.p + pos; r.n = count < s.n - pos ? count : s.n - pos;
  return r;
}
/* v.erase(v.begin()) on a by-value copy: drop the first byte (UB on an empty string) */
static inline void bl_sv_pop_front(bl_sv *s) { BL_ASSERT(s->n > 0, "erase(begin()) on an empty string"); s->p = s->p + 1; s->n = s->n - 1; }

/* std::stoi(s) on a string that starts with a digit (caller obligation): the value of the
 * leading digit run if it fits an int, otherwise std::out_of_range (a raw C++ exception).
 * Model: a run of at most 9 digits always fits; a longer run may or may not (leading zeros).
 * The k-th call's argument and result are recorded in ghost slots. */
#define BL_STOI_SLOTS 4
extern int g_stoi_calls; extern const char *g_stoi_arg_p[BL_STOI_SLOTS]; extern size_t g_stoi_arg_n[BL_STOI_SLOTS]; extern int g_stoi_ret[BL_STOI_SLOTS];
#ifdef NATIVE
static inline int bl_stoi(bl_sv s) {
  long long v = 0; size_t i = 0;
  for (; i < s.n && bl_isdigit((unsigned char)s.p[i]); i++) { v = v * 10 + (s.p[i] - '0'); if (v > INT_MAX) { bl_throw_std(); return 0; } }
  if (i == 0) { bl_throw_std(); return 0; }
  return (int)v;
}
#else
/* the value and the out-of-range decision are (uninterpreted) functions of the argument slice: the
 * same string converts to the same number every time */
int __CPROVER_uninterpreted_stoi_value(const char *, size_t); _Bool __CPROVER_uninterpreted_stoi_overflows(const char *, size_t);
static inline int bl_stoi(bl_sv s) {
  BL_ASSERT(s.n >= 1 && s.p[0] >= '0' && s.p[0] <= '9', "std::stoi argument starts with a digit (else std::invalid_argument)");
  int v = __CPROVER_uninterpreted_stoi_value(s.p, s.n);
  __CPROVER_assume(v >= 0);
  if (s.n <= 9) __CPROVER_assume(v <= 999999999);
  else if (__CPROVER_uninterpreted_stoi_overflows(s.p, s.n)) { bl_throw_std(); return 0; }
  if (g_stoi_calls >= 0 && g_stoi_calls < BL_STOI_SLOTS) { g_stoi_arg_p[g_stoi_calls] = s.p; g_stoi_arg_n[g_stoi_calls] = s.n; g_stoi_ret[g_stoi_calls] = v; }
  if (g_stoi_calls < 1000) g_stoi_calls++;
  return v;
}
#endif

/* std::getenv(name) != nullptr, per variable name: the environment is an arbitrary but fixed
 * function of the name (ghost array indexed by an interned name id) */
extern _Bool g_env_set[8];
#define BL_GETENV(id) (g_env_set[id])

/* iostream sinks: one counter per stream (1 = cout, 2 = cerr); operands are dropped */
extern int bl_out_count[3];
static inline void bl_out(int stream) { if (bl_out_count[stream] < 1000000) bl_out_count[stream]++; }

/* std::chrono::system_clock::time_point / durations: int64 nanosecond ticks */
typedef long bl_time;
#define BL_HOURS_NS(h) ((long)(h) * 3600L * 1000000000L)
#define BL_TSUB(a, b) ((a) - (b))


/* ---- std::istringstream over a read-only string, std::getline, operator>>(istream&, string&), string::find(string)
 * (library models with loops: used by parseChecksum, which is checked BOUNDED only) */
#ifndef CSMAX
#define CSMAX 8
#endif
typedef struct { bl_sv s; size_t pos; _Bool fail; } bl_iss;
#define BL_NPOS ((size_t)-1)
static inline int bl_isspace(int c) { return c == ' ' || (c >= '\t' && c <= '\r'); }
static inline bl_iss bl_iss_make(bl_sv s) { bl_iss r; r.s = s; r.pos = 0; r.fail = 0; return r; }
/* std::getline(in, line): characters up to (not including) the next '\n', which is consumed; fails when nothing is left */
static inline _Bool bl_getline(bl_iss *in, bl_sv *line) {
  if (in->fail || in->pos >= in->s.n) { in->fail = 1; return 0; }
  size_t k = in->pos;
  while (k < in->s.n && in->s.p[k] != '\n') k++;
  line->p = in->s.p + in->pos; line->n = k - in->pos;
  in->pos = (k < in->s.n) ? k + 1 : k;
  return 1;
}
/* in >> word: skips leading whitespace, reads up to the next whitespace; fails when no character is read */
static inline _Bool bl_iss_read_word(bl_iss *in, bl_sv *w) {
  if (in->fail) return 0;
  size_t k = in->pos;
  while (k < in->s.n && bl_isspace((unsigned char)in->s.p[k])) k++;
  size_t b = k;
  while (k < in->s.n && !bl_isspace((unsigned char)in->s.p[k])) k++;
  in->pos = k;
  if (k == b) { in->fail = 1; return 0; }
  w->p = in->s.p + b; w->n = k - b;
  return 1;
}
static inline _Bool bl_sv_eq(bl_sv a, bl_sv b) { if (a.n != b.n) return 0; for (size_t i = 0; i < a.n; i++) if (a.p[i] != b.p[i]) return 0; return 1; }
/* s.compare(pos, len, t): lexicographic comparison of s.substr(pos, len) with t; std::out_of_range when pos > s.size() */
static inline int bl_sv_compare_sub(bl_sv s, size_t pos, size_t len, bl_sv t) {
  if (pos > s.n) { bl_throw_std(); return 0; }
  size_t n = s.n - pos; if (len < n) n = len;
  size_t m = n < t.n ? n : t.n;
  for (size_t i = 0; i < m; i++) { unsigned char a = (unsigned char)s.p[pos + i], b = (unsigned char)t.p[i]; if (a != b) return a < b ? -1 : 1; }
  return n < t.n ? -1 : (n > t.n ? 1 : 0);
}
static inline size_t bl_sv_find_sv(bl_sv h, bl_sv nd) {
  if (nd.n > h.n) return BL_NPOS;
  for (size_t i = 0; i + nd.n <= h.n; i++) { size_t j = 0; while (j < nd.n && h.p[i + j] == nd.p[j]) j++; if (j == nd.n) return i; }
  return BL_NPOS;
}
#endif
