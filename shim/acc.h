/* Shim for unit ACC (accessibility check sites of the analyser). */
#ifndef BL_ACC_H
#define BL_ACC_H
#include "common.h"
typedef int bl_cname;
enum { BL_Public = 0, BL_Private = 1, BL_Protected = 2 };
typedef struct { int visibility; bl_cname owner; bl_cname name; } Rec;
#endif
