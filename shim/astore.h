/* Shim for unit ASTORE (array element store): vectors are inline arrays of at most AMAXS elements with their size. */
#ifndef BL_ASTORE_H
#define BL_ASTORE_H
#include "common.h"
#ifndef AMAXS
#define AMAXS 4
#endif
typedef int bl_str; typedef int bl_ast;
enum { BL_OP_INC = 1001, BL_OP_DEC = 1002 };
#endif
