/* Shim for unit TFA (SemanticAnalyser::typeFromAst): type nodes, names and class-table entries are
 * opaque identities. */
#ifndef BL_TFA_H
#define BL_TFA_H
#include "common.h"
#ifndef TPMAX
#define TPMAX 4
#endif
typedef int bl_cname; typedef int bl_tnode; typedef int bl_clsinfo;
typedef struct { int value; bl_cname className; size_t typeArgs; _Bool isTypeParam; } TypeInfo;
typedef struct { bl_cname name; } TypeParamRow;
#endif
