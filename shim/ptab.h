/* Shim for unit PTAB (parser binding-power table): std::optional<Binding> as {has, v}. */
#ifndef BL_PTAB_H
#define BL_PTAB_H
#include "common.h"
#endif
