/* Shim for unit QEV (quantum branches of the evaluator): names as interned literal ids, AST
 * sub-expressions as opaque ids, std::vector<int> with inline storage. */
#ifndef BL_QEV_H
#define BL_QEV_H
#include "common.h"
#ifndef VCAP
#define VCAP 8
#endif
typedef int bl_lit; typedef int bl_ast;
typedef struct { int data[VCAP]; size_t size; } vec_int;
#endif
