/* Shim for unit CLI (regions of runImpl): option texts and outcome strings are interned literal /
 * string identities; std::cout statements become ghost output records. */
#ifndef BL_CLI_H
#define BL_CLI_H
#include "common.h"
#ifndef OMAX
#define OMAX 8
#endif
typedef int bl_lit; typedef int bl_prog;
typedef struct { _Bool first; int second; } pair_bool_int;
typedef struct { bl_lit first; int second; } OutcomeCount;
typedef struct { OutcomeCount *data; size_t size; } vec_OC;
#ifndef VMAXC
#define VMAXC 3
#endif
#ifndef OMAXC
#define OMAXC 3
#endif
typedef size_t VarRow; typedef int bl_inner; typedef int bl_outer;
/* double arithmetic: uninterpreted in UF mode */
#if defined(UF) && !defined(NATIVE)
double __CPROVER_uninterpreted_d_div(double, double);
#define D_DIV __CPROVER_uninterpreted_d_div
#else
#define D_DIV(a, b) ((a) / (b))
#endif
#endif
