/* Shim for unit CFOLD (constant folding of integer expressions in the analyser). */
#ifndef BL_CFOLD_H
#define BL_CFOLD_H
#include "common.h"
typedef int bl_op; typedef int bl_ast; typedef int bl_nullopt;
typedef struct { _Bool has; int v; } opt_int;
enum { BL_OP_0 = 101, BL_OP_1 = 102, BL_OP_2 = 103, BL_OP_3 = 104, BL_OP_4 = 105 };   /* + - * / % */
#endif
