/* Shim for unit SCOPE (name resolution of RuntimeEvaluator): the scope stack is a vector of maps
 * name -> VarEntry; a map is abstracted to an uninterpreted lookup (scope index, name) -> entry id, and
 * the entries live in a ghost table.  Names are interned identities. */
#ifndef BL_SCOPE_H
#define BL_SCOPE_H
#include "common.h"
#ifndef SCMAX
#define SCMAX 8
#endif
#ifndef EMAX
#define EMAX 4
#endif
typedef int bl_cname;
typedef long bl_objid;
typedef size_t bl_rit;     /* iterator over the scope stack: k means "element k-1"; reverse: rbegin() is size, rend() is 0, ++ subtracts; forward: begin() is 1, end() is size+1 */
typedef int bl_mit;        /* iterator into one scope map: entry id, BL_MAP_END when absent */
#define BL_MAP_END (-1)
#endif
