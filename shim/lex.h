/* Shim for unit LEX (compiler/lexer/lexer.cpp): std::string_view / std::string as read-only
 * slices, Token, std::vector<Token> (append-only), <cctype> in the C locale, the function-local
 * keyword map as a generated constant table. */
#ifndef BL_LEX_H
#define BL_LEX_H
#include "common.h"

typedef struct { const char *p; size_t n; } bl_sv;
typedef struct { int type; bl_sv value; int line; int column; } Token;
typedef struct { Token *data; size_t size; size_t cap; } vec_Token;
struct bl_kw { bl_sv first; int second; };

#define SV_SIZE(s) ((s).n)
#define SV_AT(s, i) ((s).p[BL_IDX(i, (s).n)])
#define SV_AT_UNCHECKED(s, i) ((s).p[i])
#define BL_SV_LIT(lit) ((bl_sv){ (lit), sizeof(lit) - 1 })

/* std::string_view::substr(pos, count): throws std::out_of_range when pos > size() */
static inline bl_sv bl_sv_substr(bl_sv s, size_t pos, size_t count) {
  bl_sv r; r.p = s.p; r.n = 0;
  if (pos > s.n) { bl_throw_std(); return r; }
  r.p = s.p + pos; r.n = count < s.n - pos ? count : s.n - pos;
  return r;
}
/* std::string(1, c): one byte with value c (a slice into a constant 256-entry table) */
extern const char bl_char_tab[256];
static inline bl_sv bl_sv_char(size_t count, char c) {
  bl_sv r; r.p = &bl_char_tab[(unsigned char)c]; r.n = 1;
  BL_ASSERT(count == 1, "std::string(n, c) is lowered for n == 1 only");
  return r;
}
/* string_view::find(char, pos) / rfind(char) / std::count(begin, end, char).  In the unbounded
 * (modular) route these calls are replaced by the contracts below; the bounded route runs the bodies. */
#define BL_NPOS ((size_t)-1)
extern size_t g_fk;   /* ghost index for the "no earlier occurrence" clauses */
#if defined(NATIVE) || defined(BL_BOUNDED)
static inline size_t bl_sv_find_char(bl_sv s, char c, size_t pos) { for (size_t k = pos; k < s.n; k++) if (s.p[k] == c) return k; return BL_NPOS; }
static inline size_t bl_sv_rfind_char(bl_sv s, char c) { for (size_t k = s.n; k > 0; k--) if (s.p[k - 1] == c) return k - 1; return BL_NPOS; }
static inline size_t bl_sv_count_char(bl_sv s, char c) { size_t r = 0; for (size_t k = 0; k < s.n; k++) if (s.p[k] == c) r++; return r; }
#else
size_t bl_sv_find_char(bl_sv s, char c, size_t pos)
__CPROVER_assigns()
__CPROVER_ensures(__CPROVER_return_value == BL_NPOS || (__CPROVER_return_value >= pos && __CPROVER_return_value < s.n && s.p[__CPROVER_return_value] == c))
__CPROVER_ensures((g_fk >= pos && g_fk < s.n && g_fk < __CPROVER_return_value) ==> s.p[g_fk] != c)
;
size_t bl_sv_rfind_char(bl_sv s, char c)
__CPROVER_assigns()
__CPROVER_ensures(__CPROVER_return_value == BL_NPOS || (__CPROVER_return_value < s.n && s.p[__CPROVER_return_value] == c))
__CPROVER_ensures((g_fk < s.n && (__CPROVER_return_value == BL_NPOS || g_fk > __CPROVER_return_value)) ==> s.p[g_fk] != c)
;
size_t bl_sv_count_char(bl_sv s, char c)
__CPROVER_assigns()
__CPROVER_ensures(__CPROVER_return_value <= s.n)
__CPROVER_ensures((g_fk < s.n && s.p[g_fk] == c) ==> __CPROVER_return_value >= 1)
;
#endif

/* <cctype>, "C" locale, argument already converted to unsigned char by the caller */
static inline int bl_isdigit(int c) { return c >= '0' && c <= '9'; }
static inline int bl_isalpha(int c) { return (c >= 'a' && c <= 'z') || (c >= 'A' && c <= 'Z'); }
static inline int bl_isalnum(int c) { return bl_isdigit(c) || bl_isalpha(c); }
static inline int bl_isspace(int c) { return c == ' ' || (c >= '\t' && c <= '\r'); }

/* ghost record of the token stream: the last pushed token and the number of pushes */
extern Token bl_last_tok; extern size_t bl_tok_count;
static inline vec_Token vec_Token_make(void) {
  vec_Token v;
#ifdef NATIVE
  v.cap = 64; v.data = (Token *)malloc(v.cap * sizeof(Token));   /* grows on push; small, because a tokenize() that raises leaks it */
#else
  v.cap = 0; v.data = 0;
#endif
  v.size = 0; return v;
}
static inline void vec_Token_push(vec_Token *v, Token t) {
#ifdef NATIVE
  if (v->size >= v->cap) { v->cap *= 2; v->data = (Token *)realloc(v->data, v->cap * sizeof(Token)); }
#endif
  if (v->size < v->cap) v->data[v->size] = t;
  v->size++;
  bl_last_tok = t; bl_tok_count++;
}

/* unordered_map<string_view, TokenType>::find on the constant keyword table: returns the index
 * of the entry whose key equals `text`, or BL_KW_END.  Trusted library model (checked natively). */
size_t bl_kw_find(bl_sv text);
#endif
