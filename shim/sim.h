/* Shim for unit SIM (runtime/qasm_simulator.cpp): std::vector<complex>, vector<bool>,
 * vector<string> (append-only log), std::complex<double>, built strings as piece lists,
 * uniform_real_distribution draw.  Contracts of these entries are part of the trusted base. */
#ifndef BL_SIM_H
#define BL_SIM_H
#include "common.h"

typedef struct { double re, im; } cplx;
typedef struct { cplx *data; size_t size; } vec_cplx;
typedef struct { _Bool *data; size_t size; } vec_bool;
/* a built string: up to 6 pieces, each a literal (interned id), a decimal int, or a
 * std::to_string(double) rendering */
typedef struct { int kind; int lit; long ival; double dval; } bl_piece;
typedef struct { int n; bl_piece p[6]; } bl_str;
typedef struct { bl_str *data; size_t size; size_t cap; } vec_str;
typedef struct { double a, b; } bl_urd;
typedef struct { size_t n_appended; } bl_rope;   /* std::string used only as an append sink */

struct QasmSimulator { int m_qubits; vec_cplx m_state; vec_str m_ops; _Bool m_logOps; vec_bool m_measured; };

#define BL_LIT(id) ((bl_piece){0, (id), 0, 0.0})
#define BL_I2S(i) ((bl_piece){1, 0, (long)(i), 0.0})
#define BL_D2S(d) ((bl_piece){2, 0, 0, (d)})
static inline bl_str bl_cat1(bl_piece a) { bl_str s = {0}; s.n = 1; s.p[0] = a; return s; }
static inline bl_str bl_cat3(bl_piece a, bl_piece b, bl_piece c) { bl_str s = {0}; s.n = 3; s.p[0] = a; s.p[1] = b; s.p[2] = c; return s; }
static inline bl_str bl_cat5(bl_piece a, bl_piece b, bl_piece c, bl_piece d, bl_piece e) { bl_str s = {0}; s.n = 5; s.p[0] = a; s.p[1] = b; s.p[2] = c; s.p[3] = d; s.p[4] = e; return s; }

/* ghost record of the log: the last pushed entry and the number of pushes */
extern bl_str bl_last_push;
extern size_t bl_push_count;
static inline void vec_str_push(vec_str *v, bl_str s) {
  if (v->size < v->cap) v->data[v->size] = s;
  v->size++;
  bl_last_push = s; bl_push_count++;
}

/* ghost record of an append sink: the g_app_k-th appended item */
extern size_t g_app_k; extern bl_str g_app_item;
static inline bl_rope bl_rope_make(void) { bl_rope r; r.n_appended = 0; return r; }
static inline void bl_rope_append(bl_rope *r, bl_str s) { if (r->n_appended == g_app_k) g_app_item = s; r->n_appended++; }

#ifdef UF
cplx __CPROVER_uninterpreted_c_mul(cplx, cplx); cplx __CPROVER_uninterpreted_c_add(cplx, cplx);
cplx __CPROVER_uninterpreted_c_scale(cplx, double); cplx __CPROVER_uninterpreted_c_divd(cplx, double);
double __CPROVER_uninterpreted_c_norm(cplx); cplx __CPROVER_uninterpreted_c_exp(cplx);
double __CPROVER_uninterpreted_d_add(double, double); double __CPROVER_uninterpreted_d_sub(double, double);
double __CPROVER_uninterpreted_d_mul(double, double); double __CPROVER_uninterpreted_d_div(double, double);
double __CPROVER_uninterpreted_d_neg(double); _Bool __CPROVER_uninterpreted_d_lt(double, double);
_Bool __CPROVER_uninterpreted_d_eq(double, double);
double __CPROVER_uninterpreted_sqrt(double); double __CPROVER_uninterpreted_cos(double); double __CPROVER_uninterpreted_sin(double);
size_t __CPROVER_uninterpreted_str_size(bl_str);
_Bool __CPROVER_uninterpreted_c_eq(cplx, cplx); _Bool __CPROVER_uninterpreted_c_eqd(cplx, double); cplx __CPROVER_uninterpreted_c_sub(cplx, cplx);
double __CPROVER_uninterpreted_c_abs(cplx); double __CPROVER_uninterpreted_d_abs(double);
#define c_eq __CPROVER_uninterpreted_c_eq
#define c_eqd __CPROVER_uninterpreted_c_eqd
#define c_sub __CPROVER_uninterpreted_c_sub
#define c_abs __CPROVER_uninterpreted_c_abs
#define D_ABS __CPROVER_uninterpreted_d_abs
#define c_mul __CPROVER_uninterpreted_c_mul
#define c_add __CPROVER_uninterpreted_c_add
#define c_scale __CPROVER_uninterpreted_c_scale
#define c_divd __CPROVER_uninterpreted_c_divd
#define c_norm __CPROVER_uninterpreted_c_norm
#define c_exp __CPROVER_uninterpreted_c_exp
#define D_ADD __CPROVER_uninterpreted_d_add
#define D_SUB __CPROVER_uninterpreted_d_sub
#define D_MUL __CPROVER_uninterpreted_d_mul
#define D_DIV __CPROVER_uninterpreted_d_div
#define D_NEG __CPROVER_uninterpreted_d_neg
#define D_LT __CPROVER_uninterpreted_d_lt
#define D_EQ __CPROVER_uninterpreted_d_eq
#define D_GT(a, b) D_LT(b, a)
#define BL_SQRT __CPROVER_uninterpreted_sqrt
#define BL_COS __CPROVER_uninterpreted_cos
#define BL_SIN __CPROVER_uninterpreted_sin
#define bl_str_size __CPROVER_uninterpreted_str_size
#else
static inline cplx c_mul(cplx a, cplx b) { cplx r = { a.re * b.re - a.im * b.im, a.re * b.im + a.im * b.re }; return r; }
static inline cplx c_add(cplx a, cplx b) { cplx r = { a.re + b.re, a.im + b.im }; return r; }
static inline cplx c_scale(cplx a, double d) { cplx r = { a.re * d, a.im * d }; return r; }
static inline cplx c_divd(cplx a, double d) { cplx r = { a.re / d, a.im / d }; return r; }
static inline double c_norm(cplx a) { return a.re * a.re + a.im * a.im; }
static inline _Bool c_eq(cplx a, cplx b) { return a.re == b.re && a.im == b.im; }
static inline _Bool c_eqd(cplx a, double d) { return a.re == d && a.im == 0.0; }
static inline cplx c_sub(cplx a, cplx b) { cplx r = { a.re - b.re, a.im - b.im }; return r; }
double hypot(double, double); double fabs(double);
static inline double c_abs(cplx a) { return hypot(a.re, a.im); }
#define D_ABS fabs
#define D_ADD(a, b) ((a) + (b))
#define D_SUB(a, b) ((a) - (b))
#define D_MUL(a, b) ((a) * (b))
#define D_DIV(a, b) ((a) / (b))
#define D_NEG(a) (-(a))
#define D_LT(a, b) ((a) < (b))
#define D_GT(a, b) ((a) > (b))
#define D_EQ(a, b) ((a) == (b))
#ifdef NATIVE
static inline cplx c_exp(cplx a) { double e = exp(a.re); cplx r = { e * cos(a.im), e * sin(a.im) }; return r; }
#define BL_SQRT sqrt
#define BL_COS cos
#define BL_SIN sin
size_t bl_str_size(bl_str s);
#else
double sqrt(double); double cos(double); double sin(double); double exp(double);
static inline cplx c_exp(cplx a) { double e = exp(a.re); cplx r = { e * cos(a.im), e * sin(a.im) }; return r; }
#define BL_SQRT sqrt
#define BL_COS cos
#define BL_SIN sin
size_t bl_str_size(bl_str s);
#endif
#endif

static inline cplx c_make(double re, double im) { cplx r; r.re = re; r.im = im; return r; }
static inline void c_swap(cplx *a, cplx *b) { cplx t = *a; *a = *b; *b = t; }
/* std::vector<cplx>(n): value-initialised storage; allocator failure is not modelled */
static inline vec_cplx vec_cplx_make(size_t n) {
  vec_cplx v; v.data = (cplx *)malloc((n ? n : 1) * sizeof(cplx)); v.size = n;
#ifdef NATIVE
  for (size_t i = 0; i < n; i++) { v.data[i].re = 0; v.data[i].im = 0; }
#else
  /* over-approximation: contents are arbitrary except at one arbitrary (ghost) position, which
   * is value-initialised; a contract about "every position" instantiates the ghost position */
  extern size_t g_mk_k;
  if (g_mk_k < n) { v.data[g_mk_k].re = 0.0; v.data[g_mk_k].im = 0.0; }
#endif
  return v;
}
static inline void vec_cplx_swap(vec_cplx *a, vec_cplx *b) { vec_cplx t = *a; *a = *b; *b = t; }
static inline void vec_bool_resize(vec_bool *v, size_t n, _Bool val) {
  _Bool *d = (_Bool *)malloc(n ? n : 1);
#ifdef NATIVE
  for (size_t i = 0; i < n; i++) d[i] = i < v->size ? v->data[i] : val;
#else
  /* over-approximation: arbitrary contents except at one arbitrary (ghost) position, which
   * keeps its old value below the old size and is `val` above, and at the last new position */
  extern size_t g_rs_k;
  if (n > v->size) d[n - 1] = val;   /* the last new position (exact) */
  if (g_rs_k < n) d[g_rs_k] = g_rs_k < v->size ? v->data[g_rs_k] : val;
#endif
  v->data = d; v->size = n;
}
static inline bl_urd bl_urd_make(double a, double b) { bl_urd d = {a, b}; return d; }
/* one draw from uniform_real_distribution(0,1) on the file-static mt19937: the value is the
 * harness-chosen bl_next_draw in [0,1); bl_draw_count counts draws */
extern double bl_next_draw; extern int bl_draw_count; typedef int bl_rng_t; extern bl_rng_t bl_rng;
static inline double bl_urd_draw(bl_urd *d, bl_rng_t *g) { (void)d; (void)g; bl_draw_count++; return bl_next_draw; }

#endif
