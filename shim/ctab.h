/* Shim for unit CTAB (order of class-table population): a class declaration, its name and its run-time class are one small integer. */
#ifndef BL_CTAB_H
#define BL_CTAB_H
#include "common.h"
#ifndef KNC
#define KNC 6
#endif
#define BL_NAME_OBJECT (KNC - 1)
typedef int bl_cd; typedef int bl_named; typedef int bl_rc; typedef int bl_cname; typedef int bl_type; typedef int bl_program;
#endif
