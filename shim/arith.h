/* Shim for unit ARITH (regions of RuntimeEvaluator::eval): strings as slices, std::vector<int>
 * (bit arrays), std::stoi/stoll/stof, opaque string producers. */
#ifndef BL_ARITH_H
#define BL_ARITH_H
#include "common.h"
#ifndef AMAX
#define AMAX 64
#endif
typedef struct { const char *p; size_t n; } bl_sv;
typedef struct { int *data; size_t size; size_t cap; } vec_int;
#define BL_SV_LIT(lit) ((bl_sv){ (lit), sizeof(lit) - 1 })
#define SV_SIZE(s) ((s).n)
#define SV_AT(s, i) ((s).p[BL_IDX(i, (s).n)])

/* std::string::substr(pos, count): throws std::out_of_range when pos > size() */
static inline bl_sv bl_sv_substr(bl_sv s, size_t pos, size_t count) {
  bl_sv r; r.p = s.p; r.n = 0;
  if (pos > s.n) { bl_throw_std(); return r; }
  r.p = s.p + pos; r.n = count < s.n - pos ? count : s.n - pos;
  return r;
}
static inline char bl_sv_back(bl_sv s) { bl_bounds(s.n > 0); return s.p[s.n - 1]; }
static inline void bl_sv_pop_back(bl_sv *s) { bl_bounds(s->n > 0); s->n = s->n - 1; }

/* v.resize(n) on a fresh (empty) std::vector<int>: n value-initialised elements.  Storage is a fresh block of
 * AMAX elements (object-size bound); VERIF: contents arbitrary except at one ghost position (zero) */
extern size_t g_rs_k;
static inline void vec_int_resize0(vec_int *v, size_t n) {
  bl_trap(n <= AMAX, "array bound AMAX reached");
  v->data = (int *)malloc(AMAX * sizeof(int)); v->cap = AMAX; v->size = n;
#ifdef NATIVE
  for (size_t i = 0; i < n; i++) v->data[i] = 0;
#else
  if (g_rs_k < n) v->data[g_rs_k] = 0;
#endif
}

/* double arithmetic: uninterpreted in UF mode (code and specification are built from the same symbols;
 * equality is bitwise), native otherwise */
#if defined(UF) && !defined(NATIVE)
double __CPROVER_uninterpreted_d_add(double, double); double __CPROVER_uninterpreted_d_sub(double, double);
double __CPROVER_uninterpreted_d_mul(double, double); double __CPROVER_uninterpreted_d_div(double, double);
double __CPROVER_uninterpreted_d_neg(double); _Bool __CPROVER_uninterpreted_d_lt(double, double); _Bool __CPROVER_uninterpreted_d_le(double, double);
_Bool __CPROVER_uninterpreted_d_eq(double, double);
#define D_ADD __CPROVER_uninterpreted_d_add
#define D_SUB __CPROVER_uninterpreted_d_sub
#define D_MUL __CPROVER_uninterpreted_d_mul
#define D_DIV __CPROVER_uninterpreted_d_div
#define D_NEG __CPROVER_uninterpreted_d_neg
#define D_LT __CPROVER_uninterpreted_d_lt
#define D_LE __CPROVER_uninterpreted_d_le
#define D_EQ __CPROVER_uninterpreted_d_eq
#define D_GT(a, b) D_LT(b, a)
#define D_GE(a, b) D_LE(b, a)
#define D_NE(a, b) (!D_EQ(a, b))
#else
#define D_ADD(a, b) ((a) + (b))
#define D_SUB(a, b) ((a) - (b))
#define D_MUL(a, b) ((a) * (b))
#define D_DIV(a, b) ((a) / (b))
#define D_NEG(a) (-(a))
#define D_LT(a, b) ((a) < (b))
#define D_LE(a, b) ((a) <= (b))
#define D_GT(a, b) ((a) > (b))
#define D_GE(a, b) ((a) >= (b))
#define D_EQ(a, b) ((a) == (b))
#define D_NE(a, b) ((a) != (b))
#endif

/* numeric conversions of literal text.  std::stoi / std::stoll / std::stof throw std::out_of_range or
 * std::invalid_argument (raw C++ exceptions).  Model: the value and the failure are uninterpreted functions
 * of the text; text of at most 9 characters that starts with a digit never fails for stoi. */
#ifdef NATIVE
int bl_stoi(bl_sv s); long bl_stoll(bl_sv s); float bl_stof(bl_sv s);
#else
int __CPROVER_uninterpreted_stoi_value(const char *, size_t); _Bool __CPROVER_uninterpreted_stoi_fails(const char *, size_t);
long __CPROVER_uninterpreted_stoll_value(const char *, size_t); _Bool __CPROVER_uninterpreted_stoll_fails(const char *, size_t);
float __CPROVER_uninterpreted_stof_value(const char *, size_t); _Bool __CPROVER_uninterpreted_stof_fails(const char *, size_t);
static inline int bl_stoi(bl_sv s) {
  if (!(s.n >= 1 && s.n <= 9 && s.p[0] >= '0' && s.p[0] <= '9') && __CPROVER_uninterpreted_stoi_fails(s.p, s.n)) { bl_throw_std(); return 0; }
  return __CPROVER_uninterpreted_stoi_value(s.p, s.n);
}
static inline long bl_stoll(bl_sv s) {
  if (!(s.n >= 1 && s.n <= 18 && s.p[0] >= '0' && s.p[0] <= '9') && __CPROVER_uninterpreted_stoll_fails(s.p, s.n)) { bl_throw_std(); return 0; }
  return __CPROVER_uninterpreted_stoll_value(s.p, s.n);
}
static inline float bl_stof(bl_sv s) {
  if (__CPROVER_uninterpreted_stof_fails(s.p, s.n)) { bl_throw_std(); return 0; }
  return __CPROVER_uninterpreted_stof_value(s.p, s.n);
}
#endif
#endif
