/* Common part of the C shim library the lowered text is compiled against (DESIGN.md §2.2).
 * VERIF  : compiled by goto-cc for CBMC (contracts active, ghost code active)
 * NATIVE : compiled by gcc for co-execution with the real C++ (contracts and ghost code vanish)
 * UF     : floating-point / complex operations are uninterpreted functions (DESIGN.md §2.3)
 */
#ifndef BL_COMMON_H
#define BL_COMMON_H
#include <stddef.h>
#include <stdint.h>
#include <limits.h>

#ifdef NATIVE
#include <stdlib.h>
#include <string.h>
#include <stdio.h>
#include <math.h>
#define __CPROVER_requires(...)
#define __CPROVER_ensures(...)
#define __CPROVER_assigns(...)
#define __CPROVER_loop_invariant(...)
#define __CPROVER_decreases(...)
#define GHOST(...)
#define BL_ASSERT(c, msg) do { if (!(c)) { fprintf(stderr, "NATIVE-ASSERT %s\n", msg); abort(); } } while (0)
#define bl_bounds(c) ((c) ? (void)0 : (fprintf(stderr, "NATIVE-ASSERT index in bounds\n"), abort()))
#define bl_trap(c, msg) ((c) ? (void)0 : (fprintf(stderr, "NATIVE-ASSERT %s\n", msg), abort()))
#else
void *malloc(size_t);
#define GHOST(...) __VA_ARGS__
#define BL_ASSERT(c, msg) __CPROVER_assert(c, msg)
#define bl_bounds(c) __CPROVER_assert(c, "index in bounds")
#define bl_trap(c, msg) __CPROVER_assert(c, msg)
#endif

#ifndef NMAX
#define NMAX 20
#endif

/* exception state: 0 = none, cat+1 = BlochError(cat), BL_EXC_STD = a raw C++ exception */
enum { BL_Lexical = 0, BL_Parse = 1, BL_Semantic = 2, BL_Runtime = 3, BL_Generic = 4 };
#define BL_EXC(cat) ((cat) + 1)
#define BL_EXC_STD 99
/* dynamic type of a raw standard exception, recorded (in the units that need it) by the model that raises it */
enum { BL_STD_ANY = 0, BL_STD_INVALID_ARGUMENT = 1, BL_STD_OUT_OF_RANGE = 2 };
extern int bl_exc, bl_exc_line, bl_exc_col;
static inline void bl_throw(int c, int l, int col) { bl_exc = BL_EXC(c); bl_exc_line = l; bl_exc_col = col; }
static inline void bl_throw_std(void) { bl_exc = BL_EXC_STD; bl_exc_line = 0; bl_exc_col = 0; }

/* evaluates its index exactly once (the index expression may have side effects, e.g. m_position++) */
static inline size_t bl_idx(size_t i, size_t n) { bl_bounds(i < n); return i; }
#define BL_IDX(i, n) bl_idx((size_t)(i), (size_t)(n))
#define VEC_SIZE(v) ((v).size)
#define VEC_AT(v, i) ((v).data[BL_IDX(i, (v).size)])
#define BL_NULL 0
#define BL_MIN(a, b) ((a) < (b) ? (a) : (b))
#define BL_MAX(a, b) ((a) < (b) ? (b) : (a))

/* signed division / remainder / negation: the hardware traps on MIN / -1 (and on 0) */
#define BL_TMIN_int INT_MIN
#define BL_TMIN_long LONG_MIN
#define BL_TMIN_long_long LLONG_MIN
/* UFI: the VALUE of integer * / % is an uninterpreted function of the operands (SAT cannot relate two 64-bit
 * multipliers or dividers in reasonable time); the no-trap obligations stay bit-precise */
#if defined(UFI) && !defined(NATIVE)
long __CPROVER_uninterpreted_imul(long, long); long __CPROVER_uninterpreted_idiv(long, long); long __CPROVER_uninterpreted_imod(long, long);
#define BL_IMUL_V(T, a, b) ((T)__CPROVER_uninterpreted_imul((long)(a), (long)(b)))
#define BL_IDIV_V(T, a, b) ((T)__CPROVER_uninterpreted_idiv((long)(a), (long)(b)))
#define BL_IMOD_V(T, a, b) ((T)__CPROVER_uninterpreted_imod((long)(a), (long)(b)))
#else
#define BL_IMUL_V(T, a, b) ((a) * (b))
#define BL_IDIV_V(T, a, b) ((a) / (b))
#define BL_IMOD_V(T, a, b) ((a) % (b))
#endif
typedef long long long_long;
#define BL_IMUL(T, a, b) BL_IMUL_V(T, a, b)
#define BL_SDIV(T, a, b) (bl_trap((b) != 0, "no_trap: division by zero"), bl_trap(!((a) == BL_TMIN_##T && (b) == -1), "no_trap: MIN / -1"), BL_IDIV_V(T, a, b))
#define BL_SMOD(T, a, b) (bl_trap((b) != 0, "no_trap: modulo by zero"), bl_trap(!((a) == BL_TMIN_##T && (b) == -1), "no_trap: MIN % -1"), BL_IMOD_V(T, a, b))
#define BL_INEG(T, a) (-(a))

#endif
