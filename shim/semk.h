/* Shim for unit SEMK (semantic analyser type-compatibility kernel): class / array type names are
 * interned identities (0 = the empty name); the text of a name is reachable only through two
 * uninterpreted functions (its size and the position of the last "[]"). */
#ifndef BL_SEMK_H
#define BL_SEMK_H
#include "common.h"
typedef int bl_cname;
#ifdef NATIVE
size_t bl_name_size(bl_cname n); size_t bl_name_rfind_brackets(bl_cname n);
#else
size_t __CPROVER_uninterpreted_name_size(bl_cname); size_t __CPROVER_uninterpreted_name_rfind_brackets(bl_cname);
#define bl_name_size __CPROVER_uninterpreted_name_size
#define bl_name_rfind_brackets __CPROVER_uninterpreted_name_rfind_brackets
#endif
#endif
