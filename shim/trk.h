/* Shim for unit TRK (@tracked outcome recording): std::vector<int>, and std::string as
 * (literal id) + (interned name) + (at most AMAX built characters). */
#ifndef BL_TRK_H
#define BL_TRK_H
#include "common.h"
#ifndef AMAX
#define AMAX 8
#endif
#ifndef EMAX
#define EMAX 8
#endif
#ifndef VCAP
#define VCAP 24
#endif
/* std::vector<int> with inline storage of VCAP elements (object-size bound): no pointer indirection */
typedef struct { int data[VCAP]; size_t size; } vec_int;
typedef struct { int lit; int name; size_t n; char c[AMAX]; } bl_str;
static inline bl_str bl_str_lit(int id) { bl_str s; s.lit = id; s.name = 0; s.n = 0; return s; }
/* literal + name only; any other shape is outside the string model */
static inline bl_str bl_str_concat(bl_str a, bl_str b) {
  bl_trap(a.name == 0 && a.n == 0 && b.lit == 0 && b.n == 0, "string concatenation outside the model (literal + name)");
  bl_str s = a; s.name = b.name; return s;
}
static inline void bl_str_push_back(bl_str *s, char ch) {
  bl_trap(s->lit == 0 && s->name == 0, "push_back on a string that is not a pure character buffer");
  bl_trap(s->n < AMAX, "array bound AMAX reached");
  s->c[s->n] = ch; s->n = s->n + 1;
}
#endif
