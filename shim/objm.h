/* Shim for unit OBJM (object-model regions of the evaluator): classes are indices into a small class
 * table (0 = null), heap objects / declarations / bodies / statements are opaque identities. */
#ifndef BL_OBJM_H
#define BL_OBJM_H
#include "common.h"
#ifndef CMAX
#define CMAX 8
#endif
typedef struct { int cls; size_t off; _Bool nonnull; } bl_fptr; typedef long bl_sfit;
typedef struct { bl_fptr first; int second; } pair_fc;
typedef int bl_cname; typedef long bl_objid; typedef int bl_clsid; typedef int bl_decl; typedef int bl_body; typedef int bl_stmt; typedef int bl_stmts; typedef int bl_mth; typedef int bl_argsref;
#define BL_NAME_THIS 1
#endif
