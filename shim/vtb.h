/* Shim for unit VTB (method buckets and vtable of a run-time class). */
#ifndef BL_VTB_H
#define BL_VTB_H
#include "common.h"
#ifndef KNV
#define KNV 4
#endif
#ifndef BMAXV
#define BMAXV 3
#endif
#ifndef MMAXV
#define MMAXV 6
#endif
typedef int bl_member; typedef int bl_rc; typedef int bl_cname; typedef int bl_bucket; typedef int bl_bit;
enum { K_FIELD = 1, K_METHOD = 2, K_CTOR = 3, K_DTOR = 4 };
typedef struct { bl_member decl; _Bool isStatic, isVirtual, isOverride; int signature; bl_rc owner; } RuntimeMethod;
typedef struct { int bucket; size_t idx; unsigned gen; _Bool nonnull; _Bool in_base; } bl_mptr;
#endif
