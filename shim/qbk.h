/* Shim for unit QBK (qubit bookkeeping of RuntimeEvaluator): std::vector<int>,
 * std::vector<QubitInfo>, std::string (as a slice: only emptiness / assignment matter), and the
 * simulator seen through the contracts proved in unit SIM (ghost flag array + qubit count). */
#ifndef BL_QBK_H
#define BL_QBK_H
#include "common.h"
#ifndef NQMAX
#define NQMAX 24
#endif
typedef struct { const char *p; size_t n; } bl_sv;
typedef struct { bl_sv name; _Bool measured; } QubitInfo;
typedef struct { int *data; size_t size; size_t cap; } vec_int;
typedef struct { QubitInfo *data; size_t size; size_t cap; } vec_QubitInfo;
#define BL_SV_LIT(lit) ((bl_sv){ (lit), sizeof(lit) - 1 })

/* storage has a fixed capacity (object-size bound NQMAX); growing beyond it is reported, not modelled */
extern size_t g_rs_k;   /* ghost position used by the resize over-approximations */
static inline int vec_int_back(vec_int *v) { bl_bounds(v->size > 0); return v->data[v->size - 1]; }
static inline int vec_int_front(vec_int *v) { bl_bounds(v->size > 0); return v->data[0]; }
static inline void vec_int_pop_back(vec_int *v) { bl_bounds(v->size > 0); v->size--; }
static inline void vec_int_push_back(vec_int *v, int x) { bl_trap(v->size < v->cap, "capacity bound NQMAX reached"); v->data[v->size] = x; v->size++; }
static inline void vec_QubitInfo_push_back(vec_QubitInfo *v, QubitInfo q) { bl_trap(v->size < v->cap, "capacity bound NQMAX reached"); v->data[v->size] = q; v->size++; }
/* resize(n [, val]): positions below the old size keep their value; new positions are value-initialised /
 * `val`.  VERIF: exact at the last new position and at one arbitrary (ghost) position, arbitrary elsewhere. */
static inline void vec_int_resize(vec_int *v, size_t n, int val) {
  bl_trap(n <= v->cap, "capacity bound NQMAX reached");
#ifdef NATIVE
  for (size_t i = v->size; i < n; i++) v->data[i] = val;
#else
  if (n > v->size) { v->data[n - 1] = val; if (g_rs_k >= v->size && g_rs_k < n) v->data[g_rs_k] = val; }
#endif
  v->size = n;
}
static inline void vec_QubitInfo_resize(vec_QubitInfo *v, size_t n) {
  bl_trap(n <= v->cap, "capacity bound NQMAX reached");
  QubitInfo z; z.name.p = ""; z.name.n = 0; z.measured = 0;
#ifdef NATIVE
  for (size_t i = v->size; i < n; i++) v->data[i] = z;
#else
  if (n > v->size) { v->data[n - 1] = z; if (g_rs_k >= v->size && g_rs_k < n) v->data[g_rs_k] = z; }
#endif
  v->size = n;
}
/* std::find(v.begin(), v.end(), x) != v.end() */
#if defined(NATIVE) || defined(BL_BOUNDED)
static inline _Bool vec_int_contains(vec_int *v, int x) { for (size_t i = 0; i < v->size; i++) if (v->data[i] == x) return 1; return 0; }
#else
extern size_t g_fk, g_fk2;   /* two arbitrary positions: "found" is implied by a match at either */
_Bool vec_int_contains(vec_int *v, int x)
__CPROVER_assigns()
__CPROVER_ensures((g_fk < v->size && v->data[g_fk] == x) ==> __CPROVER_return_value)
__CPROVER_ensures((g_fk2 < v->size && v->data[g_fk2] == x) ==> __CPROVER_return_value)
__CPROVER_ensures(__CPROVER_return_value ==> v->size > 0)
;
#endif
#endif
