/* Shim for unit CYC (inheritance-cycle walk): class names are small integers, a class is the table
 * row with the index of its name. */
#ifndef BL_CYC_H
#define BL_CYC_H
#include "common.h"
#ifndef KNAMES
#define KNAMES 8
#endif
typedef int bl_cname; typedef int bl_cls;
#endif
