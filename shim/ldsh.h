/* Shim for unit LDSH (main / @shots extraction of the module loader): names and annotation values
 * are interned texts {id, length}; the merged function list is an array of rows. */
#ifndef BL_LDSH_H
#define BL_LDSH_H
#include "common.h"
#ifndef FMAX
#define FMAX 6
#endif
#ifndef ANMAX
#define ANMAX 3
#endif
typedef struct { int id; size_t n; } bl_txt;
typedef struct { _Bool first; int second; } pair_bool_int;
typedef size_t bl_fnref; typedef size_t bl_annref; typedef int bl_fns; typedef int bl_anns; typedef int bl_prog;
static inline bl_txt bl_txt_lit(int id) { bl_txt t; t.id = id; t.n = 0; return t; }
#define BL_ANNREF(row, i) ((row) * ANMAX + (i))
#endif
