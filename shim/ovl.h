/* Shim for unit OVL (run-time overload resolution of RuntimeEvaluator): class names as interned
 * identities, std::vector<T> as {data,size}, std::optional<int>, shared_ptr<Object> as a plain pointer. */
#ifndef BL_OVL_H
#define BL_OVL_H
#include "common.h"
#ifndef PMAX
#define PMAX 8
#endif
typedef int bl_cname;
#endif
