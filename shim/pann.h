/* Shim for unit PANN (parser cursor + annotation prefix): tokens with interned texts, the token
 * vector with inline storage, annotation nodes as values. */
#ifndef BL_PANN_H
#define BL_PANN_H
#include "common.h"
#ifndef TMAXP
#define TMAXP 8
#endif
#ifndef ANN_MAX
#define ANN_MAX 4
#endif
typedef struct { int id; } bl_txt;
typedef struct { int type; bl_txt value; int line; int column; } Token;
typedef struct { Token data[TMAXP]; size_t size; } vec_Token;
typedef struct { bl_txt name; bl_txt value; _Bool isVariableAnnotation; _Bool isFunctionAnnotation; } AnnotationNode;
typedef struct { AnnotationNode data[ANN_MAX]; size_t size; } vec_Ann;
struct Parser { vec_Token m_tokens; size_t m_current; };
static inline bl_txt bl_txt_lit(int id) { bl_txt t; t.id = id; return t; }
static inline Token bl_token_default(void) { Token t; t.type = 0; t.value.id = 0; t.line = 0; t.column = 0; return t; }
static inline AnnotationNode bl_ann_default(void) { AnnotationNode a; a.name.id = 0; a.value.id = 0; a.isVariableAnnotation = 0; a.isFunctionAnnotation = 0; return a; }
static inline void vec_Ann_push_back(vec_Ann *v, AnnotationNode a) { bl_trap(v->size < ANN_MAX, "annotation bound ANN_MAX reached"); v->data[v->size] = a; v->size = v->size + 1; }
#endif
