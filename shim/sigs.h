/* Shim for unit SIGS (pre-declaration of functions in SemanticAnalyser::analyse): the program's
 * function list is a vector of records {name, line, column, nparams}; names and AST types are interned ids. */
#ifndef BL_SIGS_H
#define BL_SIGS_H
#include "common.h"
#ifndef FMAX
#define FMAX 32
#endif
typedef int bl_cname;
typedef struct { int type; } Parameter;
/* a parameter list: its length and an identity; the elements are an uninterpreted function of (identity, index) */
typedef struct { long id; size_t size; } vec_Param;
typedef struct { bl_cname name; int line; int column; int returnType; vec_Param params; } FunctionDeclaration;
typedef struct { FunctionDeclaration *data; size_t size; } vec_Fn;
typedef struct { int id; } TypeInfo;
typedef struct { size_t size; int last; } vec_TI;      /* std::vector<TypeInfo>: element count (+ ghost last element) */
typedef struct { TypeInfo returnType; vec_TI paramTypes; } FunctionInfo;
typedef struct { vec_Fn functions; } Program;
#endif
