/* Shim for unit NEST (statement visitors of the semantic analyser): AST children are opaque ids, the node a value. */
#ifndef BL_NEST_H
#define BL_NEST_H
#include "common.h"
#ifndef SMAXN
#define SMAXN 8
#endif
typedef int bl_ast; typedef int bl_tinfo; typedef int bl_self;
typedef struct { bl_ast data[SMAXN]; size_t size; } bl_stmts;
typedef struct { bl_ast initializer, condition, increment, body, thenBranch, elseBranch; bl_stmts statements; int line, column; } bl_node;
#endif
