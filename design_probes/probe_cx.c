#include <stddef.h>
#include <stdint.h>
typedef struct { double re, im; } cplx;
#define CEQ(a,b) __CPROVER_equal(a,b)
struct sim { int m_qubits; cplx *m_state; size_t m_state_size; };
#ifndef NMAX
#define NMAX 20
#endif
size_t gk; cplx g_e0, g_e1; /* ghost: gk has control/target bits both 0-> we track the control=1 pair */
#define LOWB ((size_t)1 << low)
#define HIGHB ((size_t)1 << high)
#define CB ((size_t)1 << control)
#define TB ((size_t)1 << target)
/* ghost gk: arbitrary index with control bit = 1 and target bit = 0 ; partner = gk | TB */
void cx(struct sim *self, int control, int target)
__CPROVER_requires(__CPROVER_is_fresh(self, sizeof(*self)))
__CPROVER_requires(self->m_qubits >= 2 && self->m_qubits <= NMAX && control >= 0 && control < self->m_qubits && target >= 0 && target < self->m_qubits && control != target)
__CPROVER_requires(self->m_state_size == ((size_t)1 << self->m_qubits))
__CPROVER_requires(__CPROVER_is_fresh(self->m_state, self->m_state_size * sizeof(cplx)))
__CPROVER_requires(gk < self->m_state_size && (gk & CB) != 0 && (gk & TB) == 0)
__CPROVER_assigns(__CPROVER_object_whole(self->m_state), g_e0, g_e1)
__CPROVER_ensures(CEQ(self->m_state[gk], g_e1) && CEQ(self->m_state[gk | TB], g_e0))
__CPROVER_ensures(CEQ(g_e0, __CPROVER_old(self->m_state[gk])) && CEQ(g_e1, __CPROVER_old(self->m_state[gk | TB])))
{
  g_e0 = self->m_state[gk]; g_e1 = self->m_state[gk | TB];
  cplx *st = self->m_state; size_t size = self->m_state_size;
  int low = control < target ? control : target;
  int high = control < target ? target : control;
  size_t lowBit = (size_t)1 << low;
  size_t highBit = (size_t)1 << high;
  size_t blockSize = (size_t)1 << (high + 1);
  size_t lowSpan = lowBit;
  size_t betweenSpan = (high > low + 1) ? ((size_t)1 << (high - low - 1)) : (size_t)1;
  _Bool controlIsLow = control == low;
  size_t gbase = gk & ~(lowBit | highBit);
  for (size_t block = 0; block < size; block += blockSize)
    __CPROVER_assigns(block, __CPROVER_object_whole(st))
    __CPROVER_loop_invariant(block <= size && (block & (blockSize - 1)) == 0)
    __CPROVER_loop_invariant(gbase < block ? (CEQ(st[gk], g_e1) && CEQ(st[gk|TB], g_e0)) : (CEQ(st[gk], g_e0) && CEQ(st[gk|TB], g_e1)))
    __CPROVER_decreases(size - block)
  {
    for (size_t between = 0; between < betweenSpan; ++between)
      __CPROVER_assigns(between, __CPROVER_object_whole(st))
      __CPROVER_loop_invariant(between <= betweenSpan)
      __CPROVER_loop_invariant(gbase < (block | (between << (low+1))) ? (CEQ(st[gk], g_e1) && CEQ(st[gk|TB], g_e0)) : (CEQ(st[gk], g_e0) && CEQ(st[gk|TB], g_e1)))
      __CPROVER_decreases(betweenSpan - between)
    {
      size_t mid = between << (low + 1);
      for (size_t lowOffset = 0; lowOffset < lowSpan; ++lowOffset)
        __CPROVER_assigns(lowOffset, __CPROVER_object_whole(st))
        __CPROVER_loop_invariant(lowOffset <= lowSpan)
        __CPROVER_loop_invariant(gbase < (block | mid | lowOffset) || (lowOffset == lowSpan && gbase < (block | mid) + lowSpan) ? (CEQ(st[gk], g_e1) && CEQ(st[gk|TB], g_e0)) : (CEQ(st[gk], g_e0) && CEQ(st[gk|TB], g_e1)))
        __CPROVER_decreases(lowSpan - lowOffset)
      {
        size_t base = block | mid | lowOffset;
        size_t idx0 = controlIsLow ? (base | lowBit) : (base | highBit);
        size_t idx1 = controlIsLow ? (idx0 | highBit) : (idx0 | lowBit);
        cplx t = st[idx0]; st[idx0] = st[idx1]; st[idx1] = t;
      }
    }
  }
}
void h_cx(void){ struct sim *s; int c,t; cx(s,c,t); }
