import json,sys
def load(path):
    s=open(path).read(); dec=json.JSONDecoder(); docs=[]; i=0
    while i<len(s):
        while i<len(s) and s[i] in ' \n\r\t': i+=1
        if i>=len(s): break
        if s[i]!='{':
            j=s.find('\n',i); i=j+1 if j>=0 else len(s); continue
        d,j=dec.raw_decode(s,i); docs.append(d); i=j
    return docs
def show(n,ind=0,maxd=99):
    if ind>maxd: return
    extra={k:n[k] for k in ('name','opcode','value','castKind','isPostfix','isArrow') if k in n}
    t=n.get('type',{}).get('qualType'); dt=n.get('type',{}).get('desugaredQualType')
    ref=n.get('referencedDecl',{}).get('name')
    print(' '*ind+str(n.get('kind','?')),extra,'T=',t,('DT='+dt) if dt else '', ('REF='+ref) if ref else '')
    for k in n.get('inner',[]): show(k,ind+1,maxd)
if __name__=='__main__':
    docs=load(sys.argv[1]); name=sys.argv[2]; maxd=int(sys.argv[3]) if len(sys.argv)>3 else 99
    for d in docs:
        if d.get('name')==name and any(k.get('kind')=='CompoundStmt' for k in d.get('inner',[])):
            show(d,0,maxd)
