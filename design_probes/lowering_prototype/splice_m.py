src=open('sim_lowered.c').read()
fn='QasmSimulator_measure'
BIT='((size_t)1 << q)'
contract='''__CPROVER_requires(__CPROVER_is_fresh(self, sizeof(*self)))
__CPROVER_requires(self->m_qubits >= 1 && self->m_qubits <= NMAX && q >= 0 && q < self->m_qubits)
__CPROVER_requires(self->m_state.size == ((size_t)1 << self->m_qubits))
__CPROVER_requires(__CPROVER_is_fresh(self->m_state.data, self->m_state.size * sizeof(cplx)))
__CPROVER_requires(self->m_measured.size == (size_t)self->m_qubits && __CPROVER_is_fresh(self->m_measured.data, self->m_measured.size))
__CPROVER_requires(self->m_ops.cap == 0 && self->m_ops.size < 1000000)
__CPROVER_requires(gk < self->m_state.size && bl_exc == 0 && !self->m_measured.data[q])
__CPROVER_assigns(__CPROVER_object_whole(self->m_state.data), self->m_measured.data[q], self->m_ops.size, g_e0, g_p1, g_cur, g_zero, bl_exc, bl_exc_line, bl_exc_col)
__CPROVER_ensures(bl_exc == 0 && (__CPROVER_return_value == 0 || __CPROVER_return_value == 1))
__CPROVER_ensures(__CPROVER_return_value == (D_LT(bl_next_draw, g_p1) ? 1 : 0))
__CPROVER_ensures(g_cur == self->m_state.size)
__CPROVER_ensures((((gk & BIT) != 0) ? 1 : 0) != __CPROVER_return_value ? CEQ(self->m_state.data[gk], c_make(0.0, 0.0)) : CEQ(self->m_state.data[gk], c_divd(g_e0, BL_SQRT(__CPROVER_return_value ? g_p1 : D_SUB(1.0, g_p1)))))
__CPROVER_ensures(CEQ(g_e0, __CPROVER_old(self->m_state.data[gk])))
__CPROVER_ensures(self->m_measured.data[q] == 1 && self->m_ops.size == __CPROVER_old(self->m_ops.size) + (self->m_logOps ? 1 : 0))
'''.replace('BIT',BIT)
prologue='  /* ghost prologue */ g_e0 = self->m_state.data[gk]; g_p1 = 0.0; g_cur = 0; g_zero = c_make(0.0, 0.0);\n'
ST='self->m_state.data'
loops=['''__CPROVER_assigns(i, p1, g_p1, g_cur)
    __CPROVER_loop_invariant(i <= self->m_state.size && g_cur == i && __CPROVER_equal(p1, g_p1))
    __CPROVER_decreases(self->m_state.size - i)''','''__CPROVER_assigns(i, __CPROVER_object_whole(self->m_state.data))
    __CPROVER_loop_invariant(i <= self->m_state.size)
    __CPROVER_loop_invariant(gk < i ? ((((gk & bit) != 0) ? 1 : 0) != res ? CEQ(ST[gk], g_zero) : CEQ(ST[gk], g_q0)) : CEQ(ST[gk], g_e0))
    __CPROVER_decreases(self->m_state.size - i)''']
i=src.index('int '+fn+'(struct QasmSimulator *self, int q)\n/*@CONTRACT@*/')
body=src[i:]
body=body.replace('/*@CONTRACT@*/\n{', contract+'{\n'+prologue,1)
for l in loops: body=body.replace('/*@LOOP@*/', l.replace('ST',ST),1)
# ghost statement inside first loop body: spec fold step (definition of p1)
body=body.replace('''    if ((((i & bit)) != 0))
    {
      (p1 = D_ADD(p1, c_norm(VEC_AT(self->m_state, i))));
    }
''','''    /* ghost: spec fold */ if ((i & ((size_t)1 << q)) != 0) g_p1 = D_ADD(g_p1, c_norm(self->m_state.data[i])); g_cur = i + 1;
    if ((((i & bit)) != 0))
    {
      (p1 = D_ADD(p1, c_norm(VEC_AT(self->m_state, i))));
    }
''',1)
# ghost after norm computed: spec quotient for gk
body=body.replace('  for (size_t i = ((size_t)(0)); (i < VEC_SIZE(self->m_state)); (++i))\n    __CPROVER_assigns(i, __CPROVER_object_whole','  /* ghost */ cplx g_q0 = c_divd(g_e0, norm);\n  for (size_t i = ((size_t)(0)); (i < VEC_SIZE(self->m_state)); (++i))\n    __CPROVER_assigns(i, __CPROVER_object_whole',1)
ghost='#define CEQ(a,b) __CPROVER_equal(a,b)\n#ifndef NMAX\n#define NMAX 20\n#endif\nsize_t gk, g_cur; cplx g_e0, g_zero; double g_p1;\n'
out=src[:i].replace('#include "sim_protos.h"','#include "sim_protos.h"\n'+ghost).replace('/*@CONTRACT@*/','').replace('/*@LOOP@*/','')+body
out+='\nvoid h_m(void){ struct QasmSimulator *s; int q; QasmSimulator_measure(s,q); }\n'
open('sim_verif_m.c','w').write(out)
