#include <stddef.h>
#include <stdint.h>
#include <stdlib.h>
#include <math.h>
typedef struct { double re, im; } cplx;
typedef struct { cplx *data; size_t size; } vec_cplx;
typedef struct { _Bool *data; size_t size; } vec_bool;
typedef struct { int kind; const char *lit; long ival; double dval; } bl_piece;
typedef struct { int n; bl_piece p[6]; } bl_str;
typedef struct { bl_str *data; size_t size; size_t cap; } vec_str;
typedef struct { double a, b; } bl_urd;
struct QasmSimulator { int m_qubits; vec_cplx m_state; vec_str m_ops; _Bool m_logOps; vec_bool m_measured; };
enum { BL_Runtime = 3 };
extern int bl_exc, bl_exc_line, bl_exc_col;
static inline void bl_throw(int c, int l, int col){ bl_exc = c; bl_exc_line = l; bl_exc_col = col; }
#ifdef VERIF
#define bl_bounds(c) __CPROVER_assert(c, "index in bounds")
#else
#include <assert.h>
#define bl_bounds(c) assert(c)
#endif
#define BL_IDX(i,n) (bl_bounds((size_t)(i) < (size_t)(n)), (i))
#define VEC_SIZE(v) ((v).size)
#define VEC_AT(v,i) ((v).data[BL_IDX(i,(v).size)])
#define BL_MIN(a,b) ((a)<(b)?(a):(b))
#define BL_MAX(a,b) ((a)<(b)?(b):(a))
#define BL_LIT(s) ((bl_piece){0,(s),0,0.0})
#define BL_I2S(i) ((bl_piece){1,0,(long)(i),0.0})
#define BL_D2S(d) ((bl_piece){2,0,0,(d)})
static inline bl_str bl_cat3(bl_piece a, bl_piece b, bl_piece c){ bl_str s; s.n=3; s.p[0]=a; s.p[1]=b; s.p[2]=c; return s; }
static inline bl_str bl_cat5(bl_piece a, bl_piece b, bl_piece c, bl_piece d, bl_piece e){ bl_str s; s.n=5; s.p[0]=a; s.p[1]=b; s.p[2]=c; s.p[3]=d; s.p[4]=e; return s; }
static inline void vec_str_push(vec_str *v, bl_str s){ if (v->size < v->cap) v->data[v->size] = s; v->size++; }
#ifdef UF
cplx __CPROVER_uninterpreted_c_mul(cplx, cplx); cplx __CPROVER_uninterpreted_c_add(cplx, cplx);
cplx __CPROVER_uninterpreted_c_scale(cplx, double); cplx __CPROVER_uninterpreted_c_divd(cplx, double);
double __CPROVER_uninterpreted_c_norm(cplx); cplx __CPROVER_uninterpreted_c_exp(cplx);
double __CPROVER_uninterpreted_d_add(double,double); double __CPROVER_uninterpreted_d_sub(double,double);
double __CPROVER_uninterpreted_d_mul(double,double); double __CPROVER_uninterpreted_d_div(double,double);
double __CPROVER_uninterpreted_d_neg(double); _Bool __CPROVER_uninterpreted_d_lt(double,double); _Bool __CPROVER_uninterpreted_d_eq(double,double);
double __CPROVER_uninterpreted_sqrt(double); double __CPROVER_uninterpreted_cos(double); double __CPROVER_uninterpreted_sin(double);
#define c_mul __CPROVER_uninterpreted_c_mul
#define c_add __CPROVER_uninterpreted_c_add
#define c_scale __CPROVER_uninterpreted_c_scale
#define c_divd __CPROVER_uninterpreted_c_divd
#define c_norm __CPROVER_uninterpreted_c_norm
#define c_exp __CPROVER_uninterpreted_c_exp
#define D_ADD __CPROVER_uninterpreted_d_add
#define D_SUB __CPROVER_uninterpreted_d_sub
#define D_MUL __CPROVER_uninterpreted_d_mul
#define D_DIV __CPROVER_uninterpreted_d_div
#define D_NEG __CPROVER_uninterpreted_d_neg
#define D_LT __CPROVER_uninterpreted_d_lt
#define D_EQ __CPROVER_uninterpreted_d_eq
#define BL_SQRT __CPROVER_uninterpreted_sqrt
#define BL_COS __CPROVER_uninterpreted_cos
#define BL_SIN __CPROVER_uninterpreted_sin
#else
static inline cplx c_mul(cplx a, cplx b){ cplx r = { a.re*b.re - a.im*b.im, a.re*b.im + a.im*b.re }; return r; }
static inline cplx c_add(cplx a, cplx b){ cplx r = { a.re+b.re, a.im+b.im }; return r; }
static inline cplx c_scale(cplx a, double d){ cplx r = { a.re*d, a.im*d }; return r; }
static inline cplx c_divd(cplx a, double d){ cplx r = { a.re/d, a.im/d }; return r; }
static inline double c_norm(cplx a){ return a.re*a.re + a.im*a.im; }
static inline cplx c_exp(cplx a){ double e = exp(a.re); cplx r = { e*cos(a.im), e*sin(a.im) }; return r; }
#define D_ADD(a,b) ((a)+(b))
#define D_SUB(a,b) ((a)-(b))
#define D_MUL(a,b) ((a)*(b))
#define D_DIV(a,b) ((a)/(b))
#define D_NEG(a) (-(a))
#define D_LT(a,b) ((a)<(b))
#define D_EQ(a,b) ((a)==(b))
#define BL_SQRT sqrt
#define BL_COS cos
#define BL_SIN sin
#endif
static inline cplx c_make(double re, double im){ cplx r; r.re = re; r.im = im; return r; }
static inline void c_swap(cplx *a, cplx *b){ cplx t = *a; *a = *b; *b = t; }
static inline vec_cplx vec_cplx_make(size_t n){ vec_cplx v; v.data = (cplx*)malloc(n*sizeof(cplx)); v.size = n; for(size_t i=0;i<n;i++){v.data[i].re=0;v.data[i].im=0;} return v; }
static inline void vec_cplx_swap(vec_cplx *a, vec_cplx *b){ vec_cplx t = *a; *a = *b; *b = t; }
static inline void vec_bool_resize(vec_bool *v, size_t n, _Bool val){ _Bool *d = (_Bool*)malloc(n?n:1); for(size_t i=0;i<n;i++) d[i] = i < v->size ? v->data[i] : val; v->data = d; v->size = n; }
static inline bl_urd bl_urd_make(double a, double b){ bl_urd d = {a,b}; return d; }
extern double bl_next_draw; typedef int bl_rng_t; extern bl_rng_t bl_rng;
static inline double bl_urd_draw(bl_urd *d, bl_rng_t *g){ (void)d; (void)g; return bl_next_draw; }
