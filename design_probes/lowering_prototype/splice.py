import sys,re
src=open('sim_lowered.c').read()
fn='QasmSimulator_applySingleQubitGate'
contract='''__CPROVER_requires(__CPROVER_is_fresh(self, sizeof(*self)))
__CPROVER_requires(self->m_qubits >= 1 && self->m_qubits <= NMAX && q >= 0 && q < self->m_qubits)
__CPROVER_requires(self->m_state.size == ((size_t)1 << self->m_qubits))
__CPROVER_requires(__CPROVER_is_fresh(self->m_state.data, self->m_state.size * sizeof(cplx)))
__CPROVER_requires(self->m_measured.size == (size_t)self->m_qubits && __CPROVER_is_fresh(self->m_measured.data, self->m_measured.size))
__CPROVER_requires(__CPROVER_is_fresh(m, 4*sizeof(cplx)))
__CPROVER_requires(gk < self->m_state.size && (gk & ((size_t)1 << q)) == 0 && bl_exc == 0)
__CPROVER_assigns(__CPROVER_object_whole(self->m_state.data), g_s0, g_s1, g_e0, g_e1, bl_exc, bl_exc_line, bl_exc_col)
__CPROVER_ensures(self->m_measured.data[q] ? (bl_exc == BL_Runtime && CEQ(self->m_state.data[gk], g_e0) && CEQ(self->m_state.data[gk | ((size_t)1 << q)], g_e1)) : (bl_exc == 0 && CEQ(self->m_state.data[gk], g_s0) && CEQ(self->m_state.data[gk | ((size_t)1 << q)], g_s1)))
__CPROVER_ensures(CEQ(g_e0, __CPROVER_old(self->m_state.data[gk])) && CEQ(g_e1, __CPROVER_old(self->m_state.data[gk | ((size_t)1 << q)])))
__CPROVER_ensures(CEQ(g_s0, c_add(c_mul(m[0], g_e0), c_mul(m[1], g_e1))) && CEQ(g_s1, c_add(c_mul(m[2], g_e0), c_mul(m[3], g_e1))))
'''
prologue='''  /* ghost prologue */
  g_e0 = self->m_state.data[gk]; g_e1 = self->m_state.data[gk | ((size_t)1 << q)];
  g_s0 = c_add(c_mul(m[0], g_e0), c_mul(m[1], g_e1)); g_s1 = c_add(c_mul(m[2], g_e0), c_mul(m[3], g_e1));
'''
ST='self->m_state.data'
loops=['''__CPROVER_assigns(i, __CPROVER_object_whole(self->m_state.data))
    __CPROVER_loop_invariant(i <= size && (i & (2*step - 1)) == 0)
    __CPROVER_loop_invariant((gk & ~(2*step-1)) < i ? (CEQ(ST[gk], g_s0) && CEQ(ST[gk|step], g_s1)) : (CEQ(ST[gk], g_e0) && CEQ(ST[gk|step], g_e1)))
    __CPROVER_decreases(size - i)''','''__CPROVER_assigns(j, __CPROVER_object_whole(self->m_state.data))
      __CPROVER_loop_invariant(j <= step)
      __CPROVER_loop_invariant(((gk & ~(2*step-1)) < i || ((gk & ~(2*step-1)) == i && (gk - i) < j)) ? (CEQ(ST[gk], g_s0) && CEQ(ST[gk|step], g_s1)) : (CEQ(ST[gk], g_e0) && CEQ(ST[gk|step], g_e1)))
      __CPROVER_decreases(step - j)''']
i=src.index('void '+fn+'(struct QasmSimulator *self, int q, const cplx *m)\n/*@CONTRACT@*/')
j=src.index('\nvoid QasmSimulator_h(', i)
body=src[i:j]
body=body.replace('/*@CONTRACT@*/\n{', contract+'{\n'+prologue,1)
for l in loops:
    body=body.replace('/*@LOOP@*/', l.replace('ST',ST),1)
assert '/*@LOOP@*/' not in body
ghost='#define CEQ(a,b) __CPROVER_equal(a,b)\n#ifndef NMAX\n#define NMAX 20\n#endif\nsize_t gk; cplx g_s0,g_s1,g_e0,g_e1;\n'
out=src[:i].replace('#include "sim_protos.h"','#include "sim_protos.h"\n'+ghost)+body+src[j:].replace('/*@CONTRACT@*/','').replace('/*@LOOP@*/','')
out+='\nvoid h_asg(void){ struct QasmSimulator *s; int q; const cplx *m; QasmSimulator_applySingleQubitGate(s,q,m); }\n'
open('sim_verif.c','w').write(out)
