// differential co-execution: lowered C (compiled as C, linked) vs the real C++ class
#include <random>
#include <cstdio>
#include <cstring>
#include <array>
#include <complex>
#include <string>
#include <vector>
#include <sstream>
#include <stdexcept>
#include "bloch/support/error/bloch_error.hpp"
#define private public
#include "bloch/runtime/qasm_simulator.hpp"
#undef private
#define _Bool bool
extern "C" {
#include "shim.h"
#include "sim_protos.h"
}

int main(){
  std::mt19937 g(12345); std::uniform_real_distribution<double> U(-1,1);
  long checks=0, diffs=0;
  for (int n=1;n<=5;n++) for(int trial=0; trial<40; trial++){
    bloch::runtime::QasmSimulator real(true); struct ::QasmSimulator low; memset(&low,0,sizeof low);
    low.m_state = vec_cplx_make(1); low.m_state.data[0].re = 1; low.m_logOps = 1; low.m_ops.cap=0; low.m_ops.data=0;
    for(int k=0;k<n;k++){ int a=real.allocateQubit(); int b=QasmSimulator_allocateQubit(&low); if(a!=b) diffs++; }
    // random state in both
    for(size_t i=0;i<real.m_state.size();i++){ double re=U(g), im=U(g); real.m_state[i]={re,im}; low.m_state.data[i].re=re; low.m_state.data[i].im=im; }
    for(int step=0; step<12; step++){
      int op = g()%9, q = g()%n, t = g()%n; double th = U(g)*7;
      bl_exc=0; bool threw=false;
      try { switch(op){ case 0: real.h(q); break; case 1: real.x(q); break; case 2: real.y(q); break; case 3: real.z(q); break;
        case 4: real.rx(q,th); break; case 5: real.ry(q,th); break; case 6: real.rz(q,th); break; case 7: if(n>1){ if(t==q) t=(q+1)%n; real.cx(q,t);} break; case 8: real.reset(q); break; } }
      catch(const std::exception&){ threw=true; }
      switch(op){ case 0: QasmSimulator_h(&low,q); break; case 1: QasmSimulator_x(&low,q); break; case 2: QasmSimulator_y(&low,q); break; case 3: QasmSimulator_z(&low,q); break;
        case 4: QasmSimulator_rx(&low,q,th); break; case 5: QasmSimulator_ry(&low,q,th); break; case 6: QasmSimulator_rz(&low,q,th); break; case 7: if(n>1) QasmSimulator_cx(&low,q,t); break; case 8: QasmSimulator_reset(&low,q); break; }
      if (threw != (bl_exc!=0)) diffs++;
      for(size_t i=0;i<real.m_state.size();i++){ checks++; double re=real.m_state[i].real(), im=real.m_state[i].imag();
        if (memcmp(&re,&low.m_state.data[i].re,8)||memcmp(&im,&low.m_state.data[i].im,8)) { diffs++; if(diffs<5) printf("diff n=%d op=%d q=%d i=%zu: %a %a vs %a %a\n",n,op,q,i,re,im,low.m_state.data[i].re,low.m_state.data[i].im);} }
    }
  }
  printf("checks=%ld diffs=%ld\n",checks,diffs); return diffs!=0;
}
