#!/usr/bin/env python3
"""Throw-away prototype: lower selected C++ methods to C from clang's JSON AST.
Whitelist printer: unknown node kinds / callees abort with exit 2."""
import json, sys, re

class Unsupported(Exception):
    pass

def load(path):
    s = open(path).read(); dec = json.JSONDecoder(); docs = []; i = 0
    while i < len(s):
        while i < len(s) and s[i] in ' \n\r\t': i += 1
        if i >= len(s): break
        if s[i] != '{':
            j = s.find('\n', i); i = j + 1 if j >= 0 else len(s); continue
        d, j = dec.raw_decode(s, i); docs.append(d); i = j
    return docs

PASS = {'MaterializeTemporaryExpr', 'CXXBindTemporaryExpr', 'ExprWithCleanups', 'ConstantExpr'}
PASS_CASTS = {'LValueToRValue', 'NoOp', 'DerivedToBase', 'UncheckedDerivedToBase', 'FunctionToPointerDecay', 'ArrayToPointerDecay',
              'ConstructorConversion', 'UserDefinedConversion'}
VALUE_CASTS = {'IntegralCast', 'IntegralToFloating', 'FloatingToIntegral', 'FloatingCast',
               'IntegralToBoolean', 'FloatingToBoolean'}

def qt(n):
    t = n.get('type', {})
    return t.get('desugaredQualType') or t.get('qualType') or ''

def norm_type(t):
    t = t.replace('const ', '').replace(' &', '').replace('&', '').strip()
    return t

TYPE_MAP = [
    (r'^bloch::update::\(anonymous namespace\)::SemVer$', 'SemVer'),
    (r'^std::basic_string<char>::(__const_)?iterator$', 'size_t'), (r'^__gnu_cxx::__normal_iterator<.*$', 'size_t'),
    (r'^(std::)?basic_string_view<char.*>$', 'bl_sv'), (r'^std::string_view$', 'bl_sv'),
    (r'^std::vector<(bloch::compiler::)?Token>$', 'vec_Token'),
    (r'^bloch::compiler::Token$', 'Token'), (r'^bloch::compiler::TokenType$', 'int'),
    (r'^unsigned char$', 'unsigned char'),
    (r'^std::unordered_map<std::basic_string_view<char>, bloch::compiler::TokenType>::const_iterator$', 'size_t'),
    (r'^std::__detail::_Node_const_iterator<.*$', 'size_t'),
    (r'^std::__detail::_Node_iterator_base<.*$', 'size_t'),

    (r'^std::vector<std::complex<double>>$', 'vec_cplx'),
    (r'^std::vector<bool>$', 'vec_bool'),
    (r'^std::vector<std::(basic_)?string(<char>)?>$', 'vec_str'),
    (r'^std::complex<double>$', 'cplx'),
    (r'^(std::)?(basic_string<char.*>|string)$', 'bl_sv'),
    (r'^std::uniform_real_distribution<(double)?>$', 'bl_urd'),
    (r'^unsigned long$', 'size_t'), (r'^size_t$', 'size_t'),
    (r'^int$', 'int'), (r'^bool$', '_Bool'), (r'^double$', 'double'), (r'^void$', 'void'),
    (r'^char$', 'char'),
]

def ctype(t):
    t0 = norm_type(t)
    for pat, c in TYPE_MAP:
        if re.match(pat, t0): return c
    m = re.match(r'^std::array<std::complex<double>, (\d+)>$', t0)
    if m: return 'ARRAY_cplx_' + m.group(1)
    raise Unsupported('type ' + t)

def is_double(n): return norm_type(qt(n)) == 'double'
def is_cplx(n): return ctype_safe(qt(n)) == 'cplx'
def ctype_safe(t):
    try: return ctype(t)
    except Unsupported: return None

def kids(n): return [k for k in n.get('inner', [])]

def strip(n):
    """skip value-preserving wrappers"""
    while True:
        k = n.get('kind')
        if k in PASS or (k == 'ImplicitCastExpr' and n.get('castKind') in PASS_CASTS) or k == 'ParenExpr' and False:
            n = kids(n)[0]; continue
        return n

def callee_name(n):
    n = strip(n)
    if n.get('kind') == 'DeclRefExpr': return n['referencedDecl']['name']
    if n.get('kind') == 'MemberExpr': return n['name']
    raise Unsupported('callee ' + str(n.get('kind')))

DBL_BIN = {'+': 'D_ADD', '-': 'D_SUB', '*': 'D_MUL', '/': 'D_DIV', '<': 'D_LT', '>': 'D_GT',
           '<=': 'D_LE', '>=': 'D_GE', '==': 'D_EQ', '!=': 'D_NE'}

class Lower:
    def __init__(self, cls, lowered_methods, throwing):
        self.cls = cls; self.lowered = lowered_methods; self.throwing = throwing
        self.ret0 = ''; self.needs_prop = False; self.tmp = 0

    # ---------- strings (piece lists)
    def str_pieces(self, n):
        n = strip(n); k = n.get('kind')
        if k == 'StringLiteral': return ['BL_LIT(%s)' % n['value']]
        if k == 'CXXConstructExpr' and ctype_safe(qt(n)) == 'bl_str':
            out = []
            for a in kids(n):
                if a.get('kind') == 'CXXDefaultArgExpr': continue
                out += self.str_pieces(a)
            return out
        if k == 'CXXOperatorCallExpr' and callee_name(kids(n)[0]) == 'operator+':
            return self.str_pieces(kids(n)[1]) + self.str_pieces(kids(n)[2])
        if k == 'CallExpr' and callee_name(kids(n)[0]) == 'to_string':
            a = kids(n)[1]
            return [('BL_D2S(%s)' if is_double(a) else 'BL_I2S(%s)') % self.expr(a)]
        if k in ('DeclRefExpr', 'MemberExpr') and ctype_safe(qt(n)) == 'bl_str':
            return ['BL_STRV(%s)' % self.expr(n)]
        raise Unsupported('string piece ' + str(k))

    def str_expr(self, n):
        p = self.str_pieces(n)
        return 'bl_cat%d(%s)' % (len(p), ', '.join(p))

    # ---------- expressions
    def expr(self, n):
        k = n.get('kind')
        if k in PASS: return self.expr(kids(n)[0])
        if k == 'ImplicitCastExpr' or k in ('CXXStaticCastExpr', 'CStyleCastExpr', 'CXXFunctionalCastExpr'):
            ck = n.get('castKind'); inner = kids(n)[0]
            if k == 'CXXFunctionalCastExpr' and inner.get('kind') == 'InitListExpr':
                inner = kids(inner)[0]
            if ck in PASS_CASTS and k == 'ImplicitCastExpr': return self.expr(inner)
            if ck in ('ConstructorConversion', 'UserDefinedConversion'): return self.expr(inner)
            if ck in VALUE_CASTS or ck == 'NoOp':
                ct = ctype(qt(n))
                if ct == '_Bool': return '((%s) != 0)' % self.expr(inner)
                return '((%s)(%s))' % (ct, self.expr(inner))
            if ck == 'ToVoid': return '(void)(%s)' % self.expr(inner)
            raise Unsupported('cast ' + str(ck))
        if k == 'ParenExpr': return '(' + self.expr(kids(n)[0]) + ')'
        if k == 'IntegerLiteral': return n['value']
        if k == 'FloatingLiteral':
            v = n['value']; return v if any(c in v for c in '.eE') else v + '.0'
        if k == 'CXXBoolLiteralExpr': return '1' if n['value'] else '0'
        if k == 'CharacterLiteral': return str(n['value'])
        if k == 'CXXThisExpr': return 'self'
        if k == 'DeclRefExpr':
            name = n['referencedDecl']['name']
            if n['referencedDecl'].get('kind') == 'EnumConstantDecl': return 'BL_' + name
            if name == 'rng': return 'bl_rng'
            return name
        if k == 'MemberExpr':
            base = kids(n)[0]
            if strip(base).get('kind') == 'CXXThisExpr': return 'self->' + n['name']
            return '(%s)%s%s' % (self.expr(base), '->' if (n.get('isArrow') and strip(base).get('kind') != 'CXXOperatorCallExpr') else '.', n['name'])
        if k == 'UnaryOperator':
            op = n['opcode']; e = self.expr(kids(n)[0])
            if op == '-' and is_double(n): return 'D_NEG(%s)' % e
            return '(%s%s)' % (e, op) if n.get('isPostfix') else '(%s%s)' % (op, e)
        if k == 'BinaryOperator':
            op = n['opcode']; a, b = kids(n)
            if op in DBL_BIN and (is_double(a) and is_double(b)):
                return '%s(%s, %s)' % (DBL_BIN[op], self.expr(a), self.expr(b))
            return '(%s %s %s)' % (self.expr(a), op, self.expr(b))
        if k == 'CompoundAssignOperator':
            op = n['opcode']; a, b = kids(n)
            if is_double(a):
                return '(%s = %s(%s, %s))' % (self.expr(a), DBL_BIN[op[:-1]], self.expr(a), self.expr(b))
            return '(%s %s %s)' % (self.expr(a), op, self.expr(b))
        if k == 'ConditionalOperator':
            c, a, b = kids(n); return '(%s ? %s : %s)' % (self.expr(c), self.expr(a), self.expr(b))
        if k == 'StringLiteral': return 'BL_SV_LIT(%s)' % n['value']
        if k == 'CXXRewrittenBinaryOperator': return self.expr(kids(n)[0])
        if k in ('CXXConstructExpr', 'CXXTemporaryObjectExpr'):
            ct = ctype(qt(n)); args = [a for a in kids(n) if a.get('kind') != 'CXXDefaultArgExpr']
            if ct == 'bl_sv':
                if len(args) == 1: return self.expr(args[0])
                if len(args) == 2 and ctype_safe(qt(args[1])) == 'char': return 'bl_sv_char(%s, %s)' % (self.expr(args[0]), self.expr(args[1]))
                raise Unsupported('string ctor arity %d' % len(args))
            if ct == 'Token' and len(args) == 1: return self.expr(args[0])
            if ct == 'SemVer': return self.expr(args[0]) if args else 'SemVer_default()'
            if ct == 'size_t' and len(args) == 1: return self.expr(args[0])
            if ct == 'vec_Token' and len(args) == 0: return 'vec_Token_make()'
            if ct == 'vec_Token' and len(args) == 1: return self.expr(args[0])
            if ct == 'cplx':
                if len(args) == 1 and is_cplx(args[0]): return self.expr(args[0])
                es = [self.expr(a) for a in args]
                return 'c_make(%s, %s)' % (es[0], es[1] if len(es) > 1 else '0.0')
            if ct == 'bl_str': return self.str_expr(n)
            if ct == 'vec_cplx' and len(args) == 1: return 'vec_cplx_make(%s)' % self.expr(args[0])
            if ct == 'bl_urd': return 'bl_urd_make(%s)' % ', '.join(self.expr(a) for a in args)
            raise Unsupported('ctor ' + ct)
        if k == 'InitListExpr':
            body = '{ ' + ', '.join(self.expr(a) for a in kids(n)) + ' }'
            return '(Token)' + body if ctype_safe(qt(n)) == 'Token' else body
        if k == 'CXXOperatorCallExpr': return self.opcall(n)
        if k == 'CXXMemberCallExpr': return self.membercall(n)
        if k == 'CallExpr': return self.call(n)
        raise Unsupported('expr kind ' + str(k))

    def opcall(self, n):
        ks = kids(n); op = callee_name(ks[0]); args = ks[1:]
        t0 = ctype_safe(qt(args[0]))
        if op == 'operator[]':
            if t0 and t0.startswith('vec_'):
                return 'VEC_AT(%s, %s)' % (self.expr(args[0]), self.expr(args[1]))
            if t0 and t0.startswith('ARRAY_'):
                m = int(t0.split('_')[-1]); return '%s[BL_IDX(%s, %d)]' % (self.expr(args[0]), self.expr(args[1]), m)
        if op == 'operator[]' and t0 == 'bl_sv': return 'SV_AT(%s, %s)' % (self.expr(args[0]), self.expr(args[1]))
        if op == 'operator==' and t0 == 'bl_sv': return 'bl_sv_eq(%s, %s)' % (self.expr(args[0]), self.expr(args[1]))
        if op == 'operator==' and t0 == 'size_t': return '(%s == %s)' % (self.expr(args[0]), self.expr(args[1]))
        if op == 'operator->' and t0 == 'size_t': return 'BL_KW_ENTRY(%s)' % self.expr(args[0])
        if op == 'operator=':
            if t0 == 'cplx' or norm_type(qt(args[0])).endswith('value_type'):
                rhs = args[1]
                r = self.expr(rhs) if is_cplx(rhs) else 'c_make(%s, 0.0)' % self.expr(rhs)
                return '(%s = %s)' % (self.expr(args[0]), r)
            if 'Bit_reference' in qt(args[0]) or t0 == '_Bool':
                return '(%s = %s)' % (self.expr(args[0]), self.expr(args[1]))
        if t0 == 'cplx' or is_cplx(args[0]) or (len(args) > 1 and is_cplx(args[1])):
            cm = {'operator*': 'c_mul', 'operator+': 'c_add', 'operator-': 'c_sub'}
            if op in cm and is_cplx(args[0]) and is_cplx(args[1]):
                return '%s(%s, %s)' % (cm[op], self.expr(args[0]), self.expr(args[1]))
            if op == 'operator*=' and is_double(args[1]):
                return '(%s = c_scale(%s, %s))' % (self.expr(args[0]), self.expr(args[0]), self.expr(args[1]))
            if op == 'operator/=' and is_double(args[1]):
                return '(%s = c_divd(%s, %s))' % (self.expr(args[0]), self.expr(args[0]), self.expr(args[1]))
        if op == 'operator+' and ctype_safe(qt(n)) == 'bl_str': return self.str_expr(n)
        if op == 'operator()' and t0 == 'bl_urd':
            return 'bl_urd_draw(&%s, &%s)' % (self.expr(args[0]), self.expr(args[1]))
        raise Unsupported('operator %s on %s' % (op, qt(args[0])))

    def membercall(self, n):
        ks = kids(n); me = strip(ks[0]); name = me['name']; obj = kids(me)[0]; args = ks[1:]
        if strip(obj).get('kind') == 'CXXThisExpr' and name in self.lowered:
            if name in self.throwing: self.needs_prop = True
            return '%s_%s(%s)' % (self.cls, name, ', '.join(['self'] + [self.arg(a) for a in args]))
        t = ctype_safe(qt(obj))
        if name == 'operator bool': return self.expr(obj)
        if t == 'bl_sv':
            o = self.expr(obj)
            if name in ('size', 'length'): return 'SV_SIZE(%s)' % o
            if name == 'empty': return '(SV_SIZE(%s) == 0)' % o
            if name == 'front': return 'SV_AT(%s, 0)' % o
            if name == 'begin': return '((size_t)0)'
            if name == 'erase': return 'bl_sv_erase(&%s, %s)' % (o, self.expr(args[0]))
            if name == 'substr': self.needs_prop = True; return 'bl_sv_substr(%s, %s)' % (o, ', '.join(self.expr(a) for a in args))
        if name in ('find', 'end') and 'unordered_map' in qt(obj):
            return 'bl_kw_find(%s)' % self.expr(args[0]) if name == 'find' else 'BL_KW_END'
        if t == 'vec_Token' and name == 'push_back': return 'vec_Token_push(&%s, %s)' % (self.expr(obj), self.expr(args[0]))
        if t and t.startswith('vec_'):
            o = self.expr(obj)
            if name == 'size': return 'VEC_SIZE(%s)' % o
            if name == 'resize': return '%s_resize(&%s, %s)' % (t, o, ', '.join(self.expr(a) for a in args))
            if name == 'swap': return '%s_swap(&%s, &%s)' % (t, o, self.expr(args[0]))
            if name == 'emplace_back' and t == 'vec_str': return 'vec_str_push(&%s, %s)' % (o, self.str_expr(args[0]))
        raise Unsupported('member call %s on %s' % (name, qt(obj)))

    def arg(self, a):
        t = ctype_safe(qt(a))
        return self.expr(a)

    def call(self, n):
        ks = kids(n); name = callee_name(ks[0]); args = ks[1:]
        simple = {'sqrt': 'BL_SQRT', 'cos': 'BL_COS', 'sin': 'BL_SIN'}
        if name in simple: return '%s(%s)' % (simple[name], self.expr(args[0]))
        if name == 'exp' and is_cplx(args[0]): return 'c_exp(%s)' % self.expr(args[0])
        if name == 'norm': return 'c_norm(%s)' % self.expr(args[0])
        if name in ('isdigit', 'isalpha', 'isalnum', 'isspace'): return 'bl_%s(%s)' % (name, self.expr(args[0]))
        if name in self.lowered: return '%s_%s(%s)' % (self.cls, name, ', '.join(self.expr(a) for a in args))
        if name == 'stoi': self.needs_prop = True; return 'bl_stoi(%s)' % self.expr(args[0])
        if name in ('min', 'max'):
            return 'BL_%s(%s, %s)' % (name.upper(), self.expr(args[0]), self.expr(args[1]))
        if name == 'swap' and is_cplx(args[0]):
            return 'c_swap(&%s, &%s)' % (self.expr(args[0]), self.expr(args[1]))
        raise Unsupported('call ' + name)

    # ---------- statements
    def decl(self, v):
        if 'unordered_map' in qt(v):
            pairs = []
            def walk(m):
                if m.get('kind') == 'CXXConstructExpr' and 'pair' in qt(m):
                    a = [x for x in kids(m)]
                    lit = None; en = None
                    def f(z):
                        nonlocal lit, en
                        if z.get('kind') == 'StringLiteral': lit = z['value']
                        if z.get('kind') == 'DeclRefExpr' and z['referencedDecl'].get('kind') == 'EnumConstantDecl': en = z['referencedDecl']['name']
                        for c in kids(z): f(c)
                    f(m); pairs.append((lit, en)); return
                for c in kids(m): walk(c)
            walk(v)
            self.kwtab = pairs
            return '/* static map %s lowered to bl_kw_tab[%d] (see generated table) */' % (v['name'], len(pairs))
        name = v['name']; t = qt(v); ct = ctype(t); init = kids(v)
        init = [i for i in init if 'kind' in i]
        if ct.startswith('ARRAY_'):
            _, el, cnt = ct.split('_')
            il = strip(init[0])
            while il.get('kind') == 'InitListExpr' and len(kids(il)) == 1 and strip(kids(il)[0]).get('kind') == 'InitListExpr':
                il = strip(kids(il)[0])
            return 'const %s %s[%s] = %s;' % (el, name, cnt, self.expr(il))
        if not init: return '%s %s;' % (ct, name)
        return '%s %s = %s;' % (ct, name, self.expr(init[0]))

    def stmt(self, n, ind):
        k = n.get('kind'); p = '  ' * ind; out = []
        self.needs_prop = False
        if k == 'CompoundStmt':
            out.append(p + '{')
            for s in kids(n): out += self.stmt(s, ind + 1)
            out.append(p + '}'); return out
        if k == 'DeclStmt':
            for v in kids(n): out.append(p + self.decl(v))
        elif k == 'ReturnStmt':
            ks = kids(n)
            out.append(p + ('return %s;' % self.expr(ks[0]) if ks else 'return;'))
        elif k == 'IfStmt':
            ks = kids(n); cond = self.expr(ks[0])
            out.append(p + 'if (%s)' % cond); out += self.block(ks[1], ind)
            if len(ks) > 2: out.append(p + 'else'); out += self.block(ks[2], ind)
            return out
        elif k == 'ForStmt':
            init, condvar, cond, inc, body = n['inner']
            i = self.stmt(init, 0)[0].strip() if init.get('kind') else ';'
            c = self.expr(cond) if cond.get('kind') else ''
            s = self.expr(inc) if inc.get('kind') else ''
            out.append(p + 'for (%s %s; %s)' % (i, c, s))
            out.append(p + '  /*@LOOP@*/')
            out += self.block(body, ind); return out
        elif k == 'WhileStmt':
            cond, body = kids(n)[-2:]
            out.append(p + 'while (%s)' % self.expr(cond)); out.append(p + '  /*@LOOP@*/')
            out += self.block(body, ind); return out
        elif k == 'ExprWithCleanups' and strip(n).get('kind') == 'CXXThrowExpr' or k == 'CXXThrowExpr':
            t = strip(n); tmp = strip(kids(t)[0]); a = kids(tmp)
            out.append(p + '{ bl_throw(%s, %s, %s); return %s; }' % (self.expr(a[0]), self.expr(a[1]), self.expr(a[2]), self.ret0))
        elif k == 'SwitchStmt':
            cond, body = kids(n)[-2:]
            out.append(p + 'switch (%s)' % self.expr(cond)); out += self.stmt(body, ind); return out
        elif k == 'CaseStmt':
            ks = kids(n); out.append(p + 'case %s:' % self.expr(ks[0])); out += self.stmt(ks[-1], ind + 1); return out
        elif k == 'DefaultStmt':
            out.append(p + 'default:'); out += self.stmt(kids(n)[-1], ind + 1); return out
        elif k in ('BreakStmt',): out.append(p + 'break;')
        elif k in ('ContinueStmt',): out.append(p + 'continue;')
        elif k == 'NullStmt': out.append(p + ';')
        else:
            out.append(p + self.expr(n) + ';')
        if self.needs_prop:
            out.append(p + 'if (bl_exc) return %s;' % self.ret0)
        return out

    def block(self, n, ind):
        if n.get('kind') == 'CompoundStmt': return self.stmt(n, ind)
        return ['  ' * ind + '{'] + self.stmt(n, ind + 1) + ['  ' * ind + '}']

    def func(self, d):
        q = d['type']['qualType']; q = re.sub(r'\)\s*(const)?\s*(noexcept(\(.*\))?)?\s*$', ')', q)
        depth = 0; pos = len(q) - 1
        while pos >= 0:
            if q[pos] == ')': depth += 1
            elif q[pos] == '(':
                depth -= 1
                if depth == 0: break
            pos -= 1
        rt = ctype(q[:pos].strip())
        self.ret0 = '' if rt == 'void' else ('0' if rt in ('int', 'size_t', '_Bool', 'double') else '(%s){0}' % rt)
        params = ['struct %s *self' % self.cls] if d.get('kind') == 'CXXMethodDecl' else []
        for pd in kids(d):
            if pd.get('kind') == 'ParmVarDecl':
                ct = ctype(qt(pd))
                params.append(('const cplx *%s' % pd['name']) if ct.startswith('ARRAY_') else '%s %s' % (ct, pd['name']))
        body = [k for k in kids(d) if k.get('kind') == 'CompoundStmt'][0]
        head = '%s %s_%s(%s)' % (rt, self.cls, d['name'], ', '.join(params) or 'void')
        return head, ['/*@CONTRACT@*/'] + self.stmt(body, 0)

if __name__ == '__main__':
    docs = load(sys.argv[1]); names = sys.argv[2].split(',')
    throwing = set(sys.argv[3].split(',')) if len(sys.argv) > 3 else set()
    L = Lower('UPD', set(names), throwing)
    protos = []; bodies = []
    try:
        for nm in names:
            ds = [d for d in docs if d.get('name') == nm and any(k.get('kind') == 'CompoundStmt' for k in d.get('inner', []))]
            if not ds: raise Unsupported('function not found: ' + nm)
            h, b = L.func(ds[0]); protos.append(h + ';'); bodies.append(h + '\n' + '\n'.join(b))
    except Unsupported as e:
        print('EXTRACTION BREAK:', e, file=sys.stderr); sys.exit(2)
    print('\n'.join(protos)); print()
    if getattr(L, 'kwtab', None):
        print('static const struct bl_kw bl_kw_tab[] = {' + ', '.join('{BL_SV_LIT(%s), BL_%s}' % (a, b) for a, b in L.kwtab) + '};')
        print('#define BL_KW_END ((size_t)%d)' % len(L.kwtab)); print()
    print('\n\n'.join(bodies))
