typedef struct { double re, im; } cplx;
int main(void){
  double a, b; cplx x, y;
  __CPROVER_assume(__CPROVER_equal(a,b));
  __CPROVER_assert(a==b || (a!=a), "bit-eq implies ieee-eq or nan");
  __CPROVER_assume(a==b);
  double z=0.0, nz=-0.0;
  __CPROVER_assert(!__CPROVER_equal(z,nz), "zeros differ bitwise");
  __CPROVER_assume(__CPROVER_equal(x,y));
  __CPROVER_assert(__CPROVER_equal(x.re,y.re), "struct eq");
  __CPROVER_assert(0, "reach");
}
