#include <stddef.h>
struct lexer { const char *src; size_t src_size; size_t m_position; int m_line; int m_column; };
/* ghost position oracle, updated only by the character-consuming primitives */
int g_line, g_col; 
#define LINV(L) ((L)->m_position <= (L)->src_size && (L)->m_line == g_line && (L)->m_column == g_col && (L)->m_column >= 1 && (L)->m_line >= 1)
char peek(struct lexer *self)
__CPROVER_requires(__CPROVER_is_fresh(self, sizeof(*self)) && __CPROVER_is_fresh(self->src, self->src_size) && self->m_position <= self->src_size && self->src_size <= 1000000)
__CPROVER_assigns()
__CPROVER_ensures(__CPROVER_return_value == (self->m_position < self->src_size ? self->src[self->m_position] : '\0'))
{ return self->m_position < self->src_size ? self->src[self->m_position] : '\0'; }

char advance(struct lexer *self)
__CPROVER_requires(__CPROVER_is_fresh(self, sizeof(*self)) && __CPROVER_is_fresh(self->src, self->src_size) && self->m_position < self->src_size && self->src_size <= 1000000 && self->m_column < 2000000)
__CPROVER_assigns(self->m_position, self->m_column, g_col, g_line)
__CPROVER_ensures(self->m_position == __CPROVER_old(self->m_position) + 1 && self->m_column == __CPROVER_old(self->m_column) + 1 && __CPROVER_return_value == self->src[__CPROVER_old(self->m_position)])
__CPROVER_ensures(self->src[__CPROVER_old(self->m_position)] == '\n' ? (g_line == __CPROVER_old(g_line) + 1 && g_col == 1) : (g_line == __CPROVER_old(g_line) && g_col == __CPROVER_old(g_col) + 1))
{ 
  /* ghost */ if (self->src[self->m_position] == '\n') { g_line++; g_col = 1; } else g_col++;
  char c = self->src[self->m_position++]; self->m_column++; return c; }

/* scanString-like: consume until quote, bumping m_line at newline (as the real code does) */
void scanStringBody(struct lexer *self)
__CPROVER_requires(__CPROVER_is_fresh(self, sizeof(*self)) && __CPROVER_is_fresh(self->src, self->src_size) && self->src_size <= 1000000 && self->m_column < 1000000 && self->m_line < 1000000 && g_line < 1000000)
__CPROVER_requires(LINV(self))
__CPROVER_assigns(self->m_position, self->m_column, self->m_line, g_col, g_line)
__CPROVER_ensures(LINV(self))
{
  while (self->m_position < self->src_size && peek(self) != '"')
    __CPROVER_assigns(self->m_position, self->m_column, self->m_line, g_col, g_line)
    __CPROVER_loop_invariant(LINV(self) && self->m_column < 2000000 - (int)(self->src_size - self->m_position))
    __CPROVER_decreases(self->src_size - self->m_position)
  {
    if (peek(self) == '\n') self->m_line++;
    (void)advance(self);
  }
}
void h_ss(void){ struct lexer *l; scanStringBody(l); }
