#include <complex.h>
typedef double _Complex cplx;
cplx mulv(cplx m0, cplx a0, cplx m1, cplx a1){ return m0*a0 + m1*a1; }
int main(void){
  double ar, ai, br, bi; 
  cplx a = ar + ai*I; 
  cplx m = 1.0;
  cplx r = mulv(m, a, 0.0, a);
  __CPROVER_assert(creal(r)==ar || ar!=ar, "re");
  cplx z = a; 
  double n = __real__ z * __real__ z + __imag__ z * __imag__ z;
  __CPROVER_assert(n>=0 || n!=n, "norm nonneg");
  return 0;
}
