import json,sys,subprocess,collections
def dump(src, flt):
    cmd=["clang++-14","-std=c++20","-I/repo/src","-I/repo/src/third_party","-fsyntax-only","-Xclang","-ast-dump=json","-Xclang","-ast-dump-filter="+flt,src]
    p=subprocess.run(cmd,capture_output=True,text=True)
    s=p.stdout; dec=json.JSONDecoder(); docs=[]; i=0
    while i<len(s):
        while i<len(s) and s[i] in ' \n\r\t': i+=1
        if i>=len(s): break
        if s[i]!='{':
            j=s.find('\n',i); i=j+1 if j>=0 else len(s); continue
        d,j=dec.raw_decode(s,i); docs.append(d); i=j
    return docs,p.stderr
def has_body(d): return any(k.get('kind')=='CompoundStmt' for k in d.get('inner',[]))
def walk(n,kinds,callees,types):
    k=n.get('kind'); kinds[k]+=1
    if k in('CallExpr','CXXMemberCallExpr','CXXOperatorCallExpr','CXXConstructExpr','CXXTemporaryObjectExpr'):
        # find callee name
        name=None
        def find(m):
            if 'referencedDecl' in m: return m['referencedDecl'].get('name')
            if m.get('kind')=='MemberExpr': return m.get('name')
            for c in m.get('inner',[])[:1]:
                r=find(c)
                if r: return r
        if k in('CXXConstructExpr','CXXTemporaryObjectExpr'): name='ctor:'+n.get('type',{}).get('qualType','?')
        else: name=find(n.get('inner',[{}])[0]) if n.get('inner') else None
        callees[(k,name)]+=1
    if k in('VarDecl','ParmVarDecl'): types[n.get('type',{}).get('qualType')]+=1
    for c in n.get('inner',[]): walk(c,kinds,callees,types)
src,flts=sys.argv[1],sys.argv[2:]
for f in flts:
    docs,err=dump(src,f)
    defs=[d for d in docs if has_body(d)]
    kinds=collections.Counter();callees=collections.Counter();types=collections.Counter()
    for d in defs: walk(d,kinds,callees,types)
    print("==",f,"defs",len(defs),[d.get('name') for d in defs][:12])
    print(" kinds:",dict(kinds))
    print(" callees:",sorted((str(k),v) for k,v in callees.items()))
    print(" vartypes:",dict(types))
