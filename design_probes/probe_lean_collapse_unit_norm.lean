import Mathlib

open Complex Finset

/-- normalised projection has unit norm (spec-level lemma L3, real arithmetic) -/
theorem collapse_unit_norm {ι : Type*} [Fintype ι] (a : ι → ℂ) (S : ι → Prop) [DecidablePred S]
    (p : ℝ) (hp : 0 < p) (hsum : ∑ k, (if S k then Complex.normSq (a k) else 0) = p) :
    ∑ k, Complex.normSq (if S k then a k / (Real.sqrt p : ℂ) else 0) = 1 := by
  have hs : (Real.sqrt p) ^ 2 = p := Real.sq_sqrt hp.le
  have hne : Real.sqrt p ≠ 0 := (Real.sqrt_pos.mpr hp).ne'
  have : ∀ k, Complex.normSq (if S k then a k / (Real.sqrt p : ℂ) else 0)
      = (if S k then Complex.normSq (a k) else 0) / p := by
    intro k
    split_ifs
    · rw [Complex.normSq_div, Complex.normSq_ofReal, ← sq, hs]
    · simp
  simp_rw [this]
  rw [← Finset.sum_div, hsum, div_self hp.ne']
