#include <stddef.h>
#include <stdint.h>
typedef struct { double re, im; } cplx;
#ifdef UF
cplx __CPROVER_uninterpreted_cmul(cplx a, cplx b);
cplx __CPROVER_uninterpreted_cadd(cplx a, cplx b);
#define cmul __CPROVER_uninterpreted_cmul
#define cadd __CPROVER_uninterpreted_cadd
#else
static inline cplx cmul(cplx a, cplx b){ cplx r; r.re = a.re*b.re - a.im*b.im; r.im = a.re*b.im + a.im*b.re; return r; }
static inline cplx cadd(cplx a, cplx b){ cplx r; r.re = a.re+b.re; r.im = a.im+b.im; return r; }
#endif
#define DEQ(a,b) __CPROVER_equal(a,b)
#define CEQ(a,b) __CPROVER_equal(a,b)

struct sim { int m_qubits; cplx *m_state; size_t m_state_size; };
#ifndef NMAX
#define NMAX 20
#endif
size_t gk; /* ghost index */
cplx g_s0, g_s1, g_e0, g_e1;

void applySingleQubitGate(struct sim *self, int q, const cplx *m)
__CPROVER_requires(__CPROVER_is_fresh(self, sizeof(*self)))
__CPROVER_requires(self->m_qubits >= 1 && self->m_qubits <= NMAX && q >= 0 && q < self->m_qubits)
__CPROVER_requires(self->m_state_size == ((size_t)1 << self->m_qubits))
__CPROVER_requires(__CPROVER_is_fresh(self->m_state, self->m_state_size * sizeof(cplx)))
__CPROVER_requires(__CPROVER_is_fresh(m, 4*sizeof(cplx)))
__CPROVER_requires(gk < self->m_state_size && (gk & ((size_t)1 << q)) == 0)
__CPROVER_assigns(__CPROVER_object_whole(self->m_state), g_s0, g_s1, g_e0, g_e1)
__CPROVER_ensures(CEQ(self->m_state[gk], g_s0) && CEQ(self->m_state[gk | ((size_t)1 << q)], g_s1))
__CPROVER_ensures(CEQ(g_e0, __CPROVER_old(self->m_state[gk])) && CEQ(g_e1, __CPROVER_old(self->m_state[gk | ((size_t)1 << q)])))
{
  /* ghost prologue */
  g_e0 = self->m_state[gk]; g_e1 = self->m_state[gk | ((size_t)1 << q)];
  g_s0 = cadd(cmul(m[0], g_e0), cmul(m[1], g_e1));
  g_s1 = cadd(cmul(m[2], g_e0), cmul(m[3], g_e1));
  /* body */
  size_t step = (size_t)1 << q;
  size_t size = self->m_state_size;
  cplx *st = self->m_state;
  for (size_t i = 0; i < size; i += 2 * step)
    __CPROVER_assigns(i, __CPROVER_object_whole(st))
    __CPROVER_loop_invariant(i <= size && (i & (2*step - 1)) == 0)
    __CPROVER_loop_invariant((gk & ~(2*step-1)) < i ?
        (CEQ(st[gk], g_s0) && CEQ(st[gk|step], g_s1))
      : (CEQ(st[gk], g_e0) && CEQ(st[gk|step], g_e1)))
    __CPROVER_decreases(size - i)
  {
    for (size_t j = 0; j < step; ++j)
      __CPROVER_assigns(j, __CPROVER_object_whole(st))
      __CPROVER_loop_invariant(j <= step)
      __CPROVER_loop_invariant(((gk & ~(2*step-1)) < i || ((gk & ~(2*step-1)) == i && (gk - i) < j)) ?
        (CEQ(st[gk], g_s0) && CEQ(st[gk|step], g_s1))
      : (CEQ(st[gk], g_e0) && CEQ(st[gk|step], g_e1)))
      __CPROVER_decreases(step - j)
    {
      size_t idx0 = i + j;
      size_t idx1 = idx0 + step;
      cplx a0 = st[idx0];
      cplx a1 = st[idx1];
      st[idx0] = cadd(cmul(m[0], a0), cmul(m[1], a1));
      st[idx1] = cadd(cmul(m[2], a0), cmul(m[3], a1));
    }
  }
}
void h_asg(void){ struct sim *s; int q; const cplx *m; applySingleQubitGate(s,q,m); }
