"""Unit UPD — update/update_manager.cpp: version parsing/comparison, notice throttling, gates (C20)."""
import re, os
from tools import cxx2c
from tools.cxx2c import Lower, Unsupported, kids, qt, qt_sugar, strip, strip_parens, callee_name, norm_type
from tools.cxx2c import REPO as _REPO

NAME = 'UPD'
SRC = _REPO + '/src/bloch/update/update_manager.cpp'
FUNCS = ['parseSemVer', 'compareSemVer', 'changeLabel', 'hasLatest', 'hasExpired', 'shouldSkipChecks', 'maybePrintNotice', 'checkForUpdatesIfDue', 'parseChecksum']
REGIONS = ['performSelfUpdate']
AST_FILTER = FUNCS + REGIONS + ['SemVer', 'UpdateCache', 'kUpdateWindow']
SHIM = 'upd.h'
NAMESPACE = 'bloch::update'
THROWING = {'parseSemVer', 'hasLatest', 'maybePrintNotice', 'checkForUpdatesIfDue', 'performSelfUpdate_gate'}
# I/O the unit does not look into: calls are routed to contract-only stubs (assumed, listed as such)
STUBS = {'loadCache': 'upd_stub_loadCache', 'saveCache': 'upd_stub_saveCache', 'emptyCache': 'upd_stub_emptyCache', 'fetchLatestReleaseTag': 'upd_stub_fetchLatestReleaseTag',
         'userAgent': 'upd_stub_userAgent', 'now': 'upd_stub_now'}
DROPS = ['std::string ownership: strings are read-only slices {pointer,length}; a by-value copy may be shortened from the front',
         'operands of std::cout/std::cerr insertions (each statement is one ghost output event on its stream)',
         'std::chrono types: time points and durations are int64 nanosecond ticks of system_clock',
         'std::getenv: the environment is an arbitrary fixed predicate per variable name']
ASSUMPTIONS = ['determinism of parseSemVer at call sites (result is a function of the argument string): assumed clause, justified by its proved frame (writes only ghost state)',
               'std::stoi model: a leading run of <= 9 digits always converts; a longer run may raise std::out_of_range (leading zeros are not distinguished)',
               'time points lie within +-2^61 ns of the epoch (no int64 overflow in now - then)']


class Profile(Lower):
    CLS = 'upd'
    SELF_T = ''
    IS_METHOD = False
    WRAP_DOUBLE_OPS = False
    TYPE_MAP = [
        (r'^(std::)?(basic_string<char.*>|string)$', 'bl_sv'),
        (r'^(bloch::update::\(anonymous namespace\)::)?SemVer$', 'SemVer'),
        (r'^(bloch::update::\(anonymous namespace\)::)?UpdateCache$', 'UpdateCache'),
        (r'^(Clock|std::chrono::system_clock)::time_point$', 'bl_time'),
        (r'^std::optional<(bloch::update::\(anonymous namespace\)::)?UpdateCache>$', 'opt_UpdateCache'),
        (r'^std::optional<std::(basic_string<char>|string)>$', 'opt_sv'),
        (r'^std::(basic_)?istringstream(<char.*>)?$', 'bl_iss'),
        (r'^std::basic_istream<char.*>$', 'bl_iss'),
        (r'^std::basic_ios<char.*>$', 'bl_iss'),
        (r'^std::chrono::time_point<std::chrono::(_V2::)?system_clock, std::chrono::duration<long, std::ratio<1, 1000000000>>>$', 'bl_time'),
    ]

    def __init__(self, *a, **k):
        super().__init__(*a, **k)
        self.records = {}
        self.consts = {}
        self.envnames = []
        self.refparams = set()
        self.fn_refpos = {}

    def prepare(self, docs, workdir):
        for rec in ('SemVer', 'UpdateCache'):
            rs = [d for d in docs if d.get('kind') == 'CXXRecordDecl' and d.get('name') == rec and d.get('completeDefinition')]
            if len(rs) != 1:
                raise Unsupported('struct %s not found' % rec)
            fields = []
            for f in kids(rs[0]):
                if f.get('kind') == 'FieldDecl':
                    init = [i for i in kids(f) if 'kind' in i]
                    # in-class initialisers must all be zero / false / empty for `(T){0}` to be the default value
                    for i in init:
                        z = strip_parens(i)
                        while z.get('kind') in ('InitListExpr', 'ImplicitValueInitExpr', 'CXXConstructExpr', 'ImplicitCastExpr', 'CXXFunctionalCastExpr') and kids(z):
                            z = strip_parens(kids(z)[0])
                        ok = (z.get('kind') == 'IntegerLiteral' and z.get('value') == '0') or (z.get('kind') == 'CXXBoolLiteralExpr' and not z.get('value')) \
                            or z.get('kind') in ('InitListExpr', 'ImplicitValueInitExpr', 'CXXConstructExpr')
                        if not ok:
                            raise Unsupported('non-zero default member initialiser in %s::%s' % (rec, f['name']))
                    fields.append((f['name'], self.ctype(qt(f))))
            self.records[rec] = fields
        vs = [d for d in docs if d.get('kind') == 'VarDecl' and d.get('name') == 'kUpdateWindow']
        if len(vs) != 1 or 'std::chrono::hours' not in qt_sugar(vs[0]):
            raise Unsupported('kUpdateWindow is not a std::chrono::hours constant')
        lit = []
        cxx2c.walk(vs[0], lambda n: lit.append(n['value']) if n.get('kind') == 'IntegerLiteral' else None)
        if len(lit) != 1:
            raise Unsupported('kUpdateWindow initialiser shape')
        self.consts['kUpdateWindow'] = 'BL_HOURS_NS(%s)' % lit[0]

    def file_prelude(self):
        out = []
        for rec, fields in self.records.items():
            out.append('typedef struct { %s } %s;' % (' '.join('%s %s;' % (t, f) for f, t in fields), rec))
        out.append('typedef struct { _Bool has; UpdateCache v; } opt_UpdateCache;')
        out.append('typedef struct { _Bool has; bl_sv v; } opt_sv;')
        out.append('#define BL_OPT_GET(o) (bl_trap((o).has, "dereference of an empty std::optional"), (o).v)')
        out.append('/* interned environment variable names: %s */' % ', '.join('%d=%s' % (i, n) for i, n in enumerate(self.envnames)))
        return out

    def string_literal(self, n):
        return 'BL_SV_LIT(%s)' % n['value']

    def subst(self, text):
        """sidecar macros: LITEQ(expr, "lit") -> byte-wise comparison; ENVSET("NAME") -> the ghost flag of that variable"""
        def liteq(m):
            e, lit = m.group(1), m.group(2)
            body = bytes(lit, 'utf-8').decode('unicode_escape')
            return '(' + ' && '.join(['%s.n == %d' % (e, len(body))] + ['%s.p[%d] == %d' % (e, i, ord(c)) for i, c in enumerate(body)]) + ')'
        text = re.sub(r'LITEQ\(([\w.]+), "((?:[^"\\\\]|\\\\.)*)"\)', liteq, text)

        def env(m):
            nm = '"%s"' % m.group(1)
            return 'g_env_set[%d]' % self.envnames.index(nm) if nm in self.envnames else '(0 /* %s is never read */)' % m.group(1)
        return re.sub(r'ENVSET\("(\w+)"\)', env, text)

    def lit_bytes_eq(self, sv_expr, lit_node):
        body = bytes(lit_node['value'][1:-1], 'utf-8').decode('unicode_escape')
        conds = ['%s.n == %d' % (sv_expr, len(body))] + ['%s.p[%d] == %d' % (sv_expr, i, ord(ch)) for i, ch in enumerate(body)]
        return '(' + ' && '.join(conds) + ')'

    def declref(self, n):
        rd = n['referencedDecl']
        name = rd['name']
        if name == 'npos':
            return 'BL_NPOS'
        if name == 'nullopt':
            return '(opt_sv){ 0, { "", 0 } }'
        if name in self.consts:
            return self.consts[name]
        if rd.get('kind') == 'ParmVarDecl' and name in self.refparams:
            return '(*%s)' % name
        return super().declref(n)

    def param(self, pd):
        t = qt_sugar(pd)
        ct = self.ctype(qt(pd))
        if t.rstrip().endswith('&') and not t.lstrip().startswith('const') and ct in ('UpdateCache', 'SemVer', 'bl_sv'):
            self.refparams.add(pd['name'])
            return '%s *%s' % (ct, pd['name'])
        return super().param(pd)

    def func(self, d, cname=None, is_method=True):
        self.refparams = set()
        r = super().func(d, cname, is_method)
        pds = [pd for pd in kids(d) if pd.get('kind') == 'ParmVarDecl']
        self.fn_refpos[cname or d['name']] = [i for i, pd in enumerate(pds) if pd.get('name') in self.refparams]
        return r

    def construct(self, n):
        ct = self.ctype(qt(n))
        args = [a for a in kids(n) if a.get('kind') != 'CXXDefaultArgExpr']
        if ct in ('SemVer', 'UpdateCache'):
            if not args:
                return '(%s){0}' % ct
            if len(args) == 1 and self.ct(args[0]) == ct:
                return self.expr(args[0])
        if ct == 'bl_sv':
            if not args:
                return '(bl_sv){ "", 0 }'
            if len(args) == 1:
                return self.expr(args[0])
        if ct == 'bl_time' and len(args) == 1 and self.ct(args[0]) == 'bl_time':
            return self.expr(args[0])
        if ct == 'bl_iss' and len([a for a in args]) >= 1 and self.ct(args[0]) == 'bl_sv':
            return 'bl_iss_make(%s)' % self.expr(args[0])
        if ct == 'opt_sv' and len(args) == 1 and self.ct(args[0]) == 'bl_sv':
            return '(opt_sv){ 1, %s }' % self.expr(args[0])
        if ct == 'opt_sv' and (not args or 'nullopt' in qt(args[0])):
            return '(opt_sv){ 0, { "", 0 } }'
        if ct == 'opt_sv' and len(args) == 1 and self.ct(args[0]) == 'opt_sv':
            return self.expr(args[0])
        raise Unsupported('ctor %s/%d' % (ct, len(args)))

    def cast(self, n):
        # T{} / T{a, b}: aggregate (re)initialisation of one of the unit's plain structs
        if n.get('kind') == 'CXXFunctionalCastExpr' and kids(n)[0].get('kind') == 'InitListExpr' and self.ct(n) in ('SemVer', 'UpdateCache'):
            return self.expr(kids(n)[0])
        return super().cast(n)

    def initlist(self, n):
        ct = self.ct(n)
        if ct in ('SemVer', 'UpdateCache'):
            # members with CXXDefaultInitExpr take their in-class initialiser, which prepare() checked to be zero
            vals = ['0' if a.get('kind') == 'CXXDefaultInitExpr' else self.expr(a) for a in kids(n)]
            if all(a.get('kind') == 'CXXDefaultInitExpr' for a in kids(n)):
                return '(%s){0}' % ct
            return '(%s){ %s }' % (ct, ', '.join(vals))
        return super().initlist(n)

    def cast_other(self, n, ck, inner):
        if ck == 'PointerToBoolean':
            return self.expr(inner)
        return super().cast_other(n, ck, inner)

    def is_out_string(self, a):
        # a non-const std::string& argument (an out-parameter such as `err`)
        s = strip(a)
        return s.get('kind') == 'DeclRefExpr' and qt_sugar(s).strip() == 'std::string' and s.get('valueCategory') == 'lvalue' and s['referencedDecl'].get('kind') == 'VarDecl'

    def duration_ns(self, n):
        """a std::chrono duration expression in nanosecond ticks"""
        s = strip_parens(n)
        if s.get('kind') == 'CXXOperatorCallExpr' and callee_name(kids(s)[0]) == 'operator-':
            a, b = kids(s)[1:]
            if self.ct(a) == 'bl_time' and self.ct(b) == 'bl_time':
                return 'BL_TSUB(%s, %s)' % (self.expr(a), self.expr(b))
        if s.get('kind') == 'DeclRefExpr' and s['referencedDecl']['name'] in self.consts:
            return self.consts[s['referencedDecl']['name']]
        raise Unsupported('duration expression ' + str(s.get('kind')))

    def is_ostream_chain(self, n):
        s = strip_parens(n)
        while s.get('kind') == 'CXXOperatorCallExpr' and callee_name(kids(s)[0]) == 'operator<<':
            s = strip_parens(kids(s)[1])
        if s.get('kind') == 'DeclRefExpr' and s['referencedDecl']['name'] in ('cout', 'cerr'):
            return 1 if s['referencedDecl']['name'] == 'cout' else 2
        return 0

    def opcall(self, n):
        ks = kids(n)
        op = callee_name(ks[0])
        args = ks[1:]
        t0 = self.ct(args[0])
        st = self.is_ostream_chain(n)
        if st:
            return 'bl_out(%d)' % st
        if op == 'operator>>' and t0 == 'bl_iss' and len(args) == 2 and self.ct(args[1]) == 'bl_sv':
            a0 = strip_parens(args[0])
            if a0.get('kind') == 'CXXOperatorCallExpr' and callee_name(kids(a0)[0]) == 'operator>>':
                # in >> a >> b : the second extraction happens on the same stream, only if the first succeeded
                first = self.expr(a0)
                m = re.search(r'bl_iss_read_word\(&(\w+), ', first)
                if not m:
                    raise Unsupported('extraction chain shape')
                return '(%s && bl_iss_read_word(&%s, &%s))' % (first, m.group(1), self.expr(args[1]))
            return 'bl_iss_read_word(&%s, &%s)' % (self.expr(args[0]), self.expr(args[1]))
        if op == 'operator!' and len(args) == 1 and ('basic_ios' in qt(args[0]) or t0 == 'bl_iss'):
            return '(!%s)' % self.expr(args[0])
        if op in ('operator==', 'operator!=') and t0 == 'bl_sv' and self.ct(args[1]) == 'bl_sv' and self.fn == 'parseChecksum':
            return '(%sbl_sv_eq(%s, %s))' % ('' if op == 'operator==' else '!', self.expr(args[0]), self.expr(args[1]))
        if op == 'operator[]' and t0 == 'bl_sv':
            return 'SV_AT(%s, %s)' % (self.expr(args[0]), self.expr(args[1]))
        if op == 'operator*' and len(args) == 1 and t0 in ('opt_sv', 'opt_UpdateCache'):
            return 'BL_OPT_GET(%s)' % self.expr(args[0])
        if op == 'operator=' and t0 == 'UpdateCache':
            return '(%s = %s)' % (self.expr(args[0]), self.expr(args[1]))
        if op == 'operator=' and t0 in ('bl_sv', 'bl_time', 'SemVer'):
            return '(%s = %s)' % (self.expr(args[0]), self.expr(args[1]))
        if op in ('operator>=', 'operator<', 'operator>', 'operator<=') and strip_parens(args[0]).get('kind') == 'CXXOperatorCallExpr' \
                and callee_name(kids(strip_parens(args[0]))[0]) == 'operator<=>':
            a, b = kids(strip_parens(args[0]))[1:]
            return '(%s %s %s)' % (self.duration_ns(a), op[len('operator'):], self.duration_ns(b))
        if op == 'operator==' and t0 == 'bl_sv':
            a, b = strip_parens(args[0]), strip_parens(args[1])
            for x, y in ((a, b), (b, a)):
                yy = y
                while yy.get('kind') in ('CXXConstructExpr', 'ImplicitCastExpr', 'MaterializeTemporaryExpr') and kids(yy):
                    yy = strip(kids(yy)[0])
                if yy.get('kind') == 'StringLiteral':
                    return self.lit_bytes_eq(self.expr(x), yy)
            raise Unsupported('string == non-literal')
        raise Unsupported('operator %s on %s' % (op, qt(args[0])))

    def membercall_other(self, n, name, obj, args):
        t = self.ct(obj)
        o = self.expr(obj)
        if t in ('opt_UpdateCache', 'opt_sv'):
            if name == 'operator bool' or name == 'has_value':
                return '(%s).has' % o
            if name == 'value_or' and len(args) == 1:
                return '((%s).has ? (%s).v : %s)' % (o, o, self.expr(args[0]))
        if name in ('operator bool', 'operator!') and (o.startswith('bl_getline(') or 'bl_iss_read_word(' in o):
            return o if name == 'operator bool' else '(!%s)' % o
        if False:
            return o
        if t == 'bl_sv' and name == 'find' and len([a for a in args if a.get('kind') != 'CXXDefaultArgExpr']) == 1 and self.ct(args[0]) == 'bl_sv':
            return 'bl_sv_find_sv(%s, %s)' % (o, self.expr(args[0]))
        if t == 'bl_sv':
            if name in ('size', 'length'):
                return 'SV_SIZE(%s)' % o
            if name == 'empty':
                return '(SV_SIZE(%s) == 0)' % o
            if name == 'front':
                return 'SV_AT(%s, 0)' % o
            if name == 'compare' and len(args) == 3 and self.ct(args[2]) == 'bl_sv':
                self.needs_prop = True          # std::out_of_range when pos > size()
                return 'bl_sv_compare_sub(%s, %s, %s, %s)' % (o, self.expr(args[0]), self.expr(args[1]), self.expr(args[2]))
            if name == 'substr':
                self.needs_prop = True
                return 'bl_sv_substr(%s, %s)' % (o, ', '.join(self.expr(a) for a in args))
            if name == 'erase' and len(args) == 1:
                a = args[0]
                found = []
                cxx2c.walk(a, lambda z: found.append(z) if z.get('kind') == 'CXXMemberCallExpr' and strip(kids(z)[0]).get('name') == 'begin' else None)
                if len(found) == 1 and self.expr(kids(strip(kids(found[0])[0]))[0]) == o:
                    return 'bl_sv_pop_front(&%s)' % o
                raise Unsupported('erase shape')
        raise Unsupported('member call %s on %s' % (name, qt(obj)))

    def call_named(self, n, name, args):
        if name in self.lowered and name in self.fn_refpos:
            if name in self.throwing:
                self.needs_prop = True
            es = [('&' + self.expr(a)) if i in self.fn_refpos[name] else self.expr(a) for i, a in enumerate(args)]
            return '%s(%s)' % (self.free_name(name), ', '.join(es))
        if name in STUBS:
            return '%s(%s)' % (STUBS[name], ', '.join(('&' + self.expr(a)) if self.is_out_string(a) else self.expr(a) for a in args))
        if name == 'getline' and len(args) == 2 and strip_parens(args[0]).get('kind') == 'DeclRefExpr' and strip_parens(args[0])['referencedDecl']['name'] == 'cin':
            return 'upd_stub_read_line(&%s)' % self.expr(args[1])
        if name == 'getline' and len(args) == 2 and self.ct(args[0]) == 'bl_iss':
            return 'bl_getline(&%s, &%s)' % (self.expr(args[0]), self.expr(args[1]))
        if name == 'isdigit':
            return 'bl_isdigit(%s)' % self.expr(args[0])
        if name == 'stoi' and self.ct(args[0]) == 'bl_sv':
            self.needs_prop = True
            return 'bl_stoi(%s)' % self.expr(args[0])
        if name == 'getenv':
            a = strip_parens(args[0])
            if a.get('kind') != 'StringLiteral':
                raise Unsupported('getenv of a non-literal name')
            nm = a['value']
            if nm not in self.envnames:
                self.envnames.append(nm)
            return 'BL_GETENV(%d)' % self.envnames.index(nm)
        return super().call_named(n, name, args)


def lower_regions(docs, prof):
    """the version gate of performSelfUpdate: every statement from the start of the function up to
    (excluding) the declaration of `os` (where platform selection and the download begin)"""
    ds = cxx2c.find_functions(docs, 'performSelfUpdate')
    if len(ds) != 1:
        raise Unsupported('performSelfUpdate: %d definitions' % len(ds))
    d = dict(ds[0])
    body = [k for k in kids(d) if k.get('kind') == 'CompoundStmt'][0]
    stmts = kids(body)
    cut = None
    for i, s in enumerate(stmts):
        if s.get('kind') == 'DeclStmt' and any(v.get('name') == 'os' for v in kids(s)):
            cut = i
            break
    if cut is None:
        raise Unsupported('region end (declaration of `os`) not found in performSelfUpdate')
    body2 = dict(body)
    body2['inner'] = stmts[:cut]
    d['inner'] = [k for k in kids(d) if k.get('kind') != 'CompoundStmt'] + [body2]
    head, lines = prof.func(d, cname='performSelfUpdate_gate', is_method=False)
    assert lines[-1].strip() == '}'
    lines = lines[:-1] + ['  GHOST(g_reached_download = 1;)', '  return 1;', '}']
    return [(head, lines)]


# =========================================================================== sidecar contracts
VMAX = 64
GHOSTS = r'''
#ifndef VMAX
#define VMAX %d
#endif
#define ISDIG(c) ((c) >= 48 && (c) <= 57)
#define TBOUND 2305843009213693952L
#ifndef NATIVE
int __CPROVER_uninterpreted_sv_valid(const char *, size_t); int __CPROVER_uninterpreted_sv_major(const char *, size_t);
int __CPROVER_uninterpreted_sv_minor(const char *, size_t); int __CPROVER_uninterpreted_sv_patch(const char *, size_t);
#define UF_SV_VALID __CPROVER_uninterpreted_sv_valid
#define UF_SV_MAJOR __CPROVER_uninterpreted_sv_major
#define UF_SV_MINOR __CPROVER_uninterpreted_sv_minor
#define UF_SV_PATCH __CPROVER_uninterpreted_sv_patch
#define SAME_PARSE(g, s) (((g).valid ? 1 : 0) == UF_SV_VALID((s).p, (s).n) && (g).major == UF_SV_MAJOR((s).p, (s).n) && (g).minor == UF_SV_MINOR((s).p, (s).n) && (g).patch == UF_SV_PATCH((s).p, (s).n))
#endif
int bl_exc, bl_exc_line, bl_exc_col;
int g_stoi_calls; const char *g_stoi_arg_p[BL_STOI_SLOTS]; size_t g_stoi_arg_n[BL_STOI_SLOTS]; int g_stoi_ret[BL_STOI_SLOTS];
_Bool g_env_set[8]; int bl_out_count[3];
size_t gb;            /* ghost byte index */
size_t g_o, g_e0, g_e1, g_e2;   /* ghost: offset of the first component and the ends of the three digit runs */
SemVer g_cur, g_lat;  /* ghost: what parseSemVer returned for the two version strings */
int g_reached_download, g_saves, g_fetches, g_loads, g_prompts; bl_time g_now, g_saved_lastNotified;
/* ---- contract-only stubs for the I/O this unit does not look into (assumed, not verified) */
#ifdef NATIVE
/* the I/O stubs are never called by the natively co-executed functions */
bl_time upd_stub_now(void) { abort(); } opt_UpdateCache upd_stub_loadCache(void) { abort(); } UpdateCache upd_stub_emptyCache(void) { abort(); }
void upd_stub_saveCache(UpdateCache c) { abort(); } bl_sv upd_stub_userAgent(bl_sv v) { abort(); } opt_sv upd_stub_fetchLatestReleaseTag(bl_sv a, bl_sv *e) { abort(); } void upd_stub_read_line(bl_sv *l) { abort(); }
#else
bl_time upd_stub_now(void)
__CPROVER_assigns(g_now)
__CPROVER_ensures(__CPROVER_return_value >= -TBOUND / 2 && __CPROVER_return_value <= TBOUND / 2 && g_now == __CPROVER_return_value)
;
opt_UpdateCache upd_stub_loadCache(void)
__CPROVER_assigns(g_loads)
__CPROVER_ensures(g_loads == __CPROVER_old(g_loads) + 1)
__CPROVER_ensures(__CPROVER_return_value.has ==> (__CPROVER_return_value.v.lastNotified >= -TBOUND / 2 && __CPROVER_return_value.v.lastNotified <= TBOUND / 2 && __CPROVER_return_value.v.lastChecked >= -TBOUND / 2 && __CPROVER_return_value.v.lastChecked <= TBOUND / 2 && __CPROVER_return_value.v.latestVersion.n <= VMAX))
__CPROVER_ensures(__CPROVER_return_value.has ==> __CPROVER_is_fresh(__CPROVER_return_value.v.latestVersion.p, VMAX + 1))
;
UpdateCache upd_stub_emptyCache(void)
__CPROVER_assigns()
__CPROVER_ensures(__CPROVER_return_value.latestVersion.n == 0 && __CPROVER_return_value.lastChecked == 0 && __CPROVER_return_value.lastNotified == 0)
__CPROVER_ensures(__CPROVER_is_fresh(__CPROVER_return_value.latestVersion.p, VMAX + 1))
;
void upd_stub_saveCache(UpdateCache c)
__CPROVER_assigns(g_saves, g_saved_lastNotified)
__CPROVER_ensures(g_saves == __CPROVER_old(g_saves) + 1 && g_saved_lastNotified == c.lastNotified)
;
bl_sv upd_stub_userAgent(bl_sv v)
__CPROVER_assigns()
__CPROVER_ensures(1)
;
opt_sv upd_stub_fetchLatestReleaseTag(bl_sv agent, bl_sv *err)
__CPROVER_assigns(g_fetches, *err)
__CPROVER_ensures(g_fetches == __CPROVER_old(g_fetches) + 1)
__CPROVER_ensures(__CPROVER_return_value.has ==> __CPROVER_return_value.v.n <= VMAX)
__CPROVER_ensures(__CPROVER_return_value.has ==> __CPROVER_is_fresh(__CPROVER_return_value.v.p, VMAX + 1))
;
void upd_stub_read_line(bl_sv *line)
__CPROVER_assigns(*line, g_prompts)
__CPROVER_ensures(g_prompts == __CPROVER_old(g_prompts) + 1 && line->n <= 8)
__CPROVER_ensures(__CPROVER_is_fresh(line->p, 9))
;
#endif
''' % VMAX


def R(t):
    return ('', 'requires', t, [])


def E(label, t, props, **opts):
    return (label, 'ensures', t, props, opts)


def A(t):
    return ('', 'assigns', t, [])


def sv_req(v):
    return [R('%s.n <= VMAX' % v), R('__CPROVER_is_fresh(%s.p, %s.n ? %s.n : 1)' % (v, v, v))]


EXC_VARS = 'bl_exc, bl_exc_line, bl_exc_col'
STOI_VARS = 'g_stoi_calls, __CPROVER_object_whole(g_stoi_arg_p), __CPROVER_object_whole(g_stoi_arg_n), __CPROVER_object_whole(g_stoi_ret)'
V = 'version'
# semver_spec (C20): optional 'v', then up to three '.'-separated maximal decimal runs; valid iff
# the first run is non-empty.  O = offset of the first run.
O = '((%s.n > 0 && %s.p[0] == 118) ? (size_t)1 : (size_t)0)' % (V, V)
GHOSTS += r'''
/* ---- specification of the checksum lookup, written from the property (C20), independent of the code:
   the first field of the first line whose file-name field (second field; a leading '*' - sha256sum's binary marker - removed)
   equals the asset name exactly */
#ifndef NATIVE
static inline opt_sv spec_checksum(bl_sv c, bl_sv a) {
  size_t pos = 0;
  while (pos < c.n) {
    size_t e = pos; while (e < c.n && c.p[e] != '\n') e++;
    size_t i = pos; while (i < e && bl_isspace((unsigned char)c.p[i])) i++;
    size_t h0 = i; while (i < e && !bl_isspace((unsigned char)c.p[i])) i++; size_t h1 = i;
    while (i < e && bl_isspace((unsigned char)c.p[i])) i++;
    size_t n0 = i; while (i < e && !bl_isspace((unsigned char)c.p[i])) i++; size_t n1 = i;
    if (n0 < n1 && c.p[n0] == '*') n0++;
    if (h1 > h0 && n1 - n0 == a.n) { size_t j = 0; while (j < a.n && c.p[n0 + j] == a.p[j]) j++; if (j == a.n) { opt_sv r; r.has = 1; r.v.p = c.p + h0; r.v.n = h1 - h0; return r; } }
    pos = e + 1;
  }
  opt_sv none; none.has = 0; none.v.p = ""; none.v.n = 0; return none;
}
#endif
'''
RET = '__CPROVER_return_value'
CMP_SPEC = ('((!current.valid || !latest.valid) ? 0 : (current.major != latest.major ? (current.major < latest.major ? -1 : 1) : '
            '(current.minor != latest.minor ? (current.minor < latest.minor ? -1 : 1) : (current.patch != latest.patch ? (current.patch < latest.patch ? -1 : 1) : 0))))')

CONTRACTS = {
    'parseSemVer': {
        'contract': sv_req(V) + [
            R('bl_exc == 0'),
            A(EXC_VARS + ', ' + STOI_VARS),
            E('parseSemVer.never_raises', 'bl_exc == 0', ['C20', 'C12']),
            # determinism (assumed at call sites only): the result is a function of the argument string;
            # justified by the frame above (the function writes nothing but ghost state) and immutable input
            E('', '(%s.valid ? 1 : 0) == UF_SV_VALID(%s.p, %s.n) && %s.major == UF_SV_MAJOR(%s.p, %s.n) && %s.minor == UF_SV_MINOR(%s.p, %s.n) && %s.patch == UF_SV_PATCH(%s.p, %s.n)' % (RET, V, V, RET, V, V, RET, V, V, RET, V, V), [], replace_only=True),
            # completeness for every string short enough that no component can be out of range (what counts as
            # "cannot parse" for longer digit runs is left to the implementation: reject, or accept if it fits)
            E('parseSemVer.valid_if_first_component_is_a_number', '(bl_exc == 0 && %s.n > %s && %s.n - %s <= 9 && ISDIG(%s.p[%s])) ==> %s.valid' % (V, O, V, O, V, O, RET), ['C20']),
            E('parseSemVer.valid_only_if_first_component_is_a_number', '(bl_exc == 0 && %s.valid) ==> (%s.n > %s && ISDIG(%s.p[%s]))' % (RET, V, O, V, O), ['C20']),
            E('parseSemVer.invalid_is_all_zero', '(bl_exc == 0 && !%s.valid) ==> (%s.major == 0 && %s.minor == 0 && %s.patch == 0)' % (RET, RET, RET, RET), ['C20']),
            # each component is the value std::stoi produced for one maximal digit run, in order
            E('parseSemVer.major_is_first_run', '(bl_exc == 0 && %s.valid) ==> (g_stoi_calls >= 1 && %s.major == g_stoi_ret[0] && g_stoi_arg_n[0] >= 1 && g_stoi_arg_n[0] <= VMAX && g_stoi_arg_p[0] == %s.p + %s && %s + g_stoi_arg_n[0] <= %s.n)' % (RET, RET, V, O, O, V), ['C20']),
            E('parseSemVer.first_run_is_digits', '(bl_exc == 0 && %s.valid && gb < g_stoi_arg_n[0]) ==> ISDIG(%s.p[%s + gb])' % (RET, V, O), ['C20']),
            E('parseSemVer.first_run_is_maximal', '(bl_exc == 0 && %s.valid) ==> (%s + g_stoi_arg_n[0] == %s.n || !ISDIG(%s.p[%s + g_stoi_arg_n[0]]))' % (RET, O, V, V, O), ['C20']),
            E('parseSemVer.minor_is_second_run_or_zero',
              '(bl_exc == 0 && %(R)s.valid) ==> ((%(O)s + g_stoi_arg_n[0] + 1 < %(V)s.n && %(V)s.p[%(O)s + g_stoi_arg_n[0]] == 46 && ISDIG(%(V)s.p[%(O)s + g_stoi_arg_n[0] + 1])) '
              '? (g_stoi_calls >= 2 && %(R)s.minor == g_stoi_ret[1] && g_stoi_arg_p[1] == %(V)s.p + %(O)s + g_stoi_arg_n[0] + 1) : (g_stoi_calls == 1 && %(R)s.minor == 0 && %(R)s.patch == 0))' % dict(R=RET, V=V, O=O), ['C20']),
            E('parseSemVer.at_most_three_components', '(bl_exc == 0) ==> (g_stoi_calls <= 3 && (g_stoi_calls < 3 ==> %s.patch == 0) && (g_stoi_calls == 3 ==> %s.patch == g_stoi_ret[2]))' % (RET, RET), ['C20']),
        ],
        'loops': {
            # outer loop: one '.'-separated component per iteration, at most three (decreases 3 - idx).
            # At the loop head with idx >= 1 the previous run has been followed by a consumed '.'.
            0: {'assigns': 'pos, idx, sem, ' + EXC_VARS + ', ' + STOI_VARS,
                'invariants': [
                    ('parseSemVer.components.bounds', 'pos <= v.n && idx >= 0 && idx <= 3 && g_stoi_calls == idx && bl_exc == 0'),
                    ('parseSemVer.components.none_yet', '(idx == 0) ==> (pos == 0 && !sem.valid && sem.major == 0 && sem.minor == 0 && sem.patch == 0)'),
                    ('parseSemVer.components.first', '(idx >= 1) ==> (sem.valid && sem.major == g_stoi_ret[0] && g_stoi_arg_p[0] == v.p && g_stoi_arg_n[0] >= 1 && g_stoi_arg_n[0] < v.n && v.p[g_stoi_arg_n[0]] == 46 && ISDIG(v.p[0]) && (gb < g_stoi_arg_n[0] ==> ISDIG(v.p[gb])))'),
                    ('parseSemVer.components.after_first', '(idx == 1) ==> (pos == g_stoi_arg_n[0] + 1 && sem.minor == 0 && sem.patch == 0)'),
                    ('parseSemVer.components.second', '(idx >= 2) ==> (sem.minor == g_stoi_ret[1] && g_stoi_arg_p[1] == v.p + g_stoi_arg_n[0] + 1 && g_stoi_arg_n[1] >= 1 && g_stoi_arg_n[0] + 1 < v.n && ISDIG(v.p[g_stoi_arg_n[0] + 1]))'),
                    ('parseSemVer.components.third', '((idx <= 2) ==> sem.patch == 0) && ((idx == 3) ==> sem.patch == g_stoi_ret[2])'),
                ],
                'decreases': '3 - idx'},
            1: {'assigns': 'pos',
                'invariants': [('parseSemVer.digits.bounds', 'start <= pos && pos <= v.n'),
                               ('parseSemVer.digits.run_is_digits', '(gb >= start && gb < pos) ==> ISDIG(v.p[gb])'),
                               ('parseSemVer.digits.first_is_digit', '(start < pos) ==> ISDIG(v.p[start])')],
                'decreases': 'v.n - pos'},
        },
        'prologue': 'g_stoi_calls = 0;',
        'locals': ['v', 'pos', 'idx', 'start', 'value', 'sem'],
    },
    'compareSemVer': {'contract': [
        A(''),
        E('compareSemVer.is_sign_of_numeric_lexicographic_order', '%s == %s' % (RET, CMP_SPEC), ['C20']),
    ]},
    'changeLabel': {'contract': [
        A(''),
        E('changeLabel.names_the_most_significant_increase',
          '(!current.valid || !latest.valid) ? LITEQ(%(R)s, "new") : (latest.major > current.major ? LITEQ(%(R)s, "major") : (latest.minor > current.minor ? LITEQ(%(R)s, "minor") : (latest.patch > current.patch ? LITEQ(%(R)s, "patch") : LITEQ(%(R)s, "new"))))' % dict(R=RET), ['C20']),
    ]},
    'hasExpired': {'contract': [
        R('tp >= -TBOUND && tp <= TBOUND && now >= -TBOUND && now <= TBOUND'),
        A(''),
        E('hasExpired.window_is_72_hours', '%s == (now - tp >= 72L * 3600L * 1000000000L)' % RET, ['C20']),
    ]},
    'shouldSkipChecks': {'contract': [
        A(''),
        E('shouldSkipChecks.true_iff_any_switch_set', '%s == (ENVSET("BLOCH_NO_UPDATE_CHECK") || ENVSET("CI") || ENVSET("BLOCH_OFFLINE"))' % RET, ['C20']),
    ]},
    # hasLatest: "nothing to install": both versions parse and current >= latest (numerically)
    'hasLatest': {'contract': sv_req('currentVersion') + sv_req('latestVersion') + [
        R('bl_exc == 0'),
        A(EXC_VARS + ', ' + STOI_VARS + ', g_cur, g_lat'),
        E('hasLatest.never_raises', 'bl_exc == 0', ['C20', 'C12']),
        E('hasLatest.ghost_is_what_was_parsed', 'SAME_PARSE(g_cur, currentVersion) && SAME_PARSE(g_lat, latestVersion)', []),
        E('hasLatest.true_iff_both_valid_and_not_older', '%s == (g_cur.valid && g_lat.valid && !(g_cur.major < g_lat.major || (g_cur.major == g_lat.major && (g_cur.minor < g_lat.minor || (g_cur.minor == g_lat.minor && g_cur.patch < g_lat.patch)))))' % RET, ['C20']),
    ]},
}

CONTRACTS['hasLatest']['after_decl'] = {'current': 'g_cur = current;', 'latest': 'g_lat = latest;'}
NEWER = '(g_cur.major < g_lat.major || (g_cur.major == g_lat.major && (g_cur.minor < g_lat.minor || (g_cur.minor == g_lat.minor && g_cur.patch < g_lat.patch))))'
H72 = '259200000000000L'
CACHE_REQ = [R('__CPROVER_is_fresh(cache, sizeof(*cache))'), R('cache->latestVersion.n <= VMAX'),
             R('cache->lastNotified >= -TBOUND / 2 && cache->lastNotified <= TBOUND / 2 && now >= -TBOUND / 2 && now <= TBOUND / 2')]
OUT = 'bl_out_count[1]'
CONTRACTS['maybePrintNotice'] = {
    'contract': sv_req('latestVersion') + sv_req('currentVersion') + CACHE_REQ + [
        R('bl_exc == 0 && bl_out_count[1] >= 0 && bl_out_count[1] < 1000'),
        A(EXC_VARS + ', ' + STOI_VARS + ', g_cur, g_lat, cache->lastNotified, cache->latestVersion, __CPROVER_object_whole(bl_out_count)'),
        E('maybePrintNotice.never_raises', 'bl_exc == 0', ['C20', 'C12']),
        E('maybePrintNotice.prints_exactly_when_it_returns_true', OUT + ' == __CPROVER_old(' + OUT + ') + (' + RET + ' ? 1 : 0)', ['C20']),
        E('maybePrintNotice.only_after_72h_window', RET + ' ==> (now - __CPROVER_old(cache->lastNotified) >= ' + H72 + ')', ['C20']),
        E('maybePrintNotice.only_for_parsable_strictly_newer', RET + ' ==> (latestVersion.n > 0 && g_cur.valid && g_lat.valid && ' + NEWER + ')', ['C20']),
        E('maybePrintNotice.stamps_the_window', RET + ' ==> (cache->lastNotified == now)', ['C20']),
        E('maybePrintNotice.records_the_announced_version', RET + ' ==> (cache->latestVersion.p == latestVersion.p && cache->latestVersion.n == latestVersion.n)', ['C20']),
        E('maybePrintNotice.silent_call_leaves_cache', '!' + RET + ' ==> (cache->lastNotified == __CPROVER_old(cache->lastNotified) && cache->latestVersion.p == __CPROVER_old(cache->latestVersion.p) && cache->latestVersion.n == __CPROVER_old(cache->latestVersion.n))', ['C20']),
        E('maybePrintNotice.notifies_when_due', '(bl_exc == 0 && latestVersion.n > 0 && now - __CPROVER_old(cache->lastNotified) >= ' + H72 + ' && g_cur.valid && g_lat.valid && ' + NEWER + ') ==> ' + RET, ['C20']),
    ],
    'after_decl': {'current': 'g_cur = current;', 'latest': 'g_lat = latest;'},
}
CONTRACTS['checkForUpdatesIfDue'] = {
    'contract': sv_req('currentVersion') + [
        R('bl_exc == 0 && bl_out_count[1] >= 0 && bl_out_count[1] < 900 && g_saves >= 0 && g_saves < 1000 && g_fetches >= 0 && g_fetches < 1000 && g_loads >= 0 && g_loads < 1000'),
        A(EXC_VARS + ', ' + STOI_VARS + ', g_cur, g_lat, g_saves, g_fetches, g_loads, g_now, g_saved_lastNotified, __CPROVER_object_whole(bl_out_count)'),
        E('checkForUpdatesIfDue.never_raises', 'bl_exc == 0', ['C20', 'C12']),
        E('checkForUpdatesIfDue.disabled_by_environment_does_nothing',
          '(ENVSET("BLOCH_NO_UPDATE_CHECK") || ENVSET("CI") || ENVSET("BLOCH_OFFLINE")) ==> (' + OUT + ' == __CPROVER_old(' + OUT + ') && bl_out_count[2] == __CPROVER_old(bl_out_count[2]) && g_saves == __CPROVER_old(g_saves) && g_fetches == __CPROVER_old(g_fetches) && g_loads == __CPROVER_old(g_loads))', ['C20']),
        E('checkForUpdatesIfDue.at_most_one_notice', OUT + ' <= __CPROVER_old(' + OUT + ') + 1', ['C20']),
        # the 72 h throttle holds across invocations only if a printed notice reaches the cache file, stamped with this run's time
        E('checkForUpdatesIfDue.printed_notice_is_persisted_with_its_time', '(' + OUT + ' == __CPROVER_old(' + OUT + ') + 1) ==> (g_saves >= __CPROVER_old(g_saves) + 1 && g_saved_lastNotified == g_now)', ['C20']),
    ],
}
CONTRACTS['performSelfUpdate_gate'] = {
    'contract': sv_req('currentVersion') + sv_req('argv0') + [
        R('bl_exc == 0 && g_reached_download == 0 && bl_out_count[1] >= 0 && bl_out_count[1] < 1000 && bl_out_count[2] >= 0 && bl_out_count[2] < 1000 && g_fetches >= 0 && g_fetches < 1000 && g_prompts >= 0 && g_prompts < 1000'),
        A(EXC_VARS + ', ' + STOI_VARS + ', g_cur, g_lat, g_fetches, g_prompts, g_reached_download, __CPROVER_object_whole(bl_out_count)'),
        E('performSelfUpdate.never_raises', 'bl_exc == 0', ['C20', 'C12']),
        # the property: it installs a release only if both versions parse and the release is strictly newer
        E('performSelfUpdate.download_only_if_parsable_and_strictly_newer', '(g_reached_download != 0) ==> (g_cur.valid && g_lat.valid && ' + NEWER + ')', ['C20']),
    ],
    'after_decl': {'currentSem': 'g_cur = currentSem;', 'latestSem': 'g_lat = latestSem;'},
}

HARNESSES = [
    dict(name='parseSemVer', fn='parseSemVer', replace=[], flags=[], props=['C20', 'C12'], timeout=600, bounded_defs=['VMAX=6'], unwind=8, canaries=[('bl_exc == 0', 'normal return')]),
    dict(name='compareSemVer', fn='compareSemVer', replace=[], flags=[], props=['C20'], timeout=120),
    dict(name='changeLabel', fn='changeLabel', replace=[], flags=[], props=['C20'], timeout=120),
    dict(name='hasExpired', fn='hasExpired', replace=[], flags=[], props=['C20'], timeout=120),
    dict(name='shouldSkipChecks', fn='shouldSkipChecks', replace=[], flags=[], props=['C20'], timeout=120),
    dict(name='hasLatest', fn='hasLatest', replace=['parseSemVer', 'compareSemVer'], flags=[], props=['C20', 'C12'], timeout=300, canaries=[('bl_exc == 0', 'normal return')]),
    dict(name='maybePrintNotice', fn='maybePrintNotice', replace=['parseSemVer', 'compareSemVer', 'hasExpired'], flags=[], props=['C20', 'C12'], timeout=300, canaries=[('bl_exc == 0', 'normal return')]),
    dict(name='checkForUpdatesIfDue', fn='checkForUpdatesIfDue', replace=['shouldSkipChecks', 'hasExpired', 'maybePrintNotice'] + sorted(STUBS.values()), flags=[], props=['C20', 'C12'], timeout=300, canaries=[('bl_exc == 0', 'normal return')]),
    dict(name='performSelfUpdate_gate', fn='performSelfUpdate_gate', replace=['hasLatest', 'parseSemVer'] + ['upd_stub_fetchLatestReleaseTag', 'upd_stub_userAgent', 'upd_stub_read_line'], flags=[], props=['C20', 'C12'], timeout=300,
         canaries=[('bl_exc == 0 && g_reached_download', 'download reached'), ('bl_exc == 0 && !g_reached_download', 'early return')]),
]
# ---- lemmas over the contracts (no code is verified here: the calls are replaced by the contracts above)
HARNESSES += [
    dict(name='lemma_semver_order', fn='compareSemVer', lemma=True, replace=['compareSemVer'], flags=[], props=['C20'], timeout=120, canaries=[],
         labels={'lemma.compareSemVer.antisymmetric': ['C20'], 'lemma.compareSemVer.transitive': ['C20'], 'lemma.compareSemVer.equal_triples_compare_equal': ['C20'], 'lemma.compareSemVer.invalid_compares_equal': ['C20']},
         body='''  SemVer a, b, c;
  int ab = upd_compareSemVer(a, b), ba = upd_compareSemVer(b, a), bc = upd_compareSemVer(b, c), ac = upd_compareSemVer(a, c);
  __CPROVER_assert(ab == -ba, "LEMMA compareSemVer is antisymmetric"); /*L:lemma.compareSemVer.antisymmetric*/
  __CPROVER_assert(!(a.valid && b.valid && c.valid && ab <= 0 && bc <= 0) || ac <= 0, "LEMMA compareSemVer is transitive"); /*L:lemma.compareSemVer.transitive*/
  __CPROVER_assert(!(a.valid && b.valid && a.major == b.major && a.minor == b.minor && a.patch == b.patch) || ab == 0, "LEMMA equal triples compare equal"); /*L:lemma.compareSemVer.equal_triples_compare_equal*/
  __CPROVER_assert(!(!a.valid || !b.valid) || ab == 0, "LEMMA an unparsable version never compares as older or newer"); /*L:lemma.compareSemVer.invalid_compares_equal*/
  __CPROVER_assert(0, "VACUITY_CANARY lemma end reachable");'''),
    dict(name='lemma_notice_once_per_window', fn='maybePrintNotice', lemma=True, replace=['maybePrintNotice'], flags=[], props=['C20'], timeout=120, canaries=[],
         labels={'lemma.notice.at_most_once_per_72h_window': ['C20']},
         body='''  char b1[VMAX + 1], b2[VMAX + 1], b3[VMAX + 1], b4[VMAX + 1]; UpdateCache cobj; UpdateCache *cache = &cobj;
  bl_sv lat, cur, lat2, cur2; bl_time now1, now2;
  lat.p = b1; cur.p = b2; lat2.p = b3; cur2.p = b4;
  __CPROVER_assume(lat.n <= VMAX && cur.n <= VMAX && lat2.n <= VMAX && cur2.n <= VMAX && cobj.latestVersion.n <= VMAX);
  __CPROVER_assume(cobj.lastNotified >= -TBOUND / 2 && cobj.lastNotified <= TBOUND / 2 && now1 >= -TBOUND / 2 && now1 <= TBOUND / 2);
  __CPROVER_assume(bl_exc == 0 && bl_out_count[1] >= 0 && bl_out_count[1] < 900);
  _Bool r1 = upd_maybePrintNotice(lat, cur, now1, cache);
  __CPROVER_assume(now2 >= now1 && now2 <= TBOUND / 2 && now2 - now1 < 259200000000000L);
  _Bool r2 = upd_maybePrintNotice(lat2, cur2, now2, cache);
  __CPROVER_assert(!(r1 && r2), "LEMMA two notices are never printed within one 72-hour window"); /*L:lemma.notice.at_most_once_per_72h_window*/
  __CPROVER_assert(0, "VACUITY_CANARY lemma end reachable");'''),
    # parseChecksum scans with istringstream / getline / find: outside the unbounded route. Bounded stand-in, labelled bounded, never counted as proved.
    dict(name='parseChecksum_bounded', fn='parseChecksum', lemma=True, bounded_only=True, replace=[], flags=[], props=['C20', 'C12'], timeout=600, bounded_timeout=900, canaries=[],
         bound='checksums.txt content of at most CSMAX = 8 bytes, asset name of 1..2 bytes, every byte symbolic; loops unwound 10 times with unwinding assertions',
         bounded_defs=['VMAX=6', 'CSMAX=8'], unwind=10,
         labels={'parseChecksum.result_is_hash_of_the_line_naming_exactly_this_asset': ['C20']},
         body='''  char cb[CSMAX + 1], ab[3]; bl_sv c, a; c.p = cb; a.p = ab;
  __CPROVER_assume(c.n <= CSMAX && a.n >= 1 && a.n <= 2 && bl_exc == 0);
  __CPROVER_assume(!bl_isspace((unsigned char)ab[0]) && !bl_isspace((unsigned char)ab[1]) && ab[0] != '*');
  opt_sv r = upd_parseChecksum(c, a);
  opt_sv s = spec_checksum(c, a);
  __CPROVER_assert(bl_exc == 0, "LEMMA parseChecksum never raises"); /*L:parseChecksum.result_is_hash_of_the_line_naming_exactly_this_asset*/
  __CPROVER_assert((r.has != 0) == (s.has != 0) && (!r.has || (r.v.p == s.v.p && r.v.n == s.v.n)), "LEMMA the checksum returned is the first field of the first line whose file-name field equals the asset name exactly"); /*L:parseChecksum.result_is_hash_of_the_line_naming_exactly_this_asset*/
  __CPROVER_assert(0, "VACUITY_CANARY lemma end reachable");'''),
]
for _h in HARNESSES:
    _h.setdefault('bounded_replace', [r for r in _h.get('replace', []) if r.startswith('upd_stub_')])
    _h.setdefault('bounded_defs', ['VMAX=6'])
    _h.setdefault('unwind', 8)


# =========================================================================== native side
from tools import native as _nat
REAL_CPP = SRC
LIBS = ['-lssl', '-lcrypto', '-lpthread']


def _build_oracle(wd):
    b = os.path.join(wd, 'upd_oracle')
    if not os.path.exists(b):
        _nat.build_cxx([os.path.join(_nat.ROOT, 'native', 'upd_oracle.cpp')], b, defs=['REAL_CPP="%s"' % REAL_CPP], objs=LIBS)
    return b


def native_validate(pu, work, tier, seed):
    wd = pu['wd']
    try:
        prof = pu['low']['profile']
        with open(os.path.join(wd, 'upd_gen.h'), 'w') as f:
            f.write('\n'.join(l for l in prof.file_prelude() if l.startswith('typedef') or l.startswith('#define BL_OPT')) + '\n')
        o = os.path.join(wd, 'upd_native.o')
        _nat.build_c(pu['src_c'], o)
        b = os.path.join(wd, 'upd_coexec')
        _nat.build_cxx([os.path.join(_nat.ROOT, 'native', 'upd_coexec.cpp'), '-I' + wd], b, defs=['REAL_CPP="%s"' % REAL_CPP], objs=[o] + LIBS)
        rc, out, dt = _nat.run([b, str(seed), '3000' if tier == 'quick' else '200000'])
        js = _nat.last_json(out)
        res = dict(unit='UPD', kind='co-execution lowered C vs real update_manager.cpp functions (parseSemVer, compareSemVer, changeLabel, hasLatest, hasExpired, maybePrintNotice)',
                   status='agree' if rc == 0 else 'disagree', comparisons=js.get('checks'), differences=js.get('diffs'), wall_s=round(dt, 1))
        if rc != 0:
            res['detail'] = out[-600:]
            return res
        ob = _build_oracle(wd)
        rc2, out2, dt2 = _nat.run([ob, 'sweep', str(seed), '2000' if tier == 'quick' else '100000'])
        js2 = _nat.last_json(out2)
        res['oracle_sweep'] = dict(checks=js2.get('oracle_checks'), failures=js2.get('oracle_failures'), failing_labels=sorted(set(re.findall(r'FAIL label=(\S+)', out2))))
        return res
    except _nat.Break as e:
        return dict(unit='UPD', status='error', detail=str(e))


REPLAY_INPUTS = {
    'semver': ['99999999999', '1.99999999999', 'v2147483648', '1.2.3', '', 'v'],
    'gate': [('1.2.3', 'latest'), ('1.2.3', ''), ('dev', '2.0.0'), ('', ''), ('1.2.3', '99999999999')],
}


def replay_counterexample(pu, h, label, failure, work, tier, seed):
    ob = _build_oracle(pu['wd'])
    fn = h['fn']
    tried, cmds = [], []
    if fn in ('parseSemVer',):
        cmds = [[ob, 'semver', s.encode().hex()] for s in REPLAY_INPUTS['semver']]
    elif fn in ('hasLatest', 'performSelfUpdate_gate'):
        cmds = [[ob, 'gate', a.encode().hex() or '', b.encode().hex() or ''] for a, b in REPLAY_INPUTS['gate']]
    cmds.append([ob, 'sweep', str(seed), '2000'])
    for cmd in cmds:
        rc, out, dt = _nat.run([c if c != '' else '00'[:0] for c in cmd])
        tried.append(' '.join(cmd[1:]))
        fails = [l for l in out.split('\n') if l.startswith('FAIL ')]
        same = [l for l in fails if label and ('label=' + label + ' ') in l]
        pick = same or [l for l in fails if ('label=' + fn.replace('_gate', '') + '.') in l]
        if pick:
            m = re.search(r'label=(\S+)', pick[0])
            return dict(failing_input_found=True, failing_input=pick[0], native_failures=fails[:6], oracle_label=m.group(1), signature=re.sub(r' detail=.*', '', pick[0])[:120],
                        reproduce_args=cmd[1:], reproduce='bin/check <property> --replay <this file>', replay_inputs_tried=tried, matched_same_obligation=bool(same))
    return dict(failing_input_found=False, replay_inputs_tried=tried, signature='')


def run_reproduce(rec, work):
    wd = os.path.join(work, 'replay')
    os.makedirs(wd, exist_ok=True)
    ob = _build_oracle(wd)
    rc, out, dt = _nat.run([ob] + rec['reproduce_args'])
    print(out)
    return 1 if rc else 0
