"""Unit UPD — update/update_manager.cpp: version parsing/comparison, notice throttling, gates (C20)."""
import re, os
from tools import cxx2c
from tools.cxx2c import Lower, Unsupported, kids, qt, qt_sugar, strip, strip_parens, callee_name, norm_type

NAME = 'UPD'
SRC = '/repo/src/bloch/update/update_manager.cpp'
FUNCS = ['parseSemVer', 'compareSemVer', 'changeLabel', 'hasLatest', 'hasExpired', 'shouldSkipChecks', 'maybePrintNotice']
AST_FILTER = FUNCS + ['SemVer', 'UpdateCache', 'kUpdateWindow']
SHIM = 'upd.h'
THROWING = {'parseSemVer', 'hasLatest', 'maybePrintNotice'}
DROPS = ['std::string ownership: strings are read-only slices {pointer,length}; a by-value copy may be shortened from the front',
         'operands of std::cout/std::cerr insertions (each statement is one ghost output event on its stream)',
         'std::chrono types: time points and durations are int64 nanosecond ticks of system_clock',
         'std::getenv: the environment is an arbitrary fixed predicate per variable name']
ASSUMPTIONS = ['std::stoi model: a leading run of <= 9 digits always converts; a longer run may raise std::out_of_range (leading zeros are not distinguished)',
               'time points lie within +-2^61 ns of the epoch (no int64 overflow in now - then)']


class Profile(Lower):
    CLS = 'upd'
    SELF_T = ''
    IS_METHOD = False
    WRAP_DOUBLE_OPS = False
    TYPE_MAP = [
        (r'^(std::)?(basic_string<char.*>|string)$', 'bl_sv'),
        (r'^(bloch::update::\(anonymous namespace\)::)?SemVer$', 'SemVer'),
        (r'^(bloch::update::\(anonymous namespace\)::)?UpdateCache$', 'UpdateCache'),
        (r'^(Clock|std::chrono::system_clock)::time_point$', 'bl_time'),
        (r'^std::chrono::time_point<std::chrono::(_V2::)?system_clock, std::chrono::duration<long, std::ratio<1, 1000000000>>>$', 'bl_time'),
    ]

    def __init__(self, *a, **k):
        super().__init__(*a, **k)
        self.records = {}
        self.consts = {}
        self.envnames = []
        self.refparams = set()

    def prepare(self, docs, workdir):
        for rec in ('SemVer', 'UpdateCache'):
            rs = [d for d in docs if d.get('kind') == 'CXXRecordDecl' and d.get('name') == rec and d.get('completeDefinition')]
            if len(rs) != 1:
                raise Unsupported('struct %s not found' % rec)
            fields = []
            for f in kids(rs[0]):
                if f.get('kind') == 'FieldDecl':
                    init = [i for i in kids(f) if 'kind' in i]
                    # in-class initialisers must all be zero / false / empty for `(T){0}` to be the default value
                    for i in init:
                        z = strip_parens(i)
                        while z.get('kind') in ('InitListExpr', 'ImplicitValueInitExpr', 'CXXConstructExpr', 'ImplicitCastExpr', 'CXXFunctionalCastExpr') and kids(z):
                            z = strip_parens(kids(z)[0])
                        ok = (z.get('kind') == 'IntegerLiteral' and z.get('value') == '0') or (z.get('kind') == 'CXXBoolLiteralExpr' and not z.get('value')) \
                            or z.get('kind') in ('InitListExpr', 'ImplicitValueInitExpr', 'CXXConstructExpr')
                        if not ok:
                            raise Unsupported('non-zero default member initialiser in %s::%s' % (rec, f['name']))
                    fields.append((f['name'], self.ctype(qt(f))))
            self.records[rec] = fields
        vs = [d for d in docs if d.get('kind') == 'VarDecl' and d.get('name') == 'kUpdateWindow']
        if len(vs) != 1 or 'std::chrono::hours' not in qt_sugar(vs[0]):
            raise Unsupported('kUpdateWindow is not a std::chrono::hours constant')
        lit = []
        cxx2c.walk(vs[0], lambda n: lit.append(n['value']) if n.get('kind') == 'IntegerLiteral' else None)
        if len(lit) != 1:
            raise Unsupported('kUpdateWindow initialiser shape')
        self.consts['kUpdateWindow'] = 'BL_HOURS_NS(%s)' % lit[0]

    def file_prelude(self):
        out = []
        for rec, fields in self.records.items():
            out.append('typedef struct { %s } %s;' % (' '.join('%s %s;' % (t, f) for f, t in fields), rec))
        out.append('/* interned environment variable names: %s */' % ', '.join('%d=%s' % (i, n) for i, n in enumerate(self.envnames)))
        return out

    def string_literal(self, n):
        return 'BL_SV_LIT(%s)' % n['value']

    def subst(self, text):
        """sidecar macros: LITEQ(expr, "lit") -> byte-wise comparison; ENVSET("NAME") -> the ghost flag of that variable"""
        def liteq(m):
            e, lit = m.group(1), m.group(2)
            body = bytes(lit, 'utf-8').decode('unicode_escape')
            return '(' + ' && '.join(['%s.n == %d' % (e, len(body))] + ['%s.p[%d] == %d' % (e, i, ord(c)) for i, c in enumerate(body)]) + ')'
        text = re.sub(r'LITEQ\(([\w.]+), "((?:[^"\\\\]|\\\\.)*)"\)', liteq, text)

        def env(m):
            nm = '"%s"' % m.group(1)
            return 'g_env_set[%d]' % self.envnames.index(nm) if nm in self.envnames else '(0 /* %s is never read */)' % m.group(1)
        return re.sub(r'ENVSET\("(\w+)"\)', env, text)

    def lit_bytes_eq(self, sv_expr, lit_node):
        body = bytes(lit_node['value'][1:-1], 'utf-8').decode('unicode_escape')
        conds = ['%s.n == %d' % (sv_expr, len(body))] + ['%s.p[%d] == %d' % (sv_expr, i, ord(ch)) for i, ch in enumerate(body)]
        return '(' + ' && '.join(conds) + ')'

    def declref(self, n):
        rd = n['referencedDecl']
        name = rd['name']
        if name in self.consts:
            return self.consts[name]
        if rd.get('kind') == 'ParmVarDecl' and name in self.refparams:
            return '(*%s)' % name
        return super().declref(n)

    def param(self, pd):
        t = qt_sugar(pd)
        ct = self.ctype(qt(pd))
        if t.rstrip().endswith('&') and not t.lstrip().startswith('const') and ct in ('UpdateCache', 'SemVer', 'bl_sv'):
            self.refparams.add(pd['name'])
            return '%s *%s' % (ct, pd['name'])
        return super().param(pd)

    def func(self, d, cname=None, is_method=True):
        self.refparams = set()
        return super().func(d, cname, is_method)

    def construct(self, n):
        ct = self.ctype(qt(n))
        args = [a for a in kids(n) if a.get('kind') != 'CXXDefaultArgExpr']
        if ct in ('SemVer', 'UpdateCache'):
            if not args:
                return '(%s){0}' % ct
            if len(args) == 1 and self.ct(args[0]) == ct:
                return self.expr(args[0])
        if ct == 'bl_sv':
            if not args:
                return '(bl_sv){ "", 0 }'
            if len(args) == 1:
                return self.expr(args[0])
        if ct == 'bl_time' and len(args) == 1 and self.ct(args[0]) == 'bl_time':
            return self.expr(args[0])
        raise Unsupported('ctor %s/%d' % (ct, len(args)))

    def cast_other(self, n, ck, inner):
        if ck == 'PointerToBoolean':
            return self.expr(inner)
        return super().cast_other(n, ck, inner)

    def duration_ns(self, n):
        """a std::chrono duration expression in nanosecond ticks"""
        s = strip_parens(n)
        if s.get('kind') == 'CXXOperatorCallExpr' and callee_name(kids(s)[0]) == 'operator-':
            a, b = kids(s)[1:]
            if self.ct(a) == 'bl_time' and self.ct(b) == 'bl_time':
                return 'BL_TSUB(%s, %s)' % (self.expr(a), self.expr(b))
        if s.get('kind') == 'DeclRefExpr' and s['referencedDecl']['name'] in self.consts:
            return self.consts[s['referencedDecl']['name']]
        raise Unsupported('duration expression ' + str(s.get('kind')))

    def is_ostream_chain(self, n):
        s = strip_parens(n)
        while s.get('kind') == 'CXXOperatorCallExpr' and callee_name(kids(s)[0]) == 'operator<<':
            s = strip_parens(kids(s)[1])
        if s.get('kind') == 'DeclRefExpr' and s['referencedDecl']['name'] in ('cout', 'cerr'):
            return 1 if s['referencedDecl']['name'] == 'cout' else 2
        return 0

    def opcall(self, n):
        ks = kids(n)
        op = callee_name(ks[0])
        args = ks[1:]
        t0 = self.ct(args[0])
        st = self.is_ostream_chain(n)
        if st:
            return 'bl_out(%d)' % st
        if op == 'operator[]' and t0 == 'bl_sv':
            return 'SV_AT(%s, %s)' % (self.expr(args[0]), self.expr(args[1]))
        if op == 'operator=' and t0 in ('bl_sv', 'bl_time', 'SemVer'):
            return '(%s = %s)' % (self.expr(args[0]), self.expr(args[1]))
        if op in ('operator>=', 'operator<', 'operator>', 'operator<=') and strip_parens(args[0]).get('kind') == 'CXXOperatorCallExpr' \
                and callee_name(kids(strip_parens(args[0]))[0]) == 'operator<=>':
            a, b = kids(strip_parens(args[0]))[1:]
            return '(%s %s %s)' % (self.duration_ns(a), op[len('operator'):], self.duration_ns(b))
        if op == 'operator==' and t0 == 'bl_sv':
            a, b = strip_parens(args[0]), strip_parens(args[1])
            for x, y in ((a, b), (b, a)):
                yy = y
                while yy.get('kind') in ('CXXConstructExpr', 'ImplicitCastExpr', 'MaterializeTemporaryExpr') and kids(yy):
                    yy = strip(kids(yy)[0])
                if yy.get('kind') == 'StringLiteral':
                    return self.lit_bytes_eq(self.expr(x), yy)
            raise Unsupported('string == non-literal')
        raise Unsupported('operator %s on %s' % (op, qt(args[0])))

    def membercall_other(self, n, name, obj, args):
        t = self.ct(obj)
        o = self.expr(obj)
        if t == 'bl_sv':
            if name in ('size', 'length'):
                return 'SV_SIZE(%s)' % o
            if name == 'empty':
                return '(SV_SIZE(%s) == 0)' % o
            if name == 'front':
                return 'SV_AT(%s, 0)' % o
            if name == 'substr':
                self.needs_prop = True
                return 'bl_sv_substr(%s, %s)' % (o, ', '.join(self.expr(a) for a in args))
            if name == 'erase' and len(args) == 1:
                a = args[0]
                found = []
                cxx2c.walk(a, lambda z: found.append(z) if z.get('kind') == 'CXXMemberCallExpr' and strip(kids(z)[0]).get('name') == 'begin' else None)
                if len(found) == 1 and self.expr(kids(strip(kids(found[0])[0]))[0]) == o:
                    return 'bl_sv_pop_front(&%s)' % o
                raise Unsupported('erase shape')
        raise Unsupported('member call %s on %s' % (name, qt(obj)))

    def call_named(self, n, name, args):
        if name == 'isdigit':
            return 'bl_isdigit(%s)' % self.expr(args[0])
        if name == 'stoi' and self.ct(args[0]) == 'bl_sv':
            self.needs_prop = True
            return 'bl_stoi(%s)' % self.expr(args[0])
        if name == 'getenv':
            a = strip_parens(args[0])
            if a.get('kind') != 'StringLiteral':
                raise Unsupported('getenv of a non-literal name')
            nm = a['value']
            if nm not in self.envnames:
                self.envnames.append(nm)
            return 'BL_GETENV(%d)' % self.envnames.index(nm)
        return super().call_named(n, name, args)


# =========================================================================== sidecar contracts
VMAX = 64
GHOSTS = r'''
#ifndef VMAX
#define VMAX %d
#endif
#define ISDIG(c) ((c) >= 48 && (c) <= 57)
#define TBOUND 2305843009213693952L
int bl_exc, bl_exc_line, bl_exc_col;
int g_stoi_calls; const char *g_stoi_arg_p[BL_STOI_SLOTS]; size_t g_stoi_arg_n[BL_STOI_SLOTS]; int g_stoi_ret[BL_STOI_SLOTS];
_Bool g_env_set[8]; int bl_out_count[3];
size_t gb;            /* ghost byte index */
size_t g_o, g_e0, g_e1, g_e2;   /* ghost: offset of the first component and the ends of the three digit runs */
SemVer g_cur, g_lat;  /* ghost: what parseSemVer returned for the two version strings */
''' % VMAX


def R(t):
    return ('', 'requires', t, [])


def E(label, t, props, **opts):
    return (label, 'ensures', t, props, opts)


def A(t):
    return ('', 'assigns', t, [])


def sv_req(v):
    return [R('%s.n <= VMAX' % v), R('__CPROVER_is_fresh(%s.p, %s.n ? %s.n : 1)' % (v, v, v))]


EXC_VARS = 'bl_exc, bl_exc_line, bl_exc_col'
STOI_VARS = 'g_stoi_calls, __CPROVER_object_whole(g_stoi_arg_p), __CPROVER_object_whole(g_stoi_arg_n), __CPROVER_object_whole(g_stoi_ret)'
V = 'version'
# semver_spec (C20): optional 'v', then up to three '.'-separated maximal decimal runs; valid iff
# the first run is non-empty.  O = offset of the first run.
O = '((%s.n > 0 && %s.p[0] == 118) ? (size_t)1 : (size_t)0)' % (V, V)
RET = '__CPROVER_return_value'
CMP_SPEC = ('((!current.valid || !latest.valid) ? 0 : (current.major != latest.major ? (current.major < latest.major ? -1 : 1) : '
            '(current.minor != latest.minor ? (current.minor < latest.minor ? -1 : 1) : (current.patch != latest.patch ? (current.patch < latest.patch ? -1 : 1) : 0))))')

CONTRACTS = {
    'parseSemVer': {
        'contract': sv_req(V) + [
            R('bl_exc == 0 && g_stoi_calls == 0'),
            A(EXC_VARS + ', ' + STOI_VARS),
            E('parseSemVer.never_raises', 'bl_exc == 0', ['C20', 'C12']),
            E('parseSemVer.valid_if_first_component_is_a_number', '(bl_exc == 0 && %s.n > %s && ISDIG(%s.p[%s])) ==> %s.valid' % (V, O, V, O, RET), ['C20']),
            E('parseSemVer.valid_only_if_first_component_is_a_number', '(bl_exc == 0 && %s.valid) ==> (%s.n > %s && ISDIG(%s.p[%s]))' % (RET, V, O, V, O), ['C20']),
            E('parseSemVer.invalid_is_all_zero', '(bl_exc == 0 && !%s.valid) ==> (%s.major == 0 && %s.minor == 0 && %s.patch == 0 && g_stoi_calls == 0)' % (RET, RET, RET, RET), ['C20']),
            # each component is the value std::stoi produced for one maximal digit run, in order
            E('parseSemVer.major_is_first_run', '(bl_exc == 0 && %s.valid) ==> (g_stoi_calls >= 1 && %s.major == g_stoi_ret[0] && g_stoi_arg_p[0] == %s.p + %s && g_stoi_arg_n[0] >= 1 && %s + g_stoi_arg_n[0] <= %s.n)' % (RET, RET, V, O, O, V), ['C20']),
            E('parseSemVer.first_run_is_digits', '(bl_exc == 0 && %s.valid && gb < g_stoi_arg_n[0]) ==> ISDIG(%s.p[%s + gb])' % (RET, V, O), ['C20']),
            E('parseSemVer.first_run_is_maximal', '(bl_exc == 0 && %s.valid) ==> (%s + g_stoi_arg_n[0] == %s.n || !ISDIG(%s.p[%s + g_stoi_arg_n[0]]))' % (RET, O, V, V, O), ['C20']),
            E('parseSemVer.minor_is_second_run_or_zero',
              '(bl_exc == 0 && %(R)s.valid) ==> ((%(O)s + g_stoi_arg_n[0] + 1 < %(V)s.n && %(V)s.p[%(O)s + g_stoi_arg_n[0]] == 46 && ISDIG(%(V)s.p[%(O)s + g_stoi_arg_n[0] + 1])) '
              '? (g_stoi_calls >= 2 && %(R)s.minor == g_stoi_ret[1] && g_stoi_arg_p[1] == %(V)s.p + %(O)s + g_stoi_arg_n[0] + 1) : (g_stoi_calls == 1 && %(R)s.minor == 0 && %(R)s.patch == 0))' % dict(R=RET, V=V, O=O), ['C20']),
            E('parseSemVer.at_most_three_components', '(bl_exc == 0) ==> (g_stoi_calls <= 3 && (g_stoi_calls < 3 ==> %s.patch == 0) && (g_stoi_calls == 3 ==> %s.patch == g_stoi_ret[2]))' % (RET, RET), ['C20']),
        ],
        'loops': {
            # outer loop: one '.'-separated component per iteration, at most three (decreases 3 - idx).
            # At the loop head with idx >= 1 the previous run has been followed by a consumed '.'.
            0: {'assigns': 'pos, idx, sem, ' + EXC_VARS + ', ' + STOI_VARS,
                'invariants': [
                    ('parseSemVer.components.bounds', 'pos <= v.n && idx >= 0 && idx <= 3 && g_stoi_calls == idx && bl_exc == 0'),
                    ('parseSemVer.components.none_yet', '(idx == 0) ==> (pos == 0 && !sem.valid && sem.major == 0 && sem.minor == 0 && sem.patch == 0)'),
                    ('parseSemVer.components.first', '(idx >= 1) ==> (sem.valid && sem.major == g_stoi_ret[0] && g_stoi_arg_p[0] == v.p && g_stoi_arg_n[0] >= 1 && g_stoi_arg_n[0] < v.n && v.p[g_stoi_arg_n[0]] == 46 && ISDIG(v.p[0]) && (gb < g_stoi_arg_n[0] ==> ISDIG(v.p[gb])))'),
                    ('parseSemVer.components.after_first', '(idx == 1) ==> (pos == g_stoi_arg_n[0] + 1 && sem.minor == 0 && sem.patch == 0)'),
                    ('parseSemVer.components.second', '(idx >= 2) ==> (sem.minor == g_stoi_ret[1] && g_stoi_arg_p[1] == v.p + g_stoi_arg_n[0] + 1 && g_stoi_arg_n[1] >= 1 && g_stoi_arg_n[0] + 1 < v.n && ISDIG(v.p[g_stoi_arg_n[0] + 1]))'),
                    ('parseSemVer.components.third', '((idx <= 2) ==> sem.patch == 0) && ((idx == 3) ==> sem.patch == g_stoi_ret[2])'),
                ],
                'decreases': '3 - idx'},
            1: {'assigns': 'pos',
                'invariants': [('parseSemVer.digits.bounds', 'start <= pos && pos <= v.n'),
                               ('parseSemVer.digits.run_is_digits', '(gb >= start && gb < pos) ==> ISDIG(v.p[gb])'),
                               ('parseSemVer.digits.first_is_digit', '(start < pos) ==> ISDIG(v.p[start])')],
                'decreases': 'v.n - pos'},
        },
        'locals': ['v', 'pos', 'idx', 'start', 'value', 'sem'],
    },
    'compareSemVer': {'contract': [
        A(''),
        E('compareSemVer.is_sign_of_numeric_lexicographic_order', '%s == %s' % (RET, CMP_SPEC), ['C20']),
    ]},
    'changeLabel': {'contract': [
        A(''),
        E('changeLabel.names_the_most_significant_increase',
          '(!current.valid || !latest.valid) ? LITEQ(%(R)s, "new") : (latest.major > current.major ? LITEQ(%(R)s, "major") : (latest.minor > current.minor ? LITEQ(%(R)s, "minor") : (latest.patch > current.patch ? LITEQ(%(R)s, "patch") : LITEQ(%(R)s, "new"))))' % dict(R=RET), ['C20']),
    ]},
    'hasExpired': {'contract': [
        R('tp >= -TBOUND && tp <= TBOUND && now >= -TBOUND && now <= TBOUND'),
        A(''),
        E('hasExpired.window_is_72_hours', '%s == (now - tp >= 72L * 3600L * 1000000000L)' % RET, ['C20']),
    ]},
    'shouldSkipChecks': {'contract': [
        A(''),
        E('shouldSkipChecks.true_iff_any_switch_set', '%s == (ENVSET("BLOCH_NO_UPDATE_CHECK") || ENVSET("CI") || ENVSET("BLOCH_OFFLINE"))' % RET, ['C20']),
    ]},
    # hasLatest: "nothing to install": both versions parse and current >= latest (numerically)
    'hasLatest': {'contract': sv_req('currentVersion') + sv_req('latestVersion') + [
        R('bl_exc == 0'),
        A(EXC_VARS + ', ' + STOI_VARS + ', g_cur, g_lat'),
        E('hasLatest.never_raises', 'bl_exc == 0', ['C20', 'C12']),
        E('hasLatest.true_iff_both_valid_and_not_older', '%s == (g_cur.valid && g_lat.valid && !(g_cur.major < g_lat.major || (g_cur.major == g_lat.major && (g_cur.minor < g_lat.minor || (g_cur.minor == g_lat.minor && g_cur.patch < g_lat.patch)))))' % RET, ['C20']),
    ]},
}

HARNESSES = [
    dict(name='parseSemVer', fn='parseSemVer', replace=[], flags=[], props=['C20', 'C12'], timeout=600, bounded_defs=['VMAX=6'], unwind=8),
    dict(name='compareSemVer', fn='compareSemVer', replace=[], flags=[], props=['C20'], timeout=120),
    dict(name='changeLabel', fn='changeLabel', replace=[], flags=[], props=['C20'], timeout=120),
    dict(name='hasExpired', fn='hasExpired', replace=[], flags=[], props=['C20'], timeout=120),
    dict(name='shouldSkipChecks', fn='shouldSkipChecks', replace=[], flags=[], props=['C20'], timeout=120),
]
