"""Unit ASTORE — runtime/runtime_evaluator.cpp: the IndexExpression (`a[i]`) and ArrayAssignmentExpression (`a[i] = v`)
branches of RuntimeEvaluator::eval.  C12: an index outside the array - negative or too large, computed at run time - is a located Runtime error,
never an access outside the vector; C07: arrays have value semantics and bounds checks - the store changes exactly element
i of the variable's array (converted as documented) and nothing else."""
import re, os
from tools import cxx2c
from tools.cxx2c import Lower, Unsupported, kids, qt, qt_sugar, strip, strip_parens, callee_name, norm_type, walk
from tools.cxx2c import REPO as _REPO
from units.arith import find_region

NAME = 'ASTORE'
SRC = _REPO + '/src/bloch/runtime/runtime_evaluator.cpp'
NAMESPACE = 'bloch::runtime'
FUNCS = []
AST_FILTER = ['RuntimeEvaluator::eval', 'bloch::runtime::Value']
SHIM = 'astore.h'
THROWING = {'array_store'}
LOAD_ONLY = [('qubitArray', 'int', 'QubitArray')]
PAYLOAD = {'intArray': ('Int', 'intValue'), 'longArray': ('Long', 'longValue'), 'floatArray': ('Float', 'floatValue'), 'bitArray': ('Bit', 'bitValue'), 'boolArray': ('Boolean', 'boolValue'),
           'stringArray': ('String', 'stringValue'), 'charArray': ('Char', 'charValue'), 'qubitArray': ('Qubit', 'qubit')}
ARRS = [('intArray', 'int', 'IntArray'), ('longArray', 'long', 'LongArray'), ('floatArray', 'double', 'FloatArray'), ('bitArray', 'int', 'BitArray'),
        ('boolArray', '_Bool', 'BooleanArray'), ('stringArray', 'bl_str', 'StringArray'), ('charArray', 'char', 'CharArray')]
DROPS = ['region eval_postfix: the variable case of the PostfixExpression branch of eval (`x++` / `x--`); the operator text is an interned id',
         'region eval_cast: the CastExpression branch of eval, whole; typeInfoFromAst(cast->targetType).kind is an uninterpreted function of the type node; float payloads lie inside the int range (see ASSUMPTIONS)',
         'region array_load: the IndexExpression branch of eval (`a[i]`), whole; the Value constructors {tag, int, float, bit} are a model that sets exactly those members',
         'region array_store: the ArrayAssignmentExpression branch of eval from `Value arr = lookup(var->name);` to its end (the check that the target is a variable comes before it); the node\'s line / column become parameters, its sub-expressions opaque ids',
         'Value keeps type, the scalar payloads and the seven element vectors that can be stored into; each vector is an inline array of at most AMAXS = 4 elements with its size (operator[] asserts the index is inside the vector: that assertion is the memory-safety obligation); strings are interned ids; diagnostic text is dropped',
         'lookup(name) returns an arbitrary well-formed Value (kept as ghost g_arr0); eval(sub-expression) an arbitrary Value or a Runtime error; assign(name, arr) records what is stored (ghost)']
ASSUMPTIONS = ['AMAXS = 4 elements per array (object-size bound; the index itself is an arbitrary int)',
               'float payloads that are converted to an index / element lie inside the int range (the analyser types indices as int; static_cast<int> of a larger double is undefined behaviour and not examined here)']


class Profile(Lower):
    CLS = 'astore'
    SELF_T = ''
    IS_METHOD = False
    WRAP_DOUBLE_OPS = False
    TYPE_MAP = [
        (r'^(bloch::runtime::)?Value$', 'Value'),
        (r'^(bloch::runtime::)?Value::Type$', 'int'),
        (r'^(std::)?(basic_string<char.*>|string)$', 'bl_str'),
        (r'^std::vector<int>$', 'vec_int'), (r'^std::vector<(std::)?int64_t>$', 'vec_long'), (r'^std::vector<long>$', 'vec_long'), (r'^std::vector<double>$', 'vec_double'),
        (r'^std::vector<bool>$', 'vec__Bool'), (r'^std::vector<char>$', 'vec_char'),
        (r'^std::vector<std::(basic_string<char.*>|string)>$', 'vec_bl_str'),
        (r'^std::(vector<bool>::reference|_Bit_reference)$', '_Bool'),
        (r'^(std::)?int64_t$', 'long'),
        (r'^std::unique_ptr<.*Expression.*>$', 'bl_ast'),
        (r'^std::unique_ptr<(bloch::compiler::)?Type(, std::default_delete<.*>)?>$', 'bl_ast'),
        (r'^char$', 'char'),
        (r'^(bloch::compiler::|bloch::runtime::)?(Expression|VariableExpression) \*$', 'bl_ast'),
    ]

    def prepare(self, docs, workdir):
        recs = [d for d in docs if d.get('kind') == 'CXXRecordDecl' and d.get('name') == 'Value' and d.get('completeDefinition')]
        if len(recs) != 1:
            raise Unsupported('struct Value: %d definitions' % len(recs))
        self.tagenum = []
        fields = {}
        for f in kids(recs[0]):
            if f.get('kind') == 'EnumDecl' and f.get('name') == 'Type':
                self.tagenum = [c['name'] for c in kids(f) if c.get('kind') == 'EnumConstantDecl']
            if f.get('kind') == 'FieldDecl':
                fields[f.get('name')] = norm_type(qt(f))
        for nm, ct, tag in ARRS + LOAD_ONLY:
            if nm not in fields or self.ctype_safe(fields[nm]) != 'vec_' + ct:
                raise Unsupported('Value::%s is no longer a vector of %s (%s)' % (nm, ct, fields.get(nm)))
            if tag not in self.tagenum:
                raise Unsupported('Value::Type::%s missing' % tag)
        self.ctx = None

    def file_prelude(self):
        out = ['enum { %s };' % ', '.join('BL_' + e for e in self.tagenum)]
        for t in sorted(set(ct for _, ct, _ in ARRS)):
            out.append('typedef struct { %s data[AMAXS]; size_t size; } vec_%s;' % (t, t))
        out.append('typedef struct { int type; int intValue; long longValue; double floatValue; int bitValue; _Bool boolValue; bl_str stringValue; char charValue; int qubit; %s } Value;'
                   % ' '.join('vec_%s %s;' % (ct, nm) for nm, ct, _ in ARRS + LOAD_ONLY))
        return out

    def declref(self, n):
        rd = n['referencedDecl']
        if rd.get('kind') == 'EnumConstantDecl':
            return 'BL_' + rd['name']
        return super().declref(n)

    def decl(self, v):
        if v.get('name') == 'target' and 'RuntimeTypeInfo' in qt(v):
            calls = []
            walk(v, lambda z: calls.append(z) if z.get('kind') in ('CXXMemberCallExpr', 'CallExpr') else None)
            names = [strip(kids(c)[0]).get('name') or callee_name(kids(c)[0]) for c in calls]
            if 'typeInfoFromAst' not in names:
                raise Unsupported('cast target is no longer typeInfoFromAst(cast->targetType)')
            self.locals.add('target')
            return 'int target_kind = astore_target_kind(cast_targetType);   /* typeInfoFromAst(cast->targetType.get()).kind */'
        return super().decl(v)

    def string_literal(self, n):
        return {'"++"': 'BL_OP_INC', '"--"': 'BL_OP_DEC'}.get(n.get('value'), '0')      # other literals are diagnostic text

    def member(self, n):
        base = strip_parens(kids(n)[0])
        sb = strip(base)
        if sb.get('kind') == 'DeclRefExpr' and sb['referencedDecl']['name'] == 'aassign' and n['name'] in ('line', 'column', 'index', 'value', 'collection'):
            return 'aassign_%s' % n['name']
        if sb.get('kind') == 'DeclRefExpr' and sb['referencedDecl']['name'] == 'indexExpr' and n['name'] in ('line', 'column', 'index', 'collection'):
            return 'indexExpr_%s' % n['name']
        if sb.get('kind') == 'DeclRefExpr' and sb['referencedDecl']['name'] == 'post' and n['name'] == 'op':
            return 'post_op'
        if sb.get('kind') == 'DeclRefExpr' and sb['referencedDecl']['name'] == 'cast' and n['name'] in ('line', 'column', 'expression', 'targetType'):
            return 'cast_%s' % n['name']
        if sb.get('kind') == 'DeclRefExpr' and sb['referencedDecl']['name'] == 'target' and n['name'] == 'kind':
            return 'target_kind'
        if sb.get('kind') == 'DeclRefExpr' and sb['referencedDecl']['name'] == 'var' and n['name'] == 'name':
            return 'var_name'
        if self.ct(sb) == 'Value':
            return '(%s).%s' % (self.expr(sb), n['name'])
        raise Unsupported('member %s of %s' % (n['name'], qt(sb)))

    def opcall(self, n):
        ks = kids(n)
        op = callee_name(ks[0])
        args = ks[1:]
        t0 = self.ct(args[0])
        if op == 'operator[]' and t0 and t0.startswith('vec_'):
            return 'VEC_AT(%s, %s)' % (self.expr(args[0]), self.expr(args[1]))
        if op == 'operator=' and (t0 in ('bl_str', '_Bool') or 'reference' in norm_type(qt(args[0]))):
            return '(%s = %s)' % (self.expr(args[0]), self.expr(args[1]))
        if op in ('operator==', 'operator!=') and t0 == 'bl_str':
            return '(%s %s %s)' % (self.expr(args[0]), op[len('operator'):], self.expr(args[1]))
        if op == 'operator+' and self.ctype_safe(qt(n)) == 'bl_str':
            return '0'                           # diagnostic text
        raise Unsupported('operator %s on %s' % (op, qt(args[0])))

    def call_named(self, n, name, args):
        if name == 'to_string':
            return '0'
        return super().call_named(n, name, args)

    def construct(self, n):
        ct = self.ctype_safe(qt(n))
        args = [a for a in kids(n) if a.get('kind') != 'CXXDefaultArgExpr']
        if ct in ('Value', 'bl_str', '_Bool') and len(args) == 1:
            return self.expr(args[0])
        if ct == 'Value' and not args:
            return 'astore_value_default()'
        if ct == 'Value' and 2 <= len(args) <= 6:
            a = [self.expr(x) for x in args] + ['0', '0.0', '0', '0', '0'][len(args) - 1:]
            return 'astore_value_ctor(%s)' % ', '.join(a[:6])
        raise Unsupported('ctor %s/%d' % (qt(n), len(args)))

    def cast(self, n):
        if n.get('castKind') == 'ArrayToPointerDecay' and strip_parens(kids(n)[0]).get('kind') == 'StringLiteral':
            return self.expr(kids(n)[0])
        return super().cast(n)

    def initlist(self, n):
        if self.ctype_safe(qt(n)) == 'Value' and 2 <= len(kids(n)) <= 6:
            a = [self.expr(x) for x in kids(n)] + ['0', '0.0', '0', '0', '0'][len(kids(n)) - 1:]
            return 'astore_value_ctor(%s)' % ', '.join(a[:6])
        return super().initlist(n)

    def cast_other(self, n, ck, inner):
        if ck in ('UserDefinedConversion', 'ConstructorConversion'):
            return self.expr(inner)
        return super().cast_other(n, ck, inner)

    def membercall(self, n):
        ks = kids(n)
        me = strip(ks[0])
        return self.membercall_other(n, me['name'], kids(me)[0], ks[1:])

    def membercall_other(self, n, name, obj, args):
        so = strip(obj)
        t = self.ct(obj)
        if so.get('kind') == 'CXXThisExpr' and name == 'lookup' and len(args) == 1:
            return 'astore_lookup(%s)' % self.expr(args[0])
        if so.get('kind') == 'CXXThisExpr' and name == 'eval' and len(args) == 1:
            self.needs_prop = True
            return 'astore_eval(%s)' % self.expr(args[0])
        if so.get('kind') == 'CXXThisExpr' and name == 'assign' and len(args) == 2:
            return 'astore_assign(%s, %s)' % (self.expr(args[0]), self.expr(args[1]))
        if t == 'bl_ast' and name == 'get':
            return self.expr(obj)
        if name == 'operator bool' and '_Bit_reference' in norm_type(qt(obj)):
            return self.expr(obj)                 # vector<bool>::reference -> bool
        if t and t.startswith('vec_') and name == 'size':
            return 'VEC_SIZE(%s)' % self.expr(obj)
        raise Unsupported('member call %s on %s' % (name, qt(obj)))


def lower_regions(docs, prof):
    head = 'Value astore_array_store(int aassign_line, int aassign_column, bl_ast aassign_index, bl_ast aassign_value, bl_str var_name)'
    try:
        ds = cxx2c.find_functions(docs, 'eval')
        if len(ds) != 1:
            raise Unsupported('RuntimeEvaluator::eval: %d definitions' % len(ds))
        body = [k for k in kids(ds[0]) if k.get('kind') == 'CompoundStmt'][0]
        n, cast = find_region(body, 'aassign')
        if not any('ArrayAssignmentExpression' in c for c in cast):
            raise Unsupported('region `aassign` is no longer the dynamic_cast<ArrayAssignmentExpression*> branch')
        then = kids(n)[2]
        stmts = kids(then)
        start = None
        for i, st in enumerate(stmts):
            if st.get('kind') == 'DeclStmt' and any(v.get('name') == 'arr' for v in kids(st)):
                start = i
        if start is None:
            raise Unsupported('array_store: `Value arr = lookup(var->name);` not found')
        # what precedes must be the target check only: the declaration of `var` and the throw when it is null
        pre = [st.get('kind') for st in stmts[:start]]
        if pre != ['DeclStmt', 'IfStmt']:
            raise Unsupported('array_store: statements before `Value arr` changed: %s' % pre)
        then2 = dict(then)
        then2['inner'] = stmts[start:]
        d = dict(kind='FunctionDecl', name='array_store', type=dict(qualType='bloch::runtime::Value ()'), inner=[then2])
        h, lines = prof.func(d, cname='array_store', is_method=False)
        out = [(head, lines)]
    except Unsupported as e:
        prof.region_unlowered = {'array_store': str(e)}
        out = [(head, None)]
    hl = 'Value astore_array_load(int indexExpr_line, int indexExpr_column, bl_ast indexExpr_collection, bl_ast indexExpr_index)'
    try:
        ds = cxx2c.find_functions(docs, 'eval')
        body = [k for k in kids(ds[0]) if k.get('kind') == 'CompoundStmt'][0]
        n, cast = find_region(body, 'indexExpr')
        if not any('IndexExpression' in c for c in cast):
            raise Unsupported('region `indexExpr` is no longer the dynamic_cast<IndexExpression*> branch')
        d = dict(kind='FunctionDecl', name='array_load', type=dict(qualType='bloch::runtime::Value ()'), inner=[kids(n)[2]])
        h, lines = prof.func(d, cname='array_load', is_method=False)
        lines = lines[:-1] + ['  return astore_value_default();   /* not reached: every path of the switch returns or raises */', '}']
        out.append((hl, lines))
    except Unsupported as e:
        if not hasattr(prof, 'region_unlowered'):
            prof.region_unlowered = {}
        prof.region_unlowered['array_load'] = str(e)
        out.append((hl, None))
    hp = 'Value astore_eval_postfix(bl_str post_op, bl_str var_name)'
    try:
        ds = cxx2c.find_functions(docs, 'eval')
        body = [k for k in kids(ds[0]) if k.get('kind') == 'CompoundStmt'][0]
        n, cst = find_region(body, 'post')
        if not any('PostfixExpression' in c for c in cst):
            raise Unsupported('region `post` is no longer the dynamic_cast<PostfixExpression*> branch')
        inner = [st for st in kids(kids(n)[2]) if st.get('kind') == 'IfStmt' and st.get('hasVar')]
        if len(inner) != 1 or kids(kids(inner[0])[0])[0].get('name') != 'var':
            raise Unsupported('postfix branch: `if (auto var = dynamic_cast<VariableExpression*>(post->left.get()))` not found')
        d = dict(kind='FunctionDecl', name='eval_postfix', type=dict(qualType='bloch::runtime::Value ()'), inner=[kids(inner[0])[2]])
        h, lines = prof.func(d, cname='eval_postfix', is_method=False)
        out.append((hp, lines))
    except Unsupported as e:
        if not hasattr(prof, 'region_unlowered'):
            prof.region_unlowered = {}
        prof.region_unlowered['eval_postfix'] = str(e)
        out.append((hp, None))
    hc = 'Value astore_eval_cast(int cast_line, int cast_column, bl_ast cast_expression, bl_ast cast_targetType)'
    try:
        ds = cxx2c.find_functions(docs, 'eval')
        body = [k for k in kids(ds[0]) if k.get('kind') == 'CompoundStmt'][0]
        n, cst = find_region(body, 'cast')
        if not any('CastExpression' in c for c in cst):
            raise Unsupported('region `cast` is no longer the dynamic_cast<CastExpression*> branch')
        d = dict(kind='FunctionDecl', name='eval_cast', type=dict(qualType='bloch::runtime::Value ()'), inner=[kids(n)[2]])
        h, lines = prof.func(d, cname='eval_cast', is_method=False)
        out.append((hc, lines))
    except Unsupported as e:
        if not hasattr(prof, 'region_unlowered'):
            prof.region_unlowered = {}
        prof.region_unlowered['eval_cast'] = str(e)
        out.append((hc, None))
    return out


def sel(fmt, sep=' : '):
    """per-array-kind case expression over arr.type; EQ(a, b) is bitwise equality for doubles (NaN payloads are kept, too)"""
    def one(nm, ct):
        f = fmt.replace('ARR', nm)
        return re.sub(r'EQ\((.*?), (.*?)\)', (r'__CPROVER_equal(\1, \2)' if ct == 'double' else r'(\1 == \2)'), f)
    return '(' + sep.join('g_arr0.type == BL_%s ? (%s)' % (tag, one(nm, ct)) for nm, ct, tag in ARRS) + ' : 0)'


GHOSTS = r"""
int bl_exc, bl_exc_line, bl_exc_col;
#define EXC_RT BL_EXC(BL_Runtime)
Value g_arr0, g_stored; int g_store_n; bl_str g_store_name; int g_evals; Value g_ev0, g_ev1; size_t ge;      /* ghost: the two sub-expression values in evaluation order */
#define g_idxv g_ev0
#define g_rhs g_ev1
static inline Value astore_value_default(void) { Value v; v.type = BL_Void; return v; }
static inline Value astore_value_ctor(int t, int i, double f, int b, bl_str s, char c) { Value v; v.type = t; v.intValue = i; v.floatValue = f; v.bitValue = b; v.stringValue = s; v.charValue = c; return v; }
#ifndef NATIVE
_Bool nondet_bool(void); Value nondet_Value(void);
#define SIZES_OK(v) (""" + ' && '.join('(v).%s.size <= AMAXS' % nm for nm, _, _ in ARRS + LOAD_ONLY) + r""")
static inline Value astore_lookup(bl_str name) { return g_arr0; }
int __CPROVER_uninterpreted_target_kind(bl_ast);
static inline int astore_target_kind(bl_ast t) { return __CPROVER_uninterpreted_target_kind(t); }
#define TKIND __CPROVER_uninterpreted_target_kind(cast_targetType)
/* evaluation of the index / the right-hand side: an arbitrary value (first call: the index, second: the value), or a Runtime error */
static inline Value astore_eval(bl_ast e) {
  Value v = nondet_Value();
  """ + ' '.join('if (v.%s.size > AMAXS) v.%s.size = AMAXS;' % (nm, nm) for nm, _, _ in ARRS + LOAD_ONLY) + r"""
  if (!(v.floatValue > -2.0e9 && v.floatValue < 2.0e9)) v.floatValue = 0.0;      /* see ASSUMPTIONS */
  if (nondet_bool()) { bl_throw(BL_Runtime, 0, 0); return v; }
  if (g_evals == 0) g_ev0 = v; else g_ev1 = v;
  if (g_evals < 10) g_evals = g_evals + 1;
  return v;
}
static inline void astore_assign(bl_str name, Value v) { g_stored = v; g_store_name = name; if (g_store_n < 10) g_store_n = g_store_n + 1; }
#endif
/* the index the documentation gives: the integer value of the index expression */
#define IDX (g_idxv.type == BL_Int ? g_idxv.intValue : (g_idxv.type == BL_Long ? (int)g_idxv.longValue : (g_idxv.type == BL_Bit ? g_idxv.bitValue : (int)g_idxv.floatValue)))
#define IDX_NUMERIC (g_idxv.type == BL_Int || g_idxv.type == BL_Long || g_idxv.type == BL_Bit || g_idxv.type == BL_Float)
#define LEN """ + sel('(long)g_arr0.ARR.size') + r"""
#define IS_STORABLE_ARRAY (""" + ' || '.join('g_arr0.type == BL_%s' % tag for _, _, tag in ARRS) + r""")
#define OTHERS_KEPT """ + sel('(ge < g_arr0.ARR.size && (long)ge != (long)IDX) ==> EQ(g_stored.ARR.data[ge], g_arr0.ARR.data[ge])', ' : ').replace(' : 0)', ' : 1)') + r"""
#define SIZE_KEPT """ + sel('g_stored.ARR.size == g_arr0.ARR.size').replace(' : 0)', ' : 1)') + r"""
"""


def R(t):
    return ('', 'requires', t, [])


def E(label, t, props, **o):
    return (label, 'ensures', t, props, o)


def A(t):
    return ('', 'assigns', t, [])


CONTRACTS = {
    'array_store': {
        'contract': [
            R('bl_exc == 0 && SIZES_OK(g_arr0) && g_store_n == 0 && g_evals == 0 && ge < AMAXS'),
            A('bl_exc, bl_exc_line, bl_exc_col, g_stored, g_store_n, g_store_name, g_evals, g_ev0, g_ev1'),
            E('eval.array_store.only_runtime_errors', 'bl_exc == 0 || bl_exc == EXC_RT', ['C12', 'C13']),
            # C12 / C07 (bounds checks): an index outside the array is a located Runtime error and nothing is stored
            E('eval.array_store.index_outside_the_array_is_a_located_runtime_error',
              '(g_evals == 2 && IDX_NUMERIC && IS_STORABLE_ARRAY && ((long)IDX < 0 || (long)IDX >= LEN)) ==> (bl_exc == EXC_RT && bl_exc_line == aassign_line && bl_exc_col == aassign_column && g_store_n == 0)', ['C12', 'C07']),
            E('eval.array_store.failed_store_changes_nothing', '(bl_exc != 0) ==> g_store_n == 0', ['C07']),
            # C07 (value semantics): an accepted store writes the variable once, keeps the length and every other element
            E('eval.array_store.accepted_store_writes_the_variable_once', '(bl_exc == 0) ==> (g_store_n == 1 && g_store_name == var_name && g_stored.type == g_arr0.type && IS_STORABLE_ARRAY && (long)IDX >= 0 && (long)IDX < LEN)', ['C07', 'C12']),
            E('eval.array_store.other_elements_and_length_kept', '(bl_exc == 0) ==> (SIZE_KEPT && OTHERS_KEPT)', ['C07']),
            E('eval.array_store.int_element_is_the_converted_value', '(bl_exc == 0 && g_arr0.type == BL_IntArray && g_rhs.type == BL_Int && (long)IDX >= 0 && (long)IDX < AMAXS) ==> g_stored.intArray.data[IDX] == g_rhs.intValue', ['C07']),
            E('eval.array_store.long_element_widens_an_int', '(bl_exc == 0 && g_arr0.type == BL_LongArray && g_rhs.type == BL_Int && (long)IDX >= 0 && (long)IDX < AMAXS) ==> g_stored.longArray.data[IDX] == (long)g_rhs.intValue', ['C07']),
        ],
    },
}
def lsel(fmt, dflt):
    """per-array-kind case expression over the loaded collection g_ev0"""
    parts = []
    for nm, ct, tag in ARRS + LOAD_ONLY:
        vt, fld = PAYLOAD[nm]
        f = fmt.replace('ARR', nm).replace('VTAG', 'BL_' + vt).replace('FLD', fld)
        f = re.sub(r'EQ\((.*?), (.*?)\)', (r'__CPROVER_equal(\1, \2)' if ct == 'double' else r'(\1 == \2)'), f)
        parts.append('g_ev0.type == BL_%s ? (%s)' % (tag, f))
    return '(' + ' : '.join(parts) + ' : %s)' % dflt


GHOSTS += '''
/* ---- region array_load: collection = first evaluated value, index = second */
#define LIDX (g_ev1.type == BL_Int ? g_ev1.intValue : (g_ev1.type == BL_Long ? (int)g_ev1.longValue : (g_ev1.type == BL_Bit ? g_ev1.bitValue : (int)g_ev1.floatValue)))
#define LIDX_NUMERIC (g_ev1.type == BL_Int || g_ev1.type == BL_Long || g_ev1.type == BL_Bit || g_ev1.type == BL_Float)
#define LLEN ''' + lsel('(long)g_ev0.ARR.size', '0') + '''
#define IS_INDEXABLE (''' + ' || '.join('g_ev0.type == BL_%s' % tag for _, _, tag in ARRS + LOAD_ONLY) + ''')
'''
RET = '__CPROVER_return_value'
CONTRACTS['array_load'] = {
    'contract': [
        R('bl_exc == 0 && g_evals == 0'),
        A('bl_exc, bl_exc_line, bl_exc_col, g_evals, g_ev0, g_ev1'),
        E('eval.array_load.only_runtime_errors', 'bl_exc == 0 || bl_exc == EXC_RT', ['C12', 'C13']),
        # C12 / C07 (bounds checks): reading outside the array is a located Runtime error
        E('eval.array_load.index_outside_the_array_is_a_located_runtime_error',
          '(g_evals == 2 && LIDX_NUMERIC && IS_INDEXABLE && ((long)LIDX < 0 || (long)LIDX >= LLEN)) ==> (bl_exc == EXC_RT && bl_exc_line == indexExpr_line && bl_exc_col == indexExpr_column)', ['C12', 'C07']),
        E('eval.array_load.only_arrays_are_indexed', '(bl_exc == 0) ==> (g_evals == 2 && IS_INDEXABLE && LIDX_NUMERIC && (long)LIDX >= 0 && (long)LIDX < LLEN)', ['C07', 'C12']),
        # C07: the result is the element, with the element type's tag
        E('eval.array_load.result_is_the_element', '(bl_exc == 0 && (long)LIDX >= 0 && (long)LIDX < AMAXS) ==> ' + lsel('%s.type == VTAG && EQ(%s.FLD, g_ev0.ARR.data[LIDX])' % (RET, RET), '0'), ['C07']),
    ],
}
WRAP_I = lambda x, d: '(%s %s 1)' % (x, d)
WRAP_L = lambda x, d: '(%s %s 1L)' % (x, d)
CONTRACTS['eval_postfix'] = {
    'contract': [
        R('bl_exc == 0 && SIZES_OK(g_arr0) && g_store_n == 0 && (post_op == BL_OP_INC || post_op == BL_OP_DEC)'),
        # values stay inside the range where the documentation fixes the result (C07): not at the end of the int / long range
        R('g_arr0.intValue > INT_MIN && g_arr0.intValue < INT_MAX && g_arr0.longValue > LONG_MIN && g_arr0.longValue < LONG_MAX'),
        A('g_stored, g_store_n, g_store_name'),
        # C07 (postfix ++/--): the expression yields the value BEFORE the update; the variable is written once with the value one larger / smaller
        E('eval.postfix.yields_the_old_value', '%s.type == g_arr0.type && %s.intValue == g_arr0.intValue && %s.longValue == g_arr0.longValue && __CPROVER_equal(%s.floatValue, g_arr0.floatValue)' % ((RET,) * 4), ['C07']),
        E('eval.postfix.writes_the_variable_once', 'g_store_n == 1 && g_store_name == var_name && g_stored.type == g_arr0.type', ['C07']),
        E('eval.postfix.int_moves_by_one', '(g_arr0.type == BL_Int) ==> g_stored.intValue == (post_op == BL_OP_INC ? %s : %s)' % (WRAP_I('g_arr0.intValue', '+'), WRAP_I('g_arr0.intValue', '-')), ['C07']),
        E('eval.postfix.long_moves_by_one', '(g_arr0.type == BL_Long) ==> g_stored.longValue == (post_op == BL_OP_INC ? %s : %s)' % (WRAP_L('g_arr0.longValue', '+'), WRAP_L('g_arr0.longValue', '-')), ['C07']),
        E('eval.postfix.float_moves_by_one', '(g_arr0.type == BL_Float) ==> __CPROVER_equal(g_stored.floatValue, (post_op == BL_OP_INC ? g_arr0.floatValue + 1.0 : g_arr0.floatValue - 1.0))', ['C07']),
    ],
}
CONTRACTS['eval_cast'] = {
    'contract': [
        R('bl_exc == 0 && g_evals == 0'),
        A('bl_exc, bl_exc_line, bl_exc_col, g_evals, g_ev0, g_ev1'),
        E('eval.cast.only_runtime_errors_at_the_cast', 'bl_exc == 0 || (bl_exc == EXC_RT && (g_evals == 0 || (bl_exc_line == cast_line && bl_exc_col == cast_column)))', ['C12', 'C13']),
        E('eval.cast.result_has_the_target_type', '(bl_exc == 0) ==> (g_evals == 1 && %s.type == TKIND)' % RET, ['C07']),
        # docs/casting.md: widening int/bit -> float is exact; narrowing float -> int truncates toward zero; (bit) of a non-zero value is 1
        E('eval.cast.to_int', '(bl_exc == 0 && TKIND == BL_Int) ==> ((g_ev0.type == BL_Int ==> %s.intValue == g_ev0.intValue) && (g_ev0.type == BL_Bit ==> %s.intValue == g_ev0.bitValue) && (g_ev0.type == BL_Float ==> (g_ev0.floatValue >= 0.0 ? ((double)%s.intValue <= g_ev0.floatValue && g_ev0.floatValue < (double)%s.intValue + 1.0) : ((double)%s.intValue >= g_ev0.floatValue && g_ev0.floatValue > (double)%s.intValue - 1.0))))' % ((RET,) * 6), ['C07']),
        E('eval.cast.to_float', '(bl_exc == 0 && TKIND == BL_Float) ==> ((g_ev0.type == BL_Int ==> %s.floatValue == (double)g_ev0.intValue) && (g_ev0.type == BL_Bit ==> %s.floatValue == (double)g_ev0.bitValue) && (g_ev0.type == BL_Long ==> %s.floatValue == (double)g_ev0.longValue) && (g_ev0.type == BL_Float ==> __CPROVER_equal(%s.floatValue, g_ev0.floatValue)))' % ((RET,) * 4), ['C07']),
        E('eval.cast.to_bit', '(bl_exc == 0 && TKIND == BL_Bit) ==> ((g_ev0.type == BL_Bit ==> %s.bitValue == g_ev0.bitValue) && (g_ev0.type == BL_Int ==> %s.bitValue == (g_ev0.intValue != 0 ? 1 : 0)) && (g_ev0.type == BL_Long ==> %s.bitValue == (g_ev0.longValue != 0 ? 1 : 0)) && (g_ev0.type == BL_Float ==> %s.bitValue == (g_ev0.floatValue != 0.0 ? 1 : 0)))' % ((RET,) * 4), ['C07']),
        E('eval.cast.to_long_widens', '(bl_exc == 0 && TKIND == BL_Long) ==> ((g_ev0.type == BL_Int ==> %s.longValue == (long)g_ev0.intValue) && (g_ev0.type == BL_Long ==> %s.longValue == g_ev0.longValue) && (g_ev0.type == BL_Bit ==> %s.longValue == (long)g_ev0.bitValue))' % ((RET,) * 3), ['C07']),
        E('eval.cast.class_string_and_array_values_cannot_be_cast', '(g_evals == 1 && (g_ev0.type == BL_String || g_ev0.type == BL_Object || g_ev0.type == BL_IntArray || g_ev0.type == BL_Void)) ==> bl_exc == EXC_RT', ['C07']),
        E('eval.cast.documented_numeric_casts_succeed', '(g_evals == 1 && (TKIND == BL_Int || TKIND == BL_Float || TKIND == BL_Bit) && (g_ev0.type == BL_Int || g_ev0.type == BL_Float || g_ev0.type == BL_Bit)) ==> bl_exc == 0', ['C07']),
    ],
}
HARNESSES = [
    dict(name='eval_postfix', fn='eval_postfix', replace=[], flags=[], props=['C07', 'C12'], timeout=300,
         cbmc_args=['--no-signed-overflow-check'] if False else [], canaries=[('a0 == BL_OP_INC', 'increment'), ('a0 == BL_OP_DEC', 'decrement')]),
    dict(name='eval_cast', fn='eval_cast', replace=[], flags=[], props=['C07', 'C12', 'C13'], timeout=600,
         canaries=[('bl_exc == 0', 'converted'), ('bl_exc != 0 && g_evals == 1', 'invalid cast')]),
    dict(name='array_load', fn='array_load', replace=[], flags=[], props=['C12', 'C07', 'C13'], timeout=600,
         canaries=[('bl_exc == 0', 'loaded'), ('bl_exc != 0 && g_evals == 2', 'refused after both operands were evaluated')]),
    dict(name='array_store', fn='array_store', replace=[], flags=[], props=['C12', 'C07', 'C13'], timeout=600,
         canaries=[('bl_exc == 0', 'stored'), ('bl_exc != 0 && g_evals == 2', 'refused after both operands were evaluated')]),
]


from tools import native as _nat


def _oracle():
    bd = _nat.repo_build(('bloch',))
    return _nat.run(['python3', os.path.join(_nat.ROOT, 'native', 'astore_oracle.py'), os.path.join(bd, 'bin', 'bloch'), 'sweep'], timeout=600)


def native_validate(pu, work, tier, seed):
    try:
        rc, out, dt = _oracle()
        js = _nat.last_json(out)
        return dict(unit='ASTORE', kind='oracle on the real interpreter through the CLI (stores through computed indices -big, -1, 0..n-1, n, big into every element type: a located Runtime error or exactly that element changed; a crash is a failure); no co-execution for this unit', status='agree',
                    oracle_sweep=dict(checks=js.get('oracle_checks'), failures=js.get('oracle_failures'), failing_labels=sorted(set(re.findall(r'FAIL label=(\S+)', out)))), wall_s=round(dt, 1))
    except _nat.Break as e:
        return dict(unit='ASTORE', status='error', detail=str(e))


def replay_counterexample(pu, h, label, failure, work, tier, seed):
    rc, out, dt = _oracle()
    fails = [l for l in out.split('\n') if l.startswith('FAIL ')]
    same = [l for l in fails if label and ('label=' + label + ' ') in l]
    pick = same or fails
    if pick:
        m = re.search(r'label=(\S+)', pick[0])
        return dict(failing_input_found=True, failing_input=pick[0][:1200], native_failures=[f[:300] for f in fails[:4]], oracle_label=m.group(1), signature=re.sub(r' program=.*', '', pick[0])[:160],
                    reproduce_args=['sweep'], reproduce='bin/check <property> --replay <this file>', replay_inputs_tried=['sweep'], matched_same_obligation=bool(same))
    return dict(failing_input_found=False, replay_inputs_tried=['sweep'], signature='')


def run_reproduce(rec, work):
    rc, out, dt = _oracle()
    print(out)
    return 1 if rc else 0
