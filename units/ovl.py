"""Unit OVL — runtime/runtime_evaluator.cpp: run-time overload resolution kernel
(isNullReference, valueConversionCost, argumentsConversionCost, the best-candidate selection loop
of findMethod) — C08 kernel (the overload that executes is the minimum-cost one)."""
import re, os
from tools import cxx2c
from tools.cxx2c import Lower, Unsupported, kids, qt, qt_sugar, strip, strip_parens, callee_name, norm_type, walk
from tools.cxx2c import REPO as _REPO

NAME = 'OVL'
SRC = _REPO + '/src/bloch/runtime/runtime_evaluator.cpp'
NAMESPACE = 'bloch::runtime'
FUNCS = ['isNullReference', 'valueConversionCost', 'argumentsConversionCost']
AST_FILTER = ['isNullReference', 'RuntimeEvaluator::valueConversionCost', 'RuntimeEvaluator::argumentsConversionCost', 'RuntimeEvaluator::findMethod', 'bloch::runtime::Value']
SHIM = 'ovl.h'
THROWING = set()
DROPS = ['Value members other than type, className, objectValue; Object is {cls}; RuntimeClass is {name}; class names are interned identities',
         'runtimeInheritanceDistance: contract-only stub over an uninterpreted class hierarchy',
         'region findMethod_select: the statements of findMethod from the declaration of `bestCost` to the end; the candidate list `matches` becomes a parameter {method id, cost}',
         'std::vector storage beyond {data,size}']
ASSUMPTIONS = ['the candidate list handed to the selection loop holds, per visible signature, its argumentsConversionCost (the collection loop over unordered_map / unordered_set is not lowered)']


class Profile(Lower):
    CLS = 'ovl'
    SELF_T = ''
    IS_METHOD = False
    WRAP_DOUBLE_OPS = False
    TYPE_MAP = [
        (r'^(bloch::runtime::)?Value$', 'Value'),
        (r'^(bloch::runtime::)?Value::Type$', 'int'),
        (r'^(bloch::runtime::)?RuntimeTypeInfo$', 'RuntimeTypeInfo'),
        (r'^(std::)?(basic_string<char.*>|string)$', 'bl_cname'),
        (r'^std::optional<int>$', 'opt_int'),
        (r'^(const )?std::nullopt_t$', 'bl_nullopt'),
        (r'^std::vector<(bloch::runtime::)?RuntimeTypeInfo>$', 'vec_RTI'),
        (r'^std::vector<(bloch::runtime::)?Value>$', 'vec_Value'),
        (r'^(std::)?shared_ptr<(bloch::runtime::)?Object>$', 'bl_objid'),
        (r'^std::__shared_ptr<(bloch::runtime::)?Object, __gnu_cxx::_S_atomic>$', 'bl_objid'),
        (r'^std::__shared_ptr_access<(bloch::runtime::)?Object, __gnu_cxx::_S_atomic, false, false>$', 'bl_objid'),
        (r'^(bloch::runtime::)?Object \*$', 'bl_objid'),
        (r'^std::__shared_ptr_access<.*>::element_type \*$', 'bl_objid'),
        (r'^(bloch::runtime::)?RuntimeClass \*$', 'bl_clsid'),
        (r'^(bloch::runtime::)?RuntimeMethod \*$', 'int'),
        (r'^std::vector<Candidate>$', 'vec_Candidate'),
        (r'^(const )?Candidate$', 'Candidate'),
    ]

    def prepare(self, docs, workdir):
        recs = [d for d in docs if d.get('kind') == 'CXXRecordDecl' and d.get('name') == 'Value' and d.get('completeDefinition')]
        if len(recs) != 1:
            raise Unsupported('struct Value: %d definitions' % len(recs))
        self.tagenum = []
        for f in kids(recs[0]):
            if f.get('kind') == 'EnumDecl' and f.get('name') == 'Type':
                self.tagenum = [c['name'] for c in kids(f) if c.get('kind') == 'EnumConstantDecl']
        if not self.tagenum:
            raise Unsupported('Value::Type not found')

    def file_prelude(self):
        return ['enum { %s };' % ', '.join('BL_' + e for e in self.tagenum),
                '/* heap objects and classes are opaque identities (0 = null); their fields are uninterpreted functions of the identity */',
                'typedef long bl_objid; typedef long bl_clsid;',
                'typedef struct { int type; bl_cname className; bl_objid objectValue; } Value;',
                'typedef struct { int kind; bl_cname className; } RuntimeTypeInfo;',
                'typedef struct { _Bool has; int v; } opt_int;',
                'typedef struct { RuntimeTypeInfo *data; size_t size; } vec_RTI;', 'typedef struct { Value *data; size_t size; } vec_Value;',
                'typedef struct { int method; int cost; } Candidate;', 'typedef struct { Candidate *data; size_t size; } vec_Candidate;']

    def construct(self, n):
        ct = self.ctype(qt(n))
        args = [a for a in kids(n) if a.get('kind') != 'CXXDefaultArgExpr']
        if ct == 'opt_int' and len(args) == 1:
            if self.ct(args[0]) == 'int':
                return '(opt_int){ 1, %s }' % self.expr(args[0])
            if self.ct(args[0]) == 'bl_nullopt':
                return '(opt_int){ 0, 0 }'
            if self.ct(args[0]) == 'opt_int':
                return self.expr(args[0])
        if ct == 'bl_cname' and len(args) == 1 and self.ct(args[0]) == 'bl_cname':
            return self.expr(args[0])
        raise Unsupported('ctor %s/%d' % (ct, len(args)))

    def cast(self, n):
        if n.get('kind') == 'CXXFunctionalCastExpr' and self.ct(n) == 'opt_int':
            return self.expr(kids(n)[0])
        return super().cast(n)

    def cast_other(self, n, ck, inner):
        if ck in ('PointerToBoolean',):
            return '(%s != 0)' % self.expr(inner)
        if ck == 'UserDefinedConversion':
            return self.expr(inner)
        return super().cast_other(n, ck, inner)

    def declref(self, n):
        if n['referencedDecl']['name'] == 'nullopt':
            return 'BL_NULLOPT'
        return super().declref(n)

    def opcall(self, n):
        ks = kids(n)
        op = callee_name(ks[0])
        args = ks[1:]
        t0 = self.ct(args[0])
        if op in ('operator==', 'operator!=') and t0 == 'bl_cname':
            return '(%s %s %s)' % (self.expr(args[0]), op[len('operator'):], self.expr(args[1]))
        if op == 'operator=' and t0 == 'bl_cname':
            return '(%s = %s)' % (self.expr(args[0]), self.expr(args[1]))
        if op == 'operator*' and len(args) == 1 and t0 == 'opt_int':
            return '(%s).v' % self.expr(args[0])
        if op == 'operator->' and t0 == 'bl_objid':
            return self.expr(args[0])
        if op == 'operator[]' and t0 in ('vec_RTI', 'vec_Value', 'vec_Candidate'):
            return 'VEC_AT(%s, %s)' % (self.expr(args[0]), self.expr(args[1]))
        raise Unsupported('operator %s on %s' % (op, qt(args[0])))

    def member(self, n):
        base = kids(n)[0]
        sb = strip(base)
        bt = self.ct(sb)
        if bt == 'bl_objid' and n['name'] == 'cls':
            return 'OBJ_CLS(%s)' % self.expr(sb)
        if bt == 'bl_clsid' and n['name'] == 'name':
            return 'CLS_NAME(%s)' % self.expr(sb)
        return super().member(n)

    def membercall_other(self, n, name, obj, args):
        t = self.ct(obj)
        o = self.expr(obj)
        if name == 'operator bool' and t == 'opt_int':
            return '(%s).has' % o
        if name == 'operator bool' and t in ('bl_objid', 'bl_clsid'):
            return '(%s != 0)' % o
        if t == 'bl_cname' and name == 'empty':
            return '(%s == 0)' % o
        if t in ('vec_RTI', 'vec_Value', 'vec_Candidate') and name == 'size':
            return 'VEC_SIZE(%s)' % o
        raise Unsupported('member call %s on %s' % (name, qt(obj)))

    def membercall(self, n):
        ks = kids(n)
        me = strip(ks[0])
        if strip(kids(me)[0]).get('kind') == 'CXXThisExpr':
            return self.call_named(n, me['name'], ks[1:])
        return super().membercall(n)

    def call_named(self, n, name, args):
        if name == 'runtimeInheritanceDistance':
            return 'ovl_stub_distance(%s)' % ', '.join(self.expr(a) for a in args)
        if name == 'max' and not args:
            return 'INT_MAX'
        return super().call_named(n, name, args)

    def range_for(self, n, ind):
        ks = [k for k in n['inner']]
        rangevar = loopvar = None
        for k in ks:
            if k.get('kind') == 'DeclStmt':
                for v in kids(k):
                    if v.get('name', '').startswith('__range'):
                        rangevar = v
                    elif v.get('kind') == 'VarDecl' and not v.get('name', '').startswith('__'):
                        loopvar = v
        if rangevar is None or loopvar is None:
            raise Unsupported('range-for shape')
        rng = strip(kids(rangevar)[0])
        if self.ct(rng) != 'vec_Candidate':
            raise Unsupported('range-for over ' + qt(rng))
        p = '  ' * ind
        k = self.loop_marker(p)
        iv = '__i%d' % k
        self.locals.add(loopvar['name'])
        out = [p + '/*@BEFORELOOP:%s:%d@*/' % (self.fn, k), p + '{', p + '  size_t %s = 0;' % iv,
               p + '  for (; %s < VEC_SIZE(%s); ++%s)' % (iv, self.expr(rng), iv), p + '    /*@LOOP:%s:%d@*/' % (self.fn, k), p + '  {',
               p + '    /*@LOOPBODY:%s:%d@*/' % (self.fn, k), p + '    Candidate %s = VEC_AT(%s, %s);' % (loopvar['name'], self.expr(rng), iv)]
        out += self.block(ks[-1], ind + 2)
        out += [p + '  }', p + '}', p + '/*@AFTERLOOP:%s:%d@*/' % (self.fn, k)]
        return out


def lower_regions(docs, prof):
    ds = cxx2c.find_functions(docs, 'findMethod')
    if len(ds) != 1:
        raise Unsupported('findMethod: %d definitions' % len(ds))
    body = [k for k in kids(ds[0]) if k.get('kind') == 'CompoundStmt'][0]
    stmts = kids(body)
    start = None
    for i, s in enumerate(stmts):
        if s.get('kind') == 'DeclStmt' and any(v.get('name') == 'bestCost' for v in kids(s)):
            start = i
    if start is None:
        raise Unsupported('selection region (declaration of bestCost) not found in findMethod')
    body2 = dict(body)
    body2['inner'] = stmts[start:]
    d = dict(kind='FunctionDecl', name='findMethod_select', type=dict(qualType='int ()'), inner=[body2])
    head, lines = prof.func(d, cname='findMethod_select', is_method=False)
    return [('int ovl_findMethod_select(vec_Candidate matches)', lines)]


# =========================================================================== sidecar contracts
GHOSTS = r'''
int bl_exc, bl_exc_line, bl_exc_col;
size_t gk, g_cur;
#ifndef NATIVE
bl_clsid __CPROVER_uninterpreted_obj_cls(bl_objid); bl_cname __CPROVER_uninterpreted_cls_name(bl_clsid);
#define OBJ_CLS __CPROVER_uninterpreted_obj_cls
#define CLS_NAME __CPROVER_uninterpreted_cls_name
#endif
int g_total;
#ifdef NATIVE
int ovl_stub_distance(bl_cname d, bl_cname b) { abort(); }
#else
_Bool __CPROVER_uninterpreted_subclass(bl_cname, bl_cname); int __CPROVER_uninterpreted_distance(bl_cname, bl_cname);
#define SUBCLASS(d, b) __CPROVER_uninterpreted_subclass(d, b)
#define DISTANCE(d, b) __CPROVER_uninterpreted_distance(d, b)
int ovl_stub_distance(bl_cname d, bl_cname b)
__CPROVER_assigns()
__CPROVER_ensures(__CPROVER_return_value == ((d == 0 || b == 0) ? -1 : (d == b) ? 0 : (SUBCLASS(d, b) ? DISTANCE(d, b) : -1)))
__CPROVER_ensures((d != 0 && b != 0 && d != b && SUBCLASS(d, b)) ==> (__CPROVER_return_value >= 1 && __CPROVER_return_value <= 1000))
;
#endif
#define ISPRIMK(k) ((k) == BL_Int || (k) == BL_Long || (k) == BL_Float || (k) == BL_Bit || (k) == BL_Boolean || (k) == BL_String || (k) == BL_Char || (k) == BL_Qubit)
#define ISNULLV(v) ((v).type == BL_Object && (v).objectValue == 0)
/* the dynamic class the cost function looks at: the stamp on the value, else the object's own class */
#define CLASSOF(v) ((v).className != 0 ? (v).className : (((v).objectValue != 0 && OBJ_CLS((v).objectValue) != 0) ? CLS_NAME(OBJ_CLS((v).objectValue)) : 0))
'''
RET = '__CPROVER_return_value'


def R(t):
    return ('', 'requires', t, [])


def E(label, t, props, **o):
    return (label, 'ensures', t, props, o)


def A(t):
    return ('', 'assigns', t, [])


VAL_OK = []
CONTRACTS = {
    'isNullReference': {'contract': [A(''), E('isNullReference.def', '%s == ISNULLV(v)' % RET, [])]},
    # the same cost table as the analyser's conversionCost (unit SEMK): exact 0, int->long 1, null 3, class = inheritance distance
    'valueConversionCost': {'contract': [R(t) for t in VAL_OK] + [
        A(''),
        E('valueConversionCost.primitive_exact_0_int_to_long_1', 'ISPRIMK(expected.kind) ==> ((actual.type == expected.kind) ? (%s.has && %s.v == 0) : (expected.kind == BL_Long && actual.type == BL_Int) ? (%s.has && %s.v == 1) : !%s.has)' % (RET, RET, RET, RET, RET), ['C08']),
        E('valueConversionCost.null_costs_3_for_class_parameters', '(expected.kind == BL_Object && ISNULLV(actual)) ==> (%s.has && %s.v == 3)' % (RET, RET), ['C08']),
        E('valueConversionCost.non_object_never_fits_class_parameter', '(expected.kind == BL_Object && actual.type != BL_Object) ==> !%s.has' % RET, ['C08']),
        E('valueConversionCost.class_cost_is_inheritance_distance', '(expected.kind == BL_Object && actual.type == BL_Object && !ISNULLV(actual) && expected.className != 0) ==> '
          '((CLASSOF(actual) != 0 && (CLASSOF(actual) == expected.className || SUBCLASS(CLASSOF(actual), expected.className))) ? (%s.has && %s.v == (CLASSOF(actual) == expected.className ? 0 : DISTANCE(CLASSOF(actual), expected.className))) : !%s.has)' % (RET, RET, RET), ['C08']),
        E('valueConversionCost.cost_is_small_and_non_negative', '%s.has ==> (%s.v >= 0 && %s.v <= 1000)' % (RET, RET, RET), ['C08']),
    ]},
    'argumentsConversionCost': {
        'contract': [
            R('expected.size <= PMAX && actual.size <= PMAX'),
            R('__CPROVER_is_fresh(expected.data, PMAX * sizeof(RuntimeTypeInfo))'), R('__CPROVER_is_fresh(actual.data, PMAX * sizeof(Value))'),
            A('g_total, g_cur'),
            E('argumentsConversionCost.arity_mismatch_is_no_match', '(expected.size != actual.size) ==> !%s.has' % RET, ['C08']),
            E('argumentsConversionCost.sum_of_argument_costs', '(%s.has) ==> (expected.size == actual.size && g_cur == expected.size && %s.v == g_total)' % (RET, RET), ['C08']),
            E('argumentsConversionCost.bounded', '%s.has ==> (%s.v >= 0 && %s.v <= 1000 * PMAX)' % (RET, RET, RET), ['C08']),
        ],
        'prologue': 'g_total = 0; g_cur = 0;',
        'loops': {0: {'assigns': 'i, total, g_total, g_cur',
                      'invariants': [('argumentsConversionCost.loop.bounds', 'i <= expected.size && expected.size == actual.size && expected.size <= PMAX && g_cur == i && total == g_total && total >= 0 && total <= 1000 * (int)i')],
                      'decreases': 'expected.size - i',
                      'after_decl_in_body': None}},
        'after_decl': {'cost': 'if (cost.has) { g_total = g_total + cost.v; g_cur = i + 1; }'},
        'locals': ['total', 'i', 'cost'],
    },
    # property level (C08): the overload that executes is the unique minimum-cost candidate; a tie at the minimum selects nothing
    'findMethod_select': {
        'contract': [
            R('matches.size >= 1 && matches.size <= 64'), R('__CPROVER_is_fresh(matches.data, 64 * sizeof(Candidate))'),
            R('gk < matches.size'), R('(gk < matches.size) ==> (matches.data[gk].cost >= 0 && matches.data[gk].method != 0)'),
            A('g_cur'),
            E('findMethod.selected_candidate_is_not_beaten', '(%s != 0) ==> (g_cur < matches.size && matches.data[g_cur].method == %s && matches.data[g_cur].cost <= matches.data[gk].cost)' % (RET, RET), ['C08']),
            E('findMethod.selected_candidate_is_strictly_cheapest', '(%s != 0 && gk != g_cur) ==> (matches.data[g_cur].cost < matches.data[gk].cost)' % RET, ['C08']),
            E('findMethod.no_selection_only_on_a_tie', '(%s == 0) ==> (g_cur < matches.size && matches.data[g_cur].cost <= matches.data[gk].cost)' % RET, ['C08']),
        ],
        'prologue': 'g_cur = 0;',
        # ghost cursor g_cur: position of the current best candidate (or of a candidate that ties at the minimum)
        'loops': {0: {'assigns': '__i0, bestCost, best, ambiguous, g_cur',
                      'invariants': [('findMethod.loop.bounds', '__i0 <= matches.size'),
                                     ('findMethod.loop.best_so_far', '(__i0 == 0) ? (bestCost == INT_MAX && best == 0 && !ambiguous && g_cur == 0) : (g_cur < __i0 && matches.data[g_cur].cost == bestCost && (!ambiguous ==> (best == matches.data[g_cur].method)))'),
                                     ('findMethod.loop.prefix_not_cheaper', '(gk < __i0) ==> (bestCost <= matches.data[gk].cost && ((!ambiguous && gk != g_cur) ==> bestCost < matches.data[gk].cost))')],
                      'decreases': 'matches.size - __i0',
                      'body_begin': 'if (matches.data[__i0].cost < bestCost) g_cur = __i0;'}},
        'locals': ['bestCost', 'best', 'ambiguous'],
    },
}
HARNESSES = [
    dict(name='isNullReference', fn='isNullReference', replace=[], flags=[], props=['C08'], timeout=60),
    dict(name='valueConversionCost', fn='valueConversionCost', replace=['isNullReference', 'ovl_stub_distance'], flags=[], props=['C08', 'C12'], timeout=120, bounded_replace=['ovl_stub_distance']),
    dict(name='argumentsConversionCost', fn='argumentsConversionCost', replace=['valueConversionCost'], flags=[], props=['C08', 'C12'], timeout=300, bounded_replace=['ovl_stub_distance'], bounded_defs=['PMAX=3'], unwind=5),
    dict(name='findMethod_select', fn='findMethod_select', replace=[], flags=[], props=['C08', 'C12'], timeout=300, unwind=6),
]


# =========================================================================== native side
from tools import native as _nat


def _oracle():
    bd = _nat.repo_build(('bloch',))
    return _nat.run(['python3', os.path.join(_nat.ROOT, 'native', 'ovl_oracle.py'), os.path.join(bd, 'bin', 'bloch'), 'sweep'], timeout=600)


def native_validate(pu, work, tier, seed):
    try:
        rc, out, dt = _oracle()
        js = _nat.last_json(out)
        return dict(unit='OVL', kind='oracle on the real interpreter (which overload runs); no co-execution for this unit', status='agree',
                    oracle_sweep=dict(checks=js.get('oracle_checks'), failures=js.get('oracle_failures'), failing_labels=sorted(set(re.findall(r'FAIL label=(\S+)', out)))), wall_s=round(dt, 1))
    except _nat.Break as e:
        return dict(unit='OVL', status='error', detail=str(e))


def replay_counterexample(pu, h, label, failure, work, tier, seed):
    rc, out, dt = _oracle()
    fails = [l for l in out.split('\n') if l.startswith('FAIL ') and 'label=site.' not in l]
    same = [l for l in fails if label and ('label=' + label + ' ') in l]
    pick = same or fails
    if pick:
        m = re.search(r'label=(\S+)', pick[0])
        return dict(failing_input_found=True, failing_input=pick[0], native_failures=fails[:6], oracle_label=m.group(1), signature=re.sub(r' detail=.*', '', pick[0])[:160],
                    reproduce_args=['sweep'], reproduce='bin/check <property> --replay <this file>', replay_inputs_tried=['sweep'], matched_same_obligation=bool(same))
    return dict(failing_input_found=False, replay_inputs_tried=['sweep'], signature='')


def run_reproduce(rec, work):
    rc, out, dt = _oracle()
    print(out)
    return 1 if rc else 0
