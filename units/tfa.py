"""Unit TFA — compiler/semantics/semantic_analyser.cpp: SemanticAnalyser::typeFromAst (whole function) — C10 (class half,
kernel): while the class registry is being built, the type of a declaration is a function of its syntax alone; the class
table (which at that moment holds only the classes declared EARLIER in the file) is never consulted, so the order of class
declarations cannot influence it."""
import re, os
from tools import cxx2c
from tools.cxx2c import Lower, Unsupported, kids, qt, qt_sugar, strip, strip_parens, callee_name, norm_type, walk
from tools.cxx2c import REPO as _REPO

NAME = 'TFA'
SRC = _REPO + '/src/bloch/compiler/semantics/semantic_analyser.cpp'
NAMESPACE = 'bloch::compiler'
FUNCS = ['typeFromAst']
AST_FILTER = ['SemanticAnalyser::typeFromAst', 'ValueType']
SHIM = 'tfa.h'
THROWING = {'typeFromAst'}
DROPS = ['type nodes are opaque identities; their kind (PrimitiveType / NamedType / VoidType / ArrayType), name parts, flags, type arguments and positions are uninterpreted functions of the identity',
         'names are interned; `base + "[]"` is an uninterpreted function of base; TypeInfo::typeArgs is only its element count',
         'the recursive calls (type arguments, array element) go to a contract-only copy of the same contract: the induction hypothesis of a structural induction over the type node (written argument, not machine-checked)',
         'findClass / validateTypeApplication are ghost-counting stubs; m_currentTypeParams is an array of names']
ASSUMPTIONS = ['structural induction over the type node for the recursive calls (the type arguments and the element type are strictly smaller nodes)']
KINDS = ['PrimitiveType', 'NamedType', 'VoidType', 'ArrayType']


class Profile(Lower):
    CLS = 'tfa'
    SELF_T = ''
    IS_METHOD = False
    WRAP_DOUBLE_OPS = False
    REF_LOCALS_AS_COPIES = True
    TYPE_MAP = [
        (r'^(bloch::compiler::)?ValueType$', 'int'),
        (r'^(bloch::compiler::)?(SemanticAnalyser::)?TypeInfo$', 'TypeInfo'),
        (r'^(std::)?(basic_string<char.*>|string)$', 'bl_cname'),
        (r'^(bloch::compiler::)?(Type|PrimitiveType|NamedType|VoidType|ArrayType) \*$', 'bl_tnode'),
        (r'^std::unique_ptr<(bloch::compiler::)?Type(, std::default_delete<.*>)?>$', 'bl_tnode'),
        (r'^(bloch::compiler::)?(SemanticAnalyser::)?ClassInfo \*$', 'bl_clsinfo'),
        (r'^std::vector<(bloch::compiler::)?(SemanticAnalyser::)?TypeInfo(, .*)?>$', 'size_t'),
        (r'^(bloch::compiler::)?(SemanticAnalyser::)?ClassInfo::TypeParamInfo$', 'TypeParamRow'),
    ]

    def prepare(self, docs, workdir):
        es = [d for d in docs if d.get('kind') == 'EnumDecl' and d.get('name') == 'ValueType']
        if not es:
            raise Unsupported('enum ValueType not found')
        self.enum = [c['name'] for c in kids(es[0]) if c.get('kind') == 'EnumConstantDecl']
        self.node_of = {}

    def file_prelude(self):
        return ['enum { %s };' % ', '.join('BL_' + e for e in self.enum),
                'enum { %s };' % ', '.join('K_%s = %d' % (k, i + 1) for i, k in enumerate(KINDS))]

    def string_literal(self, n):
        if n.get('value') == '""':
            return '0'
        if n.get('value') == '"[]"':
            return 'BL_BRACKETS'
        raise Unsupported('string literal ' + n.get('value', ''))

    def cast(self, n):
        if n.get('castKind') == 'ArrayToPointerDecay' and strip_parens(kids(n)[0]).get('kind') == 'StringLiteral':
            return self.expr(kids(n)[0])
        if n.get('kind') == 'CXXDynamicCastExpr':
            return self.dyncast(n)
        return super().cast(n)

    def expr_other(self, n):
        if n.get('kind') == 'CXXDynamicCastExpr':
            return self.dyncast(n)
        return super().expr_other(n)

    def dyncast(self, n):
        tgt = n.get('type', {}).get('qualType', '')
        k = [x for x in KINDS if x in tgt]
        if len(k) != 1:
            raise Unsupported('dynamic_cast to ' + tgt)
        src = self.expr(kids(n)[0])
        return '((AST_KIND(%s) == K_%s) ? %s : 0)' % (src, k[0], src)

    def cast_other(self, n, ck, inner):
        if ck == 'PointerToBoolean' and self.ct(inner) in ('bl_tnode', 'bl_clsinfo'):
            return '(%s != 0)' % self.expr(inner)
        return super().cast_other(n, ck, inner)

    def construct(self, n):
        ct = self.ctype_safe(qt(n))
        args = [a for a in kids(n) if a.get('kind') != 'CXXDefaultArgExpr']
        if ct in ('TypeInfo', 'bl_cname') and len(args) == 1:
            return self.expr(args[0])
        raise Unsupported('ctor %s/%d' % (qt(n), len(args)))

    def member(self, n):
        base = kids(n)[0]
        sb = strip(base)
        nm = n['name']
        if sb.get('kind') == 'CXXThisExpr':
            return 'sa_' + nm
        bt = self.ct(sb)
        if bt == 'bl_tnode' and nm in ('name', 'line', 'column', 'hasTypeArgumentList'):
            return 'AST_%s(%s)' % (nm.upper(), self.expr(sb))
        if bt == 'bl_tnode' and nm in ('nameParts', 'typeArguments', 'elementType'):
            return 'AST_%s(%s)' % (nm.upper(), self.expr(sb))
        if bt == 'TypeParamRow' and nm == 'name':
            return '(%s).name' % self.expr(sb)
        if bt == 'bl_clsinfo' and nm == 'typeParams':
            return 'CLS_TYPEPARAMS(%s)' % self.expr(sb)
        if bt == 'TypeInfo':
            return '(%s).%s' % (self.expr(sb), nm)
        raise Unsupported('member %s of %s' % (nm, qt(sb)))

    def opcall(self, n):
        ks = kids(n)
        op = callee_name(ks[0])
        args = ks[1:]
        t0 = self.ct(args[0])
        if op in ('operator==', 'operator!=') and t0 == 'bl_cname':
            return '(%s %s %s)' % (self.expr(args[0]), op[len('operator'):], self.expr(args[1]))
        if op == 'operator+' and self.ct(n) == 'bl_cname':
            a, b = self.expr(args[0]), self.expr(args[1])
            if b == 'BL_BRACKETS':
                return 'bl_arrname(%s)' % a
            raise Unsupported('string concatenation outside a diagnostic message')
        raise Unsupported('operator %s on %s' % (op, qt(args[0])))

    def membercall_other(self, n, name, obj, args):
        o = self.expr(obj)
        if o.startswith('AST_NAMEPARTS('):
            x = o[len('AST_NAMEPARTS('):-1]
            if name == 'empty':
                return '(AST_NPARTS(%s) == 0)' % x
            if name == 'back':
                return 'AST_LASTPART(%s)' % x
        if o.startswith('AST_TYPEARGUMENTS(') and name == 'empty':
            return '(AST_NTARGS(%s) == 0)' % o[len('AST_TYPEARGUMENTS('):-1]
        if o.startswith('CLS_TYPEPARAMS(') and name == 'empty':
            return 'tfa_stub_class_has_no_type_params(%s)' % o[len('CLS_TYPEPARAMS('):-1]
        t = self.ct(obj)
        if t == 'bl_tnode' and name == 'get':
            return o
        if t == 'bl_cname' and name == 'empty':
            return '(%s == 0)' % o
        if t == 'size_t' and 'vector' in qt(obj):
            if name == 'clear':
                return '(%s = 0)' % o
            if name == 'push_back' and len(args) == 1:
                return '((void)(%s), %s = %s + 1)' % (self.expr(args[0]), o, o)
        raise Unsupported('member call %s on %s' % (name, qt(obj)))

    def membercall(self, n):
        ks = kids(n)
        me = strip(ks[0])
        if strip(kids(me)[0]).get('kind') == 'CXXThisExpr':
            return self.call_named(n, me['name'], ks[1:])
        return self.membercall_other(n, me['name'], kids(me)[0], ks[1:])

    def call_named(self, n, name, args):
        if name == 'typeFromAst' and len(args) == 1:
            self.needs_prop = True
            return 'tfa_rec_typeFromAst(%s)' % self.expr(args[0])
        if name in ('combine', 'typeFromString', 'typeToString', 'findClass'):
            return 'tfa_stub_%s(%s)' % (name, ', '.join(self.expr(a) for a in args))
        if name == 'validateTypeApplication':
            self.needs_prop = True
            return 'tfa_stub_validateTypeApplication(%s)' % ', '.join(self.expr(a) for a in args)
        return super().call_named(n, name, args)

    def if_with_var(self, n, ind):
        p = '  ' * ind
        ks = kids(n)
        v = kids(ks[0])[0]
        dc = []
        walk(v, lambda z: dc.append(z) if z.get('kind') == 'CXXDynamicCastExpr' else None)
        if len(dc) != 1:
            raise Unsupported('if with condition variable ' + v.get('name', ''))
        self.locals.add(v['name'])
        out = [p + '{', p + '  bl_tnode %s = %s;' % (v['name'], self.dyncast(dc[0])), p + '  if (%s != 0)' % v['name']]
        out += self.block(ks[2], ind + 1)
        if len(ks) > 3:
            out.append(p + '  else')
            out += self.block(ks[3], ind + 1)
        out.append(p + '}')
        return out

    def range_for(self, n, ind):
        ks = [k for k in n['inner']]
        rangevar = loopvar = None
        body = ks[-1]
        for k in ks:
            if k.get('kind') == 'DeclStmt':
                for v in kids(k):
                    if v.get('name', '').startswith('__range'):
                        rangevar = v
                    elif v.get('kind') == 'VarDecl' and not v.get('name', '').startswith('__'):
                        loopvar = v
        rng = strip(kids(rangevar)[0])
        rs = self.expr(rng)
        p = '  ' * ind
        k = self.loop_marker(p)
        iv = 'bl_i%d' % k
        self.locals.add(iv)
        self.locals.add(loopvar['name'])
        if rs == 'sa_m_currentTypeParams':
            size, et, elem = 'g_nctp', 'TypeParamRow', 'g_ctp[BL_IDX(%s, TPMAX)]' % iv
        elif rs.startswith('AST_TYPEARGUMENTS('):
            x = rs[len('AST_TYPEARGUMENTS('):-1]
            size, et, elem = 'AST_NTARGS(%s)' % x, 'bl_tnode', 'AST_TARG(%s, %s)' % (x, iv)
        else:
            raise Unsupported('range-for over ' + qt(rng))
        out = [p + '/*@BEFORELOOP:%s:%d@*/' % (self.fn, k), p + '{', p + '  size_t %s = 0;' % iv,
               p + '  for (; %s < %s; ++%s)' % (iv, size, iv), p + '    /*@LOOP:%s:%d@*/' % (self.fn, k), p + '  {',
               p + '    /*@LOOPBODY:%s:%d@*/' % (self.fn, k), p + '    %s %s = %s;' % (et, loopvar['name'], elem)]
        out += self.block(body, ind + 2)
        out += [p + '  }', p + '}', p + '/*@AFTERLOOP:%s:%d@*/' % (self.fn, k)]
        return out



GHOSTS = r"""
int bl_exc, bl_exc_line, bl_exc_col;
#define EXC_SEM BL_EXC(BL_Semantic)
_Bool sa_m_inClassRegistryBuild; TypeParamRow g_ctp[TPMAX]; size_t g_nctp;      /* analyser state */
int g_findclass_calls, g_validate_calls, g_rec_calls;                          /* ghost: class-table consultations / recursive calls */
#ifndef NATIVE
int __CPROVER_uninterpreted_ast_kind(bl_tnode); bl_cname __CPROVER_uninterpreted_ast_name(bl_tnode); int __CPROVER_uninterpreted_ast_line(bl_tnode); int __CPROVER_uninterpreted_ast_column(bl_tnode);
int __CPROVER_uninterpreted_ast_hastal(bl_tnode); size_t __CPROVER_uninterpreted_ast_nparts(bl_tnode); bl_cname __CPROVER_uninterpreted_ast_lastpart(bl_tnode);
size_t __CPROVER_uninterpreted_ast_ntargs(bl_tnode); bl_tnode __CPROVER_uninterpreted_ast_targ(bl_tnode, size_t); bl_tnode __CPROVER_uninterpreted_ast_elem(bl_tnode);
bl_cname __CPROVER_uninterpreted_arrname(bl_cname); int __CPROVER_uninterpreted_type_from_string(bl_cname); bl_cname __CPROVER_uninterpreted_type_to_string(int);
#define AST_KIND(x) __CPROVER_uninterpreted_ast_kind(x)
#define AST_NAME(x) __CPROVER_uninterpreted_ast_name(x)
#define AST_LINE(x) __CPROVER_uninterpreted_ast_line(x)
#define AST_COLUMN(x) __CPROVER_uninterpreted_ast_column(x)
#define AST_HASTYPEARGUMENTLIST(x) (__CPROVER_uninterpreted_ast_hastal(x) != 0)
#define AST_NPARTS(x) __CPROVER_uninterpreted_ast_nparts(x)
#define AST_LASTPART(x) __CPROVER_uninterpreted_ast_lastpart(x)
#define AST_NTARGS(x) (__CPROVER_uninterpreted_ast_ntargs(x) % 4)
#define AST_TARG(x, i) __CPROVER_uninterpreted_ast_targ(x, i)
#define AST_ELEMENTTYPE(x) __CPROVER_uninterpreted_ast_elem(x)
#define bl_arrname(b) __CPROVER_uninterpreted_arrname(b)
static inline TypeInfo tfa_stub_combine(int prim, bl_cname cls) { TypeInfo t; t.value = prim; t.className = cls; t.typeArgs = 0; t.isTypeParam = 0; return t; }
static inline int tfa_stub_typeFromString(bl_cname n) { return __CPROVER_uninterpreted_type_from_string(n); }
static inline bl_cname tfa_stub_typeToString(int v) { return __CPROVER_uninterpreted_type_to_string(v); }
static inline bl_clsinfo tfa_stub_findClass(bl_cname n) { if (g_findclass_calls < 1000) g_findclass_calls = g_findclass_calls + 1; return nondet_int(); }
static inline _Bool tfa_stub_class_has_no_type_params(bl_clsinfo c) { return nondet_bool(); }
/* consults the class table (arity and bounds of the type arguments): may raise */
static inline void tfa_stub_validateTypeApplication(TypeInfo t, int line, int column) { if (g_validate_calls < 1000) g_validate_calls = g_validate_calls + 1; if (nondet_bool()) bl_throw(BL_Semantic, line, column); }
/* the recursive call: the contract below IS the induction hypothesis (same clauses as the contract of typeFromAst) */
TypeInfo tfa_rec_typeFromAst(bl_tnode n)
__CPROVER_requires(bl_exc == 0)
__CPROVER_assigns(bl_exc, bl_exc_line, bl_exc_col, g_findclass_calls, g_validate_calls, g_rec_calls)
__CPROVER_ensures(bl_exc == 0 || bl_exc == EXC_SEM)
__CPROVER_ensures(sa_m_inClassRegistryBuild ==> (bl_exc == 0 && g_findclass_calls == __CPROVER_old(g_findclass_calls) && g_validate_calls == __CPROVER_old(g_validate_calls)))
__CPROVER_ensures(g_findclass_calls >= __CPROVER_old(g_findclass_calls) && g_validate_calls >= __CPROVER_old(g_validate_calls) && g_findclass_calls <= 1000 && g_validate_calls <= 1000)
;
#endif
"""
RET = '__CPROVER_return_value'


def R(t):
    return ('', 'requires', t, [])


def E(label, t, props, **o):
    return (label, 'ensures', t, props, o)


def A(t):
    return ('', 'assigns', t, [])


CONTRACTS = {
    'typeFromAst': {
        'contract': [
            R('bl_exc == 0 && g_nctp <= TPMAX && g_findclass_calls >= 0 && g_findclass_calls <= 900 && g_validate_calls >= 0 && g_validate_calls <= 900'),
            A('bl_exc, bl_exc_line, bl_exc_col, g_findclass_calls, g_validate_calls, g_rec_calls'),
            E('typeFromAst.only_semantic_errors', 'bl_exc == 0 || bl_exc == EXC_SEM', ['C13', 'C10']),
            # C10: while the class registry is being built the class table holds only EARLIER declarations: it must not be consulted,
            # and nothing may be rejected on its account
            E('typeFromAst.registry_build_never_consults_the_class_table', 'sa_m_inClassRegistryBuild ==> (bl_exc == 0 && g_findclass_calls == __CPROVER_old(g_findclass_calls) && g_validate_calls == __CPROVER_old(g_validate_calls))', ['C10']),
            E('typeFromAst.counters_monotone', 'g_findclass_calls >= __CPROVER_old(g_findclass_calls) && g_validate_calls >= __CPROVER_old(g_validate_calls) && g_findclass_calls <= 1000 && g_validate_calls <= 1000', []),
            E('typeFromAst.missing_type_is_unknown', '(typeNode == 0) ==> (bl_exc == 0 && %s.value == BL_Unknown && %s.className == 0)' % (RET, RET), ['C10']),
            E('typeFromAst.void_is_void', '(typeNode != 0 && AST_KIND(typeNode) == K_VoidType) ==> (bl_exc == 0 && %s.value == BL_Void && %s.className == 0)' % (RET, RET), ['C10', 'C16']),
            E('typeFromAst.named_type_carries_its_last_name_part', '(typeNode != 0 && AST_KIND(typeNode) == K_NamedType && bl_exc == 0) ==> (%s.value == BL_Unknown && %s.className == ((AST_NPARTS(typeNode) == 0) ? 0 : AST_LASTPART(typeNode)))' % (RET, RET), ['C10']),
            E('typeFromAst.validated_outside_the_registry_build', '(!sa_m_inClassRegistryBuild && typeNode != 0 && AST_KIND(typeNode) == K_NamedType && bl_exc == 0 && !%s.isTypeParam) ==> g_validate_calls >= __CPROVER_old(g_validate_calls) + 1' % RET, ['C16']),
        ],
        'loops': {
            0: {'assigns': 'bl_i0', 'invariants': [('typeFromAst.typeparams.bounds', 'bl_i0 <= g_nctp && bl_exc == 0')], 'decreases': 'g_nctp - bl_i0'},
            1: {'assigns': 'bl_i1, t.typeArgs, bl_exc, bl_exc_line, bl_exc_col, g_findclass_calls, g_validate_calls, g_rec_calls',
                'before': 'g_nta = AST_NTARGS(named); g_fc0 = g_findclass_calls; g_va0 = g_validate_calls;',
                'invariants': [('typeFromAst.typeargs.bounds', 'bl_i1 <= g_nta && bl_exc == 0 && t.typeArgs == bl_i1 && t.value == BL_Unknown && t.className == cls && !t.isTypeParam'),
                               ('typeFromAst.typeargs.table_untouched_in_registry_build', 'g_findclass_calls >= g_fc0 && g_validate_calls >= g_va0 && g_findclass_calls <= 1000 && g_validate_calls <= 1000 && (sa_m_inClassRegistryBuild ==> (g_findclass_calls == g_fc0 && g_validate_calls == g_va0))')],
                'decreases': 'g_nta - bl_i1'},
        },
    },
}
GHOSTS += 'size_t g_nta; int g_fc0, g_va0;\n'
CONTRACTS['typeFromAst']['contract'][1] = A('bl_exc, bl_exc_line, bl_exc_col, g_findclass_calls, g_validate_calls, g_rec_calls, g_nta, g_fc0, g_va0')
HARNESSES = [
    dict(name='typeFromAst', fn='typeFromAst', replace=['tfa_rec_typeFromAst'], flags=[], props=['C10', 'C13', 'C16', 'C12'], timeout=300, unwind=6, bounded_replace=['tfa_rec_typeFromAst'],
         canaries=[('bl_exc == 0 && g_validate_calls >= 1', 'a type application was validated'), ('bl_exc != 0', 'rejected')]),
]


from tools import native as _nat


def _oracle():
    bd = _nat.repo_build(('bloch',))
    return _nat.run(['python3', os.path.join(_nat.ROOT, 'native', 'tfa_oracle.py'), os.path.join(bd, 'bin', 'bloch'), 'sweep'], timeout=900)


def native_validate(pu, work, tier, seed):
    try:
        rc, out, dt = _oracle()
        js = _nat.last_json(out)
        return dict(unit='TFA', kind='oracle on the real front end through the CLI (60 orders of five classes that mention each other in member types, generic arguments and bounds; base before derived); no co-execution for this unit', status='agree',
                    oracle_sweep=dict(checks=js.get('oracle_checks'), failures=js.get('oracle_failures'), failing_labels=sorted(set(re.findall(r'FAIL label=(\S+)', out)))), wall_s=round(dt, 1))
    except _nat.Break as e:
        return dict(unit='TFA', status='error', detail=str(e))


def replay_counterexample(pu, h, label, failure, work, tier, seed):
    rc, out, dt = _oracle()
    fails = [l for l in out.split('\n') if l.startswith('FAIL ')]
    same = [l for l in fails if label and ('label=' + label + ' ') in l]
    pick = same or fails
    if pick:
        m = re.search(r'label=(\S+)', pick[0])
        return dict(failing_input_found=True, failing_input=pick[0][:1500], native_failures=[f[:300] for f in fails[:3]], oracle_label=m.group(1), signature=re.sub(r' program=.*', '', pick[0])[:160],
                    reproduce_args=['sweep'], reproduce='bin/check <property> --replay <this file>', replay_inputs_tried=['sweep'], matched_same_obligation=bool(same))
    return dict(failing_input_found=False, replay_inputs_tried=['sweep'], signature='')


def run_reproduce(rec, work):
    rc, out, dt = _oracle()
    print(out)
    return 1 if rc else 0
