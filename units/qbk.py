"""Unit QBK — runtime/runtime_evaluator.cpp: qubit bookkeeping of RuntimeEvaluator
(allocateTrackedQubit, releaseQubit, markMeasured, unmarkMeasured, ensureQubitExists,
ensureQubitActive): evaluator side of C03 (handles stay distinct) and C06 (measured lock)."""
import re, os
from tools import cxx2c
from tools.cxx2c import Lower, Unsupported, kids, qt, qt_sugar, strip, strip_parens, callee_name, norm_type
from tools.cxx2c import REPO as _REPO

NAME = 'QBK'
SRC = _REPO + '/src/bloch/runtime/runtime_evaluator.cpp'
FUNCS = ['unmarkMeasured', 'markMeasured', 'ensureQubitExists', 'ensureQubitActive', 'releaseQubit', 'allocateTrackedQubit']
AST_FILTER = ['RuntimeEvaluator::' + f for f in FUNCS]
SHIM = 'qbk.h'
THROWING = {'ensureQubitExists', 'ensureQubitActive', 'allocateTrackedQubit'}
DROPS = ['every member of RuntimeEvaluator except m_qubits, m_freeQubitIndices, m_lastMeasurement',
         'the simulator object m_sim: seen only through the contracts proved in unit SIM (ghost qubit count and flag array)',
         'qubit names: slices, only assignment / clear() / empty() matter; diagnostic message text',
         'std::vector growth: storage has capacity NQMAX (object-size bound); resize is exact at the last new position and one ghost position']
ASSUMPTIONS = ['contracts of QasmSimulator::reset and ::allocateQubit as proved in unit SIM (labels reset.refused_iff_out_of_range, reset.clears_measured_flag, reset.other_flags_kept, '
               'allocateQubit.returns_next_index, allocateQubit.new_qubit_unmeasured, allocateQubit.other_flags_kept), restated here over a ghost flag array',
               'that no reachable handle still holds a released index is a whole-heap fact outside these contracts (caller obligation of releaseQubit)']


class Profile(Lower):
    CLS = 'RuntimeEvaluator'
    SELF_T = 'RuntimeEvaluator'
    WRAP_DOUBLE_OPS = False
    TYPE_MAP = [
        (r'^std::vector<int>$', 'vec_int'),
        (r'^std::vector<(bloch::runtime::RuntimeEvaluator::)?QubitInfo>$', 'vec_QubitInfo'),
        (r'^(bloch::runtime::RuntimeEvaluator::)?QubitInfo$', 'QubitInfo'),
        (r'^std::vector<(bloch::runtime::RuntimeEvaluator::)?QubitInfo>::value_type$', 'QubitInfo'),
        (r'^(std::)?(basic_string<char.*>|string)$', 'bl_sv'),
        (r'^(bloch::runtime::)?QasmSimulator$', 'SIMOBJ'),
    ]

    def file_prelude(self):
        return ['struct RuntimeEvaluator { vec_QubitInfo m_qubits; vec_int m_freeQubitIndices; vec_int m_lastMeasurement; };']

    def string_literal(self, n):
        return 'BL_SV_LIT(%s)' % n['value']

    def str_dropped(self, n):
        """a std::string expression that only feeds a diagnostic message"""
        return 'BL_SV_LIT("")'

    def construct(self, n):
        ct = self.ctype(qt(n))
        args = [a for a in kids(n) if a.get('kind') != 'CXXDefaultArgExpr']
        if ct == 'bl_sv':
            if len(args) == 1 and self.ct(args[0]) == 'bl_sv':
                return self.expr(args[0])
            if len(args) == 1 and strip_parens(args[0]).get('kind') == 'StringLiteral':
                return self.expr(strip_parens(args[0]))
            if not args:
                return 'BL_SV_LIT("")'
        if ct == 'QubitInfo' and len(args) == 1:
            return self.expr(args[0])
        raise Unsupported('ctor %s/%d' % (ct, len(args)))

    def initlist(self, n):
        if self.ct(n) == 'QubitInfo':
            return '(QubitInfo){ ' + ', '.join(self.expr(a) for a in kids(n)) + ' }'
        return super().initlist(n)

    def opcall(self, n):
        ks = kids(n)
        op = callee_name(ks[0])
        args = ks[1:]
        t0 = self.ct(args[0])
        if op == 'operator[]' and t0 in ('vec_int', 'vec_QubitInfo'):
            return 'VEC_AT(%s, %s)' % (self.expr(args[0]), self.expr(args[1]))
        if op == 'operator=' and t0 == 'bl_sv':
            return '(%s = %s)' % (self.expr(args[0]), self.expr(args[1]))
        if op == 'operator+' and self.ct(n) == 'bl_sv':
            return self.str_dropped(n)      # message concatenation
        if op in ('operator!=', 'operator==') and 'iterator' in qt(args[0]):
            # std::find(v.begin(), v.end(), x) != v.end()
            f = strip_parens(args[0])
            e = strip_parens(args[1])
            if f.get('kind') == 'CallExpr' and callee_name(kids(f)[0]) == 'find' and e.get('kind') == 'CXXMemberCallExpr' and strip(kids(e)[0]).get('name') == 'end':
                fa = kids(f)[1:]
                b, en = strip_parens(fa[0]), strip_parens(fa[1])
                if b.get('kind') == 'CXXMemberCallExpr' and strip(kids(b)[0]).get('name') == 'begin' and en.get('kind') == 'CXXMemberCallExpr' and strip(kids(en)[0]).get('name') == 'end':
                    ob = kids(strip(kids(b)[0]))[0]
                    if self.ct(ob) == 'vec_int' and self.expr(ob) == self.expr(kids(strip(kids(e)[0]))[0]):
                        r = 'vec_int_contains(&%s, %s)' % (self.expr(ob), self.expr(fa[2]))
                        return r if op == 'operator!=' else '(!%s)' % r
            raise Unsupported('iterator comparison shape')
        raise Unsupported('operator %s on %s' % (op, qt(args[0])))

    def expr_other(self, n):
        if n.get('kind') == 'CXXRewrittenBinaryOperator':
            return self.expr(kids(n)[0])
        return super().expr_other(n)

    def membercall_other(self, n, name, obj, args):
        t = self.ct(obj)
        if t == 'SIMOBJ':
            if name == 'reset' and len(args) == 1:
                self.needs_prop = True
                return 'qbk_sim_reset(%s)' % self.expr(args[0])
            if name == 'allocateQubit' and not args:
                return 'qbk_sim_allocateQubit()'
            raise Unsupported('simulator call ' + name)
        o = self.expr(obj)
        if t in ('vec_int', 'vec_QubitInfo'):
            if name == 'size':
                return 'VEC_SIZE(%s)' % o
            if name == 'empty':
                return '(VEC_SIZE(%s) == 0)' % o
            if t == 'vec_int' and name == 'back' and not args:
                return 'vec_int_back(&%s)' % o
            if t == 'vec_int' and name == 'front' and not args:
                return 'vec_int_front(&%s)' % o
            if t == 'vec_int' and name == 'pop_back':
                return 'vec_int_pop_back(&%s)' % o
            if name == 'push_back' and len(args) == 1:
                return '%s_push_back(&%s, %s)' % (t, o, self.expr(args[0]))
            if name == 'resize' and t == 'vec_int' and len(args) == 2:
                return 'vec_int_resize(&%s, %s, %s)' % (o, self.expr(args[0]), self.expr(args[1]))
            if name == 'resize' and t == 'vec_QubitInfo' and len(args) == 1:
                return 'vec_QubitInfo_resize(&%s, %s)' % (o, self.expr(args[0]))
        if t == 'bl_sv':
            if name == 'empty':
                return '((%s).n == 0)' % o
            if name == 'clear':
                return '((%s).n = 0)' % o
        raise Unsupported('member call %s on %s' % (name, qt(obj)))

    def call_named(self, n, name, args):
        if name == 'to_string':
            return self.str_dropped(n)
        return super().call_named(n, name, args)

    def decl(self, v):
        # a std::string local that only builds a diagnostic label
        if self.ctype_safe(qt(v)) == 'bl_sv' and v.get('name') == 'label':
            self.locals.add(v['name'])
            return 'bl_sv %s = BL_SV_LIT("");' % v['name']
        return super().decl(v)


# =========================================================================== sidecar contracts
GHOSTS = r'''
#define EXC_RT BL_EXC(BL_Runtime)
#define QS (self->m_qubits)
#define FL (self->m_freeQubitIndices)
#define LM (self->m_lastMeasurement)
#define INR(i) ((i) >= 0 && (size_t)(i) < QS.size)
int bl_exc, bl_exc_line, bl_exc_col;
size_t g_rs_k, g_fk, g_fk2;
/* the simulator as unit SIM's contracts describe it: qubit count and one "measured" flag per qubit */
int g_sim_qubits; _Bool g_sim_measured[NQMAX];
/* ghost positions in the free list (g_f, g_f2), a ghost qubit index (g_q) and a ghost live handle (g_live) */
size_t g_f, g_f2; int g_q, g_live;
#ifdef NATIVE
void qbk_sim_reset(int q) { if (q < 0 || q >= g_sim_qubits) { bl_throw(BL_Runtime, 0, 0); return; } g_sim_measured[q] = 0; }
int qbk_sim_allocateQubit(void) { g_sim_measured[g_sim_qubits] = 0; return g_sim_qubits++; }
#else
void qbk_sim_reset(int q)
__CPROVER_requires(bl_exc == 0 && g_sim_qubits >= 0 && g_sim_qubits <= NQMAX)
__CPROVER_assigns(__CPROVER_object_whole(g_sim_measured), bl_exc, bl_exc_line, bl_exc_col)
__CPROVER_ensures(bl_exc == ((q < 0 || q >= g_sim_qubits) ? EXC_RT : 0))
__CPROVER_ensures((bl_exc == 0) ==> !g_sim_measured[q])
__CPROVER_ensures((g_q >= 0 && g_q < NQMAX && (bl_exc != 0 || g_q != q)) ==> g_sim_measured[g_q] == __CPROVER_old(g_sim_measured[g_q >= 0 && g_q < NQMAX ? g_q : 0]))
;
int qbk_sim_allocateQubit(void)
__CPROVER_requires(g_sim_qubits >= 0 && g_sim_qubits < NQMAX)
__CPROVER_assigns(__CPROVER_object_whole(g_sim_measured), g_sim_qubits)
__CPROVER_ensures(__CPROVER_return_value == __CPROVER_old(g_sim_qubits) && g_sim_qubits == __CPROVER_old(g_sim_qubits) + 1)
__CPROVER_ensures(!g_sim_measured[__CPROVER_return_value])
__CPROVER_ensures((g_q >= 0 && g_q < __CPROVER_old(g_sim_qubits)) ==> g_sim_measured[g_q] == __CPROVER_old(g_sim_measured[g_q >= 0 && g_q < NQMAX ? g_q : 0]))
;
#endif
'''


def R(t):
    return ('', 'requires', t, [])


def E(label, t, props, **o):
    return (label, 'ensures', t, props, o)


def A(t):
    return ('', 'assigns', t, [])


# WF_QBK (DESIGN.md §2.4): the three tables have one entry per simulator qubit; the free list holds
# in-range, pairwise distinct indices (stated at two ghost positions and at the back, which is what pop reads)
WF = [
    '__CPROVER_is_fresh(self, sizeof(*self))',
    'QS.cap == NQMAX && FL.cap == 2 * NQMAX && LM.cap == NQMAX',
    '__CPROVER_is_fresh(QS.data, NQMAX * sizeof(QubitInfo))',
    '__CPROVER_is_fresh(FL.data, 2 * NQMAX * sizeof(int))',
    '__CPROVER_is_fresh(LM.data, NQMAX * sizeof(int))',
    'g_sim_qubits >= 0 && g_sim_qubits <= NQMAX && QS.size == (size_t)g_sim_qubits && LM.size == QS.size && FL.size <= NQMAX',
    '(g_f < FL.size) ==> INR(FL.data[g_f])',
    '(g_f < FL.size && g_f2 < FL.size && g_f != g_f2) ==> FL.data[g_f] != FL.data[g_f2]',
    '(FL.size > 0) ==> INR(FL.data[FL.size - 1])',
    '(FL.size > 0 && g_f < FL.size - 1) ==> FL.data[g_f] != FL.data[FL.size - 1]',
    'bl_exc == 0',
]
# helpers that never look at the free list only need the table part
WF_T = [w for w in WF if 'FL.data[' not in w]
WF_SIZES = 'QS.size == (size_t)g_sim_qubits && LM.size == QS.size && QS.size <= NQMAX'
EXC = 'bl_exc, bl_exc_line, bl_exc_col'
TABLES = '__CPROVER_object_whole(QS.data), __CPROVER_object_whole(LM.data)'
RET = '__CPROVER_return_value'
OLD_FREE = '__CPROVER_old(FL.size)'

CONTRACTS = {
    'markMeasured': {'contract': [R(t) for t in WF_T] + [
        A('__CPROVER_object_whole(QS.data)'),
        E('markMeasured.sets_flag_of_that_qubit_only', 'INR(index) ==> QS.data[index].measured', ['C06']),
        E('markMeasured.other_entries_kept', '(INR(g_q) && g_q != index) ==> (QS.data[g_q].measured == __CPROVER_old(QS.data[INR(g_q) ? g_q : 0].measured))', ['C06']),
    ]},
    'unmarkMeasured': {'contract': [R(t) for t in WF_T] + [
        A(TABLES),
        E('unmarkMeasured.clears_flag_and_last_outcome', 'INR(index) ==> (!QS.data[index].measured && LM.data[index] == -1)', ['C06', 'C17']),
        E('unmarkMeasured.other_entries_kept', '(INR(g_q) && g_q != index) ==> (QS.data[g_q].measured == __CPROVER_old(QS.data[INR(g_q) ? g_q : 0].measured) && LM.data[g_q] == __CPROVER_old(LM.data[INR(g_q) ? g_q : 0]))', ['C06']),
    ]},
    'ensureQubitExists': {'contract': [R(t) for t in WF_T] + [
        A(EXC),
        E('ensureQubitExists.located_error_iff_out_of_range', 'INR(index) ? bl_exc == 0 : (bl_exc == EXC_RT && bl_exc_line == line && bl_exc_col == column)', ['C06', 'C12']),
    ]},
    'ensureQubitActive': {'contract': [R(t) for t in WF_T] + [
        A(EXC),
        E('ensureQubitActive.located_error_iff_out_of_range_or_measured',
          '(INR(index) && !QS.data[index].measured) ? bl_exc == 0 : (bl_exc == EXC_RT && bl_exc_line == line && bl_exc_col == column)', ['C06', 'C12']),
    ]},
    # written from the property (C03): whatever is released, the free list never lists an index twice,
    # so two later declarations can never be handed the same simulator qubit.  No precondition on membership.
    'releaseQubit': {'contract': [R(t) for t in WF] + [
        R('g_fk == g_f && g_fk2 == g_f2'),     # instantiate the library model of std::find at the two ghost positions
        A(TABLES + ', __CPROVER_object_whole(FL.data), FL.size'),
        E('releaseQubit.free_list_stays_duplicate_free', '(g_f < FL.size && g_f2 < FL.size && g_f != g_f2) ==> FL.data[g_f] != FL.data[g_f2]', ['C03']),
        E('releaseQubit.free_list_stays_in_range', '(g_f < FL.size) ==> INR(FL.data[g_f])', ['C03']),
        E('releaseQubit.grows_by_at_most_one', 'FL.size == __CPROVER_old(FL.size) || (INR(index) && FL.size == __CPROVER_old(FL.size) + 1 && FL.data[FL.size - 1] == index)', ['C03']),
        E('releaseQubit.out_of_range_is_ignored', '!INR(index) ==> FL.size == __CPROVER_old(FL.size)', ['C03', 'C12']),
        E('releaseQubit.clears_flag_and_last_outcome', '(INR(index) && FL.size == __CPROVER_old(FL.size) + 1) ==> (!QS.data[index].measured && LM.data[index] == -1)', ['C06']),
        E('releaseQubit.tables_keep_their_size', WF_SIZES, ['C03']),
    ]},
    'allocateTrackedQubit': {'contract': [R(t) for t in WF] + [
        R('(FL.size == 0) ==> g_sim_qubits < NQMAX'),
        # an arbitrary handle that is live on entry: in range and not on the free list (instances: ghost position and back)
        R('INR(g_live) && ((g_f < FL.size) ==> FL.data[g_f] != g_live) && ((FL.size > 0) ==> FL.data[FL.size - 1] != g_live)'),
        A(TABLES + ', QS.size, LM.size, FL.size, g_sim_qubits, __CPROVER_object_whole(g_sim_measured), ' + EXC),
        E('allocateTrackedQubit.never_raises', 'bl_exc == 0', ['C03', 'C12']),
        E('allocateTrackedQubit.recycles_or_grows', '(%s > 0) ? (%s == __CPROVER_old(FL.data[FL.size > 0 ? FL.size - 1 : 0]) && FL.size == %s - 1 && g_sim_qubits == __CPROVER_old(g_sim_qubits)) : (%s == __CPROVER_old(g_sim_qubits) && g_sim_qubits == __CPROVER_old(g_sim_qubits) + 1 && FL.size == 0)' % (OLD_FREE, RET, OLD_FREE, RET), ['C03']),
        E('allocateTrackedQubit.handle_in_range', 'INR(%s)' % RET, ['C03', 'C12']),
        E('allocateTrackedQubit.handle_differs_from_every_live_handle', '%s != g_live' % RET, ['C03']),
        E('allocateTrackedQubit.handle_no_longer_free', '(g_f < FL.size) ==> FL.data[g_f] != %s' % RET, ['C03']),
        E('allocateTrackedQubit.handle_is_usable', '!QS.data[%s].measured && LM.data[%s] == -1 && !g_sim_measured[%s]' % (RET, RET, RET), ['C06', 'C03']),
        E('allocateTrackedQubit.tables_track_simulator', WF_SIZES, ['C03']),
        E('allocateTrackedQubit.free_list_stays_duplicate_free', '(g_f < FL.size && g_f2 < FL.size && g_f != g_f2) ==> FL.data[g_f] != FL.data[g_f2]', ['C03']),
    ]},
}

HARNESSES = [
    dict(name='markMeasured', fn='markMeasured', replace=[], flags=[], props=['C06', 'C12'], timeout=120),
    dict(name='unmarkMeasured', fn='unmarkMeasured', replace=[], flags=[], props=['C06', 'C17', 'C12'], timeout=120),
    dict(name='ensureQubitExists', fn='ensureQubitExists', replace=[], flags=[], props=['C06', 'C12'], timeout=120),
    dict(name='ensureQubitActive', fn='ensureQubitActive', replace=['ensureQubitExists'], flags=[], props=['C06', 'C12'], timeout=120),
    dict(name='releaseQubit', fn='releaseQubit', replace=['unmarkMeasured'], flags=[], props=['C03', 'C06', 'C12'], timeout=300),
    dict(name='allocateTrackedQubit', fn='allocateTrackedQubit', replace=['unmarkMeasured', 'qbk_sim_reset', 'qbk_sim_allocateQubit'], flags=[], props=['C03', 'C06', 'C12'], timeout=300,
         canaries=[('bl_exc == 0', 'normal return')]),
]
ALWAYS_REPLACE = ['vec_int_contains']
for _h in HARNESSES:
    _h.setdefault('bounded_defs', ['NQMAX=3'])
    _h.setdefault('unwind', 5)
    _h.setdefault('bounded_replace', [r for r in _h.get('replace', []) if r.startswith('qbk_sim_')])


# =========================================================================== native side
from tools import native as _nat


def _build_oracle(wd):
    b = os.path.join(wd, 'qbk_oracle')
    if not os.path.exists(b):
        bd = _nat.repo_build(('bloch_runtime', 'bloch_compiler'))
        _nat.build_cxx([os.path.join(_nat.ROOT, 'native', 'qbk_oracle.cpp')], b, objs=[os.path.join(bd, 'src', 'libbloch_runtime.a'), os.path.join(bd, 'src', 'libbloch_compiler.a'), '-lpthread'])
    return b


def native_validate(pu, work, tier, seed):
    """no bit-exact co-execution for this unit (the lowered functions act on a cut-down evaluator struct);
    the oracle drives the real RuntimeEvaluator through random allocate / release / measure histories"""
    try:
        ob = _build_oracle(pu['wd'])
        rc, out, dt = _nat.run([ob, 'sweep', str(seed), '40' if tier == 'quick' else '400'])
        js = _nat.last_json(out)
        return dict(unit='QBK', kind='oracle on the real RuntimeEvaluator (random allocate/release/measure histories); no co-execution of the lowered text for this unit', status='agree',
                    oracle_sweep=dict(checks=js.get('oracle_checks'), failures=js.get('oracle_failures'), failing_labels=sorted(set(re.findall(r'FAIL label=(\S+)', out)))), wall_s=round(dt, 1))
    except _nat.Break as e:
        return dict(unit='QBK', status='error', detail=str(e))


def replay_counterexample(pu, h, label, failure, work, tier, seed):
    ob = _build_oracle(pu['wd'])
    tried = []
    for s in (seed, seed + 1, seed + 2):
        cmd = [ob, 'sweep', str(s), '60']
        rc, out, dt = _nat.run(cmd)
        tried.append(' '.join(cmd[1:]))
        fails = [l for l in out.split('\n') if l.startswith('FAIL ')]
        same = [l for l in fails if label and ('label=' + label + ' ') in l]
        pick = same or [l for l in fails if ('label=' + h['fn'] + '.') in l]
        if pick:
            m = re.search(r'label=(\S+)', pick[0])
            return dict(failing_input_found=True, failing_input=pick[0], native_failures=fails[:5], oracle_label=m.group(1), signature='fn=' + h['fn'],
                        reproduce_args=cmd[1:], reproduce='bin/check <property> --replay <this file>', replay_inputs_tried=tried, matched_same_obligation=bool(same))
    return dict(failing_input_found=False, replay_inputs_tried=tried, signature='fn=' + h['fn'])


def run_reproduce(rec, work):
    wd = os.path.join(work, 'replay')
    os.makedirs(wd, exist_ok=True)
    ob = _build_oracle(wd)
    rc, out, dt = _nat.run([ob] + rec['reproduce_args'])
    print(out)
    return 1 if rc else 0
