"""Unit SEMK — compiler/semantics/semantic_analyser.cpp: the type-compatibility kernel of the
analyser (matchesPrimitive, numericPromotion, isAccessible, isAssignableType, conversionCost and
the accept/reject decision of validateTypedInitializer) — C16 kernel, C08 (analyser cost side)."""
import re, os
from tools import cxx2c
from tools.cxx2c import Lower, Unsupported, kids, qt, qt_sugar, strip, strip_parens, callee_name, norm_type, walk

NAME = 'SEMK'
SRC = '/repo/src/bloch/compiler/semantics/semantic_analyser.cpp'
NAMESPACE = 'bloch::compiler'
FUNCS = ['isArrayTypeName', 'isArrayType', 'isClassRefType', 'isAccessible', 'isAssignableType', 'conversionCost']
LAMBDAS = ['matchesPrimitive', 'numericPromotion']
AST_FILTER = ['isArrayTypeName', 'isArrayType', 'isClassRefType', 'SemanticAnalyser::isAccessible', 'SemanticAnalyser::isAssignableType', 'SemanticAnalyser::conversionCost',
              'matchesPrimitive', 'numericPromotion', 'SemanticAnalyser::validateTypedInitializer', 'ValueType', 'Visibility']
SHIM = 'semk.h'
THROWING = {'validateTypedInitializer_decision'}
DROPS = ['class / array type names: interned identities; their text only through two uninterpreted functions (size, position of the last "[]")',
         'TypeInfo::typeArgs: only its element count; typeEquals, isSubclassOf, inheritanceDistance, getTypeParamBound: contract-only stubs (uninterpreted class hierarchy)',
         'diagnostic message text; the AST-dependent refinements of the error message in validateTypedInitializer (dynamic_cast on the initialiser) are evaluated as arbitrary booleans',
         'region validateTypedInitializer_decision: the statements from `if (auto primType = targetInfo.value; ...)` to the end of the function; targetInfo / initInfo become parameters']
ASSUMPTIONS = ['the class hierarchy is an arbitrary relation (isSubclassOf / inheritanceDistance uninterpreted, consistent with each other only as far as their stub contracts say)',
               'generic type-parameter paths (isTypeParam, getTypeParamBound) are excluded by precondition']


class Profile(Lower):
    CLS = 'semk'
    SELF_T = ''
    IS_METHOD = False
    WRAP_DOUBLE_OPS = False
    TYPE_MAP = [
        (r'^(bloch::compiler::)?ValueType$', 'int'),
        (r'^(bloch::compiler::)?Visibility$', 'int'),
        (r'^(bloch::compiler::)?(SemanticAnalyser::)?TypeInfo$', 'TypeInfo'),
        (r'^(std::)?(basic_string<char.*>|string)$', 'bl_cname'),
        (r'^std::optional<int>$', 'opt_int'),
        (r'^std::optional<(bloch::compiler::)?(SemanticAnalyser::)?TypeInfo>$', 'opt_TypeInfo'),
        (r'^std::vector<(bloch::compiler::)?(SemanticAnalyser::)?TypeInfo>$', 'size_t'),
        (r'^(const )?std::nullopt_t$', 'bl_nullopt'),
    ]

    def prepare(self, docs, workdir):
        self.enums = {}
        for en in ('ValueType', 'Visibility'):
            es = [d for d in docs if d.get('kind') == 'EnumDecl' and d.get('name') == en]
            if not es:
                raise Unsupported('enum %s not found' % en)
            self.enums[en] = [c['name'] for c in kids(es[0]) if c.get('kind') == 'EnumConstantDecl']
        self.ctx = None

    def file_prelude(self):
        return ['enum { %s };' % ', '.join('BL_' + e for e in self.enums['ValueType']),
                'enum { %s };' % ', '.join('BL_' + e for e in self.enums['Visibility']),
                'typedef struct { int value; bl_cname className; size_t typeArgs; _Bool isTypeParam; } TypeInfo;',
                'typedef struct { _Bool has; int v; } opt_int;',
                'typedef struct { _Bool has; TypeInfo v; } opt_TypeInfo;']

    def string_literal(self, n):
        raise Unsupported('string literal in a name context: ' + n.get('value', ''))

    def construct(self, n):
        ct = self.ctype(qt(n))
        args = [a for a in kids(n) if a.get('kind') != 'CXXDefaultArgExpr']
        if ct == 'opt_int' and len(args) == 1:
            if self.ct(args[0]) == 'int':
                return '(opt_int){ 1, %s }' % self.expr(args[0])
            if self.ct(args[0]) == 'bl_nullopt':
                return '(opt_int){ 0, 0 }'
            if self.ct(args[0]) == 'opt_int':
                return self.expr(args[0])
        if ct == 'TypeInfo' and len(args) == 1 and self.ct(args[0]) == 'TypeInfo':
            return self.expr(args[0])
        if ct == 'opt_TypeInfo' and len(args) == 1 and self.ct(args[0]) == 'opt_TypeInfo':
            return self.expr(args[0])
        raise Unsupported('ctor %s/%d' % (ct, len(args)))

    def cast(self, n):
        if n.get('kind') == 'CXXFunctionalCastExpr' and self.ct(n) == 'opt_int':
            return self.expr(kids(n)[0])
        return super().cast(n)

    def declref(self, n):
        if n['referencedDecl']['name'] == 'nullopt':
            return 'BL_NULLOPT'
        return super().declref(n)

    def opcall(self, n):
        ks = kids(n)
        op = callee_name(ks[0])
        args = ks[1:]
        t0 = self.ct(args[0])
        if op in ('operator==', 'operator!='):
            for a in args:
                s = strip_parens(a)
                if s.get('kind') == 'MemberExpr' and strip_parens(kids(s)[0]).get('kind') == 'DeclRefExpr' and strip_parens(kids(s)[0])['referencedDecl']['name'] in getattr(self, 'astvars', set()):
                    return 'semk_stub_ast_shape()'      # a property of the initialiser's AST node: only selects the message
        if op in ('operator==', 'operator!=') and t0 == 'bl_cname':
            return '(%s %s %s)' % (self.expr(args[0]), op[len('operator'):], self.expr(args[1]))
        if op == 'operator*' and len(args) == 1 and t0 in ('opt_int', 'opt_TypeInfo'):
            return '(%s).v' % self.expr(args[0])
        if op == 'operator->' and t0 == 'opt_TypeInfo':
            return '(%s).v' % self.expr(args[0])
        if op == 'operator()' and strip_parens(args[0]).get('kind') == 'DeclRefExpr' and strip_parens(args[0])['referencedDecl']['name'] in LAMBDAS:
            return 'semk_%s(%s)' % (strip_parens(args[0])['referencedDecl']['name'], ', '.join(self.expr(a) for a in args[1:]))
        if op == 'operator+' and self.ct(n) == 'bl_cname':
            return '0 /* message text dropped */'
        raise Unsupported('operator %s on %s' % (op, qt(args[0])))

    def member(self, n):
        base = kids(n)[0]
        sb = strip(base)
        if sb.get('kind') == 'CXXOperatorCallExpr' and callee_name(kids(sb)[0]) == 'operator->':
            return '(%s).%s' % (self.expr(sb), n['name'])
        return super().member(n)

    def membercall_other(self, n, name, obj, args):
        t = self.ct(obj)
        o = self.expr(obj)
        if name == 'operator bool' and t in ('opt_int', 'opt_TypeInfo'):
            return '(%s).has' % o
        if t == 'bl_cname':
            if name == 'empty':
                return '(%s == 0)' % o
            if name == 'size':
                return 'bl_name_size(%s)' % o
            if name == 'rfind' and len([a for a in args if a.get('kind') != 'CXXDefaultArgExpr']) == 1:
                lit = strip_parens(args[0])
                while lit.get('kind') in ('ImplicitCastExpr',) and kids(lit):
                    lit = strip_parens(kids(lit)[0])
                if lit.get('kind') == 'StringLiteral' and lit['value'] == '"[]"':
                    return 'bl_name_rfind_brackets(%s)' % o
        if t == 'size_t' and 'vector' in qt(obj):
            if name == 'empty':
                return '(%s == 0)' % o
            if name == 'size':
                return o
        raise Unsupported('member call %s on %s' % (name, qt(obj)))

    def membercall(self, n):
        ks = kids(n)
        me = strip(ks[0])
        if strip(kids(me)[0]).get('kind') == 'CXXThisExpr':
            return self.call_named(n, me['name'], ks[1:])
        return super().membercall(n)

    STUBFN = {'typeEquals', 'isSubclassOf', 'inheritanceDistance', 'getTypeParamBound', 'typeLabel', 'typeToString'}

    def call_named(self, n, name, args):
        if name in self.STUBFN:
            if name in ('typeLabel', 'typeToString'):
                return '0 /* message text dropped */'
            return 'semk_stub_%s(%s)' % (name, ', '.join(self.expr(a) for a in args))
        return super().call_named(n, name, args)

    def if_with_var(self, n, ind):
        # if (auto v = init; cond) ...  /  if (auto x = dynamic_cast<T*>(e)) ...
        p = '  ' * ind
        ks = kids(n)
        out = [p + '{']
        i = 0
        if n.get('hasInit'):
            out += self.stmt(ks[0], ind + 1)
            i = 1
        if n.get('hasVar') and self.ctype_safe(qt(kids(ks[i])[0])) in ('opt_TypeInfo', 'opt_int'):
            # if (auto x = <optional>) ...
            v = kids(ks[i])[0]
            out += self.stmt(ks[i], ind + 1)
            cond = '(%s).has' % v['name']
            rest = ks[i + 2:]
        elif n.get('hasVar'):
            v = kids(ks[i])[0]
            dc = []
            walk(v, lambda z: dc.append(z) if z.get('kind') == 'CXXDynamicCastExpr' else None)
            if not dc:
                raise Unsupported('if with condition variable ' + v.get('name', ''))
            # what the initialiser node is does not matter for the decision, only for the message: an arbitrary boolean
            out.append(p + '  _Bool %s = semk_stub_ast_shape();' % v['name'])
            self.locals.add(v['name'])
            self.astvars = getattr(self, 'astvars', set()) | {v['name']}
            cond = v['name']
            rest = ks[i + 2:]
        else:
            cond = self.expr(ks[i])
            rest = ks[i + 1:]
        out.append(p + '  if (%s)' % cond)
        out += self.block(rest[0], ind + 1)
        if len(rest) > 1:
            out.append(p + '  else')
            out += self.block(rest[1], ind + 1)
        out.append(p + '}')
        return out

    def member_of_astvar(self, n):
        return None

    def expr_other(self, n):
        raise Unsupported('expr kind ' + str(n.get('kind')))


def lambda_function(prof, docs, name):
    vs = [d for d in docs if d.get('kind') == 'VarDecl' and d.get('name') == name]
    if len(vs) != 1:
        raise Unsupported('lambda %s: %d definitions' % (name, len(vs)))
    lam = []
    walk(vs[0], lambda z: lam.append(z) if z.get('kind') == 'LambdaExpr' else None)
    if len(lam) != 1:
        raise Unsupported('lambda %s shape' % name)
    rec = [k for k in kids(lam[0]) if k.get('kind') == 'CXXRecordDecl'][0]
    call = [m for m in kids(rec) if m.get('kind') == 'CXXMethodDecl' and m.get('name') == 'operator()'][0]
    body = [k for k in kids(lam[0]) if k.get('kind') == 'CompoundStmt'][-1]
    rets = []
    walk(body, lambda z: rets.append(z) if z.get('kind') == 'ReturnStmt' and kids(z) else None)
    rt = prof.ctype(qt(kids(rets[0])[0]))
    d = dict(kind='FunctionDecl', name=name, type=dict(qualType='%s ()' % ('bool' if rt == '_Bool' else 'int')), inner=[pd for pd in kids(call) if pd.get('kind') == 'ParmVarDecl'] + [body])
    return prof.func(d, cname=name, is_method=False)


def lower_regions(docs, prof):
    out = [lambda_function(prof, docs, nm) for nm in LAMBDAS]
    ds = cxx2c.find_functions(docs, 'validateTypedInitializer')
    if len(ds) != 1:
        raise Unsupported('validateTypedInitializer: %d definitions' % len(ds))
    body = [k for k in kids(ds[0]) if k.get('kind') == 'CompoundStmt'][0]
    stmts = kids(body)
    start = None
    for i, s in enumerate(stmts):
        if s.get('kind') == 'IfStmt' and s.get('hasInit'):
            v = kids(kids(s)[0])[0]
            if v.get('name') == 'primType':
                start = i
    if start is None:
        raise Unsupported('decision region (if (auto primType = ...)) not found in validateTypedInitializer')
    body2 = dict(body)
    body2['inner'] = stmts[start:]
    d = dict(kind='FunctionDecl', name='validateTypedInitializer_decision', type=dict(qualType='void ()'), inner=[body2])
    head, lines = prof.func(d, cname='validateTypedInitializer_decision', is_method=False)
    head = 'void semk_validateTypedInitializer_decision(TypeInfo targetInfo, TypeInfo initInfo, int line, int column, bl_cname name)'
    out.append((head, lines))
    return out


# =========================================================================== sidecar: the compatibility relation of the property (C16)
GHOSTS = r'''
#define EXC_SEM BL_EXC(BL_Semantic)
int bl_exc, bl_exc_line, bl_exc_col;
#define ISARRNAME(n) (bl_name_size(n) >= 2 && bl_name_rfind_brackets(n) == bl_name_size(n) - 2)
#define IS_PRIM(t) ((t).className == 0 && (t).value != BL_Unknown && (t).value != BL_Null)
#define IS_UNKNOWN(t) ((t).className == 0 && (t).value == BL_Unknown)       /* genuinely unknown: no tag, no class name - the only wildcard */
#define IS_NULL(t) ((t).value == BL_Null)
#define IS_CLASS(t) ((t).className != 0 && !ISARRNAME((t).className))
#define IS_ARRAY(t) ((t).className != 0 && ISARRNAME((t).className))
#ifdef NATIVE
_Bool semk_stub_typeEquals(TypeInfo a, TypeInfo b) { abort(); } _Bool semk_stub_isSubclassOf(bl_cname d, bl_cname b) { abort(); } int semk_stub_inheritanceDistance(bl_cname d, bl_cname b) { abort(); }
opt_TypeInfo semk_stub_getTypeParamBound(bl_cname n) { abort(); } _Bool semk_stub_ast_shape(void) { abort(); }
#else
_Bool __CPROVER_uninterpreted_subclass(bl_cname, bl_cname); int __CPROVER_uninterpreted_distance(bl_cname, bl_cname);
#define SUBCLASS(d, b) __CPROVER_uninterpreted_subclass(d, b)
#define DISTANCE(d, b) __CPROVER_uninterpreted_distance(d, b)
_Bool semk_stub_typeEquals(TypeInfo a, TypeInfo b)
__CPROVER_assigns()
__CPROVER_ensures(__CPROVER_return_value ==> (a.isTypeParam == b.isTypeParam && a.className == b.className && (a.isTypeParam || a.value == b.value)))
__CPROVER_ensures((!a.isTypeParam && !b.isTypeParam && a.value == b.value && a.className == b.className && a.typeArgs == 0 && b.typeArgs == 0) ==> __CPROVER_return_value)
;
_Bool semk_stub_isSubclassOf(bl_cname d, bl_cname b)
__CPROVER_assigns()
__CPROVER_ensures(__CPROVER_return_value == (d != 0 && b != 0 && SUBCLASS(d, b)))
;
int semk_stub_inheritanceDistance(bl_cname d, bl_cname b)
__CPROVER_assigns()
__CPROVER_ensures(__CPROVER_return_value == ((d == 0 || b == 0) ? -1 : (d == b) ? 0 : (SUBCLASS(d, b) ? DISTANCE(d, b) : -1)))
__CPROVER_ensures((d != 0 && b != 0 && d != b && SUBCLASS(d, b)) ==> __CPROVER_return_value >= 1)
;
opt_TypeInfo semk_stub_getTypeParamBound(bl_cname n)
__CPROVER_assigns()
__CPROVER_ensures(1)
;
_Bool semk_stub_ast_shape(void)
__CPROVER_assigns()
__CPROVER_ensures(1)
;
#endif
/* compatible(expected, actual) - written from the property (C16), not from the code:
   a value of known declared type is accepted only if it has that type, is an int widening to long, an
   instance of a subclass of the expected class, or null for a class reference; arrays need the same type. */
#define WF_TI(t) ((t).className == 0 || (t).value == BL_Unknown)
#define COMPAT_PRIM(e, a) (IS_PRIM(e) && (IS_UNKNOWN(a) || (IS_PRIM(a) && ((a).value == (e).value || ((e).value == BL_Long && (a).value == BL_Int)))))
'''
RET = '__CPROVER_return_value'


def R(t):
    return ('', 'requires', t, [])


def E(label, t, props, **o):
    return (label, 'ensures', t, props, o)


def A(t):
    return ('', 'assigns', t, [])


VT = 'a >= 0 && a <= BL_Unknown && b >= 0 && b <= BL_Unknown'
NOGEN = '!expected.isTypeParam && !actual.isTypeParam'
CONTRACTS = {
    'matchesPrimitive': {'contract': [
        R('expected >= 0 && expected <= BL_Unknown && actual >= 0 && actual <= BL_Unknown'), A(''),
        E('matchesPrimitive.equal_or_int_to_long_or_unknown', '%s == (expected == BL_Unknown || actual == BL_Unknown || expected == actual || (expected == BL_Long && actual == BL_Int))' % RET, ['C16']),
    ]},
    'numericPromotion': {'contract': [
        R(VT), A(''),
        E('numericPromotion.float_then_long_then_int_then_bit', '%s == ((a == BL_Float || b == BL_Float) ? BL_Float : (a == BL_Long || b == BL_Long) ? BL_Long : (a == BL_Int || b == BL_Int) ? BL_Int : (a == BL_Bit || b == BL_Bit) ? BL_Bit : BL_Unknown)' % RET, ['C16', 'C07']),
    ]},
    'isAccessible': {'contract': [
        A(''),
        E('isAccessible.public_always', '(visibility == BL_Public) ==> %s' % RET, ['C16']),
        E('isAccessible.private_only_owner', '(visibility == BL_Private) ==> (%s == (owner == accessor))' % RET, ['C16']),
        E('isAccessible.protected_owner_or_subclass', '(visibility == BL_Protected) ==> (%s == (accessor != 0 && (accessor == owner || (owner != 0 && SUBCLASS(accessor, owner)))))' % RET, ['C16']),
        E('isAccessible.unknown_visibility_denied', '(visibility != BL_Public && visibility != BL_Private && visibility != BL_Protected) ==> !%s' % RET, ['C16']),
    ]},
    'isArrayTypeName': {'contract': [A(''), E('isArrayTypeName.suffix_brackets', '%s == ISARRNAME(name)' % RET, [])]},
    'isArrayType': {'contract': [A(''), E('isArrayType.def', '%s == IS_ARRAY(t)' % RET, [])]},
    'isClassRefType': {'contract': [A(''), E('isClassRefType.def', '%s == IS_CLASS(t)' % RET, [])]},
    # accept => compatible, for the non-generic paths
    'isAssignableType': {'contract': [
        R(NOGEN + ' && expected.value >= 0 && expected.value <= BL_Unknown && actual.value >= 0 && actual.value <= BL_Unknown && WF_TI(expected) && WF_TI(actual)'), A(''),
        E('isAssignableType.null_only_for_class_references', 'IS_NULL(actual) ==> (%s == IS_CLASS(expected))' % RET, ['C16']),
        E('isAssignableType.primitive_expected', '(%s && !IS_NULL(actual) && IS_PRIM(expected)) ==> COMPAT_PRIM(expected, actual)' % RET, ['C16']),
        E('isAssignableType.array_expected_needs_same_array_type', '(%s && !IS_NULL(actual) && IS_ARRAY(expected)) ==> (IS_ARRAY(actual) && actual.className == expected.className)' % RET, ['C16']),
        E('isAssignableType.class_expected_needs_same_class_or_subclass', '(%s && !IS_NULL(actual) && IS_CLASS(expected) && !IS_UNKNOWN(actual)) ==> (actual.className != 0 && (actual.className == expected.className || SUBCLASS(actual.className, expected.className)))' % RET, ['C16', 'C08']),
    ]},
    'conversionCost': {'contract': [
        R(NOGEN + ' && expected.value >= 0 && expected.value <= BL_Unknown && actual.value >= 0 && actual.value <= BL_Unknown && WF_TI(expected) && WF_TI(actual)'), A(''),
        E('conversionCost.null_costs_3_for_class_references_only', 'IS_NULL(actual) ==> (IS_CLASS(expected) ? (%s.has && %s.v == 3) : !%s.has)' % (RET, RET, RET), ['C16', 'C08']),
        E('conversionCost.primitive_exact_0_widening_1', '(!IS_NULL(actual) && IS_PRIM(expected) && IS_PRIM(actual)) ==> ((actual.value == expected.value) ? (%s.has && %s.v == 0) : (expected.value == BL_Long && actual.value == BL_Int) ? (%s.has && %s.v == 1) : !%s.has)' % (RET, RET, RET, RET, RET), ['C16', 'C08']),
        E('conversionCost.class_into_primitive_is_no_conversion', '(!IS_NULL(actual) && IS_PRIM(expected) && actual.className != 0) ==> !%s.has' % RET, ['C16', 'C08']),
        E('conversionCost.class_cost_is_inheritance_distance', '(!IS_NULL(actual) && IS_CLASS(expected) && IS_CLASS(actual) && expected.typeArgs == 0 && actual.typeArgs == 0 && %s.has) ==> (actual.className == expected.className ? %s.v == 0 : (SUBCLASS(actual.className, expected.className) && %s.v >= 0))' % (RET, RET, RET), ['C08']),
        E('conversionCost.unrelated_class_is_no_conversion', '(!IS_NULL(actual) && IS_CLASS(expected) && IS_CLASS(actual) && expected.typeArgs == 0 && actual.typeArgs == 0 && actual.className != expected.className && !SUBCLASS(actual.className, expected.className)) ==> !%s.has' % RET, ['C16', 'C08']),
    ]},
    # the initialiser site (property level): returning normally means the initialiser was accepted
    'validateTypedInitializer_decision': {'contract': [
        R('bl_exc == 0 && !targetInfo.isTypeParam && !initInfo.isTypeParam && targetInfo.value >= 0 && targetInfo.value <= BL_Unknown && initInfo.value >= 0 && initInfo.value <= BL_Unknown'),
        # type invariant of TypeInfo: class and array types carry the Unknown tag; a declared type is never Null
        R('WF_TI(targetInfo) && WF_TI(initInfo) && targetInfo.value != BL_Null'),
        A('bl_exc, bl_exc_line, bl_exc_col'),
        E('validateTypedInitializer.only_semantic_errors_at_the_declaration', 'bl_exc == 0 || (bl_exc == EXC_SEM && bl_exc_line == line && bl_exc_col == column)', ['C16', 'C13']),
        E('validateTypedInitializer.primitive_slot_accepts_only_compatible', '(bl_exc == 0 && IS_PRIM(targetInfo) && !IS_NULL(initInfo)) ==> COMPAT_PRIM(targetInfo, initInfo)', ['C16']),
        E('validateTypedInitializer.null_only_for_class_references', '(bl_exc == 0 && IS_NULL(initInfo)) ==> (IS_CLASS(targetInfo) || IS_UNKNOWN(targetInfo))', ['C16']),
        E('validateTypedInitializer.class_slot_accepts_same_class_or_subclass', '(bl_exc == 0 && IS_CLASS(targetInfo) && targetInfo.value == BL_Unknown && targetInfo.typeArgs == 0 && !IS_NULL(initInfo) && !IS_UNKNOWN(initInfo) && initInfo.typeArgs == 0) ==> (initInfo.className != 0 && (initInfo.className == targetInfo.className || SUBCLASS(initInfo.className, targetInfo.className)))', ['C16', 'C08']),
        E('validateTypedInitializer.array_slot_accepts_same_array_type', '(bl_exc == 0 && IS_ARRAY(targetInfo) && targetInfo.value == BL_Unknown && !IS_UNKNOWN(initInfo)) ==> (IS_ARRAY(initInfo) && initInfo.className == targetInfo.className)', ['C16']),
        E('validateTypedInitializer.compatible_primitive_is_accepted', '(IS_PRIM(targetInfo) && IS_PRIM(initInfo) && (initInfo.value == targetInfo.value || (targetInfo.value == BL_Long && initInfo.value == BL_Int))) ==> bl_exc == 0', ['C16']),
    ]},
}
STUBS = ['semk_stub_typeEquals', 'semk_stub_isSubclassOf', 'semk_stub_inheritanceDistance', 'semk_stub_getTypeParamBound', 'semk_stub_ast_shape']
HARNESSES = [
    dict(name='matchesPrimitive', fn='matchesPrimitive', replace=[], flags=[], props=['C16'], timeout=60),
    dict(name='numericPromotion', fn='numericPromotion', replace=[], flags=[], props=['C16', 'C07'], timeout=60),
    dict(name='isAccessible', fn='isAccessible', replace=STUBS[1:2], flags=[], props=['C16'], timeout=60, bounded_replace=STUBS[1:2]),
    dict(name='isArrayTypeName', fn='isArrayTypeName', replace=[], flags=[], props=['C16'], timeout=60),
    dict(name='isArrayType', fn='isArrayType', replace=['isArrayTypeName'], flags=[], props=['C16'], timeout=60),
    dict(name='isClassRefType', fn='isClassRefType', replace=['isArrayTypeName'], flags=[], props=['C16'], timeout=60),
    dict(name='isAssignableType', fn='isAssignableType', replace=['isArrayType', 'isClassRefType', 'matchesPrimitive'] + STUBS[:4], flags=[], props=['C16', 'C08'], timeout=120, bounded_replace=STUBS[:4]),
    dict(name='conversionCost', fn='conversionCost', replace=['isArrayType', 'isClassRefType'] + STUBS[:4], flags=[], props=['C16', 'C08'], timeout=120, bounded_replace=STUBS[:4]),
    dict(name='validateTypedInitializer_decision', fn='validateTypedInitializer_decision', replace=['matchesPrimitive', 'isAssignableType'] + STUBS, flags=[], props=['C16', 'C13'], timeout=120, bounded_replace=STUBS,
         canaries=[('bl_exc == 0', 'accepted'), ('bl_exc != 0', 'rejected')]),
]


# =========================================================================== native side
from tools import native as _nat


def _oracle(seed=1):
    bd = _nat.repo_build(('bloch',))
    return _nat.run(['python3', os.path.join(_nat.ROOT, 'native', 'semk_oracle.py'), os.path.join(bd, 'bin', 'bloch'), 'sweep'], timeout=600)


def native_validate(pu, work, tier, seed):
    try:
        rc, out, dt = _oracle(seed)
        js = _nat.last_json(out)
        return dict(unit='SEMK', kind='oracle on the real analyser (accept / reject of small programs per the compatibility rule); no co-execution for this unit', status='agree',
                    oracle_sweep=dict(checks=js.get('oracle_checks'), failures=js.get('oracle_failures'), failing_labels=sorted(set(re.findall(r'FAIL label=(\S+)', out)))), wall_s=round(dt, 1))
    except _nat.Break as e:
        return dict(unit='SEMK', status='error', detail=str(e))


def replay_counterexample(pu, h, label, failure, work, tier, seed):
    rc, out, dt = _oracle(seed)
    fails = [l for l in out.split('\n') if l.startswith('FAIL ')]
    same = [l for l in fails if label and ('label=' + label + ' ') in l]
    fnp = h['fn'].replace('_decision', '')
    pick = same or [l for l in fails if ('label=' + fnp + '.') in l]
    if pick:
        m = re.search(r'label=(\S+)', pick[0])
        return dict(failing_input_found=True, failing_input=pick[0], native_failures=fails[:6], oracle_label=m.group(1), signature=re.sub(r' detail=.*', '', pick[0])[:160],
                    reproduce_args=['sweep'], reproduce='bin/check <property> --replay <this file>', replay_inputs_tried=['sweep'], matched_same_obligation=bool(same))
    return dict(failing_input_found=False, replay_inputs_tried=['sweep'], signature='')


def run_reproduce(rec, work):
    rc, out, dt = _oracle()
    print(out)
    return 1 if rc else 0
