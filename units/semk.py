"""Unit SEMK — compiler/semantics/semantic_analyser.cpp: the type-compatibility kernel of the
analyser (matchesPrimitive, numericPromotion, isAccessible, isAssignableType, conversionCost and
the accept/reject decision of validateTypedInitializer) — C16 kernel, C08 (analyser cost side)."""
import re, os
from tools import cxx2c
from tools.cxx2c import Lower, Unsupported, kids, qt, qt_sugar, strip, strip_parens, callee_name, norm_type, walk
from tools.cxx2c import REPO as _REPO

NAME = 'SEMK'
SRC = _REPO + '/src/bloch/compiler/semantics/semantic_analyser.cpp'
NAMESPACE = 'bloch::compiler'
FUNCS = ['isArrayTypeName', 'isArrayType', 'isClassRefType', 'isAccessible', 'isAssignableType', 'conversionCost', 'resolveField', 'recordFinalFieldAssignment']
LAMBDAS = ['matchesPrimitive', 'numericPromotion']
AST_FILTER = ['isArrayTypeName', 'isArrayType', 'isClassRefType', 'SemanticAnalyser::isAccessible', 'SemanticAnalyser::isAssignableType', 'SemanticAnalyser::conversionCost', 'SemanticAnalyser::resolveField', 'SemanticAnalyser::recordFinalFieldAssignment',
              'matchesPrimitive', 'numericPromotion', 'SemanticAnalyser::validateTypedInitializer', 'ValueType', 'Visibility', 'SemanticAnalyser::visit']
SHIM = 'semk.h'
SITES = ['ReturnStatement', 'AssignmentStatement', 'AssignmentExpression', 'MemberAssignmentExpression', 'PostfixExpression']
THROWING = {'validateTypedInitializer_decision', 'resolveField', 'recordFinalFieldAssignment', 'checkArgs'} | {'visit_' + x for x in SITES}
DROPS = ['class / array type names: interned identities; their text only through two uninterpreted functions (size, position of the last "[]")',
         'TypeInfo::typeArgs: only its element count; typeEquals, isSubclassOf, inheritanceDistance, getTypeParamBound: contract-only stubs (uninterpreted class hierarchy)',
         'diagnostic message text; the AST-dependent refinements of the error message in validateTypedInitializer (dynamic_cast on the initialiser) are evaluated as arbitrary booleans',
         'region validateTypedInitializer_decision: the statements from `if (auto primType = targetInfo.value; ...)` to the end of the function; targetInfo / initInfo become parameters']
ASSUMPTIONS = ['the class hierarchy is an arbitrary relation (isSubclassOf / inheritanceDistance uninterpreted, consistent with each other only as far as their stub contracts say)',
               'generic type-parameter paths (isTypeParam, getTypeParamBound) are excluded by precondition']


class Profile(Lower):
    CLS = 'semk'
    SELF_T = ''
    IS_METHOD = False
    WRAP_DOUBLE_OPS = False
    TYPE_MAP = [
        (r'^(bloch::compiler::)?ValueType$', 'int'),
        (r'^(bloch::compiler::)?Visibility$', 'int'),
        (r'^(bloch::compiler::)?(SemanticAnalyser::)?TypeInfo$', 'TypeInfo'),
        (r'^(std::)?(basic_string<char.*>|string)$', 'bl_cname'),
        (r'^std::optional<int>$', 'opt_int'),
        (r'^std::optional<(bloch::compiler::)?(SemanticAnalyser::)?TypeInfo>$', 'opt_TypeInfo'),
        (r'^std::vector<(bloch::compiler::)?(SemanticAnalyser::)?TypeInfo>$', 'size_t'),
        (r'^(const )?std::nullopt_t$', 'bl_nullopt'),
        (r'^(bloch::compiler::)?(ReturnStatement|AssignmentStatement|AssignmentExpression|MemberAssignmentExpression|PostfixExpression)$', 'bl_node'),
        (r'^std::unique_ptr<(bloch::compiler::)?Expression(, std::default_delete<.*>)?>$', 'bl_ast'),
        (r'^(bloch::compiler::)?(Expression|ASTNode) \*$', 'bl_ast'),
        (r'^(const )?(bloch::compiler::)?(SemanticAnalyser::)?FieldInfo \*$', 'FieldInfo *'),
        (r'^(const )?(bloch::compiler::)?(SemanticAnalyser::)?FieldInfo$', 'FieldInfo'),
        (r'^(const )?(bloch::compiler::)?(SemanticAnalyser::)?ClassInfo \*$', 'bl_clsinfo'),
        (r'^(bloch::compiler::)?SemanticAnalyser$', 'bl_self'),
    ]

    def prepare(self, docs, workdir):
        self.enums = {}
        for en in ('ValueType', 'Visibility'):
            es = [d for d in docs if d.get('kind') == 'EnumDecl' and d.get('name') == en]
            if not es:
                raise Unsupported('enum %s not found' % en)
            self.enums[en] = [c['name'] for c in kids(es[0]) if c.get('kind') == 'EnumConstantDecl']
        self.ctx = None

    def file_prelude(self):
        return ['enum { %s };' % ', '.join('BL_' + e for e in self.enums['ValueType']),
                'enum { %s };' % ', '.join('BL_' + e for e in self.enums['Visibility']),
                'typedef struct { int value; bl_cname className; size_t typeArgs; _Bool isTypeParam; } TypeInfo;',
                'typedef struct { _Bool has; int v; } opt_int;',
                'typedef struct { _Bool has; TypeInfo v; } opt_TypeInfo;',
                'typedef int bl_ast; typedef int bl_clsinfo;',
                'typedef struct { bl_ast value; bl_ast object; bl_ast left; bl_cname name; bl_cname member; bl_cname op; int line; int column; } bl_node;',
                'typedef struct { int visibility; _Bool isStatic; _Bool isFinal; _Bool hasInitializer; TypeInfo type; bl_cname owner; int line; int column; } FieldInfo;']

    def string_literal(self, n):
        raise Unsupported('string literal in a name context: ' + n.get('value', ''))

    def construct(self, n):
        ct = self.ctype(qt(n))
        args = [a for a in kids(n) if a.get('kind') != 'CXXDefaultArgExpr']
        if ct == 'opt_int' and len(args) == 1:
            if self.ct(args[0]) == 'int':
                return '(opt_int){ 1, %s }' % self.expr(args[0])
            if self.ct(args[0]) == 'bl_nullopt':
                return '(opt_int){ 0, 0 }'
            if self.ct(args[0]) == 'opt_int':
                return self.expr(args[0])
        if ct == 'TypeInfo' and len(args) == 1 and self.ct(args[0]) == 'TypeInfo':
            return self.expr(args[0])
        if ct == 'opt_TypeInfo' and len(args) == 1 and self.ct(args[0]) == 'opt_TypeInfo':
            return self.expr(args[0])
        raise Unsupported('ctor %s/%d' % (ct, len(args)))

    def cast(self, n):
        if n.get('kind') == 'CXXFunctionalCastExpr' and self.ct(n) == 'opt_int':
            return self.expr(kids(n)[0])
        return super().cast(n)

    def cast_other(self, n, ck, inner):
        if ck == 'PointerToBoolean' and self.ct(inner) in ('FieldInfo *', 'bl_clsinfo', 'bl_ast'):
            return '(%s != 0)' % self.expr(inner)
        return super().cast_other(n, ck, inner)

    REF_LOCALS_AS_COPIES = False

    def decl(self, v):
        t = qt(v)
        if getattr(self, 'in_checkargs', False) and t.rstrip().endswith('&') and 'unique_ptr' in t:
            init = [i for i in kids(v) if 'kind' in i]
            e = self.expr(init[0])
            if e.startswith('BL_ARGREF('):
                self.locals.add(v['name'])
                self.argrefs = getattr(self, 'argrefs', {})
                self.argrefs[v['name']] = e
                return '/* %s refers to argument %s */;' % (v['name'], e)
        if norm_type(t) == 'int' and t.rstrip().endswith('&') and not t.strip().startswith('const'):
            # int& x = <lvalue>;  ->  int *x = &(<lvalue>);  uses of x become (*x)
            init = [i for i in kids(v) if 'kind' in i]
            self.locals.add(v['name'])
            self.ref_locals = getattr(self, 'ref_locals', set()) | {v['name']}
            return 'int *%s = &(%s);' % (v['name'], self.expr(init[0]))
        return super().decl(v)

    def declref(self, n):
        if n['referencedDecl']['name'] == 'nullopt':
            return 'BL_NULLOPT'
        if n['referencedDecl']['name'] in getattr(self, 'argrefs', {}) and getattr(self, 'in_checkargs', False):
            return self.argrefs[n['referencedDecl']['name']]
        if n['referencedDecl']['name'] in getattr(self, 'ref_locals', set()):
            return '(*%s)' % n['referencedDecl']['name']
        if n['referencedDecl']['name'] in getattr(self, 'dropped_strings', set()):
            raise Unsupported('built string %s used outside a diagnostic message' % n['referencedDecl']['name'])
        return super().declref(n)

    def name_concat_leaves(self, n):
        n = strip_parens(n)
        while n.get('kind') in ('ImplicitCastExpr', 'MaterializeTemporaryExpr', 'CXXBindTemporaryExpr', 'ExprWithCleanups') and kids(n):
            n = strip_parens(kids(n)[0])
        if n.get('kind') == 'CXXOperatorCallExpr' and callee_name(kids(n)[0]) == 'operator+':
            return self.name_concat_leaves(kids(n)[1]) + self.name_concat_leaves(kids(n)[2])
        return [n]

    def opcall(self, n):
        ks = kids(n)
        op = callee_name(ks[0])
        args = ks[1:]
        t0 = self.ct(args[0])
        if op in ('operator==', 'operator!='):
            for a in args:
                s = strip_parens(a)
                if s.get('kind') == 'MemberExpr' and strip_parens(kids(s)[0]).get('kind') == 'DeclRefExpr' and strip_parens(kids(s)[0])['referencedDecl']['name'] in getattr(self, 'astvars', set()):
                    return 'semk_stub_ast_shape()'      # a property of the initialiser's AST node: only selects the message
        if op in ('operator==', 'operator!=') and t0 == 'bl_cname':
            return '(%s %s %s)' % (self.expr(args[0]), op[len('operator'):], self.expr(args[1]))
        if op == 'operator*' and len(args) == 1 and t0 in ('opt_int', 'opt_TypeInfo'):
            return '(%s).v' % self.expr(args[0])
        if op == 'operator->' and t0 == 'opt_TypeInfo':
            return '(%s).v' % self.expr(args[0])
        if op == 'operator[]' and getattr(self, 'in_checkargs', False):
            b = strip_parens(args[0])
            while b.get('kind') in ('ImplicitCastExpr',) and kids(b):
                b = strip_parens(kids(b)[0])
            if b.get('kind') == 'DeclRefExpr' and b['referencedDecl']['name'] in ('params', 'actualTypes'):
                return '%s[BL_IDX(%s, PMAXA)]' % ({'params': 'g_params', 'actualTypes': 'g_actuals'}[b['referencedDecl']['name']], self.expr(args[1]))
            if b.get('kind') == 'MemberExpr' and b.get('name') == 'arguments':
                return 'BL_ARGREF(%s)' % self.expr(args[1])
        if op == 'operator->' and getattr(self, 'in_checkargs', False) and self.expr(args[0]).startswith('BL_ARGREF('):
            return self.expr(args[0])
        if op == 'operator[]' and 'unordered_map<std::basic_string<char>, int' in norm_type(qt(args[0])) and self.ct(args[1]) == 'bl_cname':
            return '(*semk_count_slot(%s))' % self.expr(args[1])
        if op == 'operator=' and t0 == 'TypeInfo':
            return '(%s = %s)' % (self.expr(args[0]), self.expr(args[1]))
        if op == 'operator->' and t0 == 'bl_ast':
            return self.expr(args[0])
        if op == 'operator()' and strip_parens(args[0]).get('kind') == 'DeclRefExpr' and strip_parens(args[0])['referencedDecl']['name'] in LAMBDAS:
            return 'semk_%s(%s)' % (strip_parens(args[0])['referencedDecl']['name'], ', '.join(self.expr(a) for a in args[1:]))
        if op == 'operator+' and self.ct(n) == 'bl_cname':
            lv = self.name_concat_leaves(n)
            if len(lv) == 3 and lv[1].get('kind') == 'StringLiteral' and lv[1].get('value') == '"::"' and self.ct(lv[0]) == 'bl_cname' and self.ct(lv[2]) == 'bl_cname':
                return 'bl_key2(%s, %s)' % (self.expr(lv[0]), self.expr(lv[2]))       # owner + "::" + field : a pair key
            raise Unsupported('string concatenation outside a diagnostic message')
        raise Unsupported('operator %s on %s' % (op, qt(args[0])))

    def member(self, n):
        base = kids(n)[0]
        sb = strip(base)
        if getattr(self, 'in_checkargs', False) and n['name'] in ('line', 'column') and sb.get('kind') == 'CXXOperatorCallExpr' and callee_name(kids(sb)[0]) == 'operator->':
            inner = self.expr(sb)
            if inner.startswith('BL_ARGREF('):
                return 'g_arg_%s[BL_IDX(%s, PMAXA)]' % (n['name'], inner[len('BL_ARGREF('):-1])
        if sb.get('kind') == 'DeclRefExpr' and sb['referencedDecl']['name'] in getattr(self, 'varexpr_src', {}):
            srcx = self.varexpr_src[sb['referencedDecl']['name']]
            if n['name'] == 'name':
                return 'AST_VARNAME(%s)' % srcx
            if n['name'] in ('line', 'column'):
                return 'AST_%s(%s)' % (n['name'].upper(), srcx)
        if getattr(self, 'in_checkargs', False) and n['name'] == 'arguments':
            return 'BL_ARGUMENTS'
        if sb.get('kind') == 'CXXThisExpr':
            return 'sa_' + n['name']          # analyser state: file-level variables (arbitrary on entry)
        if self.ct(base) == 'bl_clsinfo':
            raise Unsupported('member %s of ClassInfo' % n['name'])
        if sb.get('kind') == 'CXXOperatorCallExpr' and callee_name(kids(sb)[0]) == 'operator->':
            return '(%s).%s' % (self.expr(sb), n['name'])
        return super().member(n)

    def membercall_other(self, n, name, obj, args):
        t = self.ct(obj)
        o = self.expr(obj)
        if name == 'operator bool' and t in ('opt_int', 'opt_TypeInfo'):
            return '(%s).has' % o
        if t == 'bl_ast' and name == 'get':
            return o
        if t == 'bl_ast' and name == 'operator bool':
            return '(%s != 0)' % o
        if t == 'bl_ast' and name == 'accept':
            self.needs_prop = True
            return 'semk_stub_accept(%s)' % o       # nested analysis of the sub-expression: contract-only stub (may raise)
        if t == 'bl_cname':
            if name == 'empty':
                return '(%s == 0)' % o
            if name == 'size':
                return 'bl_name_size(%s)' % o
            if name == 'rfind' and len([a for a in args if a.get('kind') != 'CXXDefaultArgExpr']) == 1:
                lit = strip_parens(args[0])
                while lit.get('kind') in ('ImplicitCastExpr',) and kids(lit):
                    lit = strip_parens(kids(lit)[0])
                if lit.get('kind') == 'StringLiteral' and lit['value'] == '"[]"':
                    return 'bl_name_rfind_brackets(%s)' % o
        if getattr(self, 'in_checkargs', False) and name == 'size':
            b = strip_parens(obj)
            while b.get('kind') in ('ImplicitCastExpr',) and kids(b):
                b = strip_parens(kids(b)[0])
            if b.get('kind') == 'DeclRefExpr' and b['referencedDecl']['name'] == 'params':
                return 'g_nparams'
            if b.get('kind') == 'MemberExpr' and b.get('name') == 'arguments':
                return 'g_nargs'
        if t == 'size_t' and 'vector' in qt(obj):
            if name == 'empty':
                return '(%s == 0)' % o
            if name == 'size':
                return o
        raise Unsupported('member call %s on %s' % (name, qt(obj)))

    def membercall(self, n):
        ks = kids(n)
        me = strip(ks[0])
        if strip(kids(me)[0]).get('kind') == 'CXXThisExpr':
            return self.call_named(n, me['name'], ks[1:])
        return super().membercall(n)

    STUBFN = {'typeEquals', 'isSubclassOf', 'inheritanceDistance', 'getTypeParamBound', 'typeLabel', 'typeToString',
              'isDeclared', 'isFinal', 'getVariableType', 'inferDiamondTypeArguments', 'inferTypeInfo',
              'findClass', 'findFieldInHierarchy', 'isTypeReference', 'isThisReference', 'substituteTypeParams', 'combine'}
    MAY_THROW = {'inferDiamondTypeArguments', 'inferTypeInfo'}
    KEEP_ARGS = {'substituteTypeParams': 1}     # arguments beyond this count are dropped (type-parameter lists)

    def call_named(self, n, name, args):
        if name in self.STUBFN:
            if name in ('typeLabel', 'typeToString'):
                return '0 /* message text dropped */'
            if name in self.MAY_THROW:
                self.needs_prop = True
            args = args[:self.KEEP_ARGS.get(name, len(args))]
            return 'semk_stub_%s(%s)' % (name, ', '.join(self.expr(a) for a in args))
        return super().call_named(n, name, args)

    def if_with_var(self, n, ind):
        # if (auto v = init; cond) ...  /  if (auto x = dynamic_cast<T*>(e)) ...
        p = '  ' * ind
        ks = kids(n)
        out = [p + '{']
        i = 0
        if n.get('hasInit'):
            out += self.stmt(ks[0], ind + 1)
            i = 1
        if n.get('hasVar') and self.ctype_safe(qt(kids(ks[i])[0])) in ('opt_TypeInfo', 'opt_int'):
            # if (auto x = <optional>) ...
            v = kids(ks[i])[0]
            out += self.stmt(ks[i], ind + 1)
            cond = '(%s).has' % v['name']
            rest = ks[i + 2:]
        elif n.get('hasVar') and self.ctype_safe(qt(kids(ks[i])[0])) == 'FieldInfo *':
            v = kids(ks[i])[0]
            out += self.stmt(ks[i], ind + 1)
            cond = '(%s != 0)' % v['name']
            rest = ks[i + 2:]
        elif n.get('hasVar'):
            v = kids(ks[i])[0]
            dc = []
            walk(v, lambda z: dc.append(z) if z.get('kind') == 'CXXDynamicCastExpr' else None)
            if not dc:
                raise Unsupported('if with condition variable ' + v.get('name', ''))
            tgt = dc[0].get('type', {}).get('qualType', '')
            if 'VariableExpression' in tgt and self.fn.startswith('visit_'):
                # the node IS a plain variable reference: a fixed (uninterpreted) fact about the sub-expression; its name likewise
                src = self.expr(kids(dc[0])[0])
                out.append(p + '  _Bool %s = semk_stub_is_variable_expr(%s);' % (v['name'], src))
                self.varexpr_src = getattr(self, 'varexpr_src', {})
                self.varexpr_src[v['name']] = src
                self.locals.add(v['name'])
                cond = v['name']
                rest = ks[i + 2:]
                out.append(p + '  if (%s)' % cond)
                out += self.block(rest[0], ind + 1)
                if len(rest) > 1:
                    out.append(p + '  else')
                    out += self.block(rest[1], ind + 1)
                out.append(p + '}')
                return out
            # what the initialiser node is does not matter for the decision, only for the message: an arbitrary boolean
            out.append(p + '  _Bool %s = semk_stub_ast_shape();' % v['name'])
            self.locals.add(v['name'])
            self.astvars = getattr(self, 'astvars', set()) | {v['name']}
            cond = v['name']
            rest = ks[i + 2:]
        else:
            cond = self.expr(ks[i])
            rest = ks[i + 1:]
        out.append(p + '  if (%s)' % cond)
        out += self.block(rest[0], ind + 1)
        if len(rest) > 1:
            out.append(p + '  else')
            out += self.block(rest[1], ind + 1)
        out.append(p + '}')
        return out

    def member_of_astvar(self, n):
        return None

    def expr_other(self, n):
        raise Unsupported('expr kind ' + str(n.get('kind')))


def lambda_function(prof, docs, name):
    vs = [d for d in docs if d.get('kind') == 'VarDecl' and d.get('name') == name]
    if not vs:
        # a local lambda (declared inside one of the dumped functions)
        seen = set()
        for d in docs:
            def f(z):
                if z.get('kind') == 'VarDecl' and z.get('name') == name and z.get('id') not in seen:
                    seen.add(z.get('id'))
                    vs.append(z)
            walk(d, f)
    if len(vs) != 1:
        raise Unsupported('lambda %s: %d definitions' % (name, len(vs)))
    lam = []
    walk(vs[0], lambda z: lam.append(z) if z.get('kind') == 'LambdaExpr' else None)
    if len(lam) != 1:
        raise Unsupported('lambda %s shape' % name)
    rec = [k for k in kids(lam[0]) if k.get('kind') == 'CXXRecordDecl'][0]
    call = [m for m in kids(rec) if m.get('kind') == 'CXXMethodDecl' and m.get('name') == 'operator()'][0]
    body = [k for k in kids(lam[0]) if k.get('kind') == 'CompoundStmt'][-1]
    rets = []
    walk(body, lambda z: rets.append(z) if z.get('kind') == 'ReturnStmt' and kids(z) else None)
    rt = prof.ctype(qt(kids(rets[0])[0])) if rets else 'void'
    d = dict(kind='FunctionDecl', name=name, type=dict(qualType='%s ()' % ('bool' if rt == '_Bool' else 'void' if rt == 'void' else 'int')), inner=[pd for pd in kids(call) if pd.get('kind') == 'ParmVarDecl'] + [body])
    return prof.func(d, cname=name, is_method=False)


def lower_regions(docs, prof):
    out = [lambda_function(prof, docs, nm) for nm in LAMBDAS]
    ds = cxx2c.find_functions(docs, 'validateTypedInitializer')
    if len(ds) != 1:
        raise Unsupported('validateTypedInitializer: %d definitions' % len(ds))
    body = [k for k in kids(ds[0]) if k.get('kind') == 'CompoundStmt'][0]
    stmts = kids(body)
    start = None
    for i, s in enumerate(stmts):
        if s.get('kind') == 'IfStmt' and s.get('hasInit'):
            v = kids(kids(s)[0])[0]
            if v.get('name') == 'primType':
                start = i
    if start is None:
        raise Unsupported('decision region (if (auto primType = ...)) not found in validateTypedInitializer')
    body2 = dict(body)
    body2['inner'] = stmts[start:]
    d = dict(kind='FunctionDecl', name='validateTypedInitializer_decision', type=dict(qualType='void ()'), inner=[body2])
    head, lines = prof.func(d, cname='validateTypedInitializer_decision', is_method=False)
    head = 'void semk_validateTypedInitializer_decision(TypeInfo targetInfo, TypeInfo initInfo, int line, int column, bl_cname name)'
    out.append((head, lines))
    # the argument site: the local lambda `checkArgs` of visit(CallExpression&) (captures node.arguments and actualTypes)
    try:
        prof.in_checkargs = True
        prof.locals |= {'params', 'actualTypes', 'node'}
        h0, l0 = lambda_function(prof, docs, 'checkArgs')
        out.append(('void semk_checkArgs(size_t params, bl_cname name, int line, int column)', l0))
    except Unsupported as e:
        if not hasattr(prof, 'region_unlowered'):
            prof.region_unlowered = {}
        prof.region_unlowered['checkArgs'] = str(e)
        out.append(('void semk_checkArgs(size_t params, bl_cname name, int line, int column)', None))
    finally:
        prof.in_checkargs = False
    # the rule-enforcing visitor methods (one per syntactic site), selected by their parameter type
    vis = [d for d in cxx2c.find_functions(docs, 'visit') if d.get('kind') in ('CXXMethodDecl', 'FunctionDecl')]
    for site in SITES:
        cand = [d for d in vis if any(pd.get('kind') == 'ParmVarDecl' and re.search(r'\b%s\b' % site, qt(pd)) for pd in kids(d))]
        if len(cand) != 1:
            raise Unsupported('visit(%s&): %d definitions' % (site, len(cand)))
        try:
            out.append(prof.func(cand[0], cname='visit_' + site, is_method=False))
        except Unsupported as e:
            if not hasattr(prof, 'region_unlowered'):
                prof.region_unlowered = {}
            prof.region_unlowered['visit_' + site] = str(e)
            out.append(('void semk_visit_%s(bl_node node)' % site, None))
    return out


# =========================================================================== sidecar: the compatibility relation of the property (C16)
GHOSTS = r'''
#define EXC_SEM BL_EXC(BL_Semantic)
int bl_exc, bl_exc_line, bl_exc_col;
#define ISARRNAME(n) (bl_name_size(n) >= 2 && bl_name_rfind_brackets(n) == bl_name_size(n) - 2)
#define IS_PRIM(t) ((t).className == 0 && (t).value != BL_Unknown && (t).value != BL_Null)
#define IS_UNKNOWN(t) ((t).className == 0 && (t).value == BL_Unknown)       /* genuinely unknown: no tag, no class name - the only wildcard */
#define IS_NULL(t) ((t).value == BL_Null)
#define IS_CLASS(t) ((t).className != 0 && !ISARRNAME((t).className))
#define IS_ARRAY(t) ((t).className != 0 && ISARRNAME((t).className))
#ifdef NATIVE
_Bool semk_stub_typeEquals(TypeInfo a, TypeInfo b) { abort(); } _Bool semk_stub_isSubclassOf(bl_cname d, bl_cname b) { abort(); } int semk_stub_inheritanceDistance(bl_cname d, bl_cname b) { abort(); }
opt_TypeInfo semk_stub_getTypeParamBound(bl_cname n) { abort(); } _Bool semk_stub_ast_shape(void) { abort(); }
#else
_Bool __CPROVER_uninterpreted_subclass(bl_cname, bl_cname); int __CPROVER_uninterpreted_distance(bl_cname, bl_cname);
#define SUBCLASS(d, b) __CPROVER_uninterpreted_subclass(d, b)
#define DISTANCE(d, b) __CPROVER_uninterpreted_distance(d, b)
_Bool semk_stub_typeEquals(TypeInfo a, TypeInfo b)
__CPROVER_assigns()
__CPROVER_ensures(__CPROVER_return_value ==> (a.isTypeParam == b.isTypeParam && a.className == b.className && (a.isTypeParam || a.value == b.value)))
__CPROVER_ensures((!a.isTypeParam && !b.isTypeParam && a.value == b.value && a.className == b.className && a.typeArgs == 0 && b.typeArgs == 0) ==> __CPROVER_return_value)
;
_Bool semk_stub_isSubclassOf(bl_cname d, bl_cname b)
__CPROVER_assigns()
__CPROVER_ensures(__CPROVER_return_value == (d != 0 && b != 0 && SUBCLASS(d, b)))
;
int semk_stub_inheritanceDistance(bl_cname d, bl_cname b)
__CPROVER_assigns()
__CPROVER_ensures(__CPROVER_return_value == ((d == 0 || b == 0) ? -1 : (d == b) ? 0 : (SUBCLASS(d, b) ? DISTANCE(d, b) : -1)))
__CPROVER_ensures((d != 0 && b != 0 && d != b && SUBCLASS(d, b)) ==> __CPROVER_return_value >= 1)
;
opt_TypeInfo semk_stub_getTypeParamBound(bl_cname n)
__CPROVER_assigns()
__CPROVER_ensures(1)
;
_Bool semk_stub_ast_shape(void)
__CPROVER_assigns()
__CPROVER_ensures(1)
;
#endif
/* compatible(expected, actual) - written from the property (C16), not from the code:
   a value of known declared type is accepted only if it has that type, is an int widening to long, an
   instance of a subclass of the expected class, or null for a class reference; arrays need the same type. */
#define WF_TI(t) ((t).className == 0 || (t).value == BL_Unknown)
#define COMPAT_PRIM(e, a) (IS_PRIM(e) && (IS_UNKNOWN(a) || (IS_PRIM(a) && ((a).value == (e).value || ((e).value == BL_Long && (a).value == BL_Int)))))
'''
GHOSTS += r'''
/* ---- analyser state read / written by the site visitors (arbitrary on entry) */
_Bool sa_m_foundReturn, sa_m_inConstructor, sa_m_inStaticContext; TypeInfo sa_m_currentReturn; bl_cname sa_m_currentClass; int sa_m_constructorFinalAssignmentDepth;
FieldInfo g_field;            /* the FieldInfo the class tables hold for the looked-up member (one arbitrary record) */
FieldInfo *g_fih_ret;         /* ghost: what findFieldInHierarchy returned */
int g_cnt_cell, g_cnt_other; bl_cname g_cnt_key;       /* m_constructorFinalAssignments observed at one arbitrary key */
int g_rec_calls; _Bool g_rec_isFinal;                  /* ghost: recordFinalFieldAssignment calls (replacement side) */
#ifndef NATIVE
bl_cname __CPROVER_uninterpreted_key2(bl_cname, bl_cname);
#define bl_key2 __CPROVER_uninterpreted_key2
static inline int *semk_count_slot(bl_cname key) { if (key == g_cnt_key) return &g_cnt_cell; g_cnt_other = nondet_int(); __CPROVER_assume(g_cnt_other >= 0 && g_cnt_other < 1000000); return &g_cnt_other; }
int __CPROVER_uninterpreted_ti_value(bl_ast); bl_cname __CPROVER_uninterpreted_ti_cls(bl_ast); size_t __CPROVER_uninterpreted_ti_args(bl_ast); int __CPROVER_uninterpreted_ti_tp(bl_ast);
int __CPROVER_uninterpreted_vt_value(bl_cname); bl_cname __CPROVER_uninterpreted_vt_cls(bl_cname); size_t __CPROVER_uninterpreted_vt_args(bl_cname); int __CPROVER_uninterpreted_vt_tp(bl_cname);
int __CPROVER_uninterpreted_declared(bl_cname); int __CPROVER_uninterpreted_finalvar(bl_cname); int __CPROVER_uninterpreted_is_this(bl_ast); int __CPROVER_uninterpreted_is_typeref(bl_ast);
#define TI_OF(e) ((TypeInfo){ __CPROVER_uninterpreted_ti_value(e), __CPROVER_uninterpreted_ti_cls(e), __CPROVER_uninterpreted_ti_args(e), __CPROVER_uninterpreted_ti_tp(e) != 0 })
#define VT_OF(n) ((TypeInfo){ __CPROVER_uninterpreted_vt_value(n), __CPROVER_uninterpreted_vt_cls(n), __CPROVER_uninterpreted_vt_args(n), __CPROVER_uninterpreted_vt_tp(n) != 0 })
#define DECLARED(n) (__CPROVER_uninterpreted_declared(n) != 0)
#define FINALVAR(n) (__CPROVER_uninterpreted_finalvar(n) != 0)
#define IS_THIS(e) (__CPROVER_uninterpreted_is_this(e) != 0)
#define IS_TYPEREF(e) (__CPROVER_uninterpreted_is_typeref(e) != 0)
#define TI_EQ(a, b) ((a).value == (b).value && (a).className == (b).className && (a).typeArgs == (b).typeArgs && (a).isTypeParam == (b).isTypeParam)
#define SEM_OR_NONE (bl_exc == 0 || bl_exc == EXC_SEM)
int __CPROVER_uninterpreted_is_varexpr(bl_ast); bl_cname __CPROVER_uninterpreted_ast_varname(bl_ast); int __CPROVER_uninterpreted_ast_line(bl_ast); int __CPROVER_uninterpreted_ast_column(bl_ast);
#define IS_VAREXPR(e) ((e) != 0 && __CPROVER_uninterpreted_is_varexpr(e) != 0)
#define AST_VARNAME(e) __CPROVER_uninterpreted_ast_varname(e)
#define AST_LINE(e) __CPROVER_uninterpreted_ast_line(e)
#define AST_COLUMN(e) __CPROVER_uninterpreted_ast_column(e)
_Bool semk_stub_is_variable_expr(bl_ast e) __CPROVER_assigns() __CPROVER_ensures(__CPROVER_return_value == IS_VAREXPR(e));
_Bool semk_stub_isDeclared(bl_cname n) __CPROVER_assigns() __CPROVER_ensures(__CPROVER_return_value == DECLARED(n));
_Bool semk_stub_isFinal(bl_cname n) __CPROVER_assigns() __CPROVER_ensures(__CPROVER_return_value == FINALVAR(n));
_Bool semk_stub_isThisReference(bl_ast e) __CPROVER_assigns() __CPROVER_ensures(__CPROVER_return_value == IS_THIS(e));
_Bool semk_stub_isTypeReference(bl_ast e) __CPROVER_assigns() __CPROVER_ensures(__CPROVER_return_value == IS_TYPEREF(e));
TypeInfo semk_stub_getVariableType(bl_cname n) __CPROVER_assigns() __CPROVER_ensures(TI_EQ(__CPROVER_return_value, VT_OF(n)));
TypeInfo semk_stub_combine(int prim, bl_cname cls) __CPROVER_assigns()
__CPROVER_ensures(__CPROVER_return_value.value == prim && __CPROVER_return_value.className == cls && __CPROVER_return_value.typeArgs == 0 && !__CPROVER_return_value.isTypeParam);
TypeInfo semk_stub_substituteTypeParams(TypeInfo t) __CPROVER_assigns() __CPROVER_ensures(1);
bl_clsinfo semk_stub_findClass(bl_cname n) __CPROVER_assigns() __CPROVER_ensures(1);
/* class-table lookup: the one arbitrary record or nothing (a model with a body: pointers returned by a replaced contract cannot be dereferenced in CBMC 6.11) */
static inline FieldInfo *semk_stub_findFieldInHierarchy(TypeInfo t, bl_cname member) { g_fih_ret = nondet_bool() ? &g_field : (FieldInfo *)0; return g_fih_ret; }
/* nested analysis: may raise (assumed: only Semantic errors) */
void semk_stub_inferDiamondTypeArguments(bl_ast e, TypeInfo t, int line, int column) __CPROVER_requires(bl_exc == 0) __CPROVER_assigns(bl_exc, bl_exc_line, bl_exc_col) __CPROVER_ensures(SEM_OR_NONE);
TypeInfo semk_stub_inferTypeInfo(bl_ast e) __CPROVER_requires(bl_exc == 0) __CPROVER_assigns(bl_exc, bl_exc_line, bl_exc_col) __CPROVER_ensures(SEM_OR_NONE) __CPROVER_ensures(TI_EQ(__CPROVER_return_value, TI_OF(e)));
void semk_stub_accept(bl_ast e) __CPROVER_requires(bl_exc == 0) __CPROVER_assigns(bl_exc, bl_exc_line, bl_exc_col) __CPROVER_ensures(SEM_OR_NONE);
#endif
#define ACC(v, o, a) ((v) == BL_Public || ((v) == BL_Private && (o) == (a)) || ((v) == BL_Protected && (a) != 0 && ((a) == (o) || ((o) != 0 && SUBCLASS(a, o)))))
#define ISVOID_T(t) ((t).value == BL_Void && (t).className == 0)
/* accepted(T <- V) as the property states it: same type / int->long / subclass / null only for class references / same array type;
   a genuinely unknown value type is the only wildcard; a slot of genuinely unknown declared type is outside the rule ("a value of known declared type") */
#define ACCEPT_OK(T, V) (IS_NULL(V) ? (IS_CLASS(T) || IS_UNKNOWN(T)) : IS_UNKNOWN(V) ? 1 : IS_PRIM(T) ? COMPAT_PRIM(T, V) \
  : IS_CLASS(T) ? ((V).className != 0 && ((V).className == (T).className || SUBCLASS((V).className, (T).className))) \
  : IS_ARRAY(T) ? (IS_ARRAY(V) && (V).className == (T).className) : 1)
#define WF_T(t) ((t).value >= 0 && (t).value <= BL_Unknown && WF_TI(t) && !(t).isTypeParam)
#define AT_NODE (bl_exc == EXC_SEM && bl_exc_line == node.line && bl_exc_col == node.column)
'''
RET = '__CPROVER_return_value'


def R(t):
    return ('', 'requires', t, [])


def E(label, t, props, **o):
    return (label, 'ensures', t, props, o)


def A(t):
    return ('', 'assigns', t, [])


VT = 'a >= 0 && a <= BL_Unknown && b >= 0 && b <= BL_Unknown'
NOGEN = '!expected.isTypeParam && !actual.isTypeParam'
CONTRACTS = {
    'matchesPrimitive': {'contract': [
        R('expected >= 0 && expected <= BL_Unknown && actual >= 0 && actual <= BL_Unknown'), A(''),
        E('matchesPrimitive.equal_or_int_to_long_or_unknown', '%s == (expected == BL_Unknown || actual == BL_Unknown || expected == actual || (expected == BL_Long && actual == BL_Int))' % RET, ['C16']),
    ]},
    'numericPromotion': {'contract': [
        R(VT), A(''),
        E('numericPromotion.float_then_long_then_int_then_bit', '%s == ((a == BL_Float || b == BL_Float) ? BL_Float : (a == BL_Long || b == BL_Long) ? BL_Long : (a == BL_Int || b == BL_Int) ? BL_Int : (a == BL_Bit || b == BL_Bit) ? BL_Bit : BL_Unknown)' % RET, ['C16', 'C07']),
    ]},
    'isAccessible': {'contract': [
        A(''),
        E('isAccessible.public_always', '(visibility == BL_Public) ==> %s' % RET, ['C16']),
        E('isAccessible.private_only_owner', '(visibility == BL_Private) ==> (%s == (owner == accessor))' % RET, ['C16']),
        E('isAccessible.protected_owner_or_subclass', '(visibility == BL_Protected) ==> (%s == (accessor != 0 && (accessor == owner || (owner != 0 && SUBCLASS(accessor, owner)))))' % RET, ['C16']),
        E('isAccessible.unknown_visibility_denied', '(visibility != BL_Public && visibility != BL_Private && visibility != BL_Protected) ==> !%s' % RET, ['C16']),
    ]},
    'isArrayTypeName': {'contract': [A(''), E('isArrayTypeName.suffix_brackets', '%s == ISARRNAME(name)' % RET, [])]},
    'isArrayType': {'contract': [A(''), E('isArrayType.def', '%s == IS_ARRAY(t)' % RET, [])]},
    'isClassRefType': {'contract': [A(''), E('isClassRefType.def', '%s == IS_CLASS(t)' % RET, [])]},
    # accept => compatible, for the non-generic paths
    'isAssignableType': {'contract': [
        R(NOGEN + ' && expected.value >= 0 && expected.value <= BL_Unknown && actual.value >= 0 && actual.value <= BL_Unknown && WF_TI(expected) && WF_TI(actual)'), A(''),
        E('isAssignableType.null_only_for_class_references', 'IS_NULL(actual) ==> (%s == IS_CLASS(expected))' % RET, ['C16']),
        E('isAssignableType.primitive_expected', '(%s && !IS_NULL(actual) && IS_PRIM(expected)) ==> COMPAT_PRIM(expected, actual)' % RET, ['C16']),
        E('isAssignableType.array_expected_needs_same_array_type', '(%s && !IS_NULL(actual) && IS_ARRAY(expected)) ==> (IS_ARRAY(actual) && actual.className == expected.className)' % RET, ['C16']),
        E('isAssignableType.class_expected_needs_same_class_or_subclass', '(%s && !IS_NULL(actual) && IS_CLASS(expected) && !IS_UNKNOWN(actual)) ==> (actual.className != 0 && (actual.className == expected.className || SUBCLASS(actual.className, expected.className)))' % RET, ['C16', 'C08']),
    ]},
    'conversionCost': {'contract': [
        R(NOGEN + ' && expected.value >= 0 && expected.value <= BL_Unknown && actual.value >= 0 && actual.value <= BL_Unknown && WF_TI(expected) && WF_TI(actual)'), A(''),
        E('conversionCost.null_costs_3_for_class_references_only', 'IS_NULL(actual) ==> (IS_CLASS(expected) ? (%s.has && %s.v == 3) : !%s.has)' % (RET, RET, RET), ['C16', 'C08']),
        E('conversionCost.primitive_exact_0_widening_1', '(!IS_NULL(actual) && IS_PRIM(expected) && IS_PRIM(actual)) ==> ((actual.value == expected.value) ? (%s.has && %s.v == 0) : (expected.value == BL_Long && actual.value == BL_Int) ? (%s.has && %s.v == 1) : !%s.has)' % (RET, RET, RET, RET, RET), ['C16', 'C08']),
        E('conversionCost.class_into_primitive_is_no_conversion', '(!IS_NULL(actual) && IS_PRIM(expected) && actual.className != 0) ==> !%s.has' % RET, ['C16', 'C08']),
        E('conversionCost.class_cost_is_inheritance_distance', '(!IS_NULL(actual) && IS_CLASS(expected) && IS_CLASS(actual) && expected.typeArgs == 0 && actual.typeArgs == 0 && %s.has) ==> (actual.className == expected.className ? %s.v == 0 : (SUBCLASS(actual.className, expected.className) && %s.v >= 0))' % (RET, RET, RET), ['C08']),
        E('conversionCost.unrelated_class_is_no_conversion', '(!IS_NULL(actual) && IS_CLASS(expected) && IS_CLASS(actual) && expected.typeArgs == 0 && actual.typeArgs == 0 && actual.className != expected.className && !SUBCLASS(actual.className, expected.className)) ==> !%s.has' % RET, ['C16', 'C08']),
    ]},
    # the initialiser site (property level): returning normally means the initialiser was accepted
    'validateTypedInitializer_decision': {'contract': [
        R('bl_exc == 0 && !targetInfo.isTypeParam && !initInfo.isTypeParam && targetInfo.value >= 0 && targetInfo.value <= BL_Unknown && initInfo.value >= 0 && initInfo.value <= BL_Unknown'),
        # type invariant of TypeInfo: class and array types carry the Unknown tag; a declared type is never Null
        R('WF_TI(targetInfo) && WF_TI(initInfo) && targetInfo.value != BL_Null'),
        A('bl_exc, bl_exc_line, bl_exc_col'),
        E('validateTypedInitializer.only_semantic_errors_at_the_declaration', 'bl_exc == 0 || (bl_exc == EXC_SEM && bl_exc_line == line && bl_exc_col == column)', ['C16', 'C13']),
        E('validateTypedInitializer.primitive_slot_accepts_only_compatible', '(bl_exc == 0 && IS_PRIM(targetInfo) && !IS_NULL(initInfo)) ==> COMPAT_PRIM(targetInfo, initInfo)', ['C16']),
        E('validateTypedInitializer.null_only_for_class_references', '(bl_exc == 0 && IS_NULL(initInfo)) ==> (IS_CLASS(targetInfo) || IS_UNKNOWN(targetInfo))', ['C16']),
        E('validateTypedInitializer.class_slot_accepts_same_class_or_subclass', '(bl_exc == 0 && IS_CLASS(targetInfo) && targetInfo.value == BL_Unknown && targetInfo.typeArgs == 0 && !IS_NULL(initInfo) && !IS_UNKNOWN(initInfo) && initInfo.typeArgs == 0) ==> (initInfo.className != 0 && (initInfo.className == targetInfo.className || SUBCLASS(initInfo.className, targetInfo.className)))', ['C16', 'C08']),
        E('validateTypedInitializer.array_slot_accepts_same_array_type', '(bl_exc == 0 && IS_ARRAY(targetInfo) && targetInfo.value == BL_Unknown && !IS_UNKNOWN(initInfo)) ==> (IS_ARRAY(initInfo) && initInfo.className == targetInfo.className)', ['C16']),
        E('validateTypedInitializer.compatible_primitive_is_accepted', '(IS_PRIM(targetInfo) && IS_PRIM(initInfo) && (initInfo.value == targetInfo.value || (targetInfo.value == BL_Long && initInfo.value == BL_Int))) ==> bl_exc == 0', ['C16']),
    ]},
    # ------------------------------------------------------------------ rule sites (one visitor per syntactic position)
    'resolveField': {'contract': [
        R('bl_exc == 0'), A('bl_exc, bl_exc_line, bl_exc_col, g_fih_ret'),
        E('resolveField.only_semantic_errors_at_the_use', 'bl_exc == 0 || (bl_exc == EXC_SEM && bl_exc_line == line && bl_exc_col == column)', ['C16', 'C13']),
        E('resolveField.result_is_the_table_entry_or_nothing', '%s == 0 || (%s == &g_field && bl_exc == 0)' % (RET, RET), []),
        E('resolveField.inaccessible_field_rejected', '(sa_m_currentClass != 0 && g_fih_ret != 0 && !ACC(g_field.visibility, g_field.owner, sa_m_currentClass)) ==> bl_exc == EXC_SEM', ['C16']),
        E('resolveField.instance_field_in_static_context_rejected', '(sa_m_currentClass != 0 && g_fih_ret != 0 && sa_m_inStaticContext && !g_field.isStatic) ==> bl_exc == EXC_SEM', ['C16']),
        E('resolveField.accessible_field_is_found', '(sa_m_currentClass != 0 && g_fih_ret != 0 && ACC(g_field.visibility, g_field.owner, sa_m_currentClass) && (!sa_m_inStaticContext || g_field.isStatic)) ==> (bl_exc == 0 && %s == &g_field)' % RET, ['C16']),
    ]},
    'recordFinalFieldAssignment': {'prologue': 'g_rec_calls = g_rec_calls + 1; g_rec_isFinal = field.isFinal;', 'contract': [
        R('bl_exc == 0 && sa_m_constructorFinalAssignmentDepth >= 0 && g_cnt_cell >= 0 && g_cnt_cell < 1000000 && g_rec_calls >= 0 && g_rec_calls < 1000'),
        A('bl_exc, bl_exc_line, bl_exc_col, g_cnt_cell, g_cnt_other, g_rec_calls, g_rec_isFinal'),
        E('', 'g_rec_calls == __CPROVER_old(g_rec_calls) + 1 && g_rec_isFinal == field.isFinal', []),
        E('recordFinalFieldAssignment.only_semantic_errors_at_the_use', 'bl_exc == 0 || (bl_exc == EXC_SEM && bl_exc_line == line && bl_exc_col == column)', ['C16', 'C13']),
        E('recordFinalFieldAssignment.non_final_field_is_free', '!field.isFinal ==> (bl_exc == 0 && g_cnt_cell == __CPROVER_old(g_cnt_cell))', ['C16']),
        E('recordFinalFieldAssignment.final_only_in_own_constructor_at_top_level', '(field.isFinal && bl_exc == 0) ==> (sa_m_inConstructor && !field.isStatic && sa_m_constructorFinalAssignmentDepth == 0 && field.owner == sa_m_currentClass && !field.hasInitializer)', ['C16']),
        E('recordFinalFieldAssignment.final_exactly_once_per_constructor', '(field.isFinal && bl_exc == 0 && bl_key2(field.owner, fieldName) == g_cnt_key) ==> (__CPROVER_old(g_cnt_cell) == 0 && g_cnt_cell == 1)', ['C16']),
        E('recordFinalFieldAssignment.first_top_level_assignment_accepted', '(field.isFinal && sa_m_inConstructor && !field.isStatic && sa_m_constructorFinalAssignmentDepth == 0 && field.owner == sa_m_currentClass && !field.hasInitializer && bl_key2(field.owner, fieldName) == g_cnt_key && __CPROVER_old(g_cnt_cell) == 0) ==> bl_exc == 0', ['C16']),
    ]},
    'visit_ReturnStatement': {'contract': [
        R('bl_exc == 0 && WF_T(sa_m_currentReturn) && sa_m_currentReturn.value != BL_Null && WF_T(TI_OF(node.value))'),
        A('bl_exc, bl_exc_line, bl_exc_col, sa_m_foundReturn'),
        E('return.only_semantic_errors', 'SEM_OR_NONE', ['C16', 'C13']),
        E('return.value_in_void_function_rejected', '(node.value != 0 && ISVOID_T(sa_m_currentReturn)) ==> AT_NODE', ['C16']),
        E('return.bare_return_in_non_void_function_rejected', '(node.value == 0 && !ISVOID_T(sa_m_currentReturn)) ==> AT_NODE', ['C16']),
        E('return.bare_return_in_void_function_accepted', '(node.value == 0 && ISVOID_T(sa_m_currentReturn)) ==> bl_exc == 0', ['C16']),
        E('return.accepted_value_has_the_declared_type', '(bl_exc == 0 && node.value != 0) ==> ACCEPT_OK(sa_m_currentReturn, TI_OF(node.value))', ['C16']),
    ]},
}
def _assign_site(fn, lab):
    return {'contract': [
        R('bl_exc == 0 && WF_T(VT_OF(node.name)) && VT_OF(node.name).value != BL_Null && WF_T(TI_OF(node.value)) && WF_T(g_field.type) && g_field.type.value != BL_Null'),
        R('sa_m_constructorFinalAssignmentDepth >= 0 && g_cnt_cell >= 0 && g_cnt_cell < 1000000 && g_rec_calls == 0'),
        A('bl_exc, bl_exc_line, bl_exc_col, g_fih_ret, g_cnt_cell, g_cnt_other, g_rec_calls, g_rec_isFinal'),
        E(lab + '.only_semantic_errors', 'SEM_OR_NONE', ['C16', 'C13']),
        E(lab + '.final_variable_never_assigned', '(DECLARED(node.name) && FINALVAR(node.name)) ==> AT_NODE', ['C16']),
        E(lab + '.accepted_value_has_the_declared_type', '(bl_exc == 0 && DECLARED(node.name) && node.value != 0) ==> ACCEPT_OK(VT_OF(node.name), TI_OF(node.value))', ['C16']),
        E(lab + '.field_write_goes_through_the_final_field_rule', '(bl_exc == 0 && !DECLARED(node.name)) ==> (g_rec_calls == 1)', ['C16']),
        E(lab + '.accepted_field_value_has_the_declared_type', '(bl_exc == 0 && !DECLARED(node.name) && node.value != 0) ==> ACCEPT_OK(g_field.type, TI_OF(node.value))', ['C16']),
    ]}
CONTRACTS_SITES = {
    'visit_AssignmentStatement': _assign_site('visit_AssignmentStatement', 'assignment_statement'),
    'visit_AssignmentExpression': _assign_site('visit_AssignmentExpression', 'assignment_expression'),
    'visit_MemberAssignmentExpression': {'contract': [
        R('bl_exc == 0 && WF_T(TI_OF(node.value)) && WF_T(g_field.type) && g_field.type.value != BL_Null && !TI_OF(node.object).isTypeParam && TI_OF(node.object).typeArgs == 0'),
        R('sa_m_constructorFinalAssignmentDepth >= 0 && g_cnt_cell >= 0 && g_cnt_cell < 1000000 && g_rec_calls == 0'),
        A('bl_exc, bl_exc_line, bl_exc_col, g_fih_ret, g_cnt_cell, g_cnt_other, g_rec_calls, g_rec_isFinal'),
        E('member_assignment.only_semantic_errors', 'SEM_OR_NONE', ['C16', 'C13']),
        E('member_assignment.needs_a_class_reference', '(bl_exc == 0) ==> TI_OF(node.object).className != 0', ['C16']),
        E('member_assignment.inaccessible_field_rejected', '(bl_exc == 0) ==> ACC(g_field.visibility, g_field.owner, sa_m_currentClass)', ['C16']),
        E('member_assignment.instance_field_not_assigned_via_type', '(bl_exc == 0) ==> (g_field.isStatic || !IS_TYPEREF(node.object))', ['C16']),
        E('member_assignment.final_field_only_through_this_in_a_constructor', '(bl_exc == 0 && g_field.isFinal) ==> (sa_m_inConstructor && IS_THIS(node.object) && g_rec_calls == 1 && g_rec_isFinal)', ['C16']),
        E('member_assignment.accepted_value_has_the_declared_type', '(bl_exc == 0 && node.value != 0) ==> ACCEPT_OK(g_field.type, TI_OF(node.value))', ['C16']),
    ]},
}
PMAXA_N = 6
GHOSTS += r'''
#ifndef PMAXA
#define PMAXA 6
#endif
_Bool g_accept_gi; TypeInfo g_params[PMAXA], g_actuals[PMAXA]; size_t g_nparams, g_nargs, gi; int g_arg_line[PMAXA], g_arg_column[PMAXA];
#define ARGS_WF (''' + ' && '.join('(%d >= PMAXA || (WF_T(g_params[%d %% PMAXA]) && g_params[%d %% PMAXA].value != BL_Null && WF_T(g_actuals[%d %% PMAXA])))' % (j, j, j, j) for j in range(PMAXA_N)) + r''')
'''
CONTRACTS_SITES['checkArgs'] = {
    'contract': [
        R('bl_exc == 0 && g_nparams <= PMAXA && g_nargs <= PMAXA && gi < PMAXA && ARGS_WF'),
        A('bl_exc, bl_exc_line, bl_exc_col, g_accept_gi'),
        E('call.arguments.only_semantic_errors', 'SEM_OR_NONE', ['C16', 'C13']),
        E('call.arguments.arity_mismatch_rejected_at_the_call', '(g_nparams != g_nargs) ==> (bl_exc == EXC_SEM && bl_exc_line == line && bl_exc_col == column)', ['C16']),
        E('call.arguments.accepted_value_has_the_declared_type', '(bl_exc == 0 && gi < g_nargs) ==> ACCEPT_OK(g_params[gi], g_actuals[gi])', ['C16', 'C08']),
    ],
    'prologue': 'g_accept_gi = ACCEPT_OK(g_params[gi], g_actuals[gi]);',
    'loops': {0: {'assigns': 'i, bl_exc, bl_exc_line, bl_exc_col',
                  'invariants': [('checkArgs.loop.bounds', 'i <= g_nargs && bl_exc == 0 && g_nparams == g_nargs'),
                                 ('checkArgs.loop.accepted_so_far', '(gi < i) ==> (g_accept_gi != 0)')],
                  'decreases': 'g_nargs - i'}},
}
PN = 'AST_VARNAME(node.left)'
CONTRACTS_SITES['visit_PostfixExpression'] = {'contract': [
    R('bl_exc == 0 && WF_T(VT_OF(' + PN + ')) && WF_T(g_field.type)'),
    A('bl_exc, bl_exc_line, bl_exc_col, g_fih_ret'),
    E('postfix.only_semantic_errors', 'SEM_OR_NONE', ['C16', 'C13']),
    # C16: final variables and final fields are never incremented; ++ / -- only on int / long variables
    E('postfix.final_variable_never_incremented', '(IS_VAREXPR(node.left) && DECLARED(' + PN + ') && FINALVAR(' + PN + ')) ==> AT_NODE', ['C16']),
    E('postfix.final_field_never_incremented', '(bl_exc == 0 && IS_VAREXPR(node.left) && !DECLARED(' + PN + ')) ==> (g_fih_ret != 0 && !g_field.isFinal)', ['C16']),
    E('postfix.only_int_or_long_variables', '(bl_exc == 0 && IS_VAREXPR(node.left) && DECLARED(' + PN + ')) ==> ((VT_OF(' + PN + ').value == BL_Int || VT_OF(' + PN + ').value == BL_Long) && VT_OF(' + PN + ').className == 0)', ['C16']),
    E('postfix.only_int_or_long_fields', '(bl_exc == 0 && IS_VAREXPR(node.left) && !DECLARED(' + PN + ')) ==> (g_field.type.value == BL_Int || g_field.type.value == BL_Long)', ['C16']),
    E('postfix.only_on_variables', '(node.left != 0 && !IS_VAREXPR(node.left)) ==> bl_exc != 0', ['C16']),
    E('postfix.int_variable_is_accepted', '(IS_VAREXPR(node.left) && DECLARED(' + PN + ') && !FINALVAR(' + PN + ') && VT_OF(' + PN + ').value == BL_Int && VT_OF(' + PN + ').className == 0) ==> bl_exc == 0', ['C16']),
]}
CONTRACTS.update(CONTRACTS_SITES)
STUBS = ['semk_stub_typeEquals', 'semk_stub_isSubclassOf', 'semk_stub_inheritanceDistance', 'semk_stub_getTypeParamBound', 'semk_stub_ast_shape']
SITE_STUBS = ['semk_stub_' + x for x in ('is_variable_expr', 'isDeclared', 'isFinal', 'isThisReference', 'isTypeReference', 'getVariableType', 'combine', 'substituteTypeParams', 'findClass', 'inferDiamondTypeArguments', 'inferTypeInfo', 'accept')]
HARNESSES = [
    dict(name='matchesPrimitive', fn='matchesPrimitive', replace=[], flags=[], props=['C16'], timeout=60),
    dict(name='numericPromotion', fn='numericPromotion', replace=[], flags=[], props=['C16', 'C07'], timeout=60),
    dict(name='isAccessible', fn='isAccessible', replace=STUBS[1:2], flags=[], props=['C16'], timeout=60, bounded_replace=STUBS[1:2]),
    dict(name='isArrayTypeName', fn='isArrayTypeName', replace=[], flags=[], props=['C16'], timeout=60),
    dict(name='isArrayType', fn='isArrayType', replace=['isArrayTypeName'], flags=[], props=['C16'], timeout=60),
    dict(name='isClassRefType', fn='isClassRefType', replace=['isArrayTypeName'], flags=[], props=['C16'], timeout=60),
    dict(name='isAssignableType', fn='isAssignableType', bounded_unwindset=['semk_isAssignableType:1'], replace=['isArrayType', 'isClassRefType', 'matchesPrimitive'] + STUBS[:4], flags=[], props=['C16', 'C08'], timeout=120, bounded_replace=STUBS[:4]),
    dict(name='conversionCost', fn='conversionCost', bounded_unwindset=['semk_conversionCost:1'], replace=['isArrayType', 'isClassRefType'] + STUBS[:4], flags=[], props=['C16', 'C08'], timeout=120, bounded_replace=STUBS[:4]),
    dict(name='validateTypedInitializer_decision', fn='validateTypedInitializer_decision', bounded_unwindset=['semk_isAssignableType:1'], replace=['matchesPrimitive', 'isAssignableType'] + STUBS, flags=[], props=['C16', 'C13'], timeout=120, bounded_replace=STUBS,
         canaries=[('bl_exc == 0', 'accepted'), ('bl_exc != 0', 'rejected')]),
    dict(name='resolveField', fn='resolveField', replace=['isAccessible'] + SITE_STUBS, flags=[], props=['C16', 'C13'], timeout=120, bounded_replace=SITE_STUBS + STUBS[1:2]),
    dict(name='recordFinalFieldAssignment', fn='recordFinalFieldAssignment', replace=[], flags=[], props=['C16', 'C13'], timeout=120,
         canaries=[('bl_exc == 0 && a0.isFinal', 'final field accepted'), ('bl_exc != 0', 'rejected')]),
    dict(name='checkArgs', fn='checkArgs', replace=['matchesPrimitive', 'isAssignableType'] + STUBS, flags=[], props=['C16', 'C13', 'C08'], timeout=300, bounded_unwindset=['semk_isAssignableType:1'], unwind=4, bounded_defs=['PMAXA=2'],
         bounded_replace=STUBS, canaries=[('bl_exc == 0 && g_nargs >= 2', 'a call with several arguments accepted'), ('bl_exc != 0', 'rejected')]),
] + [dict(name='visit_' + st, fn='visit_' + st, replace=['matchesPrimitive', 'isAssignableType', 'isAccessible', 'recordFinalFieldAssignment'] + SITE_STUBS + STUBS, flags=[], props=['C16', 'C13'], timeout=180, bounded_unwindset=['semk_isAssignableType:1'],
          bounded_replace=SITE_STUBS + STUBS, canaries=([('bl_exc == 0 && a0.value != 0', 'accepted with a value'), ('bl_exc != 0', 'rejected')] if st != 'PostfixExpression' else [('bl_exc == 0', 'accepted'), ('bl_exc != 0', 'rejected')])) for st in SITES]


# =========================================================================== native side
from tools import native as _nat


def _oracle(seed=1):
    bd = _nat.repo_build(('bloch',))
    return _nat.run(['python3', os.path.join(_nat.ROOT, 'native', 'semk_oracle.py'), os.path.join(bd, 'bin', 'bloch'), 'sweep'], timeout=600)


def native_validate(pu, work, tier, seed):
    try:
        rc, out, dt = _oracle(seed)
        js = _nat.last_json(out)
        return dict(unit='SEMK', kind='oracle on the real analyser (accept / reject of small programs per the compatibility rule); no co-execution for this unit', status='agree',
                    oracle_sweep=dict(checks=js.get('oracle_checks'), failures=js.get('oracle_failures'), failing_labels=sorted(set(re.findall(r'FAIL label=(\S+)', out)))), wall_s=round(dt, 1))
    except _nat.Break as e:
        return dict(unit='SEMK', status='error', detail=str(e))


def replay_counterexample(pu, h, label, failure, work, tier, seed):
    rc, out, dt = _oracle(seed)
    fails = [l for l in out.split('\n') if l.startswith('FAIL ')]
    same = [l for l in fails if label and ('label=' + label + ' ') in l]
    fnp = h['fn'].replace('_decision', '')
    pref = {'checkArgs': 'call.arguments.', 'visit_ReturnStatement': 'return.', 'visit_AssignmentStatement': 'assignment_statement.', 'visit_AssignmentExpression': 'assignment_expression.',
            'visit_MemberAssignmentExpression': 'member_assignment.'}.get(h['fn'], fnp + '.')
    pick = same or [l for l in fails if ('label=' + pref) in l]
    if pick:
        m = re.search(r'label=(\S+)', pick[0])
        return dict(failing_input_found=True, failing_input=pick[0], native_failures=fails[:6], oracle_label=m.group(1), signature=re.sub(r' detail=.*', '', pick[0])[:160],
                    reproduce_args=['sweep'], reproduce='bin/check <property> --replay <this file>', replay_inputs_tried=['sweep'], matched_same_obligation=bool(same))
    return dict(failing_input_found=False, replay_inputs_tried=['sweep'], signature='')


def run_reproduce(rec, work):
    rc, out, dt = _oracle()
    print(out)
    return 1 if rc else 0
