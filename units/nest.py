"""Unit NEST — compiler/semantics/semantic_analyser.cpp: the statement visitors that make "top level of a constructor"
mean something: visit(BlockStatement&), visit(IfStatement&), visit(TernaryStatement&), visit(ForStatement&),
visit(WhileStatement&).  C16: a final field may be assigned only as a TOP-LEVEL constructor statement - so every part of
a compound statement (header expressions included) must be analysed with the nesting depth raised, and the depth (and the
scope stack) must be back where it was on every way out, the exceptional ones included."""
import re, os
from tools import cxx2c
from tools.cxx2c import Lower, Unsupported, kids, qt, qt_sugar, strip, strip_parens, callee_name, norm_type, walk
from tools.cxx2c import REPO as _REPO

NAME = 'NEST'
SRC = _REPO + '/src/bloch/compiler/semantics/semantic_analyser.cpp'
NAMESPACE = 'bloch::compiler'
FUNCS = []
AST_FILTER = ['SemanticAnalyser::visit']
SHIM = 'nest.h'
SITES = ['BlockStatement', 'IfStatement', 'TernaryStatement', 'ForStatement', 'WhileStatement']
THROWING = {'visit_' + x for x in SITES}
DROPS = ['whole visitor methods, selected by parameter type; the AST node becomes a value {initializer, condition, increment, body, thenBranch, elseBranch, statements, line, column} of opaque child ids; line / column of a child are uninterpreted functions of its id',
         'child->accept(*this) is a ghost-recording model: it notes the smallest nesting depth and scope depth any child was analysed at, and may raise a Semantic error',
         '`auto g = makeScopeExit([&] { S });` and `ScopeGuard scope(*this);` declared at the top level of the function body: S / endScope() run at a single exit point that every return, every raise and the normal end jump to (the C++ destructor order - reverse of declaration - is kept); ScopeGuard is beginScope() in its constructor and endScope() in its destructor (semantic_analyser.hpp; checked textually on every run)',
         'inferTypeInfo / isBooleanLike: contract-only stubs; diagnostic message text']
ASSUMPTIONS = ['nested analysis (accept, inferTypeInfo) raises only Semantic errors and leaves the nesting depth and the scope depth as it found them (that is this very postcondition, one level down: an induction over the syntax tree that is not mechanised here)']


class Profile(Lower):
    CLS = 'nest'
    SELF_T = ''
    IS_METHOD = False
    WRAP_DOUBLE_OPS = False
    TYPE_MAP = [
        (r'^(bloch::compiler::)?(%s)$' % '|'.join(SITES), 'bl_node'),
        (r'^std::unique_ptr<(bloch::compiler::)?(Expression|Statement|BlockStatement)(, std::default_delete<.*>)?>$', 'bl_ast'),
        (r'^(bloch::compiler::)?(Expression|Statement|ASTNode) \*$', 'bl_ast'),
        (r'^std::vector<std::unique_ptr<(bloch::compiler::)?Statement(, std::default_delete<.*>)?>(, .*)?>$', 'bl_stmts'),
        (r'^(bloch::compiler::)?(SemanticAnalyser::)?TypeInfo$', 'bl_tinfo'),
        (r'^(bloch::compiler::)?SemanticAnalyser$', 'bl_self'),
    ]

    def prepare(self, docs, workdir):
        hpp = open(os.path.join(os.path.dirname(SRC), 'semantic_analyser.hpp')).read()
        m = re.search(r'class ScopeGuard \{(.*?)\n        \};', hpp, re.S)
        body = re.sub(r'\s+', ' ', m.group(1)) if m else ''
        if not (re.search(r'explicit ScopeGuard\(SemanticAnalyser& analyser\) : m_analyser\(analyser\) \{ m_analyser\.beginScope\(\); \}', body)
                and re.search(r'~ScopeGuard\(\) \{ m_analyser\.endScope\(\); \}', body)):
            raise Unsupported('ScopeGuard is no longer { ctor: beginScope(); dtor: endScope(); }')

    def file_prelude(self):
        return []

    def func(self, d, cname=None, is_method=True):
        body = [k for k in kids(d) if k.get('kind') == 'CompoundStmt'][0]
        top = set()
        for st in kids(body):
            if st.get('kind') == 'DeclStmt':
                for v in kids(st):
                    top.add(v.get('id'))
        guards = []
        walk(body, lambda z: guards.append(z) if z.get('kind') == 'VarDecl' and self.guard_kind(z) else None)
        for g in guards:
            if g.get('id') not in top:
                raise Unsupported('scope-exit guard %s is not declared at the top level of the function body' % g.get('name'))
        self.cleanups = []
        self.exit_label = 'bl_exit' if guards else None
        try:
            head, lines = super().func(d, cname=cname, is_method=is_method)
        finally:
            self.exit_label = None
        if guards:
            assert lines[-1].strip() == '}'
            tail = ['  bl_exit: ;']
            for c in reversed(self.cleanups):
                tail += c
            lines = lines[:-1] + tail + ['}']
        return head, lines

    def guard_kind(self, v):
        t = norm_type(qt(v))
        if re.search(r'ScopeGuard$', t):
            return 'scope'
        init = [i for i in kids(v) if 'kind' in i]
        if init:
            calls = []
            walk(init[0], lambda z: calls.append(callee_name(kids(z)[0])) if z.get('kind') == 'CallExpr' and kids(z) else None)
            if 'makeScopeExit' in calls:
                return 'exit'
        return None

    def decl(self, v):
        gk = self.guard_kind(v)
        if gk == 'scope':
            self.locals.add(v['name'])
            self.cleanups.append(['  nest_endScope();'])
            return 'nest_beginScope();   /* ScopeGuard %s */' % v['name']
        if gk == 'exit':
            lams = []
            walk(v, lambda z: lams.append(z) if z.get('kind') == 'LambdaExpr' else None)
            if len(lams) != 1:
                raise Unsupported('makeScopeExit without a lambda')
            lbody = [k for k in kids(lams[0]) if k.get('kind') == 'CompoundStmt'][-1]
            saved = (self.exit_label, self.needs_prop)
            self.exit_label = None
            rets = []
            walk(lbody, lambda z: rets.append(z) if z.get('kind') in ('ReturnStmt', 'CXXThrowExpr') else None)
            if rets:
                raise Unsupported('scope-exit action returns or throws')
            code = self.stmt(lbody, 1)
            self.exit_label, self.needs_prop = saved
            self.cleanups.append(code)
            self.locals.add(v['name'])
            return '/* scope-exit action %s: runs at bl_exit */;' % v['name']
        return super().decl(v)

    def member(self, n):
        base = kids(n)[0]
        sb = strip(base)
        nm = n['name']
        if sb.get('kind') == 'CXXThisExpr':
            return 'sa_' + nm
        if sb.get('kind') == 'CXXOperatorCallExpr' and callee_name(kids(sb)[0]) == 'operator->' and self.ct(kids(sb)[1]) == 'bl_ast' and nm in ('line', 'column'):
            return 'AST_%s(%s)' % (nm.upper(), self.expr(kids(sb)[1]))
        if self.ct(sb) == 'bl_node':
            return '(%s).%s' % (self.expr(sb), nm)
        raise Unsupported('member %s of %s' % (nm, qt(sb)))

    def opcall(self, n):
        ks = kids(n)
        op = callee_name(ks[0])
        args = ks[1:]
        if op == 'operator->' and self.ct(args[0]) == 'bl_ast':
            return self.expr(args[0])
        raise Unsupported('operator %s on %s' % (op, qt(args[0])))

    def cast_other(self, n, ck, inner):
        if ck in ('PointerToBoolean', 'UserDefinedConversion') and self.ct(inner) == 'bl_ast':
            return '(%s != 0)' % self.expr(inner)
        return super().cast_other(n, ck, inner)

    def membercall(self, n):
        ks = kids(n)
        me = strip(ks[0])
        return self.membercall_other(n, me['name'], kids(me)[0], ks[1:])

    def membercall_other(self, n, name, obj, args):
        so = strip(obj)
        t = self.ct(obj)
        if t == 'bl_ast' and name == 'accept':
            self.needs_prop = True
            return 'nest_accept(%s)' % self.expr(obj)
        if t == 'bl_ast' and name == 'get':
            return self.expr(obj)
        if t == 'bl_ast' and name == 'operator bool':
            return '(%s != 0)' % self.expr(obj)
        if so.get('kind') == 'CXXThisExpr' and name == 'inferTypeInfo' and len(args) == 1:
            self.needs_prop = True
            return 'nest_inferTypeInfo(%s)' % self.expr(args[0])
        if so.get('kind') == 'CXXThisExpr' and name == 'isBooleanLike' and len(args) == 1:
            return 'nest_isBooleanLike(%s)' % self.expr(args[0])
        raise Unsupported('member call %s on %s' % (name, qt(obj)))

    def call_named(self, n, name, args):
        if name == 'isBooleanLike' and len(args) == 1:
            return 'nest_isBooleanLike(%s)' % self.expr(args[0])
        return super().call_named(n, name, args)

    def construct(self, n):
        ct = self.ctype_safe(qt(n))
        args = [a for a in kids(n) if a.get('kind') != 'CXXDefaultArgExpr']
        if ct == 'bl_tinfo' and len(args) == 1:
            return self.expr(args[0])
        raise Unsupported('ctor %s/%d' % (qt(n), len(args)))

    def range_for(self, n, ind):
        # for (auto& stmt : node.statements) ...  ->  index loop
        p = '  ' * ind
        ks = kids(n)
        rng = [k for k in ks if k.get('kind') == 'DeclStmt']
        var = kids(rng[-1])[0]
        rdecl = kids(rng[0])[0]
        init = [i for i in kids(rdecl) if 'kind' in i][0]
        if self.ctype_safe(qt(init)) != 'bl_stmts':
            raise Unsupported('range-for over ' + qt(init))
        seq = self.expr(init)
        k = self.loop_k
        self.loop_k += 1
        iv = 'bl_i%d' % k
        self.locals.add(iv)
        self.locals.add(var['name'])
        out = [p + '/*@BEFORELOOP:%s:%d@*/' % (self.fn, k), p + '{', p + '  size_t %s = 0;' % iv,
               p + '  for (; %s < (%s).size; ++%s)' % (iv, seq, iv), p + '    /*@LOOP:%s:%d@*/' % (self.fn, k), p + '  {',
               p + '    /*@LOOPBODY:%s:%d@*/' % (self.fn, k),
               p + '    bl_ast %s = (%s).data[BL_IDX(%s, SMAXN)];' % (var['name'], seq, iv)]
        body = ks[-1]
        inner = kids(body) if body.get('kind') == 'CompoundStmt' else [body]
        for st in inner:
            out += self.stmt(st, ind + 2)
        out += [p + '  }', p + '}', p + '/*@AFTERLOOP:%s:%d@*/' % (self.fn, k)]
        return out


def lower_regions(docs, prof):
    out = []
    vis = [d for d in cxx2c.find_functions(docs, 'visit') if d.get('kind') in ('CXXMethodDecl', 'FunctionDecl')]
    for site in SITES:
        head = 'void nest_visit_%s(bl_node node)' % site
        try:
            cand = [d for d in vis if any(pd.get('kind') == 'ParmVarDecl' and re.search(r'\b%s\b' % site, qt(pd)) for pd in kids(d))]
            if len(cand) != 1:
                raise Unsupported('visit(%s&): %d definitions' % (site, len(cand)))
            h, lines = prof.func(cand[0], cname='visit_' + site, is_method=False)
            out.append((head, lines))
        except Unsupported as e:
            if not hasattr(prof, 'region_unlowered'):
                prof.region_unlowered = {}
            prof.region_unlowered['visit_' + site] = str(e)
            out.append((head, None))
    return out


GHOSTS = r'''
#define EXC_SEM BL_EXC(BL_Semantic)
int bl_exc, bl_exc_line, bl_exc_col;
_Bool sa_m_inConstructor; int sa_m_constructorFinalAssignmentDepth;
/* ghost: scope depth, number of children analysed, and the smallest nesting / scope depth any child was analysed at */
int g_scope, g_accepts, g_min_nest, g_min_scope, g_nest0, g_scope0;
static inline void nest_beginScope(void) { if (g_scope < 1000000) g_scope++; }
static inline void nest_endScope(void) { g_scope--; }
#ifndef NATIVE
_Bool nondet_bool(void);
int __CPROVER_uninterpreted_ast_line(bl_ast); int __CPROVER_uninterpreted_ast_column(bl_ast); _Bool __CPROVER_uninterpreted_boolean_like(bl_tinfo);
#define AST_LINE(e) __CPROVER_uninterpreted_ast_line(e)
#define AST_COLUMN(e) __CPROVER_uninterpreted_ast_column(e)
static inline _Bool nest_isBooleanLike(bl_tinfo t) { return __CPROVER_uninterpreted_boolean_like(t); }
/* analysis of a child: observed by the ghosts; may raise (Semantic only: assumed, see ASSUMPTIONS); leaves both depths as it found them */
static inline void nest_accept(bl_ast e) {
  if (g_accepts < 1000000) g_accepts++;
  if (sa_m_constructorFinalAssignmentDepth < g_min_nest) g_min_nest = sa_m_constructorFinalAssignmentDepth;
  if (g_scope < g_min_scope) g_min_scope = g_scope;
  if (nondet_bool()) { bl_throw(BL_Semantic, AST_LINE(e), AST_COLUMN(e)); }
}
bl_tinfo nondet_tinfo(void);
static inline bl_tinfo nest_inferTypeInfo(bl_ast e) { if (nondet_bool()) { bl_throw(BL_Semantic, AST_LINE(e), AST_COLUMN(e)); } return nondet_tinfo(); }
#endif
'''


def R(t):
    return ('', 'requires', t, [])


def E(label, t, props, **o):
    return (label, 'ensures', t, props, o)


def A(t):
    return ('', 'assigns', t, [])


PRE = 'bl_exc == 0 && sa_m_constructorFinalAssignmentDepth >= 0 && sa_m_constructorFinalAssignmentDepth < 1000000 && g_scope >= 0 && g_scope < 1000000 && g_accepts == 0 && g_min_nest == 2000000 && g_min_scope == 2000000'
GH = 'bl_exc, bl_exc_line, bl_exc_col, sa_m_constructorFinalAssignmentDepth, g_scope, g_accepts, g_min_nest, g_min_scope, g_nest0, g_scope0'


def site_contract(site, opens_scope, loop=False):
    lab = 'visit_' + site
    c = {'contract': [
        R(PRE + (' && node.statements.size <= SMAXN' if loop else '')), A(GH),
        # C16: nothing inside a compound statement - its header expressions included - is a top-level constructor statement
        E(lab + '.every_part_is_analysed_as_nested', '(sa_m_inConstructor && g_accepts > 0) ==> g_min_nest >= __CPROVER_old(sa_m_constructorFinalAssignmentDepth) + 1', ['C16']),
        # ... and what follows the compound statement is top level again, however the visitor was left
        E(lab + '.nesting_depth_restored_on_every_exit', 'sa_m_constructorFinalAssignmentDepth == __CPROVER_old(sa_m_constructorFinalAssignmentDepth)', ['C16']),
        E(lab + '.only_semantic_errors', 'bl_exc == 0 || bl_exc == EXC_SEM', ['C13']),
        E(lab + '.scope_depth_restored_on_every_exit', 'g_scope == __CPROVER_old(g_scope)', ['C09', 'C16']),
    ] + ([E(lab + '.parts_are_analysed_in_a_scope_of_their_own', '(g_accepts > 0) ==> g_min_scope >= __CPROVER_old(g_scope) + 1', ['C09'])] if opens_scope else []),
        'prologue': 'g_nest0 = sa_m_constructorFinalAssignmentDepth; g_scope0 = g_scope;'}
    if loop:
        c['loops'] = {0: {'assigns': 'bl_i0, bl_exc, bl_exc_line, bl_exc_col, g_accepts, g_min_nest, g_min_scope',
                          'invariants': [(lab + '.loop.bounds', 'bl_i0 <= node.statements.size && bl_exc == 0 && g_scope == g_scope0 + 1 && sa_m_constructorFinalAssignmentDepth == g_nest0 + (sa_m_inConstructor ? 1 : 0)'),
                                         (lab + '.loop.children_so_far_nested', '(g_accepts > 0) ==> ((sa_m_inConstructor ==> g_min_nest >= g_nest0 + 1) && g_min_scope >= g_scope0 + 1)'),
                                         (lab + '.loop.ghost_range', 'g_accepts >= 0 && (g_accepts == 0 ==> (g_min_nest == 2000000 && g_min_scope == 2000000))')],
                          'decreases': 'node.statements.size - bl_i0'}}
    return c


CONTRACTS = {
    'visit_BlockStatement': site_contract('BlockStatement', True, loop=True),
    'visit_IfStatement': site_contract('IfStatement', False),
    'visit_TernaryStatement': site_contract('TernaryStatement', False),
    'visit_ForStatement': site_contract('ForStatement', True),
    'visit_WhileStatement': site_contract('WhileStatement', False),
}
HARNESSES = [dict(name='visit_' + st, fn='visit_' + st, replace=[], flags=[], props=['C16', 'C13', 'C09', 'C12'], timeout=300, unwind=6, bounded_defs=['SMAXN=4'],
                  canaries=[('bl_exc == 0 && g_accepts > 0 && sa_m_inConstructor', 'parts analysed inside a constructor'), ('bl_exc != 0', 'rejected')]) for st in SITES]


from tools import native as _nat


def _oracle():
    bd = _nat.repo_build(('bloch',))
    return _nat.run(['python3', os.path.join(_nat.ROOT, 'native', 'nest_oracle.py'), os.path.join(bd, 'bin', 'bloch'), 'sweep'], timeout=600)


def native_validate(pu, work, tier, seed):
    try:
        rc, out, dt = _oracle()
        js = _nat.last_json(out)
        return dict(unit='NEST', kind='oracle on the real analyser through the CLI (a final field assigned in every position of if / ?: / for / while / block inside a constructor must be rejected; at top level accepted; statements after a compound statement are top level again); no co-execution for this unit', status='agree',
                    oracle_sweep=dict(checks=js.get('oracle_checks'), failures=js.get('oracle_failures'), failing_labels=sorted(set(re.findall(r'FAIL label=(\S+)', out)))), wall_s=round(dt, 1))
    except _nat.Break as e:
        return dict(unit='NEST', status='error', detail=str(e))


def replay_counterexample(pu, h, label, failure, work, tier, seed):
    rc, out, dt = _oracle()
    fails = [l for l in out.split('\n') if l.startswith('FAIL ')]
    same = [l for l in fails if label and ('label=' + label + ' ') in l]
    pick = same or [l for l in fails if ('label=' + h['fn'] + '.') in l]
    if pick:
        m = re.search(r'label=(\S+)', pick[0])
        return dict(failing_input_found=True, failing_input=pick[0][:1200], native_failures=[f[:300] for f in fails[:4]], oracle_label=m.group(1), signature=re.sub(r' program=.*', '', pick[0])[:160],
                    reproduce_args=['sweep'], reproduce='bin/check <property> --replay <this file>', replay_inputs_tried=['sweep'], matched_same_obligation=bool(same))
    return dict(failing_input_found=False, replay_inputs_tried=['sweep'], signature='')


def run_reproduce(rec, work):
    rc, out, dt = _oracle()
    print(out)
    return 1 if rc else 0
