"""Unit SIGS — compiler/semantics/semantic_analyser.cpp: the function pre-declaration loop of
SemanticAnalyser::analyse (C10 kernel: acceptance must not depend on where a function is declared,
so every signature has to be on record before any body is analysed)."""
import re, os
from tools import cxx2c
from tools.cxx2c import Lower, Unsupported, kids, qt, qt_sugar, strip, strip_parens, callee_name, norm_type, walk
from tools.cxx2c import REPO as _REPO

NAME = 'SIGS'
SRC = _REPO + '/src/bloch/compiler/semantics/semantic_analyser.cpp'
NAMESPACE = 'bloch::compiler'
FUNCS = []
AST_FILTER = ['SemanticAnalyser::analyse']
SHIM = 'sigs.h'
THROWING = {'predeclare'}
DROPS = ['region: the range-for over program.functions in SemanticAnalyser::analyse ("Predeclare functions"); everything else in analyse is not lowered',
         'FunctionDeclaration is {name, line, column, returnType id, params}; names and AST types are interned ids; typeFromAst is an uninterpreted function',
         'the set m_functions and the map m_functionInfo are ghost state observed at ONE arbitrary name (g_name): "declared" flag, "has signature" flag and parameter count']
ASSUMPTIONS = ['isFunctionDeclared answers from the ghost set (built-in gate names are a fixed uninterpreted predicate)',
               'the class half of C10 (layout / vtable copied from a base that is declared later) lives in buildClassTable over unordered_map of shared_ptr and is out of reach']


class Profile(Lower):
    CLS = 'sigs'
    SELF_T = ''
    IS_METHOD = False
    WRAP_DOUBLE_OPS = False
    TYPE_MAP = [
        (r'^std::vector<std::unique_ptr<(bloch::compiler::)?FunctionDeclaration>>$', 'vec_Fn'),
        (r'^std::unique_ptr<(bloch::compiler::)?FunctionDeclaration>$', 'FunctionDeclaration'),
        (r'^std::vector<std::unique_ptr<(bloch::compiler::)?Parameter>>$', 'vec_Param'),
        (r'^std::unique_ptr<(bloch::compiler::)?Parameter>$', 'Parameter'),
        (r'^std::unique_ptr<(bloch::compiler::)?Type>$', 'int'),
        (r'^(bloch::compiler::)?Type \*$', 'int'),
        (r'^(bloch::compiler::)?Program$', 'Program'),
        (r'^(bloch::compiler::)?(SemanticAnalyser::)?TypeInfo$', 'TypeInfo'),
        (r'^(bloch::compiler::)?(SemanticAnalyser::)?FunctionInfo$', 'FunctionInfo'),
        (r'^std::vector<(bloch::compiler::)?(SemanticAnalyser::)?TypeInfo>$', 'vec_TI'),
        (r'^(std::)?(basic_string<char.*>|string)$', 'bl_cname'),
    ]

    def string_literal(self, n):
        return '0 /* message text dropped */'

    def opcall(self, n):
        ks = kids(n)
        op = callee_name(ks[0])
        args = ks[1:]
        t0 = self.ct(args[0])
        if op == 'operator->' and t0 in ('FunctionDeclaration', 'Parameter'):
            return self.expr(args[0])
        if op == 'operator+' and self.ct(n) == 'bl_cname':
            return '0 /* message text dropped */'
        if op == 'operator=' and strip_parens(args[0]).get('kind') == 'CXXOperatorCallExpr' and callee_name(kids(strip_parens(args[0]))[0]) == 'operator[]' and 'unordered_map' in qt(kids(strip_parens(args[0]))[1]):
            m = strip_parens(args[0])
            return 'sigs_map_put(%s, %s)' % (self.expr(kids(m)[2]), self.expr(args[1]))
        if op == 'operator=' and t0 in ('TypeInfo', 'FunctionInfo'):
            return '(%s = %s)' % (self.expr(args[0]), self.expr(args[1]))
        raise Unsupported('operator %s on %s' % (op, qt(args[0])))

    def member(self, n):
        base = kids(n)[0]
        sb = strip(base)
        if sb.get('kind') == 'CXXOperatorCallExpr' and callee_name(kids(sb)[0]) == 'operator->':
            return '(%s).%s' % (self.expr(sb), n['name'])
        return super().member(n)

    def membercall_other(self, n, name, obj, args):
        t = self.ct(obj)
        if name == 'get' and 'unique_ptr' in qt(obj):
            return self.expr(obj)
        o = self.expr(obj)
        if t == 'vec_TI' and name == 'push_back' and len(args) == 1:
            return 'sigs_vec_push(&%s, %s)' % (o, self.expr(args[0]))
        raise Unsupported('member call %s on %s' % (name, qt(obj)))

    def membercall(self, n):
        ks = kids(n)
        me = strip(ks[0])
        if strip(kids(me)[0]).get('kind') == 'CXXThisExpr':
            name = me['name']
            args = ks[1:]
            if name == 'isFunctionDeclared':
                return 'sigs_isFunctionDeclared(%s)' % self.expr(args[0])
            if name == 'declareFunction':
                return 'sigs_declareFunction(%s)' % self.expr(args[0])
            if name == 'typeFromAst':
                return 'sigs_typeFromAst(%s)' % self.expr(args[0])
            raise Unsupported('analyser member ' + name)
        return super().membercall(n)

    def construct(self, n):
        ct = self.ctype(qt(n))
        args = [a for a in kids(n) if a.get('kind') != 'CXXDefaultArgExpr']
        if ct == 'FunctionInfo' and not args:
            return '(FunctionInfo){0}'
        if ct in ('TypeInfo', 'FunctionInfo') and len(args) == 1 and self.ct(args[0]) == ct:
            return self.expr(args[0])
        raise Unsupported('ctor %s/%d' % (ct, len(args)))

    def range_for(self, n, ind):
        ks = [k for k in n['inner']]
        rangevar = loopvar = None
        for k in ks:
            if k.get('kind') == 'DeclStmt':
                for v in kids(k):
                    if v.get('name', '').startswith('__range'):
                        rangevar = v
                    elif v.get('kind') == 'VarDecl' and not v.get('name', '').startswith('__'):
                        loopvar = v
        if rangevar is None or loopvar is None:
            raise Unsupported('range-for shape')
        rng = strip(kids(rangevar)[0])
        t = self.ct(rng)
        if t not in ('vec_Fn', 'vec_Param'):
            raise Unsupported('range-for over ' + qt(rng))
        el = 'FunctionDeclaration' if t == 'vec_Fn' else 'Parameter'
        p = '  ' * ind
        k = self.loop_marker(p)
        iv = '__i%d' % k
        self.locals.add(loopvar['name'])
        out = [p + '/*@BEFORELOOP:%s:%d@*/' % (self.fn, k), p + '{', p + '  size_t %s = 0;' % iv,
               p + '  for (; %s < VEC_SIZE(%s); ++%s)' % (iv, self.expr(rng), iv), p + '    /*@LOOP:%s:%d@*/' % (self.fn, k), p + '  {',
               p + '    /*@LOOPBODY:%s:%d@*/' % (self.fn, k),
               p + ('    %s %s = VEC_AT(%s, %s);' if t == 'vec_Fn' else '    %s %s = sigs_param_at(%s, %s);') % (el, loopvar['name'], self.expr(rng), iv)]
        out += self.block(ks[-1], ind + 2)
        out += [p + '  }', p + '}', p + '/*@AFTERLOOP:%s:%d@*/' % (self.fn, k)]
        return out


def lower_regions(docs, prof):
    ds = cxx2c.find_functions(docs, 'analyse')
    if len(ds) != 1:
        raise Unsupported('analyse: %d definitions' % len(ds))
    body = [k for k in kids(ds[0]) if k.get('kind') == 'CompoundStmt'][0]
    found = []
    for s in kids(body):
        if s.get('kind') == 'CXXForRangeStmt':
            rv = [v for k in kids(s) if k.get('kind') == 'DeclStmt' for v in kids(k) if v.get('name', '').startswith('__range')]
            if rv and strip(kids(rv[0])[0]).get('kind') == 'MemberExpr' and strip(kids(rv[0])[0]).get('name') == 'functions':
                calls = []
                walk(s, lambda z: calls.append(z) if z.get('kind') == 'MemberExpr' and z.get('name') == 'declareFunction' else None)
                if calls:
                    found.append(s)
    if len(found) != 1:
        raise Unsupported('pre-declaration loop over program.functions: %d candidates' % len(found))
    body2 = dict(body)
    body2['inner'] = [found[0]]
    d = dict(kind='FunctionDecl', name='predeclare', type=dict(qualType='void ()'), inner=[body2])
    head, lines = prof.func(d, cname='predeclare', is_method=False)
    return [('void sigs_predeclare(Program program)', lines)]


# =========================================================================== sidecar contracts
GHOSTS = r'''
#define EXC_SEM BL_EXC(BL_Semantic)
int bl_exc, bl_exc_line, bl_exc_col;
size_t gk;                       /* ghost: an arbitrary function of the program */
bl_cname g_name;                 /* ghost: its name - the one name at which the analyser's tables are observed */
_Bool g_declared, g_sig_has; size_t g_sig_nparams; int g_sig_ret, g_want_ret, g_fn_ret;
#ifndef NATIVE
_Bool __CPROVER_uninterpreted_is_builtin(bl_cname); int __CPROVER_uninterpreted_type_from_ast(int);
#define IS_BUILTIN(n) __CPROVER_uninterpreted_is_builtin(n)
#define TYPE_OF(a) __CPROVER_uninterpreted_type_from_ast(a)
#endif
static inline _Bool sigs_isFunctionDeclared(bl_cname n) { return (n == g_name && g_declared) || IS_BUILTIN(n) || (n != g_name && nondet_other_declared(n)); }
static inline void sigs_declareFunction(bl_cname n) { if (n == g_name) g_declared = 1; }
int __CPROVER_uninterpreted_param_type(long, size_t);
static inline Parameter sigs_param_at(vec_Param v, size_t i) { Parameter p; bl_bounds(i < v.size); p.type = __CPROVER_uninterpreted_param_type(v.id, i); return p; }
static inline TypeInfo sigs_typeFromAst(int a) { TypeInfo t; t.id = TYPE_OF(a); return t; }
static inline void sigs_vec_push(vec_TI *v, TypeInfo t) { if (v->size < 1000000) v->size++; v->last = t.id; }
static inline void sigs_map_put(bl_cname n, FunctionInfo info) { if (n == g_name) { g_sig_has = 1; g_sig_nparams = info.paramTypes.size; g_sig_ret = info.returnType.id; } }
'''
GHOSTS = GHOSTS.replace('int bl_exc, bl_exc_line, bl_exc_col;', '_Bool nondet_other_declared(bl_cname);\nint bl_exc, bl_exc_line, bl_exc_col;')
RET = '__CPROVER_return_value'


def R(t):
    return ('', 'requires', t, [])


def E(label, t, props, **o):
    return (label, 'ensures', t, props, o)


def A(t):
    return ('', 'assigns', t, [])


FN = 'program.functions'
CONTRACTS = {
    'predeclare': {
        'contract': [
            R('%s.size <= FMAX && gk < %s.size && bl_exc == 0 && !g_declared && !g_sig_has' % (FN, FN)),
            R('__CPROVER_is_fresh(%s.data, FMAX * sizeof(FunctionDeclaration))' % FN),
            R('%s.data[gk].name == g_name && !IS_BUILTIN(g_name) && %s.data[gk].params.size <= 16' % (FN, FN)),
            A('bl_exc, bl_exc_line, bl_exc_col, g_declared, g_sig_has, g_sig_nparams, g_sig_ret, g_want_ret, g_fn_ret'),
            E('analyse.predeclare.only_semantic_errors', 'bl_exc == 0 || bl_exc == EXC_SEM', ['C10', 'C13']),
            E('analyse.predeclare.every_name_declared', '(bl_exc == 0) ==> g_declared', ['C10']),
            # the property (C10): after pre-declaration the signature of EVERY function is on record, so no later check can
            # depend on whether the declaration textually precedes the use
            E('analyse.predeclare.signatures_complete', '(bl_exc == 0) ==> (g_sig_has && g_sig_nparams == %s.data[gk].params.size && g_sig_ret == TYPE_OF(%s.data[gk].returnType))' % (FN, FN), ['C10']),
        ],
        'loops': {0: {'assigns': '__i0, bl_exc, bl_exc_line, bl_exc_col, g_declared, g_sig_has, g_sig_nparams, g_sig_ret, g_fn_ret',
                      'invariants': [('analyse.predeclare.loop.bounds', '__i0 <= %s.size && bl_exc == 0' % FN),
                                     ('analyse.predeclare.loop.prefix_declared', '(gk < __i0) ==> g_declared'),
                                     ('analyse.predeclare.loop.prefix_signatures_recorded', '(gk < __i0) ==> (g_sig_has && g_sig_nparams == %s.data[gk].params.size && g_sig_ret == g_want_ret)' % FN)],
                      'decreases': '%s.size - __i0' % FN},
                  # the parameter loop of one function: one recorded type per parameter
                  1: {'assigns': '__i1, info',
                      'invariants': [('analyse.predeclare.params.bounds', '__i1 <= fn.params.size && info.returnType.id == g_fn_ret'),
                                     ('analyse.predeclare.params.one_type_per_parameter', '(__i0 == gk) ==> (info.paramTypes.size == __i1)')],
                      'decreases': 'fn.params.size - __i1',
                      'before': 'g_fn_ret = info.returnType.id;'}},
        'prologue': 'g_want_ret = TYPE_OF(%s.data[gk].returnType);' % FN,
    },
}
HARNESSES = [
    dict(name='predeclare', fn='predeclare', replace=[], flags=[], props=['C10', 'C13'], timeout=300, bounded_defs=['FMAX=3'], unwind=5, canaries=[('bl_exc == 0', 'normal return'), ('bl_exc != 0', 'duplicate name rejected')]),
]


# =========================================================================== native side
from tools import native as _nat


def _oracle():
    bd = _nat.repo_build(('bloch',))
    return _nat.run(['python3', os.path.join(_nat.ROOT, 'native', 'sigs_oracle.py'), os.path.join(bd, 'bin', 'bloch'), 'sweep'], timeout=600)


def native_validate(pu, work, tier, seed):
    try:
        rc, out, dt = _oracle()
        js = _nat.last_json(out)
        return dict(unit='SIGS', kind='oracle on the real front end (every permutation of the top-level functions of small programs must give the same outcome); no co-execution for this unit', status='agree',
                    oracle_sweep=dict(checks=js.get('oracle_checks'), failures=js.get('oracle_failures'), failing_labels=sorted(set(re.findall(r'FAIL label=(\S+)', out)))), wall_s=round(dt, 1))
    except _nat.Break as e:
        return dict(unit='SIGS', status='error', detail=str(e))


def replay_counterexample(pu, h, label, failure, work, tier, seed):
    rc, out, dt = _oracle()
    fails = [l for l in out.split('\n') if l.startswith('FAIL ')]
    if fails:
        m = re.search(r'label=(\S+)', fails[0])
        return dict(failing_input_found=True, failing_input=fails[0], native_failures=fails[:3], oracle_label=m.group(1), signature='forward call checked against a signature that is not on record yet',
                    reproduce_args=['sweep'], reproduce='bin/check <property> --replay <this file>', replay_inputs_tried=['sweep'], matched_same_obligation=(m.group(1) == label))
    return dict(failing_input_found=False, replay_inputs_tried=['sweep'], signature='')


def run_reproduce(rec, work):
    rc, out, dt = _oracle()
    print(out)
    return 1 if rc else 0
