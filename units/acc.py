"""Unit ACC — compiler/semantics/semantic_analyser.cpp: every accessibility check written inside a visitor method,
`if (!isAccessible(X->visibility, <owner>, m_currentClass)) throw ...`.  C16: private members are accessible only in
their DECLARING class, protected ones there and in subclasses - so the check has to be made against the visibility and
the owner of the member that was found (not, say, the class of the receiver)."""
import re, os
from tools import cxx2c
from tools.cxx2c import Lower, Unsupported, kids, qt, qt_sugar, strip, strip_parens, callee_name, norm_type, walk
from tools.cxx2c import REPO as _REPO

NAME = 'ACC'
SRC = _REPO + '/src/bloch/compiler/semantics/semantic_analyser.cpp'
NAMESPACE = 'bloch::compiler'
FUNCS = []
AST_FILTER = ['SemanticAnalyser::visit']
SHIM = 'acc.h'
THROWING = set()
DROPS = ['one region per site: each `if (!isAccessible(a, b, c)) <throw>` statement found in a SemanticAnalyser::visit method whose first argument is `X->visibility` of a member record X (field / method info); the three arguments are translated from the AST (member records and class records become value parameters {visibility, owner, name}, m_currentClass a parameter); the diagnostic position and text are dropped',
         'sites whose first argument is the visibility of a CONSTRUCTOR entry are not lowered: they pass the name of the class whose constructor list is being searched, which is the constructor\'s owner by construction of that list (not expressible per site)',
         'isAccessible is the relation proved for the real function in unit SEMK (public always; private: owner only; protected: owner or a subclass of it; the class hierarchy is uninterpreted)']
ASSUMPTIONS = ['the member record X is the one the visitor looked up for the accessed name (what is looked up is outside these regions)']


class Profile(Lower):
    CLS = 'acc'
    SELF_T = ''
    IS_METHOD = False
    WRAP_DOUBLE_OPS = False
    TYPE_MAP = []

    def file_prelude(self):
        return []


def _root(n):
    """(root variable name, member name) of X->m / X.m, or None"""
    n = strip_parens(strip(n))
    if n.get('kind') != 'MemberExpr':
        return None
    b = strip_parens(strip(kids(n)[0]))
    while b.get('kind') in ('ImplicitCastExpr', 'CXXOperatorCallExpr', 'UnaryOperator') and kids(b):
        if b.get('kind') == 'CXXOperatorCallExpr':
            b = strip_parens(strip(kids(b)[1]))
        else:
            b = strip_parens(strip(kids(b)[0]))
    if b.get('kind') == 'DeclRefExpr':
        return b['referencedDecl']['name'], n['name']
    if b.get('kind') == 'CXXThisExpr':
        return 'this', n['name']
    return None


def _arg_c(a, recs):
    r = _root(a)
    if r is None:
        raise Unsupported('accessibility argument of an unexpected shape: ' + str(strip_parens(strip(a)).get('kind')))
    root, mem = r
    if root == 'this':
        if mem != 'm_currentClass':
            raise Unsupported('accessibility argument this->' + mem)
        return 'sa_m_currentClass'
    if mem not in ('visibility', 'owner', 'name'):
        raise Unsupported('accessibility argument %s.%s' % (root, mem))
    if root not in recs:
        recs.append(root)
    return 'r_%s.%s' % (root, mem)


def lower_regions(docs, prof):
    out = []
    vis = [d for d in cxx2c.find_functions(docs, 'visit') if d.get('kind') in ('CXXMethodDecl', 'FunctionDecl')]
    sites = []
    for d in vis:
        ptype = ''
        for pd in kids(d):
            if pd.get('kind') == 'ParmVarDecl':
                ptype = re.sub(r'[^A-Za-z]', '', qt(pd).split('::')[-1])
        ifs = []
        walk(d, lambda z: ifs.append(z) if z.get('kind') == 'IfStmt' else None)
        k = 0
        for st in ifs:
            c = strip_parens(strip(kids(st)[0]))
            if c.get('kind') != 'UnaryOperator' or c.get('opcode') != '!':
                continue
            call = strip_parens(strip(kids(c)[0]))
            if call.get('kind') != 'CXXMemberCallExpr' or strip(kids(call)[0]).get('name') != 'isAccessible':
                continue
            sites.append(('%s_%d' % (ptype, k), call, st))
            k += 1
    if len(sites) < 3:
        prof.region_unlowered = {'sites': 'fewer than three accessibility checks found in the visitors (%d)' % len(sites)}
        return [('void acc_none(void)', None)]
    prof.sites = []
    for name, call, st in sites:
        args = kids(call)[1:]
        try:
            if len(args) != 3:
                raise Unsupported('isAccessible with %d arguments' % len(args))
            r0 = _root(args[0])
            if r0 is None or r0[1] != 'visibility':
                raise Unsupported('first argument is not X->visibility')
            if 'ctor' in r0[0].lower():
                continue                      # constructor site: see DROPS
            recs = []
            a = [_arg_c(x, recs) for x in args]
            thr = []
            walk(kids(st)[1], lambda z: thr.append(z) if z.get('kind') == 'CXXThrowExpr' else None)
            if len(thr) != 1 or len(kids(st)) != 2:
                raise Unsupported('the refusal is no longer a single throw without an else branch')
            params = ', '.join(['Rec r_%s' % r for r in recs] + ['bl_cname sa_m_currentClass'])
            head = 'void acc_site_%s(%s)' % (name, params)
            lines = ['/*@CONTRACT:site_%s@*/' % name, '{', '  /*@PROLOGUE:site_%s@*/' % name,
                     '  if (!acc_isAccessible(%s, %s, %s))' % tuple(a), '  {', '    { bl_throw(BL_Semantic, 0, 0); return ; }', '  }', '}']
            prof.fn_locals['site_' + name] = set()
            prof.fn_loops['site_' + name] = 0
            prof.sites.append((name, r0[0], recs))
            if (name, r0[0]) not in SITES:
                raise Unsupported('accessibility site %s (member %s) is not in the registered list' % (name, r0[0]))
            out.append((head, lines))
        except Unsupported as e:
            if not hasattr(prof, 'region_unlowered'):
                prof.region_unlowered = {}
            prof.region_unlowered['site_' + name] = str(e)
            out.append(('void acc_site_%s(void)' % name, None))
    return out


GHOSTS = r"""
int bl_exc, bl_exc_line, bl_exc_col;
#define EXC_SEM BL_EXC(BL_Semantic)
#ifndef NATIVE
_Bool __CPROVER_uninterpreted_is_subclass(bl_cname, bl_cname);
#define SUBCLASS(a, b) __CPROVER_uninterpreted_is_subclass(a, b)
#define ACC(v, o, a) ((v) == BL_Public || ((v) == BL_Private && (o) == (a)) || ((v) == BL_Protected && (a) != 0 && ((a) == (o) || ((o) != 0 && SUBCLASS(a, o)))))
static inline _Bool acc_isAccessible(int v, bl_cname o, bl_cname a) { return ACC(v, o, a); }
#endif
"""


def R(t):
    return ('', 'requires', t, [])


def E(label, t, props, **o):
    return (label, 'ensures', t, props, o)


def A(t):
    return ('', 'assigns', t, [])


def site_contract(name, member):
    lab = 'access.' + name
    return {'contract': [
        R('bl_exc == 0 && (r_%s.visibility == BL_Public || r_%s.visibility == BL_Private || r_%s.visibility == BL_Protected)' % (member, member, member)), A('bl_exc, bl_exc_line, bl_exc_col'),
        # C16: the member is refused exactly when it is not accessible from the current class per ITS OWN visibility and ITS OWN declaring class
        E(lab + '.inaccessible_member_is_refused', '!ACC(r_%s.visibility, r_%s.owner, sa_m_currentClass) ==> bl_exc == EXC_SEM' % (member, member), ['C16']),
        E(lab + '.accessible_member_is_not_refused', 'ACC(r_%s.visibility, r_%s.owner, sa_m_currentClass) ==> bl_exc == 0' % (member, member), ['C16']),
    ]}


# the sites are discovered on every run and must be exactly these (a vanished or reshaped site is an extraction break, a new one is reported as unlowered)
SITES = [('CallExpression_0', 'methodInfo'), ('CallExpression_1', 'method'), ('MemberAccessExpression_0', 'field'), ('MemberAccessExpression_1', 'method'), ('MemberAssignmentExpression_0', 'field')]
CONTRACTS = {'site_' + n: site_contract(n, m) for n, m in SITES}
HARNESSES = [dict(name='site_' + n, fn='site_' + n, replace=[], flags=[], props=['C16', 'C12'], timeout=120, canaries=[('bl_exc == 0', 'allowed'), ('bl_exc != 0', 'refused')]) for n, m in SITES]


from tools import native as _nat


def _oracle():
    bd = _nat.repo_build(('bloch',))
    return _nat.run(['python3', os.path.join(_nat.ROOT, 'native', 'acc_oracle.py'), os.path.join(bd, 'bin', 'bloch'), 'sweep'], timeout=600)


def native_validate(pu, work, tier, seed):
    try:
        rc, out, dt = _oracle()
        js = _nat.last_json(out)
        return dict(unit='ACC', kind='oracle on the real analyser through the CLI (private / protected / public fields and methods of a base class reached from the base, a subclass, an unrelated class and a free function, through this, a typed receiver and a bare name); no co-execution for this unit', status='agree',
                    oracle_sweep=dict(checks=js.get('oracle_checks'), failures=js.get('oracle_failures'), failing_labels=sorted(set(re.findall(r'FAIL label=(\S+)', out)))), wall_s=round(dt, 1))
    except _nat.Break as e:
        return dict(unit='ACC', status='error', detail=str(e))


def replay_counterexample(pu, h, label, failure, work, tier, seed):
    rc, out, dt = _oracle()
    fails = [l for l in out.split('\n') if l.startswith('FAIL ')]
    if fails:
        return dict(failing_input_found=True, failing_input=fails[0][:1200], native_failures=[f[:300] for f in fails[:4]], oracle_label=label, signature=re.sub(r' program=.*', '', fails[0])[:160],
                    reproduce_args=['sweep'], reproduce='bin/check <property> --replay <this file>', replay_inputs_tried=['sweep'], matched_same_obligation=True)
    return dict(failing_input_found=False, replay_inputs_tried=['sweep'], signature='')


def run_reproduce(rec, work):
    rc, out, dt = _oracle()
    print(out)
    return 1 if rc else 0
