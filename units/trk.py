"""Unit TRK — runtime/runtime_evaluator.cpp: @tracked outcome recording of RuntimeEvaluator
(recordTrackedValue, endScope) — C17: every scope exit (or owner destruction) of a tracked qubit / qubit[]
contributes exactly one outcome; the outcome is the bit string of the last measurement of each element in
index order, or "?" if any element is unmeasured."""
import re, os
from tools import cxx2c
from tools.cxx2c import Lower, Unsupported, kids, qt, qt_sugar, strip, strip_parens, callee_name, norm_type, walk
from tools.cxx2c import REPO as _REPO

NAME = 'TRK'
SRC = _REPO + '/src/bloch/runtime/runtime_evaluator.cpp'
NAMESPACE = 'bloch::runtime'
FUNCS = ['recordTrackedValue', 'endScope']
AST_FILTER = ['RuntimeEvaluator::recordTrackedValue', 'RuntimeEvaluator::endScope', 'bloch::runtime::Value']
SHIM = 'trk.h'
THROWING = set()
DROPS = ['std::string: a text is (literal id) + (interned name) + (at most AMAX built characters); concatenation is lowered only for literal + name, push_back only on a pure character buffer (anything else traps as "outside the model")',
         'm_trackedCounts[key][outcome]++ : a ghost record of the increments (how many, and key / outcome of the observed one)',
         'the scope being closed (an unordered_map) is an array of (name, entry) pairs in arbitrary order; m_env is its size',
         'Value members other than type, qubit, qubitArray']
ASSUMPTIONS = ['iteration order over an unordered_map is arbitrary: the contract is stated per entry (ghost entry index), so it holds for every order',
               'AMAX = 64 elements per qubit array, EMAX = 8 entries per scope: object-size bounds']


class Profile(Lower):
    CLS = 'trk'
    SELF_T = ''
    IS_METHOD = False
    WRAP_DOUBLE_OPS = False
    TYPE_MAP = [
        (r'^(bloch::runtime::)?Value$', 'Value'),
        (r'^(bloch::runtime::)?Value::Type$', 'int'),
        (r'^std::vector<int>$', 'vec_int'),
        (r'^(std::)?(basic_string<char.*>|string)$', 'bl_str'),
        (r'^(bloch::runtime::)?(RuntimeEvaluator::)?VarEntry$', 'VarEntry'),
        (r'^std::pair<const std::(basic_string<char.*>|string), (bloch::runtime::)?(RuntimeEvaluator::)?VarEntry>$', 'ScopeKV'),
    ]

    def __init__(self, *a, **k):
        super().__init__(*a, **k)
        self.lits = []

    def prepare(self, docs, workdir):
        recs = [d for d in docs if d.get('kind') == 'CXXRecordDecl' and d.get('name') == 'Value' and d.get('completeDefinition')]
        if len(recs) != 1:
            raise Unsupported('struct Value: %d definitions' % len(recs))
        self.tagenum = []
        for f in kids(recs[0]):
            if f.get('kind') == 'EnumDecl' and f.get('name') == 'Type':
                self.tagenum = [c['name'] for c in kids(f) if c.get('kind') == 'EnumConstantDecl']
        if not self.tagenum:
            raise Unsupported('Value::Type not found')

    def file_prelude(self):
        return ['enum { %s };' % ', '.join('BL_' + e for e in self.tagenum),
                'typedef struct { int type; int qubit; vec_int qubitArray; } Value;',
                'typedef struct { Value value; _Bool tracked; _Bool initialized; } VarEntry;',
                'typedef struct { bl_str first; VarEntry second; } ScopeKV;',
                '/* literal ids: %s */' % ', '.join('%d=%s' % (i + 1, l) for i, l in enumerate(self.lits))]

    def lit_id(self, value):
        if value not in self.lits:
            self.lits.append(value)
        return self.lits.index(value) + 1

    def subst(self, text):
        def rep(m):
            return str(self.lit_id(m.group(1)))
        return re.sub(r'SLIT\(("(?:[^"\\]|\\.)*")\)', rep, text)

    def declref(self, n):
        rd = n['referencedDecl']
        if rd.get('kind') == 'EnumConstantDecl':
            return 'BL_' + rd['name']
        return super().declref(n)

    def string_literal(self, n):
        return 'bl_str_lit(%d)' % self.lit_id(n['value'])

    def member(self, n):
        base = kids(n)[0]
        sb = strip(base)
        if sb.get('kind') == 'CXXThisExpr':
            return 'ev_' + n['name']
        return super().member(n)

    def cast(self, n):
        # const char* (array decay of a string literal) keeps the literal form; conversion to std::string is the identity here
        if n.get('castKind') == 'ArrayToPointerDecay' and strip_parens(kids(n)[0]).get('kind') == 'StringLiteral':
            return self.expr(kids(n)[0])
        return super().cast(n)

    def construct(self, n):
        ct = self.ctype_safe(qt(n))
        args = [a for a in kids(n) if a.get('kind') != 'CXXDefaultArgExpr']
        if ct == 'bl_str':
            if not args:
                return 'bl_str_lit(0)'
            if len(args) == 1:
                return self.expr(args[0])
        raise Unsupported('ctor %s/%d' % (qt(n), len(args)))

    def opcall(self, n):
        ks = kids(n)
        op = callee_name(ks[0])
        args = ks[1:]
        t0 = self.ct(args[0])
        if op == 'operator[]' and t0 == 'vec_int':
            return 'VEC_AT(%s, %s)' % (self.expr(args[0]), self.expr(args[1]))
        if op == 'operator=' and t0 == 'bl_str':
            return '(%s = %s)' % (self.expr(args[0]), self.expr(args[1]))
        if op == 'operator+' and self.ct(n) == 'bl_str':
            return 'bl_str_concat(%s, %s)' % (self.expr(args[0]), self.expr(args[1]))
        raise Unsupported('operator %s on %s' % (op, qt(args[0])))

    def unary(self, n):
        if n.get('opcode') == '++':
            inner = strip_parens(kids(n)[0])
            # m_trackedCounts[key][outcome]++
            if inner.get('kind') == 'CXXOperatorCallExpr' and callee_name(kids(inner)[0]) == 'operator[]':
                m2, outc = kids(inner)[1], kids(inner)[2]
                m2s = strip_parens(m2)
                if m2s.get('kind') == 'CXXOperatorCallExpr' and callee_name(kids(m2s)[0]) == 'operator[]':
                    m1, key = kids(m2s)[1], kids(m2s)[2]
                    if strip(m1).get('kind') == 'MemberExpr' and strip(m1).get('name') == 'm_trackedCounts':
                        return 'trk_count_inc(%s, %s)' % (self.expr(key), self.expr(outc))
                raise Unsupported('++ on a map element other than m_trackedCounts[key][outcome]')
        return super().unary(n)

    def expr(self, n):
        # cond ? "1" : "0"   (const char* conditional that is then converted to std::string)
        if n.get('kind') == 'ConditionalOperator' and 'char' in qt(n):
            c, a, b = kids(n)
            return '(%s ? %s : %s)' % (self.expr(c), self.expr(a), self.expr(b))
        return super().expr(n)

    def membercall_other(self, n, name, obj, args):
        so = strip(obj)
        t = self.ct(obj)
        if so.get('kind') == 'MemberExpr' and so.get('name') == 'm_env':
            if name == 'empty':
                return '(g_env_size == 0)'
            if name == 'pop_back':
                return '(g_env_size = g_env_size - 1)'
            if name == 'back':
                return 'BL_TOP_SCOPE'
        o = self.expr(obj)
        if t == 'vec_int' and name == 'size':
            return 'VEC_SIZE(%s)' % o
        if t == 'bl_str' and name == 'push_back' and len(args) == 1:
            return 'bl_str_push_back(&%s, %s)' % (o, self.expr(args[0]))
        raise Unsupported('member call %s on %s' % (name, qt(obj)))

    def membercall(self, n):
        ks = kids(n)
        me = strip(ks[0])
        return self.membercall_other(n, me['name'], kids(me)[0], ks[1:])

    def decl(self, v):
        t = qt(v)
        ctp = self.ctype_safe(t)
        if ctp == 'bl_str' and not [i for i in kids(v) if 'kind' in i and not (i.get('kind') == 'CXXConstructExpr' and not kids(i))]:
            self.locals.add(v['name'])
            return 'bl_str %s = bl_str_lit(0);' % v['name']
        return super().decl(v)

    def range_for(self, n, ind):
        ks = [k for k in n['inner']]
        rangevar = loopvar = None
        body = ks[-1]
        for k in ks:
            if k.get('kind') == 'DeclStmt':
                for v in kids(k):
                    if v.get('name', '').startswith('__range'):
                        rangevar = v
                    elif v.get('kind') == 'VarDecl' and not v.get('name', '').startswith('__'):
                        loopvar = v
        if rangevar is None or loopvar is None:
            raise Unsupported('range-for shape')
        rng = strip(kids(rangevar)[0])
        p = '  ' * ind
        k = self.loop_marker(p)
        iv = 'bl_i%d' % k
        self.locals.add(iv)
        self.locals.add(loopvar['name'])
        rs = self.expr(rng)
        if self.ct(rng) == 'vec_int':
            size, elem, et = 'VEC_SIZE(%s)' % rs, 'VEC_AT(%s, %s)' % (rs, iv), 'int'
        elif rs == 'BL_TOP_SCOPE':
            size, elem, et = 'g_scope_n', 'g_scope[BL_IDX(%s, EMAX)]' % iv, 'ScopeKV'
        else:
            raise Unsupported('range-for over ' + qt(rng))
        out = [p + '/*@BEFORELOOP:%s:%d@*/' % (self.fn, k), p + '{', p + '  size_t %s = 0;' % iv,
               p + '  for (; %s < %s; ++%s)' % (iv, size, iv),
               p + '    /*@LOOP:%s:%d@*/' % (self.fn, k), p + '  {',
               p + '    /*@LOOPBODY:%s:%d@*/' % (self.fn, k),
               p + '    %s %s = %s;' % (et, loopvar['name'], elem)]
        out += self.block(body, ind + 2)
        out += [p + '  }', p + '}', p + '/*@AFTERLOOP:%s:%d@*/' % (self.fn, k)]
        return out



AMAXN = 8
EMAXN = 8


def _conj(fmt, n):
    return ' && '.join('(' + fmt.replace('J', str(j)) + ')' for j in range(n))


GHOSTS = r"""
int bl_exc, bl_exc_line, bl_exc_col;
#ifndef NQ
#define NQ 24
#endif
vec_int ev_m_lastMeasurement;
size_t g_env_size; ScopeKV g_scope[EMAX]; size_t g_scope_n;       /* the scope stack size and the scope being closed */
size_t g_cur_entry, g_ei;            /* ghost: the entry being processed / the observed entry */
int g_inc_total, g_inc_obs; bl_str g_obs_key, g_obs_outcome;      /* ghost record of m_trackedCounts[key][outcome]++ */
size_t ge, g_w, g_w0;                      /* ghost element index; witness of an unmeasured element */
#define BL_TOP_SCOPE 0
static inline void trk_count_inc(bl_str key, bl_str outcome) {
  if (g_inc_total < 1000) g_inc_total = g_inc_total + 1;
  if (g_cur_entry == g_ei) { if (g_inc_obs < 1000) g_inc_obs = g_inc_obs + 1; g_obs_key = key; g_obs_outcome = outcome; }
}
#define LM ev_m_lastMeasurement
#define WF_LM (LM.size <= VCAP)
#define LMOK(q) ((q) >= 0 && (q) < (int)LM.size && LM.data[q] != -1)
#define IS_LIT(s, id) ((s).lit == (id) && (s).name == 0 && (s).n == 0)
#define ALLGOOD_BELOW(arr, i) (""" + _conj('J >= (i) || J >= (arr).size || LMOK((arr).data[J])', AMAXN) + r""")
#define STR_SAME(a, b) ((a).lit == (b).lit && (a).name == (b).name && (a).n == (b).n && (ge >= (a).n || ge >= AMAX || (a).c[ge] == (b).c[ge]))
/* the outcome of a single qubit / of a qubit array, as the property states it */
#define Q_OUTCOME_OK(o, q) (LMOK(q) ? IS_LIT(o, (LM.data[q] != 0 ? SLIT("1") : SLIT("0"))) : IS_LIT(o, SLIT("?")))
#define A_OUTCOME_OK(o, arr) (IS_LIT(o, SLIT("?")) ? (g_w < (arr).size && !LMOK((arr).data[g_w])) \
   : ((o).lit == 0 && (o).name == 0 && (o).n == (arr).size && ALLGOOD_BELOW(arr, (arr).size) && (ge >= (arr).size || (o).c[ge] == (LM.data[(arr).data[ge]] != 0 ? '1' : '0'))))
#define WF_ARR(arr) ((arr).size <= AMAX)
#define TRK_ENTRY(k) (g_scope[k].second.tracked && (g_scope[k].second.value.type == BL_Qubit || g_scope[k].second.value.type == BL_QubitArray))
#define ENTRY_OUTCOME_OK(k) (g_scope[k].second.value.type == BL_Qubit ? Q_OUTCOME_OK(g_obs_outcome, g_scope[k].second.value.qubit) : A_OUTCOME_OK(g_obs_outcome, g_scope[k].second.value.qubitArray))
#define ENTRY_KEY_OK(k) (g_obs_key.lit == (g_scope[k].second.value.type == BL_Qubit ? SLIT("qubit ") : SLIT("qubit[] ")) && g_obs_key.name == g_scope[k].first.name && g_obs_key.n == 0)
"""
RET = '__CPROVER_return_value'


def R(t):
    return ('', 'requires', t, [])


def E(label, t, props, **o):
    return (label, 'ensures', t, props, o)


def A(t):
    return ('', 'assigns', t, [])


def arr_loops(fn, k0, arr, obs):
    """loop contracts of the two element loops (all-measured scan, bit-string build)"""
    wset = 'if (%s) g_w = bl_i%d;' % (obs, k0)
    return {
        k0: {'assigns': 'bl_i%d, allMeasured, g_w' % k0, 'body_begin': wset, 'before': 'g_w0 = g_w;', 'ghost_in_bounded': True,
             'invariants': [('%s.scan.witness_kept_for_other_entries' % fn, '(%s) || g_w == g_w0' % obs),
                            ('%s.scan.bounds' % fn, 'bl_i%d <= %s.size && allMeasured' % (k0, arr)),
                            ('%s.scan.all_measured_so_far' % fn, 'ALLGOOD_BELOW(%s, bl_i%d)' % (arr, k0))],
             'decreases': '%s.size - bl_i%d' % (arr, k0)},
        k0 + 1: {'assigns': 'bl_i%d, bits' % (k0 + 1),
                 'invariants': [('%s.build.bounds' % fn, 'bl_i%d <= %s.size && bits.lit == 0 && bits.name == 0 && bits.n == bl_i%d' % (k0 + 1, arr, k0 + 1)),
                                ('%s.build.all_measured' % fn, 'ALLGOOD_BELOW(%s, %s.size)' % (arr, arr)),
                                ('%s.build.bits_so_far' % fn, "(ge < bl_i%d) ==> bits.c[ge] == (LM.data[%s.data[ge]] != 0 ? '1' : '0')" % (k0 + 1, arr))],
                 'decreases': '%s.size - bl_i%d' % (arr, k0 + 1)},
    }


def _merge(a, b):
    d = dict(a)
    d.update(b)
    return d


VA = 'v.qubitArray'
OBS_RESET = 'g_inc_total == 0 && g_inc_obs == 0 && ge < AMAX'
CONTRACTS = {
    'recordTrackedValue': {
        'contract': [
            R('bl_exc == 0 && WF_LM && WF_ARR(v.qubitArray) && name.n <= AMAX && g_cur_entry == g_ei && ' + OBS_RESET),
            A('g_inc_total, g_inc_obs, g_obs_key, g_obs_outcome, g_w, g_w0'),
            E('recordTrackedValue.never_raises', 'bl_exc == 0', ['C12', 'C17']),
            E('recordTrackedValue.exactly_one_outcome_per_tracked_qubit_value', 'g_inc_total == ((v.type == BL_Qubit || v.type == BL_QubitArray) ? 1 : 0) && g_inc_obs == g_inc_total', ['C17']),
            E('recordTrackedValue.counted_under_the_given_name', '(g_inc_obs == 1) ==> STR_SAME(g_obs_key, name)', ['C17']),
            E('recordTrackedValue.qubit_outcome_is_last_measurement_or_unknown', '(v.type == BL_Qubit) ==> Q_OUTCOME_OK(g_obs_outcome, v.qubit)', ['C17']),
            E('recordTrackedValue.array_outcome_is_bit_string_in_index_order_or_unknown', '(v.type == BL_QubitArray) ==> A_OUTCOME_OK(g_obs_outcome, v.qubitArray)', ['C17']),
        ],
        'loops': arr_loops('recordTrackedValue', 0, VA, '1'),
    },
    'endScope': {
        'contract': [
            R('bl_exc == 0 && WF_LM && g_scope_n <= EMAX && g_ei < EMAX && g_env_size <= 1000000 && ' + OBS_RESET),
            R(_conj('WF_ARR(g_scope[J].second.value.qubitArray) && g_scope[J].first.lit == 0 && g_scope[J].first.n == 0', EMAXN)),
            A('g_env_size, g_cur_entry, g_inc_total, g_inc_obs, g_obs_key, g_obs_outcome, g_w, g_w0'),
            E('endScope.never_raises', 'bl_exc == 0', ['C12', 'C17']),
            E('endScope.pops_exactly_one_scope', 'g_env_size == (__CPROVER_old(g_env_size) == 0 ? 0 : __CPROVER_old(g_env_size) - 1)', ['C17', 'C09']),
            E('endScope.empty_stack_records_nothing', '(__CPROVER_old(g_env_size) == 0) ==> g_inc_total == 0', ['C17']),
            # C17: each @tracked qubit / qubit[] of the closing scope contributes exactly one outcome; nothing else does
            E('endScope.exactly_one_outcome_per_tracked_entry', '(__CPROVER_old(g_env_size) != 0 && g_ei < g_scope_n) ==> g_inc_obs == (TRK_ENTRY(g_ei) ? 1 : 0)', ['C17']),
            E('endScope.no_more_outcomes_than_entries', 'g_inc_total >= 0 && (size_t)g_inc_total <= g_scope_n', ['C17']),
            E('endScope.counted_under_kind_and_variable_name', '(__CPROVER_old(g_env_size) != 0 && g_ei < g_scope_n && TRK_ENTRY(g_ei)) ==> ENTRY_KEY_OK(g_ei)', ['C17']),
            E('endScope.outcome_is_last_measurement_bit_string_or_unknown', '(__CPROVER_old(g_env_size) != 0 && g_ei < g_scope_n && TRK_ENTRY(g_ei)) ==> ENTRY_OUTCOME_OK(g_ei)', ['C17']),
        ],
        'loops': _merge({
            0: {'assigns': 'bl_i0, g_cur_entry, g_inc_total, g_inc_obs, g_obs_key, g_obs_outcome, g_w, g_w0',
                'body_begin': 'g_cur_entry = bl_i0;', 'ghost_in_bounded': True,
                'invariants': [('endScope.entries.bounds', 'bl_i0 <= g_scope_n && g_inc_total >= 0 && (size_t)g_inc_total <= bl_i0'),
                               ('endScope.entries.observed_count', 'g_inc_obs == ((g_ei < bl_i0 && TRK_ENTRY(g_ei)) ? 1 : 0)'),
                               ('endScope.entries.observed_key', '(g_ei < bl_i0 && TRK_ENTRY(g_ei)) ==> ENTRY_KEY_OK(g_ei)'),
                               ('endScope.entries.observed_outcome', '(g_ei < bl_i0 && TRK_ENTRY(g_ei)) ==> ENTRY_OUTCOME_OK(g_ei)')],
                'decreases': 'g_scope_n - bl_i0'},
        }, arr_loops('endScope', 1, 'v.qubitArray', 'g_cur_entry == g_ei')),
    },
}
HARNESSES = [
    dict(name='recordTrackedValue', fn='recordTrackedValue', replace=[], flags=[], props=['C17', 'C12'], timeout=600, unwind=10,
         canaries=[('g_inc_total == 1 && g_obs_outcome.n > 1', 'a multi-bit outcome was recorded'), ('g_inc_total == 0', 'untracked kind')]),
    dict(name='endScope', fn='endScope', replace=[], flags=[], props=['C17', 'C12', 'C09'], timeout=900, unwind=10,
         canaries=[('g_inc_obs == 1 && g_obs_outcome.n > 1', 'a multi-bit outcome was recorded for the observed entry'), ('g_inc_total == 0', 'nothing tracked')]),
]


from tools import native as _nat


def _build_oracle(wd):
    b = os.path.join(wd, 'trk_oracle')
    if not os.path.exists(b):
        bd = _nat.repo_build(('bloch_runtime', 'bloch_compiler'))
        _nat.build_cxx([os.path.join(_nat.ROOT, 'native', 'trk_oracle.cpp')], b, objs=[os.path.join(bd, 'src', 'libbloch_runtime.a'), os.path.join(bd, 'src', 'libbloch_compiler.a'), '-lpthread'])
    return b


def native_validate(pu, work, tier, seed):
    try:
        ob = _build_oracle(pu['wd'])
        rc, out, dt = _nat.run([ob, 'sweep', str(seed), '400' if tier == 'quick' else '20000'])
        js = _nat.last_json(out)
        return dict(unit='TRK', kind='oracle on the real RuntimeEvaluator (random scopes of tracked/untracked qubits and qubit arrays, random last-measurement tables; counts must grow as the property states); no co-execution of the lowered text for this unit', status='agree',
                    oracle_sweep=dict(checks=js.get('oracle_checks'), failures=js.get('oracle_failures'), failing_labels=sorted(set(re.findall(r'FAIL label=(\S+)', out)))), wall_s=round(dt, 1))
    except _nat.Break as e:
        return dict(unit='TRK', status='error', detail=str(e))


def replay_counterexample(pu, h, label, failure, work, tier, seed):
    ob = _build_oracle(pu['wd'])
    tried = []
    for s in (seed, seed + 1):
        cmd = [ob, 'sweep', str(s), '2000']
        rc, out, dt = _nat.run(cmd)
        tried.append(' '.join(cmd[1:]))
        fails = [l for l in out.split('\n') if l.startswith('FAIL ')]
        same = [l for l in fails if label and ('label=' + label + ' ') in l]
        pick = same or [l for l in fails if ('label=' + h['fn'] + '.') in l]
        if pick:
            m = re.search(r'label=(\S+)', pick[0])
            return dict(failing_input_found=True, failing_input=pick[0], native_failures=fails[:5], oracle_label=m.group(1), signature='fn=' + h['fn'],
                        reproduce_args=cmd[1:], reproduce='bin/check <property> --replay <this file>', replay_inputs_tried=tried, matched_same_obligation=bool(same))
    return dict(failing_input_found=False, replay_inputs_tried=tried, signature='fn=' + h['fn'])


def run_reproduce(rec, work):
    wd = os.path.join(work, 'replay')
    os.makedirs(wd, exist_ok=True)
    ob = _build_oracle(wd)
    rc, out, dt = _nat.run([ob] + rec['reproduce_args'])
    print(out)
    return 1 if rc else 0
