"""Unit OBJM — runtime/runtime_evaluator.cpp: object-model regions of the evaluator.
  dtor_walk : the destructor walk of RuntimeEvaluator::destroyObject (the first for statement of the
              `if (runUserDestructor && obj->cls)` block) — C08: destructors run derived-first, once per class of
              the chain, each in its own class context with `this` bound."""
import re, os
from tools import cxx2c
from tools.cxx2c import Lower, Unsupported, kids, qt, qt_sugar, strip, strip_parens, callee_name, norm_type, walk
from tools.cxx2c import REPO as _REPO
import json


def json_dumps(x):
    return json.dumps(x)

NAME = 'OBJM'
SRC = _REPO + '/src/bloch/runtime/runtime_evaluator.cpp'
NAMESPACE = 'bloch::runtime'
FUNCS = []
AST_FILTER = ['RuntimeEvaluator::destroyObject', 'RuntimeEvaluator::beginScope', 'bloch::runtime::Value', 'RuntimeEvaluator::exec', 'RuntimeEvaluator::eval', 'RuntimeEvaluator::runConstructorChain', 'findStaticFieldWithOwner']
SHIM = 'objm.h'
THROWING = set()
DROPS = ['region ctor_phases: three statements of runConstructorChain in their source order - the `if (cls->base)` block (choice of the base constructor and the recursive call), the runFieldInitialisers(cls, obj) call and the `if (ctor && ctor->body)` body loop; '
         'what lies between them (tracing to std::cerr, the parameter-to-field copy of `= default` constructors) is dropped; constructors of a class are rows {decl, params}; argumentsConversionCost is an uninterpreted function',
         'region member_dispatch: in the member-call branch of RuntimeEvaluator::eval, the then-branch of `if (target.type == Value::Type::Object && target.objectValue)` (which method runs for obj.m(...) / super.m(...)); findClass / findMethod / the vtable lookup are uninterpreted functions, methods are rows of a method table',
         'region member_dispatch_super: the branch that follows it, `else if (target.type == Value::Type::ClassRef && target.classRef)` (Name.m(...) and super.m(...): eval(SuperExpression) yields a reference to the base class); currentThisObject() is a ghost object id',
         'findStaticFieldWithOwner (file-level function, whole): `staticFieldIndex.find(name)` of a class is an uninterpreted (has, offset) pair; a RuntimeField* is (class, offset)',
         'regions exec_for / exec_while: the ForStatement / WhileStatement branches of exec (header parts become opaque statement ids; exec / eval of them are the ghost-recording models, which also count what runs while a return is pending; the for initialiser is a declaration or expression statement and cannot return)',
         'region exec_block: the BlockStatement branch of RuntimeEvaluator::exec (`block` becomes an opaque body identity; exec of the nested statements is the ghost-recording model)',
         'region dtor_walk: the for statement over the class chain inside `if (runUserDestructor && obj->cls)` of destroyObject; `obj`, `runUserDestructor` and the evaluator state become parameters / file-level variables',
         'classes are indices into a class table {base, destructorDecl, name} (0 = null); a declaration and its body are opaque identities; the statements of a body are (body, index) pairs',
         'exec(stmt) is a model with a body: it advances a ghost clock, records per class the time of the first statement executed in destructor context and the `this` binding seen, and may set m_hasReturn',
         'the scope stack: beginScope / endScope move a ghost depth counter; m_env.back()["this"] = ... records the binding (ghost)',
         'std::shared_ptr<Object>(obj, no-op deleter) is the object identity']
ASSUMPTIONS = ['the class table is acyclic with bases stored before derived classes (base index < class index): a finite conjunction over CMAX = 8 classes (object-size bound)',
               'exec does not change the evaluator context (m_currentClassCtx, m_inDestructor, ...) other than m_hasReturn: its real body restores what it changes (not verified here)',
               'argumentsConversionCost returns, when it returns a cost at all, a value in [0, 1000000) (it adds at most a few units per argument; never INT_MAX, the initial value of bestCost)']


class Profile(Lower):
    CLS = 'objm'
    SELF_T = ''
    IS_METHOD = False
    WRAP_DOUBLE_OPS = False
    TYPE_MAP = [
        (r'^(bloch::runtime::)?Value$', 'Value'),
        (r'^(bloch::runtime::)?Value::Type$', 'int'),
        (r'^(std::)?(basic_string<char.*>|string)$', 'bl_cname'),
        (r'^(std::)?shared_ptr<(bloch::runtime::)?Object>$', 'bl_objid'),
        (r'^std::__shared_ptr<(bloch::runtime::)?Object, __gnu_cxx::_S_atomic>$', 'bl_objid'),
        (r'^(bloch::runtime::)?Object \*$', 'bl_objid'),
        (r'^std::__shared_ptr_access<(bloch::runtime::)?Object, __gnu_cxx::_S_atomic, false, false>(::element_type \*)?$', 'bl_objid'),
        (r'^(bloch::runtime::)?RuntimeClass \*$', 'bl_clsid'),
        (r'^(bloch::compiler::)?DestructorDeclaration \*$', 'bl_decl'),
        (r'^std::unique_ptr<(bloch::compiler::)?BlockStatement(, std::default_delete<.*>)?>$', 'bl_body'),
        (r'^std::vector<std::unique_ptr<(bloch::compiler::)?Statement(, std::default_delete<.*>)?>(, .*)?>$', 'bl_stmts'),
        (r'^std::unique_ptr<(bloch::compiler::)?Statement(, std::default_delete<.*>)?>$', 'bl_stmt'),
        (r'^(bloch::compiler::)?Statement \*$', 'bl_stmt'),
        (r'^std::unique_ptr<(bloch::compiler::)?Expression(, std::default_delete<.*>)?>$', 'bl_stmt'),
        (r'^(bloch::compiler::)?Expression \*$', 'bl_stmt'),
        (r'^(bloch::runtime::)?(RuntimeEvaluator::)?VarEntry$', 'VarEntry'),
        (r'^(bloch::runtime::)?RuntimeMethod \*$', 'bl_mth'),
        (r'^(bloch::compiler::)?ConstructorDeclaration \*$', 'bl_decl'),
        (r'^(bloch::runtime::)?RuntimeConstructor$', 'bl_ctor'),
        (r'^std::vector<(bloch::runtime::)?RuntimeConstructor(, .*)?>$', 'bl_ctors'),
        (r'^std::vector<(bloch::runtime::)?RuntimeTypeInfo(, .*)?>$', 'bl_ptypes'),
        (r'^std::optional<int>$', 'opt_int'),
        (r'^std::pair<(bloch::runtime::)?RuntimeField \*, (bloch::runtime::)?RuntimeClass \*>$', 'pair_fc'),
        (r'^(bloch::runtime::)?RuntimeField \*$', 'bl_fptr'),
        (r'^std::unordered_map<std::(basic_string<char.*>|string), (unsigned long|size_t).*>::iterator$', 'bl_sfit'),
        (r'^std::__detail::_Node_iterator(_base)?<std::pair<(const )?std::(basic_string<char.*>|string), (unsigned long|size_t)>.*$', 'bl_sfit'),
        (r'^std::unordered_map<std::(basic_string<char.*>|string), (bloch::runtime::)?RuntimeMethod \*.*>::iterator$', 'bl_mth'),
        (r'^std::__detail::_Node_iterator<std::pair<const std::(basic_string<char.*>|string), (bloch::runtime::)?RuntimeMethod \*>.*$', 'bl_mth'),
        (r'^std::vector<(bloch::runtime::)?Value(, .*)?>( \*)?$', 'bl_argsref'),
    ]

    def prepare(self, docs, workdir):
        recs = [d for d in docs if d.get('kind') == 'CXXRecordDecl' and d.get('name') == 'Value' and d.get('completeDefinition')]
        if len(recs) != 1:
            raise Unsupported('struct Value: %d definitions' % len(recs))
        self.tagenum = []
        for f in kids(recs[0]):
            if f.get('kind') == 'EnumDecl' and f.get('name') == 'Type':
                self.tagenum = [c['name'] for c in kids(f) if c.get('kind') == 'EnumConstantDecl']
        if not self.tagenum:
            raise Unsupported('Value::Type not found')

    def file_prelude(self):
        return ['enum { %s };' % ', '.join('BL_' + e for e in self.tagenum),
                'typedef struct { int type; bl_cname className; bl_objid objectValue; bl_clsid classRef; } Value;',
                'typedef struct { Value value; _Bool tracked; _Bool initialized; } VarEntry;']

    def declref(self, n):
        rd = n['referencedDecl']
        if rd.get('kind') == 'EnumConstantDecl':
            return 'BL_' + rd['name']
        return super().declref(n)

    def string_literal(self, n):
        if n.get('value') == '"this"':
            return 'BL_NAME_THIS'
        raise Unsupported('string literal ' + n.get('value', ''))

    def call_named(self, n, name, args):
        if name == 'max' and not args and self.ct(n) == 'int':
            return '2147483647'        # std::numeric_limits<int>::max()
        return super().call_named(n, name, args)

    def cast_other(self, n, ck, inner):
        if ck == 'UserDefinedConversion':
            return self.expr(inner)
        if ck == 'PointerToBoolean' and self.ct(inner) in ('bl_clsid', 'bl_decl', 'bl_objid', 'bl_mth'):
            return '(%s != 0)' % self.expr(inner)
        return super().cast_other(n, ck, inner)

    def ctype(self, t):
        t0 = norm_type(t)
        if 'RuntimeMethod *' in t0 and ('_Node_iterator' in t0 or '::iterator' in t0):
            return 'bl_mth'
        return super().ctype(t)

    def member(self, n):
        base = kids(n)[0]
        sb = strip(base)
        nm = n['name']
        if sb.get('kind') == 'CXXThisExpr':
            return 'ev_' + nm                      # evaluator state: file-level variables
        bt = self.ct(sb)
        if nm == 'second' and sb.get('kind') == 'CXXOperatorCallExpr' and callee_name(kids(sb)[0]) == 'operator->' and self.ct(kids(sb)[1]) == 'bl_mth':
            return self.expr(kids(sb)[1])
        if bt == 'bl_mth' and nm in ('isVirtual', 'signature'):
            return 'g_mth[BL_IDX(%s, MMAX)].%s' % (self.expr(sb), nm)
        if bt == 'bl_mth' and nm == 'second':
            return self.expr(sb)
        if nm == 'vtable' and bt == 'bl_clsid':
            return 'BL_VTABLE(%s)' % self.expr(sb)
        if sb.get('kind') == 'DeclRefExpr' and sb['referencedDecl']['name'] == getattr(self, 'ctx', None) and nm in ('member', 'line', 'column', 'initializer', 'condition', 'body', 'increment'):
            return '%s_%s' % (self.ctx, nm)
        if bt == 'bl_clsid' and nm == 'constructors':
            return 'BL_CTORS(%s)' % self.expr(sb)
        if bt == 'bl_ctor' and nm in ('decl', 'params'):
            return 'g_ctor[BL_IDX(%s, KMAX)].%s' % (self.expr(sb), nm)
        if bt == 'bl_decl' and nm in ('line', 'column'):
            return 'DECL_%s(%s)' % (nm.upper(), self.expr(sb))
        if bt == 'bl_clsid' and nm in ('staticFieldIndex', 'staticFields'):
            return 'CLS_%s(%s)' % (nm, self.expr(sb))
        if bt == 'bl_sfit' and nm == 'second':
            return '((size_t)%s)' % self.expr(sb)
        if nm == 'second' and sb.get('kind') == 'CXXOperatorCallExpr' and callee_name(kids(sb)[0]) == 'operator->' and self.ct(kids(sb)[1]) == 'bl_sfit':
            return '((size_t)%s)' % self.expr(kids(sb)[1])
        if bt == 'bl_clsid' and nm in ('base', 'destructorDecl', 'name'):
            return 'g_cls[BL_IDX(%s, CMAX)].%s' % (self.expr(sb), nm)
        if bt == 'bl_objid' and nm == 'cls':
            return 'OBJ_CLS(%s)' % self.expr(sb)
        if bt == 'bl_decl' and nm == 'body':
            return 'DECL_BODY(%s)' % self.expr(sb)
        if nm == 'statements' and self.ctype_safe(qt(n)) == 'bl_stmts':
            if sb.get('kind') == 'DeclRefExpr' and sb['referencedDecl']['name'] == getattr(self, 'ctx', None):
                return 'BODY_STMTS(%s)' % self.ctx
            return 'BODY_STMTS(%s)' % self.expr(sb)
        if bt == 'Value' and nm in ('type', 'className', 'objectValue', 'classRef'):
            return '(%s).%s' % (self.expr(sb), nm)
        raise Unsupported('member %s of %s' % (nm, qt(sb)))

    def unary(self, n):
        if n.get('opcode') == '&':
            e = self.expr(kids(n)[0])
            if e.startswith('SF_ELEM('):
                return 'objm_fptr(%s)' % e[len('SF_ELEM('):-1]
        return super().unary(n)

    def opcall(self, n):
        ks = kids(n)
        op = callee_name(ks[0])
        args = ks[1:]
        t0 = self.ct(args[0])
        if op == 'operator()' and strip_parens(args[0]).get('kind') == 'DeclRefExpr' and strip_parens(args[0])['referencedDecl']['name'] == 'isTruthy':
            return self.expr(args[1])            # isTruthy(eval(e)): the truth value of the condition (objm_eval_truth already returns it)
        if op == 'operator*' and len(args) == 1 and t0 == 'opt_int':
            return '(%s).v' % self.expr(args[0])
        if op == 'operator[]' and t0 == 'bl_stmts':
            return 'BODY_STMT(%s, %s)' % (self.expr(args[0])[len('BODY_STMTS('):-1], self.expr(args[1]))
        if op in ('operator==', 'operator!=') and t0 == 'bl_sfit':
            return '(%s %s %s)' % (self.expr(args[0]), op[len('operator'):], self.expr(args[1]))
        if op == 'operator[]' and self.expr(args[0]).startswith('CLS_staticFields('):
            return 'SF_ELEM(%s, %s)' % (self.expr(args[0])[len('CLS_staticFields('):-1], self.expr(args[1]))
        if op == 'operator->' and t0 in ('bl_body', 'bl_objid', 'bl_mth'):
            return self.expr(args[0])
        if op in ('operator==', 'operator!=') and t0 == 'bl_mth':
            return '(%s %s %s)' % (self.expr(args[0]), op[len('operator'):], self.expr(args[1]))
        if op == 'operator=' and t0 == 'bl_mth':
            return '(%s = %s)' % (self.expr(args[0]), self.expr(args[1]))
        if op == 'operator=' and t0 in ('bl_cname', 'bl_objid'):
            return '(%s = %s)' % (self.expr(args[0]), self.expr(args[1]))
        if op == 'operator=' and 'VarEntry' in norm_type(qt(args[0])):
            lhs = strip_parens(args[0])
            if lhs.get('kind') == 'CXXOperatorCallExpr' and callee_name(kids(lhs)[0]) == 'operator[]':
                m, key = kids(lhs)[1], kids(lhs)[2]
                if self.expr(m) == 'BL_TOP_SCOPE':
                    return 'objm_put_top(%s, %s)' % (self.expr(key), self.expr(args[1]))
            raise Unsupported('VarEntry assignment target')
        raise Unsupported('operator %s on %s' % (op, qt(args[0])))

    def membercall_other(self, n, name, obj, args):
        so = strip(obj)
        if so.get('kind') == 'CXXThisExpr' and name in ('beginScope', 'endScope'):
            return 'objm_%s()' % name
        if so.get('kind') == 'CXXThisExpr' and name == 'exec':
            a0 = self.expr(args[0])
            return ('objm_exec_for_init(%s)' if a0 == 'fors_initializer' else 'objm_exec(%s)') % a0
        if so.get('kind') == 'CXXThisExpr' and name == 'eval' and len(args) == 1:
            return 'objm_eval_truth(%s)' % self.expr(args[0])
        if self.ct(obj) == 'bl_stmt' and name == 'operator bool':
            return '(%s != 0)' % self.expr(obj)
        if name == 'back' and so.get('kind') == 'MemberExpr' and so.get('name') == 'm_env':
            return 'BL_TOP_SCOPE'
        if so.get('kind') == 'CXXThisExpr' and name == 'argumentsConversionCost' and len(args) == 2:
            return 'objm_argumentsConversionCost(%s)' % self.expr(args[0])       # the argument list is fixed for the call
        if so.get('kind') == 'CXXThisExpr' and name == 'runConstructorChain' and len(args) == 4:
            self.needs_prop = True
            return 'objm_rec_runConstructorChain(%s, %s, %s)' % (self.expr(args[0]), self.expr(args[1]), self.expr(args[2]))
        if so.get('kind') == 'CXXThisExpr' and name == 'runFieldInitialisers' and len(args) == 2:
            self.needs_prop = True
            return 'objm_runFieldInitialisers(%s, %s)' % (self.expr(args[0]), self.expr(args[1]))
        if so.get('kind') == 'CXXThisExpr' and name == 'currentThisObject' and not args:
            return 'objm_currentThisObject()'
        if so.get('kind') == 'CXXThisExpr' and name == 'findClass' and len(args) == 1:
            return 'objm_findClass(%s)' % self.expr(args[0])
        if so.get('kind') == 'CXXThisExpr' and name == 'findMethod' and len(args) == 3:
            return 'objm_findMethod(%s, %s)' % (self.expr(args[0]), self.expr(args[1]))      # the argument list is fixed for the call: dropped
        if name in ('find', 'end') and self.expr(obj).startswith('CLS_staticFieldIndex('):
            c = self.expr(obj)[len('CLS_staticFieldIndex('):-1]
            return ('objm_sfi_find(%s, %s)' % (c, self.expr(args[0]))) if name == 'find' else '((bl_sfit)-1)'
        if name in ('find', 'end'):
            vt = self.expr(obj)
            if vt.startswith('BL_VTABLE('):
                return 'objm_vtable_find(%s, %s)' % (vt[len('BL_VTABLE('):-1], self.expr(args[0])) if name == 'find' else '((bl_mth)0)'
        t = self.ct(obj)
        if t == 'opt_int' and name == 'operator bool':
            return '(%s).has' % self.expr(obj)
        if t == 'bl_ptypes' and name == 'empty':
            return 'PTYPES_EMPTY(%s)' % self.expr(obj)
        if t == 'bl_stmts' and name == 'size':
            return 'BODY_NSTMTS(%s)' % self.expr(obj)[len('BODY_STMTS('):-1]
        if t == 'bl_cname' and name == 'empty':
            return '(%s == 0)' % self.expr(obj)
        if t == 'bl_objid' and name == 'operator bool':
            return '(%s != 0)' % self.expr(obj)
        if t == 'bl_body' and name == 'operator bool':
            return '(%s != 0)' % self.expr(obj)
        if t == 'bl_stmt' and name == 'get':
            return self.expr(obj)
        raise Unsupported('member call %s on %s' % (name, qt(obj)))

    def membercall(self, n):
        ks = kids(n)
        me = strip(ks[0])
        return self.membercall_other(n, me['name'], kids(me)[0], ks[1:])

    def initlist(self, n):
        if self.ctype_safe(qt(n)) == 'pair_fc' and len(kids(n)) == 2:
            a, b = [self.expr(x) for x in kids(n)]
            return '(pair_fc){ %s, %s }' % ('objm_fptr_null()' if a in ('BL_NULL', '0') else a, '0' if b == 'BL_NULL' else b)
        if 'VarEntry' in norm_type(qt(n)) and len(kids(n)) == 3:
            return '(VarEntry){ %s }' % ', '.join(self.expr(a) for a in kids(n))
        return super().initlist(n)

    def construct(self, n):
        ct = self.ctype_safe(qt(n))
        args = [a for a in kids(n) if a.get('kind') != 'CXXDefaultArgExpr']
        if ct == 'pair_fc' and len(args) == 2:
            a, b = [self.expr(x) for x in args]
            return '(pair_fc){ %s, %s }' % ('objm_fptr_null()' if a in ('BL_NULL', '0') else a, '0' if b == 'BL_NULL' else b)
        if ct == 'pair_fc' and len(args) == 1:
            return self.expr(args[0])
        if ct == 'Value' and len(args) == 0:
            return '(Value){0}'
        if ct in ('VarEntry', 'Value', 'bl_cname', 'bl_mth') and len(args) == 1:
            return self.expr(args[0])
        if ct == 'bl_objid' and len(args) == 2 and self.ct(args[0]) == 'bl_objid':
            lam = []
            walk(args[1], lambda z: lam.append(z) if z.get('kind') == 'LambdaExpr' else None)
            if lam:
                return self.expr(args[0])           # shared_ptr<Object>(obj, no-op deleter): the identity of obj
        if ct == 'bl_objid' and len(args) == 1 and self.ct(args[0]) == 'bl_objid':
            return self.expr(args[0])
        raise Unsupported('ctor %s/%d' % (qt(n), len(args)))

    def decl(self, v):
        if self.ctype_safe(qt(v)) == 'Value' and not [i for i in kids(v) if 'kind' in i and i.get('kind') != 'CXXConstructExpr']:
            self.locals.add(v['name'])
            return 'Value %s = {0};' % v['name']
        return super().decl(v)

    def stmt(self, n, ind):
        if n.get('kind') == 'IfStmt':
            refs = []
            walk(kids(n)[0], lambda z: refs.append(z['referencedDecl'].get('name')) if z.get('kind') == 'DeclRefExpr' else None)
            if refs == ['kTraceConstructors']:
                return ['  ' * ind + '/* tracing to std::cerr dropped */;']
        return super().stmt(n, ind)

    def range_for(self, n, ind):
        # for (auto& stmt : <body>->statements)  ->  index loop over (body, i)
        p = '  ' * ind
        ks = kids(n)
        rng = [k for k in ks if k.get('kind') == 'DeclStmt']
        var = kids(rng[-1])[0]
        rdecl = kids(rng[0])[0]
        init = [i for i in kids(rdecl) if 'kind' in i][0]
        if self.ctype_safe(qt(init)) == 'bl_ctors':
            seq = self.expr(init)
            if not seq.startswith('BL_CTORS('):
                raise Unsupported('range-for sequence ' + seq)
            owner = seq[len('BL_CTORS('):-1]
            k = self.loop_k
            self.loop_k += 1
            iv = 'bl_i%d' % k
            self.locals.add(iv)
            self.locals.add(var['name'])
            out = [p + '/*@BEFORELOOP:%s:%d@*/' % (self.fn, k), p + '{', p + '  size_t %s = 0;' % iv,
                   p + '  for (; %s < CLS_NCTORS(%s); ++%s)' % (iv, owner, iv), p + '    /*@LOOP:%s:%d@*/' % (self.fn, k), p + '  {',
                   p + '    /*@LOOPBODY:%s:%d@*/' % (self.fn, k),
                   p + '    bl_ctor %s = CLS_CTOR(%s, %s);' % (var['name'], owner, iv)]
            body = ks[-1]
            inner = kids(body) if body.get('kind') == 'CompoundStmt' else [body]
            for st in inner:
                out += self.stmt(st, ind + 2)
            out += [p + '  }', p + '}', p + '/*@AFTERLOOP:%s:%d@*/' % (self.fn, k)]
            return out
        if self.ctype_safe(qt(init)) != 'bl_stmts':
            raise Unsupported('range-for over ' + qt(init))
        seq = self.expr(init)
        if not seq.startswith('BODY_STMTS('):
            raise Unsupported('range-for sequence ' + seq)
        body_id = seq[len('BODY_STMTS('):-1]
        k = self.loop_k
        self.loop_k += 1
        iv = 'bl_i%d' % k
        self.locals.add(iv)
        self.locals.add(var['name'])
        out = [p + '/*@BEFORELOOP:%s:%d@*/' % (self.fn, k), p + '{', p + '  size_t %s = 0;' % iv,
               p + '  for (; %s < BODY_NSTMTS(%s); ++%s)' % (iv, body_id, iv), p + '    /*@LOOP:%s:%d@*/' % (self.fn, k), p + '  {',
               p + '    /*@LOOPBODY:%s:%d@*/' % (self.fn, k),
               p + '    bl_stmt %s = BODY_STMT(%s, %s);' % (var['name'], body_id, iv)]
        body = ks[-1]
        inner = kids(body) if body.get('kind') == 'CompoundStmt' else [body]
        for st in inner:
            out += self.stmt(st, ind + 2)
        out += [p + '  }', p + '}', p + '/*@AFTERLOOP:%s:%d@*/' % (self.fn, k)]
        return out


def has_call(n, name):
    f = []
    walk(n, lambda z: f.append(1) if z.get('kind') == 'CXXMemberCallExpr' and strip(kids(z)[0]).get('name') == name else None)
    return bool(f)


def lower_regions(docs, prof):
    ds = cxx2c.find_functions(docs, 'destroyObject')
    if len(ds) != 1:
        raise Unsupported('destroyObject: %d definitions' % len(ds))
    ifs = []
    walk(ds[0], lambda z: ifs.append(z) if z.get('kind') == 'IfStmt' else None)
    target = None
    for s in ifs:
        refs = []
        walk(kids(s)[0], lambda z: refs.append(z['referencedDecl']['name']) if z.get('kind') == 'DeclRefExpr' else None)
        if 'runUserDestructor' in refs:
            target = s
            break
    if target is None:
        raise Unsupported('destroyObject: `if (runUserDestructor && obj->cls)` not found')
    then = kids(target)[1]
    loops = [st for st in kids(then) if st.get('kind') == 'ForStmt']
    if len(loops) != 1:
        raise Unsupported('destroyObject: %d for statements in the destructor block' % len(loops))
    body2 = dict(kind='CompoundStmt', inner=[loops[0]])
    d = dict(kind='FunctionDecl', name='dtor_walk', type=dict(qualType='void ()'), inner=[body2])
    prof.locals.add('obj')
    head, lines = prof.func(d, cname='dtor_walk', is_method=False)
    out = [('void objm_dtor_walk(bl_objid obj)', lines)]
    # the BlockStatement branch of exec
    try:
        from units.arith import find_region
        ex = cxx2c.find_functions(docs, 'exec')
        if len(ex) != 1:
            raise Unsupported('RuntimeEvaluator::exec: %d definitions' % len(ex))
        body = [k for k in kids(ex[0]) if k.get('kind') == 'CompoundStmt'][0]
        n, cast = find_region(body, 'block')
        if not any('BlockStatement' in c for c in cast):
            raise Unsupported('region `block` is no longer the dynamic_cast<BlockStatement*> branch')
        prof.ctx = 'block'
        prof.locals.add('block')
        d2 = dict(kind='FunctionDecl', name='exec_block', type=dict(qualType='void ()'), inner=[kids(n)[2]])
        h2, l2 = prof.func(d2, cname='exec_block', is_method=False)
        prof.ctx = None
        out.append(('void objm_exec_block(bl_body block)', l2))
    except Unsupported as e:
        prof.region_unlowered = {'exec_block': str(e)}
        out.append(('void objm_exec_block(bl_body block)', None))
    # the ForStatement branch of exec: its header scope is closed on every path
    try:
        from units.arith import find_region
        ex = cxx2c.find_functions(docs, 'exec')
        body = [k for k in kids(ex[0]) if k.get('kind') == 'CompoundStmt'][0]
        n, cast = find_region(body, 'fors')
        if not any('ForStatement' in c for c in cast):
            raise Unsupported('region `fors` is no longer the dynamic_cast<ForStatement*> branch')
        prof.ctx = 'fors'
        prof.locals.add('fors')
        d5 = dict(kind='FunctionDecl', name='exec_for', type=dict(qualType='void ()'), inner=[kids(n)[2]])
        h5, l5 = prof.func(d5, cname='exec_for', is_method=False)
        prof.ctx = None
        out.append(('void objm_exec_for(bl_stmt fors_initializer, bl_stmt fors_condition, bl_stmt fors_body, bl_stmt fors_increment)', l5))
    except Unsupported as e:
        if not hasattr(prof, 'region_unlowered'):
            prof.region_unlowered = {}
        prof.region_unlowered['exec_for'] = str(e)
        out.append(('void objm_exec_for(bl_stmt fors_initializer, bl_stmt fors_condition, bl_stmt fors_body, bl_stmt fors_increment)', None))
    # the WhileStatement branch of exec
    hw = 'void objm_exec_while(bl_stmt whiles_condition, bl_stmt whiles_body)'
    try:
        from units.arith import find_region
        ex = cxx2c.find_functions(docs, 'exec')
        body = [k for k in kids(ex[0]) if k.get('kind') == 'CompoundStmt'][0]
        n, cast = find_region(body, 'whiles')
        if not any('WhileStatement' in c for c in cast):
            raise Unsupported('region `whiles` is no longer the dynamic_cast<WhileStatement*> branch')
        prof.ctx = 'whiles'
        prof.locals.add('whiles')
        d6 = dict(kind='FunctionDecl', name='exec_while', type=dict(qualType='void ()'), inner=[kids(n)[2]])
        h6, l6 = prof.func(d6, cname='exec_while', is_method=False)
        prof.ctx = None
        out.append((hw, l6))
    except Unsupported as e:
        prof.ctx = None
        if not hasattr(prof, 'region_unlowered'):
            prof.region_unlowered = {}
        prof.region_unlowered['exec_while'] = str(e)
        out.append((hw, None))
    # construction phases: base constructor chain, field initialisers, constructor body - in their source order
    hc = 'void objm_ctor_phases(bl_clsid cls, bl_objid obj, bl_decl ctor, _Bool hasExplicitSuper)'
    try:
        rc = cxx2c.find_functions(docs, 'runConstructorChain')
        if len(rc) != 1:
            raise Unsupported('runConstructorChain: %d definitions' % len(rc))
        st = kids([k for k in kids(rc[0]) if k.get('kind') == 'CompoundStmt'][0])
        picks = []
        for x in st:
            refs, mems, calls = [], [], []
            walk(x, lambda z: refs.append(z['referencedDecl'].get('name')) if z.get('kind') == 'DeclRefExpr' else None)
            if x.get('kind') == 'IfStmt':
                walk(kids(x)[0], lambda z: mems.append(z.get('name')) if z.get('kind') == 'MemberExpr' else None)
            cx = strip(x)
            if x.get('kind') == 'IfStmt' and mems == ['base']:
                picks.append(('base', x))
            elif cx.get('kind') == 'CXXMemberCallExpr' and strip(kids(cx)[0]).get('name') == 'runFieldInitialisers':
                picks.append(('fields', x))
            elif x.get('kind') == 'IfStmt' and 'body' in mems and 'ctor' in refs and 'isDefault' not in mems and has_call(x, 'exec'):
                picks.append(('body', x))
        if sorted(k for k, _ in picks) != ['base', 'body', 'fields']:
            raise Unsupported('ctor_phases: expected the three phase statements once each, found %s' % [k for k, _ in picks])
        prof.ctx = None
        prof.locals |= {'cls', 'obj', 'ctor', 'hasExplicitSuper', 'superArgs', 'superCtorDecl', 'args'}
        d4 = dict(kind='FunctionDecl', name='ctor_phases', type=dict(qualType='void ()'), inner=[dict(kind='CompoundStmt', inner=[x for _, x in picks])])
        h4, l4 = prof.func(d4, cname='ctor_phases', is_method=False)
        out.append((hc, l4))
    except Unsupported as e:
        if not hasattr(prof, 'region_unlowered'):
            prof.region_unlowered = {}
        prof.region_unlowered['ctor_phases'] = str(e)
        out.append((hc, None))
    # which method runs for obj.m(...): the object branch of the member-call dispatch in eval
    hd = 'void objm_member_dispatch(Value target, _Bool viaSuper, bl_cname member_member)'
    try:
        ev = cxx2c.find_functions(docs, 'eval')
        if len(ev) != 1:
            raise Unsupported('RuntimeEvaluator::eval: %d definitions' % len(ev))
        ifs = []
        walk(ev[0], lambda z: ifs.append(z) if z.get('kind') == 'IfStmt' else None)
        tgt = None
        for st in ifs:
            cr, br = [], []
            walk(kids(st)[0], lambda z: cr.append(z.get('name')) if z.get('kind') == 'MemberExpr' else None)
            walk(kids(st)[1], lambda z: br.append(z['referencedDecl'].get('name')) if z.get('kind') == 'DeclRefExpr' else None)
            if 'objectValue' in cr and 'viaSuper' in br and 'receiver' in br:
                tgt = st
                break
        if tgt is None:
            raise Unsupported('member_dispatch: object branch of the member-call dispatch not found in eval')
        prof.ctx = 'member'
        prof.locals |= {'target', 'viaSuper', 'member', 'args', 'method', 'staticCls', 'receiver'}
        d3 = dict(kind='FunctionDecl', name='member_dispatch', type=dict(qualType='void ()'), inner=[kids(tgt)[1]])
        h3, l3 = prof.func(d3, cname='member_dispatch', is_method=False)
        prof.ctx = None
        out.append((hd, l3))
    except Unsupported as e:
        prof.ctx = None
        if not hasattr(prof, 'region_unlowered'):
            prof.region_unlowered = {}
        prof.region_unlowered['member_dispatch'] = str(e)
        out.append((hd, None))
        tgt = None
    # ... and for C.m(...) / super.m(...) (the target evaluates to a class reference): the branch that follows it
    hs = 'void objm_member_dispatch_super(Value target, _Bool viaSuper, bl_cname member_member)'
    try:
        if tgt is None:
            raise Unsupported('member_dispatch_super: the object branch it follows was not found')
        els = kids(tgt)[2] if len(kids(tgt)) > 2 else None
        if not els or els.get('kind') != 'IfStmt':
            raise Unsupported('member_dispatch_super: no else-if after the object branch')
        cr = []
        walk(kids(els)[0], lambda z: cr.append(z.get('name')) if z.get('kind') == 'MemberExpr' else None)
        if 'classRef' not in cr or 'objectValue' in cr:
            raise Unsupported('member_dispatch_super: the branch after the object branch no longer tests target.classRef')
        prof.ctx = 'member'
        prof.locals |= {'target', 'viaSuper', 'member', 'args', 'method', 'staticCls', 'receiver'}
        d5 = dict(kind='FunctionDecl', name='member_dispatch_super', type=dict(qualType='void ()'), inner=[kids(els)[1]])
        h5, l5 = prof.func(d5, cname='member_dispatch_super', is_method=False)
        prof.ctx = None
        out.append((hs, l5))
    except Unsupported as e:
        prof.ctx = None
        if not hasattr(prof, 'region_unlowered'):
            prof.region_unlowered = {}
        prof.region_unlowered['member_dispatch_super'] = str(e)
        out.append((hs, None))
    # the static-field lookup: nearest declaring class on the chain cls, base, base-of-base, ...
    hsf = 'pair_fc objm_findStaticFieldWithOwner(bl_clsid cls, bl_cname name)'
    try:
        ds = cxx2c.find_functions(docs, 'findStaticFieldWithOwner')
        if len(ds) != 1:
            raise Unsupported('findStaticFieldWithOwner: %d definitions' % len(ds))
        prof.ctx = None
        h7, l7 = prof.func(ds[0], cname='findStaticFieldWithOwner', is_method=False)
        out.append((hsf, l7))
    except Unsupported as e:
        if not hasattr(prof, 'region_unlowered'):
            prof.region_unlowered = {}
        prof.region_unlowered['findStaticFieldWithOwner'] = str(e)
        out.append((hsf, None))
    return out



def _conj(fmt, rng):
    return ' && '.join('(' + fmt.replace('J1', str(j + 1)).replace('J', str(j)) + ')' for j in rng)


GHOSTS = r"""
int bl_exc, bl_exc_line, bl_exc_col;
typedef struct { bl_clsid base; bl_decl destructorDecl; bl_cname name; } RtClass;
RtClass g_cls[CMAX];                         /* the class table */
bl_clsid ev_m_currentClassCtx; _Bool ev_m_inStaticContext, ev_m_inConstructor, ev_m_inDestructor, ev_m_hasReturn;   /* evaluator state */
bl_clsid g_chain[CMAX]; size_t g_len, g_pos; /* ghost: the chain obj->cls, base, base-of-base, ... and the walk's position on it */
size_t k1, k2; bl_clsid ca, cb;              /* ghost: two positions k1 < k2 on the chain and their classes (ca derived from cb) */
_Bool g_hasA, g_hasB; size_t g_nsA, g_nsB, g_ns;     /* ghost: precomputed facts (no calls in invariants) */
int g_a_entered, g_b_entered; _Bool g_a_started, g_b_started, g_b_started_when_a, g_a_this_ok, g_b_this_ok;
size_t g_depth, g_depth0, g_a_depth, g_b_depth; Value g_this; _Bool g_this_valid; bl_objid g_obj;
bl_clsid g_ctx0; _Bool g_st0, g_ct0, g_dt0; int g_begins, g_ends; size_t g_blk_n; int g_pclock, g_exec_n, g_exec_first_t; bl_stmt g_exec_first_stmt, g_first_body; int g_after_return;   /* ghost: statements executed / expressions evaluated while a return was pending */
typedef int bl_ctor; typedef int bl_ctors; typedef int bl_ptypes; typedef struct { _Bool has; int v; } opt_int;
#ifndef NATIVE
bl_clsid __CPROVER_uninterpreted_obj_cls(bl_objid); bl_body __CPROVER_uninterpreted_decl_body(bl_decl); size_t __CPROVER_uninterpreted_body_nstmts(bl_body); bl_stmt __CPROVER_uninterpreted_body_stmt(bl_body, size_t);
#define OBJ_CLS(o) __CPROVER_uninterpreted_obj_cls(o)
#define DECL_BODY(d) __CPROVER_uninterpreted_decl_body(d)
#ifdef BL_BOUNDED       /* the bounded stand-in explores chains of at most 3 classes with at most 2 statements per destructor */
#define BODY_NSTMTS(b) (__CPROVER_uninterpreted_body_nstmts(b) % 3)
#define BOUNDED_LIMITS (g_len <= 3)
#else
#define BODY_NSTMTS(b) __CPROVER_uninterpreted_body_nstmts(b)
#define BOUNDED_LIMITS 1
#endif
#define BODY_STMT(b, i) __CPROVER_uninterpreted_body_stmt(b, i)
#define BODY_STMTS(b) (b)
/* models with bodies (ghost instrumentation of the scope stack and of statement execution) */
static inline void objm_beginScope(void) {
  g_depth = g_depth + 1; g_this_valid = 0; if (g_begins < 1000) g_begins = g_begins + 1;
  if (ev_m_inDestructor && ev_m_currentClassCtx == ca && g_a_entered < 1000) g_a_entered = g_a_entered + 1;
  if (ev_m_inDestructor && ev_m_currentClassCtx == cb && g_b_entered < 1000) g_b_entered = g_b_entered + 1;
}
static inline void objm_endScope(void) { if (g_depth > 0) g_depth = g_depth - 1; g_this_valid = 0; if (g_ends < 1000) g_ends = g_ends + 1; }
static inline _Bool objm_eval_truth(bl_stmt e) { if (ev_m_hasReturn && g_after_return < 1000) g_after_return = g_after_return + 1; return nondet_bool(); }     /* evaluating a condition / increment expression: an arbitrary truth value */
static inline void objm_put_top(bl_cname name, VarEntry e) { if (name == BL_NAME_THIS) { g_this = e.value; g_this_valid = 1; } }
static inline void objm_exec(bl_stmt s) {
  if (ev_m_hasReturn && g_after_return < 1000) g_after_return = g_after_return + 1;
  if (g_pclock < 1000000) g_pclock = g_pclock + 1;
  if (g_exec_n == 0) { g_exec_first_t = g_pclock; g_exec_first_stmt = s; }
  if (g_exec_n < 1000000) g_exec_n = g_exec_n + 1;
  _Bool ok = g_this_valid && g_this.type == BL_Object && g_this.objectValue == g_obj && ev_m_currentClassCtx > 0 && ev_m_currentClassCtx < CMAX && g_this.className == g_cls[ev_m_currentClassCtx].name;
  if (ev_m_inDestructor && ev_m_currentClassCtx == ca && !g_a_started) { g_a_started = 1; g_b_started_when_a = g_b_started; g_a_this_ok = ok; g_a_depth = g_depth; }
  if (ev_m_inDestructor && ev_m_currentClassCtx == cb && !g_b_started) { g_b_started = 1; g_b_this_ok = ok; g_b_depth = g_depth; }
  if (!ev_m_hasReturn) ev_m_hasReturn = nondet_bool();      /* a pending return stays pending */
}
/* the initialiser of a for statement: a declaration or an expression statement (Parser::parseFor) - it cannot return */
static inline void objm_exec_for_init(bl_stmt s) { _Bool r = ev_m_hasReturn; objm_exec(s); ev_m_hasReturn = r; }
#endif
/* ---- region member_dispatch: method table, uninterpreted class / method / vtable lookups, and the locals of eval the region updates */
#ifndef MMAX
#define MMAX 8
#endif
typedef struct { _Bool isVirtual; bl_cname signature; } MthRow; MthRow g_mth[MMAX];
bl_mth method; bl_clsid staticCls; bl_objid receiver;
#ifndef NATIVE
unsigned __CPROVER_uninterpreted_cls_of_name(bl_cname); unsigned __CPROVER_uninterpreted_method_of(bl_clsid, bl_cname); unsigned __CPROVER_uninterpreted_vtable(bl_clsid, bl_cname);
#define CLS_OF_NAME(n) ((bl_clsid)(__CPROVER_uninterpreted_cls_of_name(n) % CMAX))
#define METHOD_OF(c, n) ((bl_mth)(__CPROVER_uninterpreted_method_of(c, n) % MMAX))
#define VT(c, s) ((bl_mth)(__CPROVER_uninterpreted_vtable(c, s) % MMAX))
static inline bl_clsid objm_findClass(bl_cname n) { return CLS_OF_NAME(n); }
static inline bl_mth objm_findMethod(bl_clsid c, bl_cname n) { return METHOD_OF(c, n); }
static inline bl_mth objm_vtable_find(bl_clsid c, bl_cname sig) { return VT(c, sig); }
#endif
bl_objid g_cur_this;      /* what currentThisObject() returns: the object the running method was called on */
static inline bl_objid objm_currentThisObject(void) { return g_cur_this; }
#define DYN_CLS OBJ_CLS(target.objectValue)
#define STATIC_CLS ((target.className != 0 && CLS_OF_NAME(target.className) != 0) ? CLS_OF_NAME(target.className) : DYN_CLS)
#define FOUND METHOD_OF(STATIC_CLS, member_member)
/* ---- region ctor_phases: constructors as rows, phase events on a ghost clock */
#ifndef KMAX
#define KMAX 8
#endif
typedef struct { bl_decl decl; bl_ptypes params; } CtorRow; CtorRow g_ctor[KMAX];
bl_decl superCtorDecl;                     /* local of runConstructorChain that the region sets */
int g_n_base, g_t_base, g_n_fields, g_t_fields; bl_clsid g_base_cls, g_fields_cls; bl_objid g_base_obj, g_fields_obj; bl_decl g_base_decl; _Bool g_base_raised, g_fields_raised;
size_t g_cb_n;
/* ---- findStaticFieldWithOwner: which class declares a static field of a name, and at which offset (uninterpreted) */
size_t gp; _Bool g_sfhas[CMAX];          /* ghost: a position on the chain; SF_HAS of every chain element, computed once (no calls in loop invariants) */
static inline bl_fptr objm_fptr_null(void) { bl_fptr p; p.cls = 0; p.off = 0; p.nonnull = 0; return p; }
static inline bl_fptr objm_fptr(bl_clsid c, size_t off) { bl_fptr p; p.cls = c; p.off = off; p.nonnull = 1; return p; }
#ifndef NATIVE
_Bool __CPROVER_uninterpreted_sf_has(bl_clsid, bl_cname); unsigned __CPROVER_uninterpreted_sf_off(bl_clsid, bl_cname);
#define SF_HAS(c, n) __CPROVER_uninterpreted_sf_has(c, n)
#define SF_OFF(c, n) ((size_t)(__CPROVER_uninterpreted_sf_off(c, n) % 16u))
static inline bl_sfit objm_sfi_find(bl_clsid c, bl_cname n) { return SF_HAS(c, n) ? (bl_sfit)SF_OFF(c, n) : (bl_sfit)-1; }
#endif
#define SCHAIN_OK (g_len >= 1 && g_len < CMAX && """ + _conj('J >= g_len || (g_chain[J] >= 1 && g_chain[J] < CMAX)', range(0, 8)) + ' && ' + _conj('J1 >= g_len || g_chain[J1] == g_cls[g_chain[J]].base', range(0, 7)) + r""" && g_chain[0] == cls && g_cls[g_chain[g_len - 1]].base == 0)
#define NONE_BEFORE(p) (""" + _conj('J >= (p) || !g_sfhas[J]', range(0, 8)) + r""")
/* ghost: the cheapest applicable base constructor (first of the cheapest), computed next to the code's own choice */
_Bool g_min_has; int g_min_cost; size_t g_min_idx, g_min_cnt; bl_decl g_min_decl;
#ifndef NATIVE
unsigned __CPROVER_uninterpreted_cls_nctors(bl_clsid); unsigned __CPROVER_uninterpreted_cls_ctor(bl_clsid, size_t); int __CPROVER_uninterpreted_ptypes_empty(bl_ptypes);
int __CPROVER_uninterpreted_cost_has(bl_ptypes); int __CPROVER_uninterpreted_cost_v(bl_ptypes); int __CPROVER_uninterpreted_decl_line(bl_decl); int __CPROVER_uninterpreted_decl_column(bl_decl);
#define CLS_NCTORS(c) ((size_t)(__CPROVER_uninterpreted_cls_nctors(c) % 4))
#define CLS_CTOR(c, i) ((bl_ctor)(__CPROVER_uninterpreted_cls_ctor(c, i) % KMAX))
#define PTYPES_EMPTY(p) (__CPROVER_uninterpreted_ptypes_empty(p) != 0)
#define DECL_LINE(d) __CPROVER_uninterpreted_decl_line(d)
#define DECL_COLUMN(d) __CPROVER_uninterpreted_decl_column(d)
static inline opt_int objm_argumentsConversionCost(bl_ptypes p) { opt_int r; r.has = __CPROVER_uninterpreted_cost_has(p) != 0; r.v = (int)((unsigned)__CPROVER_uninterpreted_cost_v(p) % 1000000u); return r; }
static inline void objm_rec_runConstructorChain(bl_clsid c, bl_objid o, bl_decl d) {
  if (g_pclock < 1000000) g_pclock = g_pclock + 1;
  if (g_n_base == 0) { g_t_base = g_pclock; g_base_cls = c; g_base_obj = o; g_base_decl = d; }
  if (g_n_base < 1000) g_n_base = g_n_base + 1;
  if (nondet_bool()) { g_base_raised = 1; bl_throw(BL_Runtime, 0, 0); }
}
static inline void objm_runFieldInitialisers(bl_clsid c, bl_objid o) {
  if (g_pclock < 1000000) g_pclock = g_pclock + 1;
  if (g_n_fields == 0) { g_t_fields = g_pclock; g_fields_cls = c; g_fields_obj = o; }
  if (g_n_fields < 1000) g_n_fields = g_n_fields + 1;
  if (nondet_bool()) { g_fields_raised = 1; bl_throw(BL_Runtime, 0, 0); }
}
#endif
#define HASDTOR(c) (g_cls[c].destructorDecl != 0 && DECL_BODY(g_cls[c].destructorDecl) != 0)
#define NSTM(c) BODY_NSTMTS(DECL_BODY(g_cls[c].destructorDecl))
/* the class table is acyclic (bases before derived classes) and g_chain is the chain of obj->cls */
#define TABLE_OK (""" + _conj('g_cls[J1].base >= 0 && g_cls[J1].base < J1', range(0, 7)) + r""")
#define CHAIN_OK (g_len >= 1 && g_len < CMAX && """ + _conj('J >= g_len || (g_chain[J] >= 1 && g_chain[J] < CMAX)', range(0, 8)) + ' && ' + _conj('J1 >= g_len || g_chain[J1] == g_cls[g_chain[J]].base', range(0, 7)) + r""" && g_chain[0] == OBJ_CLS(obj) && g_cls[g_chain[g_len - 1]].base == 0)
"""
RET = '__CPROVER_return_value'


def R(t):
    return ('', 'requires', t, [])


def E(label, t, props, **o):
    return (label, 'ensures', t, props, o)


def A(t):
    return ('', 'assigns', t, [])


GH_ALL = 'g_after_return, g_pclock, g_exec_n, g_exec_first_t, g_exec_first_stmt, g_begins, g_ends, ev_m_currentClassCtx, ev_m_inStaticContext, ev_m_inConstructor, ev_m_inDestructor, ev_m_hasReturn, g_a_entered, g_b_entered, g_a_started, g_b_started, g_b_started_when_a, g_a_this_ok, g_b_this_ok, g_depth, g_a_depth, g_b_depth, g_this, g_this_valid'
INV_CTX = 'ev_m_currentClassCtx == g_ctx0 && ev_m_inStaticContext == g_st0 && ev_m_inConstructor == g_ct0 && ev_m_inDestructor == g_dt0 && g_depth == g_depth0'
CONTRACTS = {
    'dtor_walk': {
        'contract': [
            R('bl_exc == 0 && OBJ_CLS(obj) >= 1 && OBJ_CLS(obj) < CMAX && TABLE_OK && CHAIN_OK'),
            R('BOUNDED_LIMITS && k1 < k2 && k2 < g_len && ca == g_chain[k1] && cb == g_chain[k2] && g_pos == 0 && g_depth < 1000000'),
            R('g_a_entered == 0 && g_b_entered == 0 && !g_a_started && !g_b_started && !g_b_started_when_a && g_begins == 0 && g_ends == 0'),
            A(GH_ALL + ', g_pos, g_obj, g_hasA, g_hasB, g_nsA, g_nsB, g_ns, g_depth0, g_ctx0, g_st0, g_ct0, g_dt0'),
            # C08: destructors run derived-first, once per class of the chain that declares one
            E('destroyObject.dtor_walk.every_declared_destructor_of_the_chain_runs_once', '(HASDTOR(ca) ? g_a_entered == 1 : g_a_entered == 0) && (HASDTOR(cb) ? g_b_entered == 1 : g_b_entered == 0)', ['C08']),
            E('destroyObject.dtor_walk.first_statement_executes', '((HASDTOR(ca) && NSTM(ca) > 0) ==> g_a_started) && ((HASDTOR(cb) && NSTM(cb) > 0) ==> g_b_started)', ['C08']),
            E('destroyObject.dtor_walk.derived_before_base', '(g_a_started && g_b_started) ==> !g_b_started_when_a', ['C08']),
            E('destroyObject.dtor_walk.body_sees_this_of_its_own_class', '(g_a_started ==> (g_a_this_ok && g_a_depth == __CPROVER_old(g_depth) + 1)) && (g_b_started ==> (g_b_this_ok && g_b_depth == __CPROVER_old(g_depth) + 1))', ['C08', 'C09']),
            E('destroyObject.dtor_walk.context_and_scope_depth_restored', 'ev_m_currentClassCtx == __CPROVER_old(ev_m_currentClassCtx) && ev_m_inStaticContext == __CPROVER_old(ev_m_inStaticContext) && ev_m_inConstructor == __CPROVER_old(ev_m_inConstructor) && ev_m_inDestructor == __CPROVER_old(ev_m_inDestructor) && g_depth == __CPROVER_old(g_depth)', ['C08', 'C09']),
        ],
        'prologue': 'g_obj = obj; g_hasA = HASDTOR(ca); g_hasB = HASDTOR(cb); g_nsA = g_hasA ? NSTM(ca) : 0; g_nsB = g_hasB ? NSTM(cb) : 0; g_depth0 = g_depth; g_ctx0 = ev_m_currentClassCtx; g_st0 = ev_m_inStaticContext; g_ct0 = ev_m_inConstructor; g_dt0 = ev_m_inDestructor;',
        'loops': {
            0: {'assigns': 'cur, ' + GH_ALL + ', g_pos, g_ns',
                'body_begin': 'g_pos = g_pos + 1;', 'ghost_in_bounded': True,
                'invariants': [
                    ('dtor_walk.outer.on_the_chain', 'g_pos <= g_len && cur >= 0 && cur < CMAX && cur == (g_pos < g_len ? g_chain[g_pos] : 0)'),
                    ('dtor_walk.outer.context', INV_CTX),
                    ('dtor_walk.outer.a_done', '(k1 < g_pos) ==> (g_a_entered == (g_hasA ? 1 : 0) && ((g_a_started != 0) == (g_hasA && g_nsA > 0)))'),
                    ('dtor_walk.outer.a_pending', '(k1 >= g_pos) ==> (g_a_entered == 0 && !g_a_started)'),
                    ('dtor_walk.outer.b_done', '(k2 < g_pos) ==> (g_b_entered == (g_hasB ? 1 : 0) && ((g_b_started != 0) == (g_hasB && g_nsB > 0)))'),
                    ('dtor_walk.outer.b_pending', '(k2 >= g_pos) ==> (g_b_entered == 0 && !g_b_started)'),
                    ('dtor_walk.outer.order', '!g_b_started_when_a'),
                    ('dtor_walk.outer.this_a', 'g_a_started ==> (g_a_this_ok && g_a_depth == g_depth0 + 1)'),
                    ('dtor_walk.outer.this_b', 'g_b_started ==> (g_b_this_ok && g_b_depth == g_depth0 + 1)'),
                ],
                'decreases': 'cur'},
            1: {'assigns': 'g_after_return, bl_i1, ev_m_hasReturn, g_pclock, g_exec_n, g_exec_first_t, g_exec_first_stmt, g_a_started, g_b_started, g_b_started_when_a, g_a_this_ok, g_b_this_ok, g_a_depth, g_b_depth',
                'before': 'g_ns = BODY_NSTMTS(DECL_BODY(g_cls[cur].destructorDecl));', 'ghost_in_bounded': True,
                'invariants': [
                    ('dtor_walk.inner.bounds', 'bl_i1 <= g_ns'),
                    ('dtor_walk.inner.a', '(cur == ca) ? ((bl_i1 > 0) ==> g_a_started) : ((g_a_started != 0) == (k1 < g_pos - 1 && g_hasA && g_nsA > 0))'),
                    ('dtor_walk.inner.b', '(cur == cb) ? ((bl_i1 > 0) ==> g_b_started) : ((g_b_started != 0) == (k2 < g_pos - 1 && g_hasB && g_nsB > 0))'),
                    ('dtor_walk.inner.order', '!g_b_started_when_a'),
                    ('dtor_walk.inner.this_a', 'g_a_started ==> (g_a_this_ok && g_a_depth == g_depth0 + 1)'),
                    ('dtor_walk.inner.this_b', 'g_b_started ==> (g_b_this_ok && g_b_depth == g_depth0 + 1)'),
                ],
                'decreases': 'g_ns - bl_i1'},
        },
    },
}
CONTRACTS['exec_block'] = {
    'contract': [
        R('bl_exc == 0 && g_depth < 1000000 && g_begins == 0 && g_ends == 0 && !ev_m_hasReturn && g_after_return == 0'),
        A(GH_ALL + ', g_blk_n'),
        # C07 ("return inside loops", nested control flow): once a nested statement has returned, no further statement of the block runs
        E('exec.block.nothing_runs_once_a_statement_has_returned', 'g_after_return == 0', ['C07']),
        # C09: a block opens exactly one scope and closes it on EVERY path (also when a nested statement returns), so nothing of it stays on the scope stack
        E('exec.block.scope_closed_on_every_path', 'g_depth == __CPROVER_old(g_depth) && g_begins == 1 && g_ends == 1', ['C09', 'C17']),
    ],
    'loops': {0: {'assigns': 'bl_i0, g_after_return, ev_m_hasReturn, g_pclock, g_exec_n, g_exec_first_t, g_exec_first_stmt, g_a_started, g_b_started, g_b_started_when_a, g_a_this_ok, g_b_this_ok, g_a_depth, g_b_depth', 'ghost_in_bounded': True,
                  'before': 'g_blk_n = BODY_NSTMTS(block);',
                  'invariants': [('exec_block.loop.bounds', 'bl_i0 <= g_blk_n && !ev_m_hasReturn && g_after_return == 0')],
                  'decreases': 'g_blk_n - bl_i0'}},
}
PH = 'g_n_base, g_t_base, g_n_fields, g_t_fields, g_base_cls, g_fields_cls, g_base_obj, g_fields_obj, g_base_decl, g_base_raised, g_fields_raised, superCtorDecl, g_cb_n, g_min_has, g_min_cost, g_min_idx, g_min_cnt, g_min_decl, bl_exc, bl_exc_line, bl_exc_col'
FIRST_BODY = 'BODY_STMT(DECL_BODY(ctor), (size_t)(hasExplicitSuper ? 1 : 0))'
CONTRACTS['ctor_phases'] = {
    'contract': [
        R('bl_exc == 0 && cls >= 1 && cls < CMAX && TABLE_OK && g_pclock == 0 && g_exec_n == 0 && g_n_base == 0 && g_n_fields == 0 && !g_base_raised && !g_fields_raised'),
        A(GH_ALL + ', g_first_body, ' + PH),
        E('construction.only_located_runtime_errors', 'bl_exc == 0 || bl_exc == BL_EXC(BL_Runtime)', ['C12', 'C08']),
        # C08: an object is built base-first: base constructor (chain), then this class's field initialisers, then its constructor body
        E('construction.base_constructor_chain_runs_first', '(bl_exc == 0 && g_cls[cls].base != 0) ==> (g_n_base == 1 && g_base_cls == g_cls[cls].base && g_base_obj == obj && g_n_fields == 1 && g_t_base < g_t_fields)', ['C08']),
        E('construction.no_base_no_chain', '(g_cls[cls].base == 0) ==> g_n_base == 0', ['C08']),
        E('construction.field_initialisers_once_before_the_body', '(bl_exc == 0) ==> (g_n_fields == 1 && g_fields_cls == cls && g_fields_obj == obj && (g_exec_n > 0 ==> g_t_fields < g_exec_first_t))', ['C08']),
        E('construction.body_starts_after_the_explicit_super_statement', '(bl_exc == 0 && g_exec_n > 0) ==> (ctor != 0 && g_exec_first_stmt == ' + FIRST_BODY + ')', ['C08']),
        E('construction.body_runs_when_there_is_one', '(bl_exc == 0 && ctor != 0 && DECL_BODY(ctor) != 0 && BODY_NSTMTS(DECL_BODY(ctor)) > (size_t)(hasExplicitSuper ? 1 : 0)) ==> g_exec_n > 0', ['C08']),
        # C08 (overloads): an explicit super(args) runs the applicable base constructor of lowest conversion cost; a tie is an error
        E('construction.explicit_super_runs_the_cheapest_applicable_base_constructor', '(bl_exc == 0 && g_cls[cls].base != 0 && hasExplicitSuper) ==> (g_min_has && g_min_cnt == 1 && g_n_base == 1 && g_base_decl == g_min_decl)', ['C08']),
        E('construction.explicit_super_without_an_applicable_or_with_two_cheapest_constructors_fails', '(g_cls[cls].base != 0 && hasExplicitSuper && (!g_min_has || g_min_cnt != 1)) ==> bl_exc != 0', ['C08']),
        E('construction.failed_base_chain_stops_construction', 'g_base_raised ==> (g_n_fields == 0 && g_exec_n == 0 && bl_exc != 0)', ['C08']),
        E('construction.failed_field_initialiser_stops_construction', 'g_fields_raised ==> (g_exec_n == 0 && bl_exc != 0)', ['C08']),
    ],
    'loops': {
        0: {'assigns': 'bl_i0, bestCost, superCtorDecl, matchedSuperCtor, ambiguousSuperCtor, g_min_has, g_min_cost, g_min_idx, g_min_cnt, g_min_decl',
            'before': 'g_cb_n = CLS_NCTORS(g_cls[cls].base);', 'ghost_in_bounded': True,
            'invariants': [('ctor_phases.explicit.bounds', 'bl_i0 <= g_cb_n'),
                           ('ctor_phases.explicit.choice_is_the_cheapest_so_far', '(matchedSuperCtor != 0) == (g_min_has != 0) && (g_min_has ==> (g_min_cost == bestCost && g_min_idx < bl_i0 && g_min_cnt >= 1 && superCtorDecl == g_min_decl && (ambiguousSuperCtor != 0) == (g_min_cnt != 1))) && (!g_min_has ==> (bestCost == 2147483647 && g_min_cnt == 0))')],
            'decreases': 'g_cb_n - bl_i0'},
        1: {'assigns': 'bl_i1, superCtorDecl, zeroArgMatches',
            'before': 'g_cb_n = CLS_NCTORS(g_cls[cls].base);',
            'invariants': [('ctor_phases.implicit.bounds', 'bl_i1 <= g_cb_n && zeroArgMatches >= 0 && (size_t)zeroArgMatches <= bl_i1')], 'decreases': 'g_cb_n - bl_i1'},
        2: {'assigns': 'g_after_return, i, ev_m_hasReturn, g_pclock, g_exec_n, g_exec_first_t, g_exec_first_stmt, g_a_started, g_b_started, g_b_started_when_a, g_a_this_ok, g_b_this_ok, g_a_depth, g_b_depth',
            'before': 'g_cb_n = BODY_NSTMTS(DECL_BODY(ctor));', 'ghost_in_bounded': True,
            'invariants': [('ctor_phases.body.bounds', 'i >= startIdx && (i <= g_cb_n || i == startIdx) && g_pclock >= 0 && g_pclock <= 1000000 && g_exec_n >= 0'),
                           ('ctor_phases.body.first_statement', '(g_exec_n == 0) == (i == startIdx)'),
                           ('ctor_phases.body.started_after_fields', '(g_exec_n > 0) ==> (g_exec_first_stmt == g_first_body && g_t_fields < g_exec_first_t)'),
                           ('ctor_phases.body.clock', 'g_t_fields <= g_pclock')],
            'decreases': '(g_cb_n > i) ? g_cb_n - i : 0'},
    },
    'prologue': 'g_first_body = ' + FIRST_BODY + '; g_min_has = 0; g_min_cost = 0; g_min_idx = 0; g_min_cnt = 0; g_min_decl = 0;',
    # the specification's own choice, kept next to the code's: first index of minimal cost, and how many constructors have that cost
    'after_decl': {'cost': 'if (cost.has) { if (!g_min_has || cost.v < g_min_cost) { g_min_has = 1; g_min_cost = cost.v; g_min_idx = bl_i0; g_min_cnt = 1; g_min_decl = g_ctor[c].decl; } else if (cost.v == g_min_cost && g_min_cnt < 1000) { g_min_cnt = g_min_cnt + 1; } }'},
}
CONTRACTS['member_dispatch'] = {
    'contract': [
        R('bl_exc == 0 && target.objectValue != 0 && DYN_CLS >= 0 && DYN_CLS < CMAX && TABLE_OK'),
        A('method, staticCls, receiver'),
        E('eval.member_call.receiver_is_the_target_object', 'receiver == target.objectValue', ['C08']),
        # C08: a virtual call runs the most-derived override of the receiver's DYNAMIC class
        E('eval.member_call.virtual_call_runs_override_of_dynamic_class', '(!viaSuper && FOUND != 0 && g_mth[FOUND].isVirtual && DYN_CLS != 0 && VT(DYN_CLS, g_mth[FOUND].signature) != 0) ==> method == VT(DYN_CLS, g_mth[FOUND].signature)', ['C08']),
        E('eval.member_call.non_virtual_call_runs_the_statically_found_method', '(!viaSuper && (FOUND == 0 || !g_mth[FOUND].isVirtual)) ==> method == FOUND', ['C08']),
        # ... while super.m() runs the base version
        E('eval.member_call.super_call_runs_the_base_version', '(viaSuper && STATIC_CLS != 0 && g_cls[STATIC_CLS].base != 0) ==> (method == METHOD_OF(g_cls[STATIC_CLS].base, member_member) && staticCls == g_cls[STATIC_CLS].base)', ['C08']),
    ],
}
CONTRACTS['member_dispatch_super'] = {
    'contract': [
        # eval(SuperExpression) yields a reference to the base of the running method's class; Name.m(...) one to the named class
        R('bl_exc == 0 && target.classRef > 0 && target.classRef < CMAX && TABLE_OK && receiver == 0 && g_cur_this != 0'),
        A('method, staticCls, receiver'),
        E('eval.member_call.class_qualified_call_runs_that_classes_version', 'method == METHOD_OF(target.classRef, member_member) && staticCls == target.classRef', ['C08']),
        # C08: "super.m() runs the base version" - of the SAME object: the base method's `this` is the object the running method was called on
        E('eval.member_call.super_call_keeps_the_receiver', 'viaSuper ==> receiver == g_cur_this', ['C08']),
        E('eval.member_call.static_call_has_no_receiver', '!viaSuper ==> receiver == 0', ['C08']),
    ],
}
CONTRACTS['findStaticFieldWithOwner'] = {
    'contract': [
        R('bl_exc == 0 && cls >= 1 && cls < CMAX && TABLE_OK && SCHAIN_OK && gp < CMAX && g_pos == 0'),
        A('g_pos, __CPROVER_object_whole(g_sfhas)'),
        # C08 ("static fields are shared per class"): the storage of a static field is that of the class that DECLARES it - the nearest one on the
        # chain cls, base, base-of-base - whichever subclass or object it is reached through
        E('static_field.owner_is_the_nearest_declaring_class', '(gp < g_len && SF_HAS(g_chain[gp], name) && NONE_BEFORE(gp)) ==> (%s.second == g_chain[gp] && %s.first.nonnull && %s.first.cls == g_chain[gp] && %s.first.off == SF_OFF(g_chain[gp], name))' % ((RET,) * 4), ['C08']),
        E('static_field.none_when_no_class_of_the_chain_declares_it', 'NONE_BEFORE(g_len) ==> (%s.second == 0 && !%s.first.nonnull)' % (RET, RET), ['C08']),
    ],
    'prologue': ' '.join('g_sfhas[%d] = (%d < g_len) && SF_HAS(g_chain[%d], name);' % (j, j, j) for j in range(8)),
    'loops': {0: {'assigns': 'cur, g_pos', 'body_begin': 'g_pos = g_pos + 1;', 'ghost_in_bounded': True,
                  'invariants': [('findStaticField.loop.on_the_chain', 'g_pos <= g_len && cur >= 0 && cur < CMAX && cur == (g_pos < g_len ? g_chain[g_pos] : 0) && NONE_BEFORE(g_pos)')],
                  'decreases': 'cur'}},
}
CONTRACTS['exec_for'] = {
    'contract': [
        R('bl_exc == 0 && g_depth < 1000000 && g_begins == 0 && g_ends == 0 && g_pclock == 0 && g_exec_n == 0 && !ev_m_hasReturn && g_after_return == 0'),
        A(GH_ALL + ', g_depth0'),
        # C07: a return inside the body leaves the loop at once - neither the increment nor the condition is evaluated, the body does not run again
        E('exec.for.nothing_runs_once_the_body_has_returned', 'g_after_return == 0', ['C07']),
        # C09: the scope of a for statement's header variable is opened once and closed on every path out of the loop (partial correctness:
        # the interpreted loop itself need not terminate, so there is no decreases clause)
        E('exec.for.scope_closed_on_every_path', 'g_depth == __CPROVER_old(g_depth) && g_begins == 1 && g_ends == 1', ['C09', 'C17']),
    ],
    'loops': {0: {'assigns': 'g_after_return, ev_m_hasReturn, g_pclock, g_exec_n, g_exec_first_t, g_exec_first_stmt, g_a_started, g_b_started, g_b_started_when_a, g_a_this_ok, g_b_this_ok, g_a_depth, g_b_depth',
                  'invariants': [('exec_for.loop.scope_open', 'g_depth == g_depth0 + 1 && g_begins == 1 && g_ends == 0 && !ev_m_hasReturn && g_after_return == 0')]}},
    'prologue': 'g_depth0 = g_depth;',
}
CONTRACTS['exec_while'] = {
    'contract': [
        R('bl_exc == 0 && g_depth < 1000000 && g_begins == 0 && g_ends == 0 && !ev_m_hasReturn && g_after_return == 0'),
        A(GH_ALL),
        E('exec.while.nothing_runs_once_the_body_has_returned', 'g_after_return == 0', ['C07']),
        E('exec.while.opens_no_scope', 'g_depth == __CPROVER_old(g_depth) && g_begins == 0 && g_ends == 0', ['C09']),
    ],
    'loops': {0: {'assigns': 'g_after_return, ev_m_hasReturn, g_pclock, g_exec_n, g_exec_first_t, g_exec_first_stmt, g_a_started, g_b_started, g_b_started_when_a, g_a_this_ok, g_b_this_ok, g_a_depth, g_b_depth',
                  'invariants': [('exec_while.loop.no_return_pending', '!ev_m_hasReturn && g_after_return == 0')]}},
}
HARNESSES = [
    dict(name='findStaticFieldWithOwner', fn='findStaticFieldWithOwner', replace=[], flags=[], props=['C08', 'C12'], timeout=300, unwind=9, canaries=[('1', 'return')]),
    dict(name='exec_for', fn='exec_for', replace=[], flags=[], props=['C09', 'C17', 'C12', 'C07'], timeout=300, unwind=4, guards_no_decreases=True,
         canaries=[('ev_m_hasReturn', 'left by a return'), ('!ev_m_hasReturn', 'left by the condition')]),
    dict(name='exec_while', fn='exec_while', replace=[], flags=[], props=['C07', 'C09', 'C12'], timeout=300, unwind=4, guards_no_decreases=True,
         canaries=[('ev_m_hasReturn', 'left by a return'), ('!ev_m_hasReturn', 'left by the condition')]),
    dict(name='ctor_phases', fn='ctor_phases', replace=[], flags=[], props=['C08', 'C12'], timeout=600, unwind=6,
         canaries=[('bl_exc == 0 && g_n_base == 1 && g_exec_n > 0', 'base chain, fields and body all ran'), ('bl_exc != 0', 'construction failed')]),
    dict(name='member_dispatch', fn='member_dispatch', replace=[], flags=[], props=['C08', 'C12'], timeout=300,
         canaries=[('method != 0 && !a1', 'a method was selected'), ('a1', 'super call')]),
    dict(name='member_dispatch_super', fn='member_dispatch_super', replace=[], flags=[], props=['C08', 'C12'], timeout=300,
         canaries=[('a1', 'super call'), ('!a1', 'class-qualified call')]),
    dict(name='exec_block', fn='exec_block', replace=[], flags=[], props=['C09', 'C17', 'C12', 'C07'], timeout=300, unwind=5,
         canaries=[('ev_m_hasReturn', 'a nested statement returned'), ('!ev_m_hasReturn', 'ran to the end')]),
    dict(name='dtor_walk', fn='dtor_walk', replace=[], flags=[], props=['C08', 'C09', 'C12'], timeout=600, unwind=5,
         canaries=[('g_a_started && g_b_started', 'both observed destructors ran'), ('!g_a_started', 'derived class has no destructor statement')]),
]


from tools import native as _nat


def _oracle():
    bd = _nat.repo_build(('bloch',))
    return _nat.run(['python3', os.path.join(_nat.ROOT, 'native', 'objm_oracle.py'), os.path.join(bd, 'bin', 'bloch'), 'sweep'], timeout=600)


def native_validate(pu, work, tier, seed):
    try:
        rc, out, dt = _oracle()
        js = _nat.last_json(out)
        return dict(unit='OBJM', kind='oracle on the real interpreter (class chains of depth <= 4 with every subset of destructors: destroy must print exactly the declared destructors, derived first); no co-execution for this unit', status='agree',
                    oracle_sweep=dict(checks=js.get('oracle_checks'), failures=js.get('oracle_failures'), failing_labels=sorted(set(re.findall(r'FAIL label=(\S+)', out)))), wall_s=round(dt, 1))
    except _nat.Break as e:
        return dict(unit='OBJM', status='error', detail=str(e))


def replay_counterexample(pu, h, label, failure, work, tier, seed):
    rc, out, dt = _oracle()
    fails = [l for l in out.split('\n') if l.startswith('FAIL ')]
    same = [l for l in fails if label and ('label=' + label + ' ') in l]
    pick = same or fails
    if pick:
        m = re.search(r'label=(\S+)', pick[0])
        return dict(failing_input_found=True, failing_input=pick[0][:1500], native_failures=[f[:300] for f in fails[:4]], oracle_label=m.group(1), signature=re.sub(r' program=.*', '', pick[0])[:160],
                    reproduce_args=['sweep'], reproduce='bin/check <property> --replay <this file>', replay_inputs_tried=['sweep'], matched_same_obligation=bool(same))
    return dict(failing_input_found=False, replay_inputs_tried=['sweep'], signature='')


def run_reproduce(rec, work):
    rc, out, dt = _oracle()
    print(out)
    return 1 if rc else 0
