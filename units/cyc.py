"""Unit CYC — compiler/semantics/semantic_analyser.cpp: the recursive validateClass lambda (base classes are validated
before the classes derived from them, C10) and the inheritance-cycle walk of buildClassRegistry (the body
of `for (auto& [name, info] : m_classes)` that declares `seen`) — C13: the analyser terminates on cyclic class
hierarchies and answers with one Semantic diagnostic; C16: inheritance cycles are rejected."""
import re, os
from tools import cxx2c
from tools.cxx2c import Lower, Unsupported, kids, qt, qt_sugar, strip, strip_parens, callee_name, norm_type, walk
from tools.cxx2c import REPO as _REPO

NAME = 'CYC'
SRC = _REPO + '/src/bloch/compiler/semantics/semantic_analyser.cpp'
NAMESPACE = 'bloch::compiler'
FUNCS = []
AST_FILTER = ['SemanticAnalyser::buildClassRegistry', 'SemanticAnalyser::findClass']
SHIM = 'cyc.h'
THROWING = {'cycle_walk', 'validate_class'}
DROPS = ['region cycle_walk: the statements of the body of the range-for over m_classes that declares `seen` (the structured binding [name, info] becomes two parameters)',
         'class names are small integers, a class is the table entry with the index of its name (0 = no class / empty name); std::unordered_set<std::string> is a flag array indexed by name',
         'findClass is modelled on the same table (checked to be the plain map lookup it is modelled as)',
         'region validate_class: the body of the recursive local lambda `validateClass` of buildClassRegistry; the captured set `validated` is a file-level flag array; m_classes.find(name) is the table lookup; validateOverrides / validateAbstractness are one ghost-recording model (they may raise a Semantic error); the recursive call is a contract-only copy carrying the contract being proved (induction on the depth of the recursion; that it ends is the acyclicity established by cycle_walk, not re-proved here)']
ASSUMPTIONS = ['KNAMES = 8 distinct names (object-size bound): the walk is proved to end within KNAMES steps for every table, cyclic or not']


class Profile(Lower):
    CLS = 'cyc'
    SELF_T = ''
    IS_METHOD = False
    WRAP_DOUBLE_OPS = False
    TYPE_MAP = [
        (r'^(std::)?(basic_string<char.*>|string)$', 'bl_cname'),
        (r'^(bloch::compiler::)?(SemanticAnalyser::)?ClassInfo \*$', 'bl_cls'),
        (r'^(bloch::compiler::)?(SemanticAnalyser::)?ClassInfo$', 'bl_cls'),
        (r'^std::unordered_set<std::(basic_string<char.*>|string).*>$', 'bl_nameset'),
        (r'^std::unordered_map<std::(basic_string<char.*>|string), (bloch::compiler::)?(SemanticAnalyser::)?ClassInfo.*>::iterator$', 'bl_cls'),
        (r'^std::__detail::_Node_iterator(_base)?<std::pair<(const )?std::(basic_string<char.*>|string), (bloch::compiler::)?(SemanticAnalyser::)?ClassInfo>.*$', 'bl_cls'),
    ]

    def member(self, n):
        base = kids(n)[0]
        sb = strip(base)
        if n['name'] == 'second' and sb.get('kind') == 'CXXOperatorCallExpr' and callee_name(kids(sb)[0]) == 'operator->' and self.ct(kids(sb)[1]) == 'bl_cls':
            return self.expr(kids(sb)[1])         # it->second : the table entry the iterator stands for
        if self.ct(sb) == 'bl_cls' and n['name'] in ('base', 'line', 'column'):
            return 'g_ci[BL_IDX(%s, KNAMES)].%s' % (self.expr(sb), n['name'])
        raise Unsupported('member %s of %s' % (n['name'], qt(sb)))

    def unary(self, n):
        if n.get('opcode') == '&' and self.ct(kids(n)[0]) == 'bl_cls':
            return self.expr(kids(n)[0])          # &info : the table entry itself
        return super().unary(n)

    def cast_other(self, n, ck, inner):
        if ck == 'PointerToBoolean' and self.ct(inner) == 'bl_cls':
            return '(%s != 0)' % self.expr(inner)
        return super().cast_other(n, ck, inner)

    def decl(self, v):
        if self.ctype_safe(qt(v)) == 'bl_nameset':
            self.locals.add(v['name'])
            return '_Bool %s[KNAMES] = {0};' % v['name']
        return super().decl(v)

    def membercall_other(self, n, name, obj, args):
        so = strip(obj)
        if so.get('kind') == 'CXXThisExpr' and name == 'findClass' and len(args) == 1:
            return 'cyc_findClass(%s)' % self.expr(args[0])
        if so.get('kind') == 'CXXThisExpr' and name in ('validateOverrides', 'validateAbstractness') and len(args) == 1:
            self.needs_prop = True
            return 'cyc_validate_event(%s)' % self.expr(args[0])
        if so.get('kind') == 'MemberExpr' and so.get('name') == 'm_classes' and name == 'find' and len(args) == 1:
            return 'cyc_findClass(%s)' % self.expr(args[0])
        if so.get('kind') == 'MemberExpr' and so.get('name') == 'm_classes' and name == 'end' and not args:
            return '((bl_cls)0)'
        t = self.ct(obj)
        o = self.expr(obj)
        if t == 'bl_cname' and name == 'empty':
            return '(%s == 0)' % o
        if t == 'bl_nameset' and name == 'count' and len(args) == 1:
            return '(%s[BL_IDX(%s, KNAMES)] ? 1 : 0)' % (o, self.expr(args[0]))
        if t == 'bl_nameset' and name == 'insert' and len(args) == 1:
            return '(%s[BL_IDX(%s, KNAMES)] = 1)' % (o, self.expr(args[0]))
        raise Unsupported('member call %s on %s' % (name, qt(obj)))

    def membercall(self, n):
        ks = kids(n)
        me = strip(ks[0])
        return self.membercall_other(n, me['name'], kids(me)[0], ks[1:])

    def construct(self, n):
        raise Unsupported('ctor ' + qt(n))

    def opcall(self, n):
        ks = kids(n)
        op = callee_name(ks[0])
        args = ks[1:]
        if op in ('operator==', 'operator!=') and self.ct(args[0]) in ('bl_cname', 'bl_cls'):
            return '(%s %s %s)' % (self.expr(args[0]), op[len('operator'):], self.expr(args[1]))
        if op == 'operator->' and self.ct(args[0]) == 'bl_cls':
            return self.expr(args[0])
        if op == 'operator()' and strip_parens(args[0]).get('kind') == 'DeclRefExpr' and strip_parens(args[0])['referencedDecl']['name'] == 'validateClass' and len(args) == 2:
            self.needs_prop = True
            return 'cyc_validateClass_rec(%s)' % self.expr(args[1])      # the recursive call: contract-only copy (induction hypothesis)
        raise Unsupported('operator %s on %s' % (op, qt(args[0])))


def lower_regions(docs, prof):
    head = 'void cyc_cycle_walk(bl_cname name, bl_cls info)'
    try:
        # findClass must still be the plain lookup it is modelled as
        fc = cxx2c.find_functions(docs, 'findClass')
        if len(fc) != 1:
            raise Unsupported('findClass: %d definitions' % len(fc))
        calls = []
        walk(fc[0], lambda z: calls.append(strip(kids(z)[0]).get('name')) if z.get('kind') == 'CXXMemberCallExpr' else None)
        if sorted(c for c in calls if c) != ['end', 'find']:
            raise Unsupported('findClass is no longer `m_classes.find(name)` / `end()`: calls %s' % calls)
        ds = cxx2c.find_functions(docs, 'buildClassRegistry')
        if len(ds) != 1:
            raise Unsupported('buildClassRegistry: %d definitions' % len(ds))
        loops = []
        walk(ds[0], lambda z: loops.append(z) if z.get('kind') == 'CXXForRangeStmt' else None)
        tgt = None
        for lp in loops:
            body = kids(lp)[-1]
            if body.get('kind') == 'CompoundStmt' and any(s.get('kind') == 'DeclStmt' and any(v.get('name') == 'seen' for v in kids(s)) for s in kids(body)):
                tgt = body
                break
        if tgt is None:
            # the cycle walk may have been rewritten without a `seen` set: take the loop whose body declares `cur` from `&info`
            for lp in loops:
                body = kids(lp)[-1]
                if body.get('kind') == 'CompoundStmt' and any(s.get('kind') == 'DeclStmt' and any(v.get('name') == 'cur' for v in kids(s)) for s in kids(body)) \
                        and any(s.get('kind') == 'WhileStmt' for s in kids(body)):
                    tgt = body
                    break
        if tgt is None:
            raise Unsupported('cycle walk (loop over m_classes declaring `seen` / `cur`) not found in buildClassRegistry')
        d = dict(kind='FunctionDecl', name='cycle_walk', type=dict(qualType='void ()'), inner=[tgt])
        prof.locals |= {'name', 'info'}
        h2, lines = prof.func(d, cname='cycle_walk', is_method=False)
        out = [(head, lines)]
    except Unsupported as e:
        prof.region_unlowered = {'cycle_walk': str(e)}
        out = [(head, None)]
    hv = 'void cyc_validate_class(bl_cname name)'
    try:
        ds = cxx2c.find_functions(docs, 'buildClassRegistry')
        if len(ds) != 1:
            raise Unsupported('buildClassRegistry: %d definitions' % len(ds))
        vs = []
        walk(ds[0], lambda z: vs.append(z) if z.get('kind') == 'VarDecl' and z.get('name') == 'validateClass' else None)
        if len(vs) != 1:
            raise Unsupported('local lambda validateClass: %d definitions' % len(vs))
        lams = []
        walk(vs[0], lambda z: lams.append(z) if z.get('kind') == 'LambdaExpr' else None)
        if not lams:
            raise Unsupported('validateClass is not a lambda')
        lam = lams[0]
        rec = [k for k in kids(lam) if k.get('kind') == 'CXXRecordDecl'][0]
        call = [m for m in kids(rec) if m.get('kind') == 'CXXMethodDecl' and m.get('name') == 'operator()'][0]
        ps = [pd for pd in kids(call) if pd.get('kind') == 'ParmVarDecl']
        if [pd.get('name') for pd in ps] != ['name']:
            raise Unsupported('validateClass parameters changed')
        lbody = [k for k in kids(lam) if k.get('kind') == 'CompoundStmt'][-1]
        d = dict(kind='FunctionDecl', name='validate_class', type=dict(qualType='void ()'), inner=[lbody])
        h3, l3 = prof.func(d, cname='validate_class', is_method=False)
        out.append((hv, l3))
    except Unsupported as e:
        if not hasattr(prof, 'region_unlowered'):
            prof.region_unlowered = {}
        prof.region_unlowered['validate_class'] = str(e)
        out.append((hv, None))
    return out


KNAMESN = 8
GHOSTS = r"""
int bl_exc, bl_exc_line, bl_exc_col;
#define EXC_SEM BL_EXC(BL_Semantic)
typedef struct { bl_cname base; _Bool exists; int line; int column; } ClassRow;
ClassRow g_ci[KNAMES];                    /* the class table: entry k is the class named k (if it exists) */
size_t g_steps;                         /* ghost: iterations of the walk */
static inline bl_cls cyc_findClass(bl_cname n) { return (n > 0 && n < KNAMES && g_ci[n].exists) ? n : 0; }
#define SEEN_COUNT (""" + ' + '.join('(seen[%d] ? 1 : 0)' % j for j in range(KNAMESN)) + r""")
#define TABLE_WF (""" + ' && '.join('(g_ci[%d].base >= 0 && g_ci[%d].base < KNAMES)' % (j, j) for j in range(KNAMESN)) + r""")
"""
GHOSTS += r"""
/* ---- region validate_class */
_Bool validated[KNAMES];               /* the captured std::unordered_set<std::string> validated */
bl_cname gc, gv;                       /* ghost: one arbitrary class whose validation is observed; one arbitrary name */
_Bool g_ran_gc, g_base_ok_when_gc_ran;
#define EXISTS(n) ((n) > 0 && (n) < KNAMES && g_ci[n].exists)
#define BASE_DONE(c) (g_ci[c].base == 0 || !EXISTS(g_ci[c].base) || validated[g_ci[c].base])
#ifndef NATIVE
_Bool nondet_bool(void);
/* validateOverrides(info) / validateAbstractness(info): what they compute about `info` relies on the same facts about its base class being complete */
static inline void cyc_validate_event(bl_cls c) {
  if (c == gc && !g_ran_gc) { g_ran_gc = 1; g_base_ok_when_gc_ran = BASE_DONE(gc); }
  if (nondet_bool()) { bl_throw(BL_Semantic, g_ci[BL_IDX(c, KNAMES)].line, g_ci[BL_IDX(c, KNAMES)].column); }
}
#define VC_PRE (TABLE_WF && gc >= 1 && gc < KNAMES && gv >= 0 && gv < KNAMES && (g_ran_gc ==> g_base_ok_when_gc_ran))
void cyc_validateClass_rec(bl_cname name)
__CPROVER_requires(bl_exc == 0 && name >= 0 && name < KNAMES && VC_PRE)
__CPROVER_assigns(__CPROVER_object_whole(validated), g_ran_gc, g_base_ok_when_gc_ran, bl_exc, bl_exc_line, bl_exc_col)
__CPROVER_ensures(bl_exc == 0 || bl_exc == EXC_SEM)
__CPROVER_ensures((bl_exc == 0 && EXISTS(name)) ==> validated[name])
__CPROVER_ensures(__CPROVER_old(validated[gv]) ==> validated[gv])
__CPROVER_ensures(g_ran_gc ==> g_base_ok_when_gc_ran)
;
#endif
"""
RET = '__CPROVER_return_value'


def R(t):
    return ('', 'requires', t, [])


def E(label, t, props, **o):
    return (label, 'ensures', t, props, o)


def A(t):
    return ('', 'assigns', t, [])


CONTRACTS = {
    'cycle_walk': {
        'contract': [
            R('bl_exc == 0 && TABLE_WF && info >= 1 && info < KNAMES && g_ci[info].exists && name == info && g_steps == 0'),
            A('bl_exc, bl_exc_line, bl_exc_col, g_steps'),
            E('buildClassRegistry.cycle_walk.one_semantic_error_at_the_class', 'bl_exc == 0 || (bl_exc == EXC_SEM && bl_exc_line == g_ci[info].line && bl_exc_col == g_ci[info].column)', ['C13', 'C16']),
            # C13: the walk ends for every class table, cyclic or not (the decreases clause of the loop is the proof); it takes at most KNAMES steps
            E('buildClassRegistry.cycle_walk.ends_within_the_number_of_names', 'g_steps <= KNAMES', ['C13']),
            E('buildClassRegistry.cycle_walk.direct_self_inheritance_is_rejected', '(g_ci[info].base == info) ==> bl_exc == EXC_SEM', ['C16', 'C13']),
            E('buildClassRegistry.cycle_walk.two_class_cycle_is_rejected', '(g_ci[info].base > 0 && g_ci[info].base != info && g_ci[g_ci[info].base].exists && g_ci[g_ci[info].base].base == info) ==> bl_exc == EXC_SEM', ['C16', 'C13']),
            E('buildClassRegistry.cycle_walk.root_class_is_accepted', '(g_ci[info].base == 0) ==> bl_exc == 0', ['C16']),
        ],
        'loops': {
            0: {'assigns': 'cur, __CPROVER_object_whole(seen), g_steps, bl_exc, bl_exc_line, bl_exc_col', 'ghost_in_bounded': True,
                'body_begin': 'g_steps = g_steps + 1;',
                'invariants': [('cycle_walk.loop.bounds', 'cur >= 0 && cur < KNAMES && bl_exc == 0 && g_steps <= KNAMES'),
                               ('cycle_walk.loop.every_step_marks_a_new_name', 'g_steps == (size_t)(SEEN_COUNT)'),
                               ('cycle_walk.loop.empty_name_never_marked', '!seen[0] && g_steps < KNAMES'),
                               ('cycle_walk.loop.self_cycle_stays', '(g_ci[info].base == info) ==> cur == info'),
                               ('cycle_walk.loop.two_cycle_stays', '(g_ci[info].base > 0 && g_ci[info].base != info && g_ci[g_ci[info].base].exists && g_ci[g_ci[info].base].base == info) ==> (cur == info || cur == g_ci[info].base)'),
                               ('cycle_walk.loop.first_steps', '(g_steps == 0) ==> cur == info'),
                               ('cycle_walk.loop.second_step', '(g_steps == 1) ==> (cur == cyc_first_base && seen_base_of_info)')],
                'decreases': 'KNAMES - (SEEN_COUNT)'},
        },
    },
}
# the two-class-cycle clause needs to know what the first two steps did: ghost facts computed before the loop
GHOSTS += 'bl_cls cyc_first_base; _Bool seen_base_of_info;\n'
CONTRACTS['cycle_walk']['loops'][0]['before'] = 'cyc_first_base = cyc_findClass(g_ci[info].base);'
CONTRACTS['cycle_walk']['loops'][0]['invariants'][6] = ('cycle_walk.loop.second_step', '(g_steps == 1) ==> (cur == cyc_first_base && seen[g_ci[info].base])')
CONTRACTS['cycle_walk']['contract'][1] = A('bl_exc, bl_exc_line, bl_exc_col, g_steps, cyc_first_base')
CONTRACTS['validate_class'] = {
    'contract': [
        R('bl_exc == 0 && name >= 0 && name < KNAMES && VC_PRE'),
        A('__CPROVER_object_whole(validated), g_ran_gc, g_base_ok_when_gc_ran, bl_exc, bl_exc_line, bl_exc_col'),
        E('buildClassRegistry.validate_class.only_semantic_errors', 'bl_exc == 0 || bl_exc == EXC_SEM', ['C13']),
        E('buildClassRegistry.validate_class.the_class_ends_up_validated', '(bl_exc == 0 && EXISTS(name)) ==> validated[name]', ['C10', 'C16']),
        E('buildClassRegistry.validate_class.validated_classes_stay_validated', '__CPROVER_old(validated[gv]) ==> validated[gv]', ['C10']),
        # C10: what is decided about a class must not depend on whether its base class was declared (and visited) before it:
        # the base class is always validated first
        E('buildClassRegistry.validate_class.base_class_is_validated_before_the_derived_class', 'g_ran_gc ==> g_base_ok_when_gc_ran', ['C10', 'C16']),
    ],
}
HARNESSES = [
    dict(name='validate_class', fn='validate_class', replace=['cyc_validateClass_rec'], flags=[], props=['C10', 'C16', 'C13', 'C12'], timeout=300, bounded_replace=['cyc_validateClass_rec'],
         canaries=[('bl_exc == 0 && g_ran_gc', 'the observed class was validated'), ('bl_exc != 0', 'rejected')]),
    dict(name='cycle_walk', fn='cycle_walk', replace=[], flags=[], props=['C13', 'C16', 'C12'], timeout=600, unwind=10,
         canaries=[('bl_exc == 0 && g_steps >= 2', 'a chain of several classes was accepted'), ('bl_exc != 0 && g_steps >= 3', 'a longer cycle was rejected')]),
]


from tools import native as _nat


def _oracle():
    bd = _nat.repo_build(('bloch',))
    return _nat.run(['python3', os.path.join(_nat.ROOT, 'native', 'cyc_oracle.py'), os.path.join(bd, 'bin', 'bloch'), 'sweep'], timeout=900)


def native_validate(pu, work, tier, seed):
    try:
        rc, out, dt = _oracle()
        js = _nat.last_json(out)
        return dict(unit='CYC', kind='oracle on the real analyser through the CLI (class hierarchies with cycles of length 1..3 entered from inside and from outside the cycle, in every declaration order; 8 s timeout per program); no co-execution for this unit', status='agree',
                    oracle_sweep=dict(checks=js.get('oracle_checks'), failures=js.get('oracle_failures'), failing_labels=sorted(set(re.findall(r'FAIL label=(\S+)', out)))), wall_s=round(dt, 1))
    except _nat.Break as e:
        return dict(unit='CYC', status='error', detail=str(e))


def replay_counterexample(pu, h, label, failure, work, tier, seed):
    rc, out, dt = _oracle()
    fails = [l for l in out.split('\n') if l.startswith('FAIL ')]
    same = [l for l in fails if label and ('label=' + label + ' ') in l]
    pick = same or fails
    if pick:
        m = re.search(r'label=(\S+)', pick[0])
        return dict(failing_input_found=True, failing_input=pick[0][:1200], native_failures=[f[:300] for f in fails[:4]], oracle_label=m.group(1), signature=re.sub(r' program=.*', '', pick[0])[:160],
                    reproduce_args=['sweep'], reproduce='bin/check <property> --replay <this file>', replay_inputs_tried=['sweep'], matched_same_obligation=bool(same))
    return dict(failing_input_found=False, replay_inputs_tried=['sweep'], signature='')


def run_reproduce(rec, work):
    rc, out, dt = _oracle()
    print(out)
    return 1 if rc else 0
