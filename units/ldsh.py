"""Unit LDSH — compiler/import/module_loader.cpp: the tail of ModuleLoader::load that counts `main` and extracts
@shots(N) (from `size_t mainCount = 0;` to the statement before `return merged;`) — C13: a categorised diagnostic,
never a raw C++ exception, whatever the annotation value; C17: the annotation's value is what the program carries."""
import re, os
from tools import cxx2c
from tools.cxx2c import Lower, Unsupported, kids, qt, qt_sugar, strip, strip_parens, callee_name, norm_type, walk
from tools.cxx2c import REPO as _REPO

NAME = 'LDSH'
SRC = _REPO + '/src/bloch/compiler/import/module_loader.cpp'
NAMESPACE = 'bloch::compiler'
FUNCS = []
AST_FILTER = ['ModuleLoader::load']
SHIM = 'ldsh.h'
THROWING = {'main_and_shots'}
DROPS = ['region main_and_shots: the statements of ModuleLoader::load from the declaration of `mainCount` up to (not including) `return merged;`; `merged->functions` becomes an array of function rows {present, name, hasShotsAnnotation, annotations[]}, `merged->shots` a ghost pair',
         'names are interned literal ids; the annotation value (token text of an integer literal) is {interned id, length}: std::stoi may raise std::out_of_range for texts longer than 9 digits, its value is an uninterpreted function of the text',
         'everything before (file resolution, parsing, module merge) is not lowered']
ASSUMPTIONS = ['the annotation value is a non-empty digit string (what the parser accepts after @shots( ); std::stoi of at most 9 digits never fails']


class Profile(Lower):
    CLS = 'ldsh'
    SELF_T = ''
    IS_METHOD = False
    WRAP_DOUBLE_OPS = False
    TYPE_MAP = [
        (r'^(std::)?(basic_string<char.*>|string)$', 'bl_txt'),
        (r'^std::unique_ptr<(bloch::compiler::)?FunctionDeclaration(, std::default_delete<.*>)?>$', 'bl_fnref'),
        (r'^std::unique_ptr<(bloch::compiler::)?AnnotationNode(, std::default_delete<.*>)?>$', 'bl_annref'),
        (r'^std::vector<std::unique_ptr<(bloch::compiler::)?FunctionDeclaration(, std::default_delete<.*>)?>(, .*)?>$', 'bl_fns'),
        (r'^std::vector<std::unique_ptr<(bloch::compiler::)?AnnotationNode(, std::default_delete<.*>)?>(, .*)?>$', 'bl_anns'),
        (r'^std::unique_ptr<(bloch::compiler::)?Program(, std::default_delete<.*>)?>$', 'bl_prog'),
        (r'^std::pair<bool, int>$', 'pair_bool_int'),
    ]

    def __init__(self, *a, **k):
        super().__init__(*a, **k)
        self.lits = ['""']

    def lit_id(self, value):
        if value not in self.lits:
            self.lits.append(value)
        return self.lits.index(value)

    def subst(self, text):
        return re.sub(r'SLIT\(("(?:[^"\\]|\\.)*")\)', lambda m: str(self.lit_id(m.group(1))), text)

    def file_prelude(self):
        return ['/* literal ids: %s */' % ', '.join('%d=%s' % (i, l) for i, l in enumerate(self.lits))]

    def string_literal(self, n):
        return 'bl_txt_lit(%d)' % self.lit_id(n['value'])

    def cast(self, n):
        if n.get('castKind') == 'ArrayToPointerDecay' and strip_parens(kids(n)[0]).get('kind') == 'StringLiteral':
            return self.expr(kids(n)[0])
        return super().cast(n)

    def member(self, n):
        base = kids(n)[0]
        sb = strip(base)
        nm = n['name']
        bt = self.ct(sb)
        if sb.get('kind') == 'CXXOperatorCallExpr' and callee_name(kids(sb)[0]) == 'operator->':
            inner = kids(sb)[1]
            it = self.ct(inner)
            if it == 'bl_fnref' and nm in ('name', 'hasShotsAnnotation', 'annotations'):
                return 'g_fns[BL_IDX(%s, FMAX)].%s' % (self.expr(inner), nm)
            if it == 'bl_annref' and nm in ('name', 'value', 'line', 'column'):
                return 'ANN(%s).%s' % (self.expr(inner), nm)
            if it == 'bl_prog' and nm == 'functions':
                return 'BL_FUNCTIONS'
            if it == 'bl_prog' and nm == 'shots':
                return 'g_shots'
        raise Unsupported('member %s of %s' % (nm, qt(sb)))

    def opcall(self, n):
        ks = kids(n)
        op = callee_name(ks[0])
        args = ks[1:]
        t0 = self.ct(args[0])
        if op in ('operator==', 'operator!=') and t0 == 'bl_txt':
            return '(%s(%s).id == (%s).id)' % ('' if op == 'operator==' else '!', self.expr(args[0]), self.expr(args[1]))
        if op == 'operator=' and t0 == 'pair_bool_int':
            return '(%s = %s)' % (self.expr(args[0]), self.expr(args[1]))
        if op == 'operator->':
            raise Unsupported('operator-> outside a member access')
        raise Unsupported('operator %s on %s' % (op, qt(args[0])))

    def initlist(self, n):
        if self.ct(n) == 'pair_bool_int' and len(kids(n)) == 2:
            return '(pair_bool_int){ %s }' % ', '.join(self.expr(a) for a in kids(n))
        return super().initlist(n)

    def construct(self, n):
        ct = self.ctype_safe(qt(n))
        args = [a for a in kids(n) if a.get('kind') != 'CXXDefaultArgExpr']
        if ct == 'pair_bool_int' and len(args) == 2:
            return '(pair_bool_int){ %s, %s }' % (self.expr(args[0]), self.expr(args[1]))
        if ct == 'pair_bool_int' and len(args) == 1:
            return self.expr(args[0])
        raise Unsupported('ctor %s/%d' % (qt(n), len(args)))

    def cast_other(self, n, ck, inner):
        if ck == 'UserDefinedConversion':
            return self.expr(inner)
        return super().cast_other(n, ck, inner)

    def membercall_other(self, n, name, obj, args):
        t = self.ct(obj)
        if name == 'operator bool' and t == 'bl_fnref':
            return 'g_fns[BL_IDX(%s, FMAX)].present' % self.expr(obj)
        if name == 'operator bool' and t == 'bl_annref':
            return 'ANN(%s).present' % self.expr(obj)
        raise Unsupported('member call %s on %s' % (name, qt(obj)))

    def membercall(self, n):
        ks = kids(n)
        me = strip(ks[0])
        return self.membercall_other(n, me['name'], kids(me)[0], ks[1:])

    def call_named(self, n, name, args):
        if name == 'stoi' and len([a for a in args if a.get('kind') != 'CXXDefaultArgExpr']) == 1 and self.ct(args[0]) == 'bl_txt':
            self.needs_prop = True
            return 'ldsh_stoi(%s)' % self.expr(args[0])
        return super().call_named(n, name, args)

    def range_for(self, n, ind):
        ks = [k for k in n['inner']]
        rangevar = loopvar = None
        body = ks[-1]
        for k in ks:
            if k.get('kind') == 'DeclStmt':
                for v in kids(k):
                    if v.get('name', '').startswith('__range'):
                        rangevar = v
                    elif v.get('kind') == 'VarDecl' and not v.get('name', '').startswith('__'):
                        loopvar = v
        if rangevar is None or loopvar is None:
            raise Unsupported('range-for shape')
        rng = strip(kids(rangevar)[0])
        rt = self.ct(rng)
        p = '  ' * ind
        k = self.loop_marker(p)
        iv = 'bl_i%d' % k
        self.locals.add(iv)
        self.locals.add(loopvar['name'])
        rs = self.expr(rng)
        if rt == 'bl_fns' and rs == 'BL_FUNCTIONS':
            size, elem, et = 'g_nfns', iv, 'bl_fnref'
        elif rt == 'bl_anns':
            # annotations of function row r: the element reference encodes (row, index)
            m = re.match(r'^g_fns\[BL_IDX\((.*), FMAX\)\]\.annotations$', rs)
            if not m:
                raise Unsupported('range-for over ' + rs)
            size, elem, et = 'g_fns[BL_IDX(%s, FMAX)].nann' % m.group(1), 'BL_ANNREF(%s, %s)' % (m.group(1), iv), 'bl_annref'
        else:
            raise Unsupported('range-for over ' + qt(rng))
        out = [p + '/*@BEFORELOOP:%s:%d@*/' % (self.fn, k), p + '{', p + '  size_t %s = 0;' % iv,
               p + '  for (; %s < %s; ++%s)' % (iv, size, iv),
               p + '    /*@LOOP:%s:%d@*/' % (self.fn, k), p + '  {',
               p + '    /*@LOOPBODY:%s:%d@*/' % (self.fn, k),
               p + '    %s %s = %s;' % (et, loopvar['name'], elem)]
        out += self.block(body, ind + 2)
        out += [p + '  }', p + '}', p + '/*@AFTERLOOP:%s:%d@*/' % (self.fn, k)]
        return out


def lower_regions(docs, prof):
    head = 'void ldsh_main_and_shots(void)'
    try:
        ds = cxx2c.find_functions(docs, 'load')
        ds = [d for d in ds if any(k.get('kind') == 'CompoundStmt' for k in kids(d))]
        if len(ds) != 1:
            raise Unsupported('ModuleLoader::load: %d definitions' % len(ds))
        body = [k for k in kids(ds[0]) if k.get('kind') == 'CompoundStmt'][0]
        st = kids(body)
        a = None
        for i, s in enumerate(st):
            if s.get('kind') == 'DeclStmt' and any(v.get('name') == 'mainCount' for v in kids(s)):
                a = i
        if a is None or st[-1].get('kind') != 'ReturnStmt':
            raise Unsupported('main_and_shots: `mainCount` declaration / final return not found')
        d = dict(kind='FunctionDecl', name='main_and_shots', type=dict(qualType='void ()'), inner=[dict(kind='CompoundStmt', inner=st[a:-1])])
        prof.locals |= {'merged'}
        h2, lines = prof.func(d, cname='main_and_shots', is_method=False)
        return [(head, lines)]
    except Unsupported as e:
        prof.region_unlowered = {'main_and_shots': str(e)}
        return [(head, None)]



FMAXN, ANMAXN = 6, 3
GHOSTS = r"""
int bl_exc, bl_exc_line, bl_exc_col;
#define EXC_SEM BL_EXC(BL_Semantic)
typedef struct { _Bool present; bl_txt name; bl_txt value; int line; int column; } AnnRow;
typedef struct { _Bool present; bl_txt name; _Bool hasShotsAnnotation; size_t nann; bl_anns annotations; } FnRow;
FnRow g_fns[FMAX]; AnnRow g_anns[FMAX * ANMAX]; size_t g_nfns; pair_bool_int g_shots;
size_t gm, gm2, ga;                  /* ghost: two function rows and an annotation index */
#define ANN(r) g_anns[BL_IDX(r, FMAX * ANMAX)]
#define IS_MAIN(j) (g_fns[j].present && g_fns[j].name.id == SLIT("main"))
#define IS_SHOTS(j, a) (g_anns[(j) * ANMAX + (a)].present && g_anns[(j) * ANMAX + (a)].name.id == SLIT("shots"))
#ifndef NATIVE
int __CPROVER_uninterpreted_stoi_txt(int);
#define STOI(id) __CPROVER_uninterpreted_stoi_txt(id)
/* std::stoi on the token text of an integer literal: at most 9 digits always fit; longer texts may raise std::out_of_range */
static inline int ldsh_stoi(bl_txt t) { if (!(t.n >= 1 && t.n <= 9) && nondet_bool()) { bl_throw_std(); return 0; } return STOI(t.id); }
#endif
#define ROWS_WF (g_nfns <= FMAX && """ + ' && '.join('g_fns[%d].nann <= ANMAX' % j for j in range(FMAXN)) + ' && ' + ' && '.join('g_anns[%d].value.n >= 1' % j for j in range(FMAXN * ANMAXN)) + r""")
#define NO_LATER_SHOTS(j, a) (""" + ' && '.join('(%d <= (a) || %d >= g_fns[j].nann || !IS_SHOTS(j, %d))' % (k, k, k) for k in range(ANMAXN)) + r""")
"""
RET = '__CPROVER_return_value'


def R(t):
    return ('', 'requires', t, [])


def E(label, t, props, **o):
    return (label, 'ensures', t, props, o)


def A(t):
    return ('', 'assigns', t, [])


COND = '(ga < g_fns[gm].nann && IS_SHOTS(gm, ga) && NO_LATER_SHOTS(gm, ga))'
SHOTS_OK = '(g_fns[gm].hasShotsAnnotation ? (!' + COND + ' || (g_shots.first && g_shots.second == g_spec_shots)) : (!g_shots.first && g_shots.second == 1))'
CONTRACTS = {
    'main_and_shots': {
        'contract': [
            R('bl_exc == 0 && ROWS_WF && gm < FMAX && gm2 < FMAX && ga < ANMAX'),
            A('bl_exc, bl_exc_line, bl_exc_col, g_shots, g_only_main, g_spec_shots'),
            # C13: whatever the annotation value, the loader answers with a categorised diagnostic, never a raw C++ exception
            E('loader.main_and_shots.only_semantic_errors', 'bl_exc == 0 || bl_exc == EXC_SEM', ['C13', 'C12']),
            # (helper, not a clause of a claimed property: C19 - exactly one main across modules - is not claimed; the analyser rejects a second `main` as a redeclaration anyway)
            E('loader.main.two_mains_are_rejected', '(gm < gm2 && gm2 < g_nfns && IS_MAIN(gm) && IS_MAIN(gm2)) ==> bl_exc != 0', []),
            E('loader.main.single_main_without_annotation_is_accepted', '(gm < g_nfns && IS_MAIN(gm) && !g_fns[gm].hasShotsAnnotation && g_only_main) ==> bl_exc == 0', ['C13']),
            # C17: the value of @shots(N) on main is what the program carries; no annotation means a single run
            E('loader.shots.annotation_value_is_carried', '(bl_exc == 0 && gm < g_nfns && IS_MAIN(gm) && g_only_main && g_fns[gm].hasShotsAnnotation && ' + COND + ') ==> (g_shots.first && g_shots.second == STOI(g_anns[gm * ANMAX + ga].value.id))', ['C17']),
            E('loader.shots.no_annotation_means_one_run', '(bl_exc == 0 && gm < g_nfns && IS_MAIN(gm) && g_only_main && !g_fns[gm].hasShotsAnnotation) ==> (!g_shots.first && g_shots.second == 1)', ['C17']),
        ],
        'prologue': 'g_only_main = ' + ' && '.join('(%d == gm || %d >= g_nfns || !IS_MAIN(%d))' % (j, j, j) for j in range(FMAXN)) + '; g_spec_shots = STOI(g_anns[gm * ANMAX + ga].value.id);',
        'loops': {
            0: {'assigns': 'bl_i0, mainCount, g_shots, bl_exc, bl_exc_line, bl_exc_col',
                'invariants': [('main_and_shots.fns.bounds', 'bl_i0 <= g_nfns && bl_exc == 0 && mainCount <= bl_i0'),
                               ('main_and_shots.fns.count_lower', 'mainCount >= (size_t)((gm < bl_i0 && IS_MAIN(gm)) ? 1 : 0) + (size_t)((gm2 < bl_i0 && gm2 != gm && IS_MAIN(gm2)) ? 1 : 0)'),
                               ('main_and_shots.fns.count_upper', '(g_only_main != 0) ==> mainCount == (size_t)((gm < bl_i0 && IS_MAIN(gm)) ? 1 : 0)'),
                               ('main_and_shots.fns.shots_of_main', '(g_only_main != 0 && gm < bl_i0 && IS_MAIN(gm)) ==> ' + SHOTS_OK)],
                'decreases': 'g_nfns - bl_i0'},
            1: {'assigns': 'bl_i1, g_shots, bl_exc, bl_exc_line, bl_exc_col',
                'invariants': [('main_and_shots.anns.bounds', 'bl_i1 <= g_fns[fn].nann && bl_exc == 0 && fn < FMAX'),
                               ('main_and_shots.anns.value_so_far', '(g_only_main != 0 && fn == gm && ga < bl_i1 && ' + COND + ') ==> (g_shots.first && g_shots.second == g_spec_shots)')],
                'decreases': 'g_fns[fn].nann - bl_i1'},
        },
    },
}
GHOSTS += '_Bool g_only_main; int g_spec_shots;\n'
HARNESSES = [
    dict(name='main_and_shots', fn='main_and_shots', replace=[], flags=[], props=['C13', 'C17', 'C12', 'C16'], timeout=600, unwind=8,
         canaries=[('bl_exc == 0 && g_shots.first', 'a program with @shots was accepted'), ('bl_exc != 0', 'rejected')]),
]


from tools import native as _nat


def _oracle():
    bd = _nat.repo_build(('bloch',))
    return _nat.run(['python3', os.path.join(_nat.ROOT, 'native', 'ldsh_oracle.py'), os.path.join(bd, 'bin', 'bloch'), 'sweep'], timeout=900)


def native_validate(pu, work, tier, seed):
    try:
        rc, out, dt = _oracle()
        js = _nat.last_json(out)
        return dict(unit='LDSH', kind='oracle on the real front end through the CLI (@shots values of 1..25 digits; zero, one and two main functions); no co-execution for this unit', status='agree',
                    oracle_sweep=dict(checks=js.get('oracle_checks'), failures=js.get('oracle_failures'), failing_labels=sorted(set(re.findall(r'FAIL label=(\S+)', out)))), wall_s=round(dt, 1))
    except _nat.Break as e:
        return dict(unit='LDSH', status='error', detail=str(e))


def replay_counterexample(pu, h, label, failure, work, tier, seed):
    rc, out, dt = _oracle()
    fails = [l for l in out.split('\n') if l.startswith('FAIL ')]
    same = [l for l in fails if label and ('label=' + label + ' ') in l]
    pick = same or fails
    if pick:
        m = re.search(r'label=(\S+)', pick[0])
        return dict(failing_input_found=True, failing_input=pick[0], native_failures=fails[:5], oracle_label=m.group(1), signature=re.sub(r' detail=.*', '', pick[0])[:160],
                    reproduce_args=['sweep'], reproduce='bin/check <property> --replay <this file>', replay_inputs_tried=['sweep'], matched_same_obligation=bool(same))
    return dict(failing_input_found=False, replay_inputs_tried=['sweep'], signature='')


def run_reproduce(rec, work):
    rc, out, dt = _oracle()
    print(out)
    return 1 if rc else 0
