"""Unit ARITH — regions of RuntimeEvaluator::eval (runtime/runtime_evaluator.cpp): the
BinaryExpression, UnaryExpression and LiteralExpression branches (C07 kernel, C12 kernel).
A region is addressed structurally: the then-branch of the IfStmt whose condition declares
`auto x = dynamic_cast<T*>(e)`."""
import re, os
from tools import cxx2c
from tools.cxx2c import Lower, Unsupported, kids, qt, qt_sugar, strip, strip_parens, callee_name, norm_type, walk
from tools.cxx2c import REPO as _REPO

NAME = 'ARITH'
SRC = _REPO + '/src/bloch/runtime/runtime_evaluator.cpp'
NAMESPACE = 'bloch::runtime'
FUNCS = []
REGION_SPECS = [('eval_binary', 'bin', 'BinaryExpression'), ('eval_unary', 'unary', 'UnaryExpression'), ('eval_literal', 'lit', 'LiteralExpression')]
AST_FILTER = ['RuntimeEvaluator::eval', 'bloch::runtime::Value']
SHIM = 'arith.h'
THROWING = {'eval_binary', 'eval_unary', 'eval_literal'}
DROPS = ['the AST node (bin / unary / lit): its members become parameters (op and literalType as interned string ids, line, column, value as a slice, operand sub-expressions as opaque ids)',
         'recursive calls of eval on the operands: a contract-only stub returning an arbitrary well-formed Value (or raising)',
         'Value members not used by the regions (other array kinds, className, objectArray); shared_ptr<Object> and RuntimeClass* are opaque pointers compared by identity',
         'string payloads: valueToString / concatenation / string equality are opaque (uninterpreted) functions; diagnostic message text',
         'lambdas are hoisted to static functions that receive the region context explicitly']
ASSUMPTIONS = ['literal text is what the lexer produces (bit literals are 0b/1b, numeric literals start with a digit): precondition of the literal region, proved for the lexer in unit LEX only as token-text = consumed bytes',
               'signed 32/64-bit arithmetic wraps (no trap) - only division and remainder can trap and carry explicit no-trap obligations',
               'std::stoi/stoll/stof: value and failure are uninterpreted functions of the text; stoi cannot fail on <= 9 characters starting with a digit',
               'that the analyser only lets well-typed operand combinations reach these branches is NOT assumed: every tag combination is covered']

VALUE_FIELDS = [('type', 'int'), ('intValue', 'int'), ('longValue', 'long'), ('floatValue', 'double'), ('bitValue', 'int'), ('boolValue', '_Bool'),
                ('stringValue', 'bl_sv'), ('charValue', 'char'), ('qubit', 'int'), ('bitArray', 'vec_int'), ('objectValue', 'const void *'), ('classRef', 'const void *')]


class Profile(Lower):
    CLS = 'arith'
    SELF_T = ''
    IS_METHOD = False
    WRAP_DOUBLE_OPS = True
    TYPE_MAP = [
        (r'^(bloch::runtime::)?Value$', 'Value'),
        (r'^(bloch::runtime::)?Value::Type$', 'int'),
        (r'^(std::)?(basic_string<char.*>|string)$', 'bl_sv'),
        (r'^std::vector<int>$', 'vec_int'),
        (r'^std::int64_t$', 'long'),
        (r'^(std::)?shared_ptr<(bloch::runtime::)?Object>$', 'const void *'),
        (r'^(bloch::runtime::)?RuntimeClass \*$', 'const void *'),
        (r'^std::unique_ptr<.*Expression.*>$', 'int'),
        (r'^(bloch::compiler::|bloch::runtime::)?Expression \*$', 'int'),
    ]

    def __init__(self, *a, **k):
        super().__init__(*a, **k)
        self.ctx = None          # (varname, {member: ctype}) of the current region
        self.lambdas = {}        # name -> dict(params, rt, body)
        self.hoisted = []
        self.strids = []
        self.value_defaults = {}
        self.tagenum = []

    # ---- Value layout and defaults from the real struct
    def prepare(self, docs, workdir):
        recs = [d for d in docs if d.get('kind') == 'CXXRecordDecl' and d.get('name') == 'Value' and d.get('completeDefinition')]
        if len(recs) != 1:
            raise Unsupported('struct Value: %d definitions' % len(recs))
        rec = recs[0]
        for f in kids(rec):
            if f.get('kind') == 'EnumDecl' and f.get('name') == 'Type':
                self.tagenum = [c['name'] for c in kids(f) if c.get('kind') == 'EnumConstantDecl']
            if f.get('kind') == 'FieldDecl':
                init = [i for i in kids(f) if 'kind' in i]
                self.value_defaults[f['name']] = self.default_of(f['name'], init)
        for name, _ in VALUE_FIELDS:
            if name not in self.value_defaults:
                raise Unsupported('Value has no member ' + name)
        # the 6-argument constructor: Value(Type t, int intVal, double floatVal = 0.0, int bitVal = 0, std::string strVal = "", char charVal = 0)
        ctors = [c for c in kids(rec) if c.get('kind') == 'CXXConstructorDecl' and len([p for p in kids(c) if p.get('kind') == 'ParmVarDecl']) == 6]
        if len(ctors) != 1:
            raise Unsupported('Value 6-argument constructor not found')
        inits = [(i.get('anyInit', {}).get('name')) for i in kids(ctors[0]) if i.get('kind') == 'CXXCtorInitializer' and not any(x.get('kind') == 'CXXDefaultInitExpr' for x in kids(i))
                 and not (kids(i) and strip_parens(kids(i)[0]).get('kind') == 'CXXConstructExpr' and not kids(strip_parens(kids(i)[0])))]
        if inits != ['type', 'intValue', 'floatValue', 'bitValue', 'stringValue', 'charValue']:
            raise Unsupported('Value constructor initialiser list changed: %s' % inits)

    def default_of(self, name, init):
        if not init:
            return None     # class-type member, default constructed (empty vector / string / null shared_ptr)
        z = strip_parens(init[0])
        while z.get('kind') in ('ImplicitCastExpr', 'ExprWithCleanups', 'CXXConstructExpr', 'MaterializeTemporaryExpr', 'CXXBindTemporaryExpr', 'CXXFunctionalCastExpr') and kids(z):
            z = strip_parens(kids(z)[0])
        k = z.get('kind')
        if k == 'IntegerLiteral':
            return z['value']
        if k == 'FloatingLiteral':
            return z['value']
        if k == 'CXXBoolLiteralExpr':
            return '1' if z.get('value') else '0'
        if k == 'CharacterLiteral':
            return str(z['value'])
        if k == 'StringLiteral':
            if z['value'] != '""':
                raise Unsupported('non-empty default string for Value::' + name)
            return None
        if k == 'CXXNullPtrLiteralExpr':
            return '0'
        if k == 'UnaryOperator' and z.get('opcode') == '-' and strip_parens(kids(z)[0]).get('kind') == 'IntegerLiteral':
            return '-' + strip_parens(kids(z)[0])['value']
        if k == 'DeclRefExpr' and z['referencedDecl'].get('kind') == 'EnumConstantDecl':
            return 'BL_' + z['referencedDecl']['name']
        raise Unsupported('default initialiser of Value::%s (%s)' % (name, k))

    def file_prelude(self):
        out = ['enum { %s };' % ', '.join('BL_' + e for e in self.tagenum)]
        out.append('typedef struct { %s } Value;' % ' '.join('%s %s;' % (t, f) for f, t in VALUE_FIELDS))
        sets = []
        for f, t in VALUE_FIELDS:
            d = self.value_defaults.get(f)
            if t == 'bl_sv':
                sets.append('v.%s.p = ""; v.%s.n = 0;' % (f, f))
            elif t == 'vec_int':
                sets.append('v.%s.data = 0; v.%s.size = 0; v.%s.cap = 0;' % (f, f, f))
            else:
                sets.append('v.%s = %s;' % (f, d if d is not None else '0'))
        out.append('static inline Value bl_value_default(void) { Value v; %s return v; }' % ' '.join(sets))
        out.append('static inline Value bl_value_ctor(int t, int i, double f, int b, bl_sv s, char c) { Value v = bl_value_default(); v.type = t; v.intValue = i; v.floatValue = f; v.bitValue = b; v.stringValue = s; v.charValue = c; return v; }')
        out.append('/* interned strings: %s */' % ', '.join('%d=%s' % (i, s) for i, s in enumerate(self.strids)))
        return out + self.hoisted_protos()

    def hoisted_protos(self):
        return [h[0] + ';' for h in self.hoisted]

    def strid(self, lit):
        if lit not in self.strids:
            self.strids.append(lit)
        return self.strids.index(lit)

    def subst(self, text):
        def rep(m):
            lit = '"%s"' % m.group(1)
            return str(self.strids.index(lit)) if lit in self.strids else '(-1000)'
        text = re.sub(r'\bOP\("((?:[^"\\]|\\.)*)"\)', lambda m: '(bin_op == %s)' % rep(m), text)
        text = re.sub(r'\bUOP\("((?:[^"\\]|\\.)*)"\)', lambda m: '(unary_op == %s)' % rep(m), text)
        text = re.sub(r'STRID\("((?:[^"\\]|\\.)*)"\)', rep, text)
        return text

    # ---- region context: members of the AST node variable
    def member(self, n):
        base = strip_parens(kids(n)[0])
        if self.ctx and base.get('kind') == 'DeclRefExpr' and base['referencedDecl']['name'] == self.ctx[0]:
            self.ctx[1].setdefault(n['name'], self.ctype(qt(n)))
            return '%s_%s' % (self.ctx[0], n['name'])
        return super().member(n)

    def string_literal(self, n):
        return 'BL_SV_LIT(%s)' % n['value']

    def is_ctx_string(self, n):
        s = strip_parens(n)
        return self.ctx and s.get('kind') == 'MemberExpr' and strip_parens(kids(s)[0]).get('kind') == 'DeclRefExpr' and \
            strip_parens(kids(s)[0])['referencedDecl']['name'] == self.ctx[0] and self.ct(s) == 'bl_sv'

    INTERNED = {'op', 'literalType'}

    def opcall(self, n):
        ks = kids(n)
        op = callee_name(ks[0])
        args = ks[1:]
        t0 = self.ct(args[0])
        if op == 'operator()' and strip_parens(args[0]).get('kind') == 'DeclRefExpr' and strip_parens(args[0])['referencedDecl']['name'] in self.lambdas:
            lam = self.lambdas[strip_parens(args[0])['referencedDecl']['name']]
            if lam['throws']:
                self.needs_prop = True
            return '%s(%s)' % (lam['cname'], ', '.join(self.ctx_args() + [self.expr(a) for a in args[1:]]))
        if op in ('operator==', 'operator!=') and t0 == 'bl_sv':
            a, b = strip_parens(args[0]), strip_parens(args[1])
            neg = '!' if op == 'operator!=' else ''
            for x, y in ((a, b), (b, a)):
                yy = y
                while yy.get('kind') in ('CXXConstructExpr', 'ImplicitCastExpr', 'MaterializeTemporaryExpr') and kids(yy):
                    yy = strip(kids(yy)[0])
                if yy.get('kind') == 'StringLiteral':
                    if self.is_ctx_string(x) and x['name'] in self.INTERNED:
                        self.ctx[1][x['name']] = 'int'
                        return '(%s%s_%s == %d)' % ('!' if neg else '', self.ctx[0], x['name'], self.strid(yy['value'])) if not neg else '(%s_%s != %d)' % (self.ctx[0], x['name'], self.strid(yy['value']))
                    body = bytes(yy['value'][1:-1], 'utf-8').decode('unicode_escape')
                    e = self.expr(x)
                    return '(%s(%s))' % (neg, ' && '.join(['%s.n == %d' % (e, len(body))] + ['%s.p[%d] == %d' % (e, i, ord(c)) for i, c in enumerate(body)]))
            return '(%sarith_str_eq(%s, %s))' % (neg, self.expr(args[0]), self.expr(args[1]))
        if op == 'operator==' and t0 == 'const void *':
            return '(%s == %s)' % (self.expr(args[0]), self.expr(args[1]))
        if op == 'operator+' and self.ct(n) == 'bl_sv':
            if self.in_throw:
                return 'BL_SV_LIT("")'
            return 'arith_str_concat(%s, %s)' % (self.expr(args[0]), self.expr(args[1]))
        if op == 'operator[]' and t0 == 'vec_int':
            return 'VEC_AT(%s, %s)' % (self.expr(args[0]), self.expr(args[1]))
        if op == 'operator[]' and t0 == 'bl_sv':
            return 'SV_AT(%s, %s)' % (self.expr(args[0]), self.expr(args[1]))
        if op == 'operator=' and t0 in ('bl_sv', 'const void *', 'Value', 'vec_int'):
            return '(%s = %s)' % (self.expr(args[0]), self.expr(args[1]))
        raise Unsupported('operator %s on %s' % (op, qt(args[0])))

    in_throw = False

    def throw_stmt(self, n, p):
        self.in_throw = True
        try:
            return super().throw_stmt(n, p)
        finally:
            self.in_throw = False

    def ctx_args(self):
        return ['%s_%s' % (self.ctx[0], m) for m in self.ctx_members()]

    def ctx_members(self):
        return ['op', 'line', 'column'] if self.ctx[0] != 'lit' else ['literalType', 'value', 'line', 'column']

    def ctx_params(self):
        t = {'op': 'int', 'literalType': 'int', 'line': 'int', 'column': 'int', 'value': 'bl_sv'}
        return ['%s %s_%s' % (t[m], self.ctx[0], m) for m in self.ctx_members()]

    def cast_other(self, n, ck, inner):
        if ck == 'NullToPointer':
            return '0'
        return super().cast_other(n, ck, inner)

    def construct(self, n):
        ct = self.ctype(qt(n))
        args = [a for a in kids(n) if a.get('kind') != 'CXXDefaultArgExpr']
        if ct == 'Value':
            if not args:
                return 'bl_value_default()'
            if len(args) == 1 and self.ct(args[0]) == 'Value':
                return self.expr(args[0])
            if 2 <= len(args) <= 6:
                es = [self.expr(a) for a in args]
                dflt = ['0', '0', '0.0', '0', 'BL_SV_LIT("")', '0']
                return 'bl_value_ctor(%s)' % ', '.join(es + dflt[len(es):])
        if ct == 'bl_sv':
            if not args:
                return 'BL_SV_LIT("")'
            if len(args) == 1:
                return self.expr(args[0])
        if ct == 'const void *' and len(args) <= 1:
            return self.expr(args[0]) if args else '0'
        raise Unsupported('ctor %s/%d' % (ct, len(args)))

    def initlist(self, n):
        if self.ct(n) == 'Value':
            if not kids(n):
                return 'bl_value_default()'
        return super().initlist(n)

    def membercall_other(self, n, name, obj, args):
        t = self.ct(obj)
        if name == 'get' and 'unique_ptr' in qt(obj):
            return self.expr(obj)
        o = self.expr(obj)
        if t == 'vec_int':
            if name == 'size':
                return 'VEC_SIZE(%s)' % o
            if name == 'resize' and len(args) == 1:
                return 'vec_int_resize0(&%s, %s)' % (o, self.expr(args[0]))
        if t == 'bl_sv':
            if name in ('size', 'length'):
                return 'SV_SIZE(%s)' % o
            if name == 'empty':
                return '(SV_SIZE(%s) == 0)' % o
            if name == 'back':
                return 'bl_sv_back(%s)' % o
            if name == 'pop_back':
                return 'bl_sv_pop_back(&%s)' % o
            if name == 'substr':
                self.needs_prop = True
                return 'bl_sv_substr(%s, %s)' % (o, ', '.join(self.expr(a) for a in args))
        raise Unsupported('member call %s on %s' % (name, qt(obj)))

    def call_named(self, n, name, args):
        if name == 'eval' and len(args) == 1:
            self.needs_prop = True
            return 'arith_eval_operand(%s)' % self.expr(args[0])
        if name == 'valueToString' and len(args) == 1:
            return 'arith_valueToString(%s)' % self.expr(args[0])
        if name in ('stoi', 'stoll', 'stof') and self.ct(args[0]) == 'bl_sv':
            self.needs_prop = True
            return 'bl_%s(%s)' % (name, self.expr(args[0]))
        return super().call_named(n, name, args)

    def membercall(self, n):
        ks = kids(n)
        me = strip(ks[0])
        if strip(kids(me)[0]).get('kind') == 'CXXThisExpr':
            return self.call_named(n, me['name'], ks[1:])
        return super().membercall(n)

    def decl(self, v):
        init = [i for i in kids(v) if 'kind' in i]
        if init and strip_parens(init[0]).get('kind') == 'LambdaExpr':
            self.hoist_lambda(v['name'], strip_parens(init[0]))
            self.locals.add(v['name'])
            return '/* lambda %s hoisted */;' % v['name']
        return super().decl(v)

    def hoist_lambda(self, name, lam):
        rec = [k for k in kids(lam) if k.get('kind') == 'CXXRecordDecl'][0]
        call = [m for m in kids(rec) if m.get('kind') == 'CXXMethodDecl' and m.get('name') == 'operator()'][0]
        body = [k for k in kids(lam) if k.get('kind') == 'CompoundStmt'][-1]
        params = [pd for pd in kids(call) if pd.get('kind') == 'ParmVarDecl']
        try:
            rt = self.ret_ctype(call)
        except Unsupported:
            # deduced return type: take it from the returned expression
            rets = []
            walk(body, lambda z: rets.append(z) if z.get('kind') == 'ReturnStmt' and kids(z) else None)
            if not rets:
                raise
            rt = self.ctype(qt(kids(rets[0])[0]))
        cname = 'arith_%s_%s' % (self.fn, name)
        throws = []
        walk(body, lambda z: throws.append(1) if z.get('kind') == 'CXXThrowExpr' else None)
        # save / restore the enclosing function's printer state
        saved = (self.fn, self.loop_k, self.locals, self.tmpn, self.rt, self.ret0, self.needs_prop, self.pre)
        outer_fn = self.fn
        self.lambdas[name] = dict(cname=cname, throws=bool(throws))
        self.fn = outer_fn + '$' + name
        self.loop_k = 0
        self.locals = set(pd['name'] for pd in params)
        self.rt = rt
        self.ret0 = self.zero_of(rt) if rt != 'Value' else 'bl_value_default()'
        lines = self.stmt(body, 0)
        head = 'static %s %s(%s)' % (rt, cname, ', '.join(self.ctx_params() + ['%s %s' % (self.ctype(qt(pd)), pd['name']) for pd in params]))
        self.fn_loops[self.fn] = self.loop_k
        self.fn_locals[self.fn] = set(self.locals)
        self.hoisted.append((head, lines))
        (self.fn, self.loop_k, self.locals, self.tmpn, self.rt, self.ret0, self.needs_prop, self.pre) = saved

    def zero_of(self, ct):
        if ct == 'Value':
            return 'bl_value_default()'
        return super().zero_of(ct)


def find_region(body, var):
    found = []

    def rec(n):
        if n.get('kind') == 'IfStmt' and n.get('hasVar'):
            v = kids(kids(n)[0])[0]
            if v.get('name') == var:
                found.append(n)
        for k in kids(n):
            if isinstance(k, dict):
                rec(k)
    rec(body)
    if len(found) != 1:
        raise Unsupported('region `%s`: %d matching if-statements' % (var, len(found)))
    n = found[0]
    cast = []
    walk(kids(n)[0], lambda z: cast.append(z.get('type', {}).get('qualType', '')) if z.get('kind') == 'CXXDynamicCastExpr' else None)
    return n, cast


def lower_regions(docs, prof):
    ds = cxx2c.find_functions(docs, 'eval')
    if len(ds) != 1:
        raise Unsupported('RuntimeEvaluator::eval: %d definitions' % len(ds))
    body = [k for k in kids(ds[0]) if k.get('kind') == 'CompoundStmt'][0]
    out = []
    for fname, var, cls in REGION_SPECS:
        n, cast = find_region(body, var)
        if not any(cls in c for c in cast):
            raise Unsupported('region `%s` is no longer the dynamic_cast<%s*> branch' % (var, cls))
        then = kids(n)[2]
        prof.ctx = (var, {})
        prof.lambdas = {}
        d = dict(kind='FunctionDecl', name=fname, type=dict(qualType='bloch::runtime::Value ()'), inner=[then])
        nh = len(prof.hoisted)
        head, lines = prof.func(d, cname=fname, is_method=False)
        head = 'Value arith_%s(%s)' % (fname, ', '.join(prof.ctx_params() + (['int %s_left' % var, 'int %s_right' % var] if var == 'bin' else ['int %s_right' % var] if var == 'unary' else [])))
        # a region that falls off its end continues in eval's tail: `return {}`
        assert lines[-1].strip() == '}'
        lines = lines[:-1] + ['  return bl_value_default();', '}']
        for hh, hl in prof.hoisted[nh:]:
            out.append((hh, hl))
        out.append((head, lines))
        prof.ctx = None
    return out


# =========================================================================== sidecar contracts
GHOSTS = r'''
#define EXC_RT BL_EXC(BL_Runtime)
int bl_exc, bl_exc_line, bl_exc_col;
size_t g_rs_k, gk;
Value g_l, g_r;      /* ghost: the operand values the recursive eval calls delivered */
int g_evals, g_operands_ok;
/* ---- opaque string functions and the recursive evaluation of operands (assumed, not verified) */
#ifdef NATIVE
bl_sv arith_valueToString(Value v) { abort(); } bl_sv arith_str_concat(bl_sv a, bl_sv b) { abort(); } _Bool arith_str_eq(bl_sv a, bl_sv b) { abort(); } Value arith_eval_operand(int e) { abort(); }
#else
bl_sv arith_valueToString(Value v)
__CPROVER_assigns()
__CPROVER_ensures(1)
;
bl_sv arith_str_concat(bl_sv a, bl_sv b)
__CPROVER_assigns()
__CPROVER_ensures(1)
;
_Bool __CPROVER_uninterpreted_str_eq(const char *, size_t, const char *, size_t);
_Bool arith_str_eq(bl_sv a, bl_sv b)
__CPROVER_assigns()
__CPROVER_ensures(__CPROVER_return_value == __CPROVER_uninterpreted_str_eq(a.p, a.n, b.p, b.n))
;
Value arith_eval_operand(int e)
__CPROVER_requires(bl_exc == 0)
__CPROVER_assigns(bl_exc, bl_exc_line, bl_exc_col, g_evals)
__CPROVER_ensures(g_evals == __CPROVER_old(g_evals) + 1)
__CPROVER_ensures(bl_exc == 0 || bl_exc == EXC_RT)
__CPROVER_ensures(__CPROVER_return_value.type >= 0 && __CPROVER_return_value.type <= BL_Void)
__CPROVER_ensures(__CPROVER_return_value.bitArray.size <= AMAX && __CPROVER_return_value.bitArray.cap == AMAX)
__CPROVER_ensures(__CPROVER_is_fresh(__CPROVER_return_value.bitArray.data, AMAX * sizeof(int)))
;
#endif
#define TL (g_l.type)
#define TR (g_r.type)
#define NUM(t) ((t) == BL_Int || (t) == BL_Long || (t) == BL_Float)
#define INTEGRAL(t) ((t) == BL_Int || (t) == BL_Long)
#define I64(v) ((v).type == BL_Long ? (v).longValue : (long)(v).intValue)
#define F64(v) ((v).type == BL_Float ? (v).floatValue : (double)I64(v))
#define OK (bl_exc == 0)
#define FEQ(a, b) __CPROVER_equal((double)(a), (double)(b))
#define RAISED_AT_NODE(n) (bl_exc == EXC_RT && bl_exc_line == n##_line && bl_exc_col == n##_column)
'''
RET = '__CPROVER_return_value'


def R(t):
    return ('', 'requires', t, [])


def E(label, t, props, **o):
    return (label, 'ensures', t, props, o)


def A(t):
    return ('', 'assigns', t, [])


BOTH = '(g_operands_ok != 0)'     # both operands were evaluated without raising (ghost flag set after the second one)
INTPAIR = '(INTEGRAL(TL) && INTEGRAL(TR))'
HASF = '((TL == BL_Float || TR == BL_Float) && NUM(TL) && NUM(TR))'
HASL = '(!(TL == BL_Float || TR == BL_Float) && (TL == BL_Long || TR == BL_Long) && NUM(TL) && NUM(TR))'
II = '(TL == BL_Int && TR == BL_Int)'


def arith_clauses():
    out = []
    for opname, sym, cop in (('add', '+', '+'), ('sub', '-', '-'), ('mul', '*', '*')):
        out += [
            E('eval.binary.%s.float_if_any_float' % opname, '(OK && %s && OP("%s") && %s) ==> (%s.type == BL_Float && FEQ(%s.floatValue, %s(F64(g_l), F64(g_r))))' % (BOTH, sym, HASF, RET, RET, {'+': 'D_ADD', '-': 'D_SUB', '*': 'D_MUL'}[cop]), ['C07']),
            E('eval.binary.%s.long_if_any_long' % opname, '(OK && %s && OP("%s") && %s) ==> (%s.type == BL_Long && %s.longValue == %s)' % (BOTH, sym, HASL, RET, RET, ('BL_IMUL(long, I64(g_l), I64(g_r))' if cop == '*' else '(long)((unsigned long)I64(g_l) %s (unsigned long)I64(g_r))' % cop)), ['C07']),
            E('eval.binary.%s.int_otherwise' % opname, '(OK && %s && OP("%s") && %s) ==> (%s.type == BL_Int && %s.intValue == (int)%s)' % (BOTH, sym, II, RET, RET, ('BL_IMUL(long, I64(g_l), I64(g_r))' if cop == '*' else '(unsigned int)((unsigned long)I64(g_l) %s (unsigned long)I64(g_r))' % cop)), ['C07']),
        ]
    for opname, sym in (('gt', '>'), ('lt', '<'), ('ge', '>='), ('le', '<='), ('eq', '=='), ('ne', '!=')):
        out += [
            E('eval.binary.%s.compares_promoted_values' % opname, '(OK && %s && OP("%s") && NUM(TL) && NUM(TR)) ==> (%s.type == BL_Boolean && %s.boolValue == (%s ? %s(F64(g_l), F64(g_r)) : (I64(g_l) %s I64(g_r))))' % (BOTH, sym, RET, RET, HASF, {'>': 'D_GT', '<': 'D_LT', '>=': 'D_GE', '<=': 'D_LE', '==': 'D_EQ', '!=': 'D_NE'}[sym], sym), ['C07']),
        ]
    return out


CONTRACTS = {
    'eval_binary': {
        'contract': [
            R('bl_exc == 0 && g_evals == 0 && g_operands_ok == 0 && bin_line >= 0 && bin_column >= 0'),
            A('bl_exc, bl_exc_line, bl_exc_col, g_evals, g_l, g_r, g_operands_ok'),
            # C12: whatever the operands are, the branch returns a value or raises a located Runtime error; it never
            # traps (division / remainder obligations are raised by the lowering itself) and never leaks a raw exception
            E('eval.binary.only_runtime_errors', 'bl_exc == 0 || bl_exc == EXC_RT', ['C12']),
            E('eval.binary.result_tag_is_a_value_tag', 'OK ==> (%s.type >= 0 && %s.type <= BL_Void)' % (RET, RET), ['C12']),
        ] + arith_clauses() + [
            # '/' always yields float; division by (promoted) zero is a located runtime error
            E('eval.binary.div.always_float', '(OK && %s && OP("/") && NUM(TL) && NUM(TR)) ==> (%s.type == BL_Float && !D_EQ(F64(g_r), 0.0) && FEQ(%s.floatValue, D_DIV(F64(g_l), F64(g_r))))' % (BOTH, RET, RET), ['C07']),
            E('eval.binary.div.by_zero_is_located_error', '(%s && OP("/") && NUM(TL) && NUM(TR) && D_EQ(F64(g_r), 0.0)) ==> RAISED_AT_NODE(bin)' % BOTH, ['C07', 'C12']),
            # integer '%': truncated remainder, tag long if either is long; x % 0 is a located runtime error; MIN % -1 is 0
            E('eval.binary.mod.by_zero_is_located_error', '(%s && OP("%%") && %s && I64(g_r) == 0) ==> RAISED_AT_NODE(bin)' % (BOTH, INTPAIR), ['C07', 'C12']),
            E('eval.binary.mod.truncated_remainder', '(OK && %s && OP("%%") && %s && I64(g_r) != 0 && I64(g_r) != -1) ==> ((%s.type == ((TL == BL_Long || TR == BL_Long) ? BL_Long : BL_Int)) && (%s.type == BL_Long ? %s.longValue == BL_IMOD_V(long, I64(g_l), I64(g_r)) : %s.intValue == (int)BL_IMOD_V(long, I64(g_l), I64(g_r))))' % (BOTH, INTPAIR, RET, RET, RET, RET), ['C07']),
            E('eval.binary.mod.by_minus_one_is_zero', '(%s && OP("%%") && %s && I64(g_r) == -1) ==> (OK && (%s.type == BL_Long ? %s.longValue : (long)%s.intValue) == 0)' % (BOTH, INTPAIR, RET, RET, RET), ['C07', 'C12']),
            # logical operators on boolean / bit
            E('eval.binary.and_or.on_boolean_or_bit', '(OK && %s && (OP("&&") || OP("||")) && (TL == BL_Boolean || TL == BL_Bit) && (TR == BL_Boolean || TR == BL_Bit) && (TL == BL_Boolean || TR == BL_Boolean)) ==> '
              '(%s.type == BL_Boolean && %s.boolValue == (OP("&&") ? ((TL == BL_Boolean ? g_l.boolValue : g_l.bitValue != 0) && (TR == BL_Boolean ? g_r.boolValue : g_r.bitValue != 0)) : ((TL == BL_Boolean ? g_l.boolValue : g_l.bitValue != 0) || (TR == BL_Boolean ? g_r.boolValue : g_r.bitValue != 0))))' % (BOTH, RET, RET), ['C07']),
            # bitwise operators on scalar bits
            E('eval.binary.bitwise.scalar_bits', '(OK && %s && (OP("&") || OP("|") || OP("^")) && TL == BL_Bit && TR == BL_Bit) ==> (%s.type == BL_Bit && %s.bitValue == (OP("&") ? (g_l.bitValue & g_r.bitValue) : OP("|") ? (g_l.bitValue | g_r.bitValue) : (g_l.bitValue ^ g_r.bitValue)))' % (BOTH, RET, RET), ['C07']),
            # element-wise on equal-length bit arrays; length mismatch is a located runtime error
            E('eval.binary.bitwise.arrays_elementwise', '(OK && %s && (OP("&") || OP("|") || OP("^")) && TL == BL_BitArray && TR == BL_BitArray) ==> (%s.type == BL_BitArray && %s.bitArray.size == g_l.bitArray.size && g_l.bitArray.size == g_r.bitArray.size && '
              '(gk < %s.bitArray.size ==> %s.bitArray.data[gk] == (OP("&") ? (g_l.bitArray.data[gk] & g_r.bitArray.data[gk]) : OP("|") ? (g_l.bitArray.data[gk] | g_r.bitArray.data[gk]) : (g_l.bitArray.data[gk] ^ g_r.bitArray.data[gk]))))' % (BOTH, RET, RET, RET, RET), ['C07']),
            E('eval.binary.bitwise.array_length_mismatch_is_located_error', '(%s && (OP("&") || OP("|") || OP("^")) && TL == BL_BitArray && TR == BL_BitArray && g_l.bitArray.size != g_r.bitArray.size) ==> RAISED_AT_NODE(bin)' % BOTH, ['C07', 'C12']),
        ],
        'after_decl': {'l': 'g_l = l;', 'r': 'g_r = r; g_operands_ok = 1;'},
    },
    'eval_unary': {
        'contract': [
            R('bl_exc == 0 && g_evals == 0 && g_operands_ok == 0 && unary_line >= 0 && unary_column >= 0'),
            A('bl_exc, bl_exc_line, bl_exc_col, g_evals, g_r, g_operands_ok'),
            E('eval.unary.only_runtime_errors', 'bl_exc == 0 || bl_exc == EXC_RT', ['C12']),
            E('eval.unary.neg.keeps_tag_and_negates', '(OK && UOP("-") && NUM(TR)) ==> (%s.type == TR && (TR == BL_Float ? FEQ(%s.floatValue, D_NEG(g_r.floatValue)) : TR == BL_Long ? %s.longValue == (long)(0UL - (unsigned long)g_r.longValue) : %s.intValue == (int)(0U - (unsigned int)g_r.intValue)))' % (RET, RET, RET, RET), ['C07']),
            E('eval.unary.not.on_boolean_or_bit', '(OK && UOP("!") && (TR == BL_Boolean || TR == BL_Bit)) ==> (%s.type == BL_Boolean && %s.boolValue == !(TR == BL_Boolean ? g_r.boolValue : g_r.bitValue != 0))' % (RET, RET), ['C07']),
            E('eval.unary.tilde.flips_bit', '(OK && UOP("~") && TR == BL_Bit) ==> (%s.type == BL_Bit && %s.bitValue == (g_r.bitValue ? 0 : 1))' % (RET, RET), ['C07']),
            E('eval.unary.tilde.flips_every_element', '(OK && UOP("~") && TR == BL_BitArray) ==> (%s.type == BL_BitArray && %s.bitArray.size == g_r.bitArray.size && (gk < %s.bitArray.size ==> %s.bitArray.data[gk] == (g_r.bitArray.data[gk] ? 0 : 1)))' % (RET, RET, RET, RET), ['C07']),
            E('eval.unary.tilde.other_operands_are_located_errors', '(g_operands_ok != 0 && UOP("~") && TR != BL_Bit && TR != BL_BitArray) ==> RAISED_AT_NODE(unary)', ['C12']),
        ],
        'after_decl': {'r': 'g_r = r; g_operands_ok = 1;'},
    },
    'eval_literal': {
        'contract': [
            R('bl_exc == 0 && lit_value.n <= 64 && lit_line >= 0 && lit_column >= 0'),
            R('__CPROVER_is_fresh(lit_value.p, lit_value.n ? lit_value.n : 1)'),
            # what the lexer guarantees about literal text (unit LEX, scanNumber): a bit literal is 0b or 1b; numbers start with a digit
            R('(lit_literalType == STRID("bit")) ==> (lit_value.n == 2 && (lit_value.p[0] == 48 || lit_value.p[0] == 49))'),
            R('(lit_literalType != STRID("string") && lit_literalType != STRID("char") && lit_literalType != STRID("boolean")) ==> (lit_value.n >= 1 && lit_value.p[0] >= 48 && lit_value.p[0] <= 57)'),
            A('bl_exc, bl_exc_line, bl_exc_col'),
            # C12: a literal the front end accepted never surfaces a raw C++ exception (std::out_of_range from stoi/stof)
            E('eval.literal.no_raw_exception', 'bl_exc == 0 || bl_exc == EXC_RT', ['C12']),
            E('eval.literal.tag_follows_literal_type', 'OK ==> (%s.type == (lit_literalType == STRID("bit") ? BL_Bit : lit_literalType == STRID("boolean") ? BL_Boolean : lit_literalType == STRID("long") ? BL_Long : lit_literalType == STRID("float") ? BL_Float : lit_literalType == STRID("string") ? BL_String : lit_literalType == STRID("char") ? BL_Char : BL_Int))' % RET, ['C07']),
            E('eval.literal.string_is_text_between_quotes', '(OK && lit_literalType == STRID("string") && lit_value.n >= 2) ==> (%s.stringValue.p == lit_value.p + 1 && %s.stringValue.n == lit_value.n - 2)' % (RET, RET), ['C07']),
            E('eval.literal.char_is_the_quoted_byte', '(OK && lit_literalType == STRID("char") && lit_value.n >= 3) ==> (%s.charValue == lit_value.p[1])' % RET, ['C07']),
        ],
    },
}


def bit_loop(k, fn):
    return {'assigns': 'i, __CPROVER_object_whole(v.bitArray.data)',
            'invariants': [('%s.loop%d.bounds' % (fn, k), 'i <= v.bitArray.size && v.bitArray.size <= AMAX && v.bitArray.cap == AMAX')],
            'decreases': 'v.bitArray.size - i'}


def bin_loops():
    loops = {}
    for k in range(9):
        shape, op = k % 3, ['&', '|', '^'][k // 3]
        a = 'l.bitValue' if shape == 2 else 'l.bitArray.data[gk]'
        b = 'r.bitValue' if shape == 1 else 'r.bitArray.data[gk]'
        n = ('r' if shape == 2 else 'l') + '.bitArray.size'
        loops[k] = {'assigns': 'i, __CPROVER_object_whole(v.bitArray.data)',
                    'invariants': [('eval.binary.loop%d.bounds' % k, 'i <= %s && v.bitArray.size == %s && %s <= AMAX && v.bitArray.cap == AMAX' % (n, n, n)),
                                   ('eval.binary.loop%d.prefix_done' % k, '(gk < i) ==> (v.bitArray.data[gk] == (%s %s %s))' % (a, op, b))],
                    'decreases': '%s - i' % n}
    return loops


CONTRACTS['eval_binary']['loops'] = bin_loops()
CONTRACTS['eval_unary']['loops'] = {0: {'assigns': 'i, __CPROVER_object_whole(v.bitArray.data)',
                                        'invariants': [('eval.unary.loop0.bounds', 'i <= r.bitArray.size && v.bitArray.size == r.bitArray.size && r.bitArray.size <= AMAX && v.bitArray.cap == AMAX'),
                                                       ('eval.unary.loop0.prefix_done', '(gk < i) ==> (v.bitArray.data[gk] == (r.bitArray.data[gk] ? 0 : 1))')],
                                        'decreases': 'r.bitArray.size - i'}}
NOOVF = ['--signed-overflow-check', '--unsigned-overflow-check']
STUBS = ['arith_eval_operand', 'arith_valueToString', 'arith_str_concat', 'arith_str_eq']
def opset(ops):
    return ' || '.join('a0 == STRID("%s")' % o for o in ops)


GROUPS = [('arith', ['+', '-', '*']), ('divmod', ['/', '%']), ('compare', ['>', '<', '>=', '<=', '==', '!=']), ('logic', ['&&', '||']), ('bitwise', ['&', '|', '^'])]
HARNESSES = []
for _g, _ops in GROUPS:
    HARNESSES.append(dict(name='eval_binary_' + _g, fn='eval_binary', replace=STUBS, flags=['UF', 'UFI'], props=['C07', 'C12'], timeout=900, no_checks=NOOVF, bounded_replace=STUBS, bounded_defs=['AMAX=3'], unwind=5,
                          pre=['__CPROVER_assume(%s);' % opset(_ops)], canaries=[('bl_exc == 0', 'normal return'), ('bl_exc != 0', 'exceptional return')]))
HARNESSES.append(dict(name='eval_binary_other_ops', fn='eval_binary', replace=STUBS, flags=['UF', 'UFI'], props=['C07', 'C12'], timeout=900, no_checks=NOOVF, bounded_replace=STUBS, bounded_defs=['AMAX=3'], unwind=5,
                      pre=['__CPROVER_assume(!(%s));' % opset(sum([o for _, o in GROUPS], []))], canaries=[('1', 'return')]))
HARNESSES += [
    dict(name='eval_unary', fn='eval_unary', replace=STUBS[:1], flags=['UF'], props=['C07', 'C12'], timeout=300, no_checks=NOOVF, bounded_replace=STUBS[:1], bounded_defs=['AMAX=3'], unwind=5),
    dict(name='eval_literal', fn='eval_literal', replace=[], flags=[], props=['C12', 'C07'], timeout=300, no_checks=['--signed-overflow-check', '--unsigned-overflow-check']),
]


# =========================================================================== native side
from tools import native as _nat


def _bloch():
    bd = _nat.repo_build(('bloch',))
    return os.path.join(bd, 'bin', 'bloch')


def native_validate(pu, work, tier, seed):
    """no bit-exact co-execution for region units (the regions are not callable in isolation); the oracle runs
    the real interpreter on generated programs against a reference written from the docs"""
    try:
        b = _bloch()
        rc, out, dt = _nat.run(['python3', os.path.join(_nat.ROOT, 'native', 'arith_oracle.py'), b, 'sweep', str(seed), '60' if tier == 'quick' else '1500'], timeout=1200)
        js = _nat.last_json(out)
        return dict(unit='ARITH', kind='oracle on the real interpreter (generated programs vs a reference written from docs/language); no co-execution for region units', status='agree',
                    oracle_sweep=dict(checks=js.get('oracle_checks'), failures=js.get('oracle_failures'), failing_labels=sorted(set(re.findall(r'FAIL label=(\S+)', out)))), wall_s=round(dt, 1))
    except _nat.Break as e:
        return dict(unit='ARITH', status='error', detail=str(e))


def replay_counterexample(pu, h, label, failure, work, tier, seed):
    b = _bloch()
    prof = pu['low']['profile']
    vals, first = _nat.trace_values(failure.get('trace', ''), failure)
    cmds = []
    tagname = dict((str(i), t) for i, t in enumerate(prof.tagenum))
    tl, tr, opid = tagname.get(vals.get('g_l.type', '')), tagname.get(vals.get('g_r.type', '')), vals.get('bin_op') or vals.get('a0')
    tmap = {'Int': 'int', 'Long': 'long', 'Float': 'float'}
    if tl in tmap and tr in tmap and opid and opid.lstrip('-').isdigit() and 0 <= int(opid) < len(prof.strids):
        op = prof.strids[int(opid)].strip('"')
        if op in ('+', '-', '*', '/', '%', '>', '<', '>=', '<=', '==', '!='):
            cmds.append(['python3', os.path.join(_nat.ROOT, 'native', 'arith_oracle.py'), b, 'pair', tmap[tl], tmap[tr], op])
    cmds.append(['python3', os.path.join(_nat.ROOT, 'native', 'arith_oracle.py'), b, 'sweep', str(seed), '40'])
    tried = []
    for cmd in cmds:
        rc, out, dt = _nat.run(cmd, timeout=900)
        tried.append(' '.join(cmd[3:]))
        fails = [l for l in out.split('\n') if l.startswith('FAIL ')]
        same = [l for l in fails if label and ('label=' + label + ' ') in l]
        region = h['fn'].replace('eval_', 'eval.')
        pick = same or [l for l in fails if ('label=' + region + '.') in l]
        if label and 'no_trap' in (failure.get('desc') or ''):
            pick = [l for l in fails if 'signal' in l] or pick
        if pick:
            m = re.search(r'label=(\S+)', pick[0])
            return dict(failing_input_found=True, failing_input=pick[0], native_failures=fails[:5], oracle_label=m.group(1), signature=re.sub(r' detail=.*', '', pick[0])[:160],
                        reproduce_args=cmd[3:], reproduce='bin/check <property> --replay <this file>', replay_inputs_tried=tried, matched_same_obligation=bool(same) or cmd[3] == 'pair')
    return dict(failing_input_found=False, replay_inputs_tried=tried, signature='')


def run_reproduce(rec, work):
    b = _bloch()
    rc, out, dt = _nat.run(['python3', os.path.join(_nat.ROOT, 'native', 'arith_oracle.py'), b] + rec['reproduce_args'], timeout=900)
    print(out)
    return 1 if rc else 0
