"""Unit CFOLD — compiler/semantics/semantic_analyser.cpp: the BinaryExpression branch of
SemanticAnalyser::evaluateConstInt (constant folding of `final int` initialisers and array sizes).  C12 / C13: folding
never traps - a zero divisor or INT_MIN with divisor -1 is answered (a Semantic diagnostic or the mathematical result),
never SIGFPE; C16/C07: the folded value is the value of the expression."""
import re, os
from tools import cxx2c
from tools.cxx2c import Lower, Unsupported, kids, qt, qt_sugar, strip, strip_parens, callee_name, norm_type, walk
from tools.cxx2c import REPO as _REPO
from units.arith import find_region

NAME = 'CFOLD'
SRC = _REPO + '/src/bloch/compiler/semantics/semantic_analyser.cpp'
NAMESPACE = 'bloch::compiler'
FUNCS = []
AST_FILTER = ['SemanticAnalyser::evaluateConstInt']
SHIM = 'cfold.h'
THROWING = {'fold_binary'}
OPS = ['+', '-', '*', '/', '%']
DROPS = ['region fold_binary: the `if (auto bin = dynamic_cast<BinaryExpression*>(expr))` branch of evaluateConstInt; the operator text is an interned id, line / column are parameters; the recursive evaluation of the operands is a model returning an arbitrary optional int (first call: left, second: right) or raising a Semantic error',
         'diagnostic message text']
ASSUMPTIONS = ['the VALUE of integer * / % is an uninterpreted function of the operands (SAT does not decide 32-bit multipliers / dividers in reasonable time): products, quotients and remainders are checked only by the native oracle; the no-trap obligations stay bit-precise',
               'for + - * the operands are small (|v| < 2^15): signed overflow of a folded sum / product is undefined behaviour that does not trap and is not examined here; for / and % the operands are ARBITRARY ints']


class Profile(Lower):
    CLS = 'cfold'
    SELF_T = ''
    IS_METHOD = False
    WRAP_DOUBLE_OPS = False
    TYPE_MAP = [
        (r'^std::optional<int>$', 'opt_int'),
        (r'^(const )?std::nullopt_t$', 'bl_nullopt'),
        (r'^(std::)?(basic_string<char.*>|string)$', 'bl_op'),
        (r'^std::unique_ptr<(bloch::compiler::)?Expression(, std::default_delete<.*>)?>$', 'bl_ast'),
        (r'^(bloch::compiler::)?(Expression|BinaryExpression) \*$', 'bl_ast'),
    ]

    def file_prelude(self):
        return []

    def declref(self, n):
        if n['referencedDecl']['name'] == 'nullopt':
            return 'BL_NULLOPT'
        rd = n['referencedDecl']
        if rd.get('kind') == 'EnumConstantDecl':
            return 'BL_' + rd['name']
        return super().declref(n)

    def string_literal(self, n):
        v = n.get('value', '').strip('"')
        if v in OPS:
            return 'BL_OP_%d' % OPS.index(v)
        return '0'                         # diagnostic text

    def cast(self, n):
        if n.get('castKind') == 'ArrayToPointerDecay' and strip_parens(kids(n)[0]).get('kind') == 'StringLiteral':
            return self.expr(kids(n)[0])
        if n.get('kind') == 'CXXFunctionalCastExpr' and self.ct(n) == 'opt_int':
            return self.expr(kids(n)[0])
        return super().cast(n)

    def cast_other(self, n, ck, inner):
        if ck in ('UserDefinedConversion', 'ConstructorConversion'):
            return self.expr(inner)
        return super().cast_other(n, ck, inner)

    def construct(self, n):
        ct = self.ctype_safe(qt(n))
        args = [a for a in kids(n) if a.get('kind') != 'CXXDefaultArgExpr']
        if ct == 'opt_int' and len(args) == 1:
            t = self.ct(args[0])
            if t == 'int':
                return '(opt_int){ 1, %s }' % self.expr(args[0])
            if t == 'bl_nullopt':
                return '(opt_int){ 0, 0 }'
            if t == 'opt_int':
                return self.expr(args[0])
        if ct == 'bl_op' and len(args) == 1:
            return self.expr(args[0])
        raise Unsupported('ctor %s/%d' % (qt(n), len(args)))

    def member(self, n):
        sb = strip(kids(n)[0])
        if sb.get('kind') == 'DeclRefExpr' and sb['referencedDecl']['name'] == 'bin' and n['name'] in ('op', 'left', 'right', 'line', 'column'):
            return 'bin_%s' % n['name']
        raise Unsupported('member %s of %s' % (n['name'], qt(sb)))

    def opcall(self, n):
        ks = kids(n)
        op = callee_name(ks[0])
        args = ks[1:]
        t0 = self.ct(args[0])
        if op in ('operator==', 'operator!=') and t0 == 'bl_op':
            return '(%s %s %s)' % (self.expr(args[0]), op[len('operator'):], self.expr(args[1]))
        if op == 'operator*' and len(args) == 1 and t0 == 'opt_int':
            return '(%s).v' % self.expr(args[0])
        if op == 'operator+' and self.ctype_safe(qt(n)) == 'bl_op':
            return '0'
        raise Unsupported('operator %s on %s' % (op, qt(args[0])))

    def call_named(self, n, name, args):
        if name in ('min', 'max') and not args and self.ct(n) == 'int':
            return 'INT_MIN' if name == 'min' else 'INT_MAX'
        return super().call_named(n, name, args)

    def membercall(self, n):
        ks = kids(n)
        me = strip(ks[0])
        return self.membercall_other(n, me['name'], kids(me)[0], ks[1:])

    def membercall_other(self, n, name, obj, args):
        so = strip(obj)
        t = self.ct(obj)
        if name == 'operator bool' and t == 'opt_int':
            return '(%s).has' % self.expr(obj)
        if t == 'bl_ast' and name == 'get':
            return self.expr(obj)
        if so.get('kind') == 'CXXThisExpr' and name == 'evaluateConstInt' and len(args) == 1:
            self.needs_prop = True
            return 'cfold_rec(%s)' % self.expr(args[0])
        raise Unsupported('member call %s on %s' % (name, qt(obj)))


def lower_regions(docs, prof):
    head = 'opt_int cfold_fold_binary(bl_op bin_op, bl_ast bin_left, bl_ast bin_right, int bin_line, int bin_column)'
    try:
        ds = cxx2c.find_functions(docs, 'evaluateConstInt')
        if len(ds) != 1:
            raise Unsupported('evaluateConstInt: %d definitions' % len(ds))
        body = [k for k in kids(ds[0]) if k.get('kind') == 'CompoundStmt'][0]
        n, cast = find_region(body, 'bin')
        if not any('BinaryExpression' in c for c in cast):
            raise Unsupported('region `bin` is no longer the dynamic_cast<BinaryExpression*> branch')
        d = dict(kind='FunctionDecl', name='fold_binary', type=dict(qualType='std::optional<int> ()'), inner=[kids(n)[2]])
        h, lines = prof.func(d, cname='fold_binary', is_method=False)
        return [(head, lines)]
    except Unsupported as e:
        prof.region_unlowered = {'fold_binary': str(e)}
        return [(head, None)]


GHOSTS = r"""
int bl_exc, bl_exc_line, bl_exc_col;
#define EXC_SEM BL_EXC(BL_Semantic)
#define BL_NULLOPT 0
int g_calls; opt_int g_l, g_r; bl_op g_op;          /* ghost: the two operand results, the operator */
#define SMALL(x) ((x) > -32768 && (x) < 32768)
#ifndef NATIVE
_Bool nondet_bool(void); int nondet_int(void);
static inline opt_int cfold_rec(bl_ast e) {
  opt_int r; r.has = nondet_bool(); r.v = nondet_int();
  if (!(g_op == BL_OP_3 || g_op == BL_OP_4) && !SMALL(r.v)) r.v = 0;      /* see ASSUMPTIONS: + - * on small operands only */
  if (nondet_bool()) { bl_throw(BL_Semantic, 0, 0); return r; }
  if (g_calls == 0) g_l = r; else g_r = r;
  if (g_calls < 10) g_calls = g_calls + 1;
  return r;
}
#endif
#define IS_DIVLIKE (bin_op == BL_OP_3 || bin_op == BL_OP_4)
#define BOTH (g_calls == 2 && g_l.has && g_r.has)
"""
RET = '__CPROVER_return_value'


def R(t):
    return ('', 'requires', t, [])


def E(label, t, props, **o):
    return (label, 'ensures', t, props, o)


def A(t):
    return ('', 'assigns', t, [])


CONTRACTS = {
    'fold_binary': {
        'contract': [
            R('bl_exc == 0 && g_calls == 0'),
            A('bl_exc, bl_exc_line, bl_exc_col, g_calls, g_l, g_r, g_op'),
            E('evaluateConstInt.only_semantic_errors', 'bl_exc == 0 || bl_exc == EXC_SEM', ['C13', 'C12']),
            # C13 / C12: a zero divisor in a constant expression is one Semantic diagnostic at the operator - never a trap (the no-trap
            # obligations on the / and % of the code itself are part of this harness: MIN / -1 and MIN % -1 included)
            E('evaluateConstInt.zero_divisor_is_a_semantic_error', '(BOTH && IS_DIVLIKE && g_r.v == 0) ==> (bl_exc == EXC_SEM && bl_exc_line == bin_line && bl_exc_col == bin_column)', ['C13', 'C12', 'C16']),
            E('evaluateConstInt.modulo_by_minus_one_is_zero', '(BOTH && bin_op == BL_OP_4 && g_r.v == -1) ==> (bl_exc == 0 && %s.has && %s.v == 0)' % (RET, RET), ['C12', 'C07']),
            E('evaluateConstInt.unknown_operand_is_not_constant', '(bl_exc == 0 && g_calls == 2 && (!g_l.has || !g_r.has)) ==> !%s.has' % RET, ['C16']),
            E('evaluateConstInt.sum_and_difference', '(bl_exc == 0 && BOTH && SMALL(g_l.v) && SMALL(g_r.v)) ==> ((bin_op == BL_OP_0 ==> (%s.has && %s.v == g_l.v + g_r.v)) && (bin_op == BL_OP_1 ==> (%s.has && %s.v == g_l.v - g_r.v)))' % ((RET,) * 4), ['C16', 'C07']),
        ],
    },
}
CONTRACTS['fold_binary']['prologue'] = 'g_op = bin_op;'
HARNESSES = [
    dict(name='fold_binary', fn='fold_binary', replace=[], flags=['UFI'], props=['C13', 'C12', 'C16', 'C07'], timeout=600,
         canaries=[('bl_exc == 0 && a0 == BL_OP_4', 'a remainder was folded'), ('bl_exc != 0 && g_calls == 2', 'rejected after both operands were folded')]),
]


from tools import native as _nat


def _oracle():
    bd = _nat.repo_build(('bloch',))
    return _nat.run(['python3', os.path.join(_nat.ROOT, 'native', 'cfold_oracle.py'), os.path.join(bd, 'bin', 'bloch'), 'sweep'], timeout=600)


def native_validate(pu, work, tier, seed):
    try:
        rc, out, dt = _oracle()
        js = _nat.last_json(out)
        return dict(unit='CFOLD', kind='oracle on the real front end through the CLI (final int initialisers and array sizes with constant + - * / % over boundary values; a crash is a failure); no co-execution for this unit', status='agree',
                    oracle_sweep=dict(checks=js.get('oracle_checks'), failures=js.get('oracle_failures'), failing_labels=sorted(set(re.findall(r'FAIL label=(\S+)', out)))), wall_s=round(dt, 1))
    except _nat.Break as e:
        return dict(unit='CFOLD', status='error', detail=str(e))


def replay_counterexample(pu, h, label, failure, work, tier, seed):
    rc, out, dt = _oracle()
    fails = [l for l in out.split('\n') if l.startswith('FAIL ')]
    same = [l for l in fails if label and ('label=' + label + ' ') in l]
    pick = same or fails
    if pick:
        m = re.search(r'label=(\S+)', pick[0])
        return dict(failing_input_found=True, failing_input=pick[0][:1200], native_failures=[f[:300] for f in fails[:4]], oracle_label=m.group(1), signature=re.sub(r' program=.*', '', pick[0])[:160],
                    reproduce_args=['sweep'], reproduce='bin/check <property> --replay <this file>', replay_inputs_tried=['sweep'], matched_same_obligation=bool(same))
    return dict(failing_input_found=False, replay_inputs_tried=['sweep'], signature='')


def run_reproduce(rec, work):
    rc, out, dt = _oracle()
    print(out)
    return 1 if rc else 0
