"""Unit LEX — compiler/lexer/lexer.cpp, every member function of Lexer (C15, C13, C12)."""
import re, os
from tools import cxx2c
from tools.cxx2c import Lower, Unsupported, kids, qt, strip, callee_name, norm_type
from tools.cxx2c import REPO as _REPO

NAME = 'LEX'
SRC = _REPO + '/src/bloch/compiler/lexer/lexer.cpp'
AST_FILTER = 'Lexer'
SHIM = 'lex.h'
NAMESPACE = 'bloch::compiler'
FUNCS = ['peek', 'peekNext', 'advance', 'match', 'skipComment', 'skipWhitespace', 'reportError', 'makeToken',
         'scanNumber', 'scanIdentifierOrKeyword', 'scanString', 'scanChar', 'scanToken', 'tokenize']
THROWING = {'reportError', 'scanNumber', 'scanString', 'scanChar', 'scanToken', 'tokenize', 'scanIdentifierOrKeyword'}
DROPS = ['diagnostic message strings (category, line, column are kept)',
         'std::string ownership: token texts are read-only slices {pointer,length} into the source, a string literal, or a constant one-byte table',
         'the function-local static unordered_map of keywords is a generated constant table; its lookup (find) is a trusted library model checked natively',
         'std::vector<Token> storage (append-only log with ghost last element and count); allocator failure']
ASSUMPTIONS = ['<cctype> classification in the "C" locale']


class Profile(Lower):
    CLS = 'Lexer'
    SELF_T = 'Lexer'
    WRAP_DOUBLE_OPS = False
    TYPE_MAP = [
        (r'^(std::)?basic_string_view<char.*>$', 'bl_sv'), (r'^std::string_view$', 'bl_sv'),
        (r'^std::vector<(bloch::compiler::)?Token>$', 'vec_Token'),
        (r'^(bloch::compiler::)?Token$', 'Token'), (r'^(bloch::compiler::)?TokenType$', 'int'),
        (r'^std::unordered_map<std::basic_string_view<char>, bloch::compiler::TokenType>::const_iterator$', 'size_t'),
        (r'^std::__detail::_Node_const_iterator<.*$', 'size_t'),
        (r'^std::__detail::_Node_iterator_base<.*$', 'size_t'),
        (r'^(std::)?(basic_string<char.*>|string)$', 'bl_sv'),
    ]

    def __init__(self, *a, **k):
        super().__init__(*a, **k)
        self.kwtab = None
        self.fields = []
        self.enum = []

    def prepare(self, docs, workdir):
        recs = [d for d in docs if d.get('kind') == 'CXXRecordDecl' and d.get('name') == 'Lexer' and d.get('completeDefinition')]
        if len(recs) != 1:
            raise Unsupported('class Lexer definition not found')
        for f in kids(recs[0]):
            if f.get('kind') == 'FieldDecl':
                self.fields.append((f['name'], self.ctype(qt(f))))
        edocs = cxx2c.ast_dump(SRC, 'TokenType', workdir)
        enums = [d for d in edocs if d.get('kind') == 'EnumDecl' and d.get('name') == 'TokenType']
        if not enums:
            raise Unsupported('enum TokenType not found')
        self.enum = [c['name'] for c in kids(enums[0]) if c.get('kind') == 'EnumConstantDecl']

    def file_prelude(self):
        out = ['enum { %s };' % ', '.join('BL_' + e for e in self.enum)]
        out += ['#define BL_HAS_FIELD_%s 1' % f for f, _ in self.fields]
        out += ['struct Lexer { %s };' % ' '.join('%s %s;' % (t, f) for f, t in self.fields)]
        if self.kwtab is not None:
            out += ['const struct bl_kw bl_kw_tab[] = {' + ', '.join('{BL_SV_LIT(%s), BL_%s}' % (a, b) for a, b in self.kwtab) + '};',
                    '#define BL_KW_END ((size_t)%d)' % len(self.kwtab),
                    '#define BL_KW_ENTRY(i) (bl_kw_tab[BL_IDX(i, BL_KW_END)])',
                    'const size_t bl_kw_end = BL_KW_END;']
        return out

    def string_literal(self, n):
        return 'BL_SV_LIT(%s)' % n['value']

    def lit_eq(self, sv_expr, lit_node):
        """string_view == "literal": straight-line comparison generated from the literal's bytes"""
        val = lit_node['value']
        body = bytes(val[1:-1], 'utf-8').decode('unicode_escape')
        conds = ['%s.n == %d' % (sv_expr, len(body))]
        for i, ch in enumerate(body):
            conds.append('%s.p[%d] == %d' % (sv_expr, i, ord(ch)))
        return '(' + ' && '.join(conds) + ')'

    def construct(self, n):
        ct = self.ctype(qt(n))
        args = [a for a in kids(n) if a.get('kind') != 'CXXDefaultArgExpr']
        if ct == 'bl_sv':
            if len(args) == 1:
                return self.expr(args[0])
            if len(args) == 2 and self.ct(args[1]) == 'char':
                return 'bl_sv_char(%s, %s)' % (self.expr(args[0]), self.expr(args[1]))
            raise Unsupported('string ctor arity %d' % len(args))
        if ct == 'Token' and len(args) == 1:
            return self.expr(args[0])
        if ct == 'vec_Token' and len(args) == 0:
            return 'vec_Token_make()'
        if ct == 'vec_Token' and len(args) == 1:
            return self.expr(args[0])
        raise Unsupported('ctor ' + ct)

    def declref(self, n):
        if n['referencedDecl']['name'] == 'npos':
            return 'BL_NPOS'
        return super().declref(n)

    def initlist(self, n):
        body = '{ ' + ', '.join(self.expr(a) for a in kids(n)) + ' }'
        return '(Token)' + body if self.ct(n) == 'Token' else body

    def cast(self, n):
        if n.get('kind') == 'CXXFunctionalCastExpr' and kids(n)[0].get('kind') == 'InitListExpr' and self.ct(n) == 'Token':
            return self.expr(kids(n)[0])
        return super().cast(n)

    def opcall(self, n):
        ks = kids(n)
        op = callee_name(ks[0])
        args = ks[1:]
        t0 = self.ct(args[0])
        if op == 'operator[]' and t0 == 'bl_sv':
            return 'SV_AT(%s, %s)' % (self.expr(args[0]), self.expr(args[1]))
        if op == 'operator==' and t0 == 'bl_sv':
            a, b = strip(args[0]), strip(args[1])
            for x, y in ((a, b), (b, a)):
                yy = y
                while yy.get('kind') in ('CXXConstructExpr', 'ImplicitCastExpr', 'MaterializeTemporaryExpr') and kids(yy):
                    yy = strip(kids(yy)[0])
                if yy.get('kind') == 'StringLiteral':
                    return self.lit_eq(self.expr(x), yy)
            raise Unsupported('string_view == non-literal')
        if op == 'operator==' and t0 == 'size_t':
            return '(%s == %s)' % (self.expr(args[0]), self.expr(args[1]))
        if op == 'operator->' and t0 == 'size_t':
            return 'BL_KW_ENTRY(%s)' % self.expr(args[0])
        raise Unsupported('operator %s on %s' % (op, qt(args[0])))

    def member(self, n):
        base = kids(n)[0]
        sb = strip(base)
        if sb.get('kind') == 'CXXOperatorCallExpr' and callee_name(kids(sb)[0]) == 'operator->':
            return '(%s).%s' % (self.expr(sb), n['name'])
        return super().member(n)

    def membercall_other(self, n, name, obj, args):
        t = self.ct(obj)
        if t == 'bl_sv':
            o = self.expr(obj)
            if name in ('size', 'length'):
                return 'SV_SIZE(%s)' % o
            if name == 'substr':
                self.needs_prop = True
                return 'bl_sv_substr(%s, %s)' % (o, ', '.join(self.expr(a) for a in args))
            if name == 'empty':
                return '(SV_SIZE(%s) == 0)' % o
            if name in ('find', 'rfind') and args and self.ct(args[0]) == 'char':
                rest = [a for a in args[1:] if a.get('kind') != 'CXXDefaultArgExpr']
                if name == 'find' and len(rest) <= 1:
                    return 'bl_sv_find_char(%s, %s, %s)' % (o, self.expr(args[0]), self.expr(rest[0]) if rest else '0')
                if name == 'rfind' and not rest:
                    return 'bl_sv_rfind_char(%s, %s)' % (o, self.expr(args[0]))
        if name in ('find', 'end') and 'unordered_map' in qt(obj):
            return 'bl_kw_find(%s)' % self.expr(args[0]) if name == 'find' else 'BL_KW_END'
        if t == 'vec_Token' and name == 'push_back':
            return 'vec_Token_push(&%s, %s)' % (self.expr(obj), self.expr(args[0]))
        raise Unsupported('member call %s on %s' % (name, qt(obj)))

    def call_named(self, n, name, args):
        if name in ('isdigit', 'isalpha', 'isalnum', 'isspace'):
            return 'bl_%s(%s)' % (name, self.expr(args[0]))
        if name == 'count' and len(args) == 3:
            # std::count(x.begin(), x.end(), ch) over a whole string_view
            b, e = strip(args[0]), strip(args[1])
            if b.get('kind') == 'CXXMemberCallExpr' and e.get('kind') == 'CXXMemberCallExpr' and strip(kids(b)[0]).get('name') == 'begin' and strip(kids(e)[0]).get('name') == 'end':
                ob, oe = kids(strip(kids(b)[0]))[0], kids(strip(kids(e)[0]))[0]
                if self.ct(ob) == 'bl_sv' and self.expr(ob) == self.expr(oe):
                    return '((long)bl_sv_count_char(%s, %s))' % (self.expr(ob), self.expr(args[2]))
            raise Unsupported('std::count shape')
        return super().call_named(n, name, args)

    def decl(self, v):
        if 'unordered_map' in qt(v):
            pairs = []

            def walk(m):
                if m.get('kind') == 'CXXConstructExpr' and 'pair' in qt(m):
                    found = {}

                    def f(z):
                        if z.get('kind') == 'StringLiteral':
                            found['lit'] = z['value']
                        if z.get('kind') == 'DeclRefExpr' and z['referencedDecl'].get('kind') == 'EnumConstantDecl':
                            found['en'] = z['referencedDecl']['name']
                        for c in kids(z):
                            f(c)
                    f(m)
                    if 'lit' not in found or 'en' not in found:
                        raise Unsupported('keyword table entry shape')
                    pairs.append((found['lit'], found['en']))
                    return
                for c in kids(m):
                    walk(c)
            walk(v)
            if not pairs:
                raise Unsupported('keyword table is empty / not recognised')
            self.kwtab = pairs
            self.locals.add(v['name'])
            return '/* static map %s lowered to bl_kw_tab[%d] */;' % (v['name'], len(pairs))
        return super().decl(v)


# =========================================================================== sidecar contracts
SRCMAX = 1 << 20
GHOSTS = r'''
#ifndef SRCMAX
#define SRCMAX %d
#endif
/* start-of-token fields exist only in newer layouts; helper contracts that mention them become
   unprovable on an older layout, never ill-formed */
#ifdef BL_HAS_FIELD_m_tokenLine
#define TOK_L(s) ((s)->m_tokenLine)
#define TOK_C(s) ((s)->m_tokenColumn)
#else
#define TOK_L(s) (-1)
#define TOK_C(s) (-1)
#endif
#define SRC (self->m_source)
#define POS (self->m_position)
#define EXC_LEX BL_EXC(BL_Lexical)
/* ghost: the TRUE 1-based position of m_position, by definition: a consumed '\n' starts a new
   line at column 1, any other consumed byte advances the column by one.  Only the two
   byte-consuming primitives (advance, match) update it. */
int g_line, g_col;
size_t g_fk;
/* In the bounded route the position at EXIT is compared with the declarative definition (recomputed
   from the source by an unwound loop), so code that moves the cursor without the two primitives is
   judged by what it leaves behind, not by how it got there. */
#ifdef BL_BOUNDED
static int bl_true_line(const char *p, size_t pos) { int l = 1; for (size_t k = 0; k < pos; k++) if (p[k] == 10) l++; return l; }
static int bl_true_col(const char *p, size_t pos) { int c = 1; for (size_t k = 0; k < pos; k++) c = (p[k] == 10) ? 1 : c + 1; return c; }
#define XL bl_true_line(SRC.p, POS)
#define XC bl_true_col(SRC.p, POS)
#define ENTRY_TRUTH (g_line == XL && g_col == XC)
#else
#define XL g_line
#define XC g_col
#define ENTRY_TRUTH 1
#endif
/* ghost: start of the token being scanned (offset, true line, true column), and a byte index */
size_t g_p0, gb; int g_l0, g_c0;
Token bl_last_tok; size_t bl_tok_count;
int bl_exc, bl_exc_line, bl_exc_col;
const char bl_char_tab[256] = {0,1,2,3,4,5,6,7,8,9,10,11,12,13,14,15,16,17,18,19,20,21,22,23,24,25,26,27,28,29,30,31,32,33,34,35,36,37,38,39,40,41,42,43,44,45,46,47,48,49,50,51,52,53,54,55,56,57,58,59,60,61,62,63,64,65,66,67,68,69,70,71,72,73,74,75,76,77,78,79,80,81,82,83,84,85,86,87,88,89,90,91,92,93,94,95,96,97,98,99,100,101,102,103,104,105,106,107,108,109,110,111,112,113,114,115,116,117,118,119,120,121,122,123,124,125,126,127,-128,-127,-126,-125,-124,-123,-122,-121,-120,-119,-118,-117,-116,-115,-114,-113,-112,-111,-110,-109,-108,-107,-106,-105,-104,-103,-102,-101,-100,-99,-98,-97,-96,-95,-94,-93,-92,-91,-90,-89,-88,-87,-86,-85,-84,-83,-82,-81,-80,-79,-78,-77,-76,-75,-74,-73,-72,-71,-70,-69,-68,-67,-66,-65,-64,-63,-62,-61,-60,-59,-58,-57,-56,-55,-54,-53,-52,-51,-50,-49,-48,-47,-46,-45,-44,-43,-42,-41,-40,-39,-38,-37,-36,-35,-34,-33,-32,-31,-30,-29,-28,-27,-26,-25,-24,-23,-22,-21,-20,-19,-18,-17,-16,-15,-14,-13,-12,-11,-10,-9,-8,-7,-6,-5,-4,-3,-2,-1};
#ifdef NATIVE
struct Lexer *bl_lexer_new(const char *p, size_t n) { struct Lexer *l = (struct Lexer *)calloc(1, sizeof(struct Lexer));
  l->m_source.p = p; l->m_source.n = n; l->m_position = 0; l->m_line = 1; l->m_column = 1; return l; }
size_t bl_kw_find(bl_sv text) { extern const struct bl_kw bl_kw_tab[]; extern const size_t bl_kw_end;
  for (size_t i = 0; i < bl_kw_end; i++) if (bl_kw_tab[i].first.n == text.n && memcmp(bl_kw_tab[i].first.p, text.p, text.n) == 0) return i;
  return bl_kw_end; }
#else
size_t bl_kw_find(bl_sv text)
__CPROVER_requires(1)
__CPROVER_assigns()
__CPROVER_ensures(__CPROVER_return_value <= BL_KW_END)
;
#endif
''' % SRCMAX

# ghost-position bounds keep the int counters far from overflow: line, column <= offset + 1
POSB = 'g_line >= 1 && g_col >= 1 && (size_t)g_line <= POS + 1 && (size_t)g_col <= POS + 1'
# WF_LEX (DESIGN.md §2.4): cursor inside the source and the lexer's (line, column) IS the true position
WF_REQ = [
    '__CPROVER_is_fresh(self, sizeof(*self))',
    'SRC.n <= SRCMAX && POS <= SRC.n',
    '__CPROVER_is_fresh(SRC.p, SRC.n ? SRC.n : 1)',
    POSB,
    'self->m_line == g_line && self->m_column == g_col',
    'ENTRY_TRUTH',
    'bl_exc == 0',
]
WF_ENS = 'POS <= SRC.n && ' + POSB + ' && self->m_line == XL && self->m_column == XC'
POSVARS = 'self->m_position, self->m_line, self->m_column, g_line, g_col'
EXC_VARS = 'bl_exc, bl_exc_line, bl_exc_col'
# inside a token: the first byte (offset g_p0, true position g_l0:g_c0) has been consumed and the
# start-of-token fields (if the layout has them) hold that position
INTOK = 'g_p0 < POS && g_l0 >= 1 && g_c0 >= 1 && TOK_L(self) == g_l0 && TOK_C(self) == g_c0'


def R(t):
    return ('', 'requires', t, [])


def E(label, t, props, **opts):
    return (label, 'ensures', t, props, opts)


def A(t):
    return ('', 'assigns', t, [])


def wf():
    return [R(t) for t in WF_REQ]


# a token returned by a scanner: located at the first character, text = the consumed bytes
def tok_ens(fn, props=('C15',)):
    p = list(props)
    # order matters when the contract replaces a call: later clauses are evaluated knowing the earlier ones
    return [
        E(fn + '.progress_and_bounds', 'POS >= __CPROVER_old(POS) && POS <= SRC.n', ['C13']),
        E(fn + '.true_position_kept', WF_ENS, p),
        E(fn + '.token_located_at_first_char', '(bl_exc == 0) ==> (__CPROVER_return_value.line == g_l0 && __CPROVER_return_value.column == g_c0)', p),
        # the text is the very slice of the source that was consumed (pointer identity: a pointer that
        # comes out of a replaced contract cannot be dereferenced reliably by CBMC, but it can be compared)
        E(fn + '.token_text_is_consumed_slice', '(bl_exc == 0) ==> (__CPROVER_return_value.value.n == POS - g_p0 && __CPROVER_return_value.value.p == SRC.p + g_p0)', p),
        E(fn + '.only_lexical_errors', 'bl_exc == 0 || (bl_exc == EXC_LEX && bl_exc_line == self->m_line && bl_exc_col == self->m_column)', ['C13', 'C12']),
    ]


SCAN_LOOP_INV = [
    ('bounds', 'POS <= SRC.n && POS >= __CPROVER_loop_entry(POS) && ' + POSB),
    ('true_position', 'self->m_line == g_line && self->m_column == g_col'),
]


def scan_loop(fn, k):
    return {'assigns': POSVARS,
            'invariants': [('%s.loop%d.%s' % (fn, k, n), t) for n, t in SCAN_LOOP_INV],
            'decreases': 'SRC.n - POS'}


CONTRACTS = {
    'peek': {'contract': [
        R('__CPROVER_is_fresh(self, sizeof(*self))'), R('SRC.n <= SRCMAX && POS <= SRC.n'), R('__CPROVER_is_fresh(SRC.p, SRC.n ? SRC.n : 1)'),
        A(''),
        E('peek.returns_current_byte_or_nul', '__CPROVER_return_value == (POS < SRC.n ? SRC.p[POS] : 0)', []),
    ]},
    'peekNext': {'contract': [
        R('__CPROVER_is_fresh(self, sizeof(*self))'), R('SRC.n <= SRCMAX && POS <= SRC.n'), R('__CPROVER_is_fresh(SRC.p, SRC.n ? SRC.n : 1)'),
        A(''),
        E('peekNext.returns_next_byte_or_nul', '__CPROVER_return_value == (POS + 1 < SRC.n ? SRC.p[POS + 1] : 0)', []),
    ]},
    'advance': {
        'contract': wf() + [
            R('POS < SRC.n'),
            A(POSVARS),
            E('advance.consumes_one_byte', 'POS == __CPROVER_old(POS) + 1 && __CPROVER_return_value == SRC.p[POS - 1]', []),
            E('advance.ghost_true_position', '(SRC.p[POS - 1] == 10) ? (g_line == __CPROVER_old(g_line) + 1 && g_col == 1) : (g_line == __CPROVER_old(g_line) && g_col == __CPROVER_old(g_col) + 1)', []),
            # helper-level: where the lexer keeps its (line, column) in step with the true position
            E('advance.keeps_true_position', 'self->m_line == g_line && self->m_column == g_col', []),
        ],
        'prologue': 'if (SRC.p[POS] == 10) { g_line = g_line + 1; g_col = 1; } else { g_col = g_col + 1; }',
    },
    'match': {
        'contract': wf() + [
            R('expected != 10'),
            A(POSVARS),
            E('match.consumes_iff_equal', '(__CPROVER_old(POS) < SRC.n && SRC.p[__CPROVER_old(POS)] == expected) ? (__CPROVER_return_value && POS == __CPROVER_old(POS) + 1) : (!__CPROVER_return_value && POS == __CPROVER_old(POS))', []),
            E('match.ghost_true_position', 'g_line == __CPROVER_old(g_line) && g_col == __CPROVER_old(g_col) + (__CPROVER_return_value ? 1 : 0)', []),
            E('match.keeps_true_position', 'self->m_line == g_line && self->m_column == g_col', []),
        ],
        'prologue': 'if (POS < SRC.n && SRC.p[POS] == expected) { g_col = g_col + 1; }',
    },
    'reportError': {'contract': [
        R('__CPROVER_is_fresh(self, sizeof(*self))'), R('bl_exc == 0'),
        A(EXC_VARS),
        E('reportError.raises_lexical_at_cursor', 'bl_exc == EXC_LEX && bl_exc_line == self->m_line && bl_exc_col == self->m_column', []),
    ]},
    'makeToken': {'contract': [
        R('__CPROVER_is_fresh(self, sizeof(*self))'), R('bl_exc == 0 && value.n <= SRCMAX && self->m_line >= 1 && self->m_column >= 1'),
        A(''),
        E('makeToken.fields', '__CPROVER_return_value.type == type && __CPROVER_return_value.value.p == value.p && __CPROVER_return_value.value.n == value.n', []),
        E('makeToken.located_at_token_start', '__CPROVER_return_value.line == TOK_L(self) && __CPROVER_return_value.column == TOK_C(self)', []),
    ]},
    'skipComment': {
        'contract': wf() + [
            A(POSVARS),
            E('skipComment.stops_at_newline_or_end', 'POS >= __CPROVER_old(POS) && POS <= SRC.n && (POS == SRC.n || SRC.p[POS] == 10)', ['C15']),
            E('skipComment.consumes_no_newline', '(gb >= __CPROVER_old(POS) && gb < POS) ==> SRC.p[gb] != 10', ['C15']),
            E('skipComment.true_position_kept', WF_ENS, ['C15']),
        ],
        'loops': {0: {'assigns': POSVARS,
                      'invariants': [('skipComment.loop0.bounds', 'POS <= SRC.n && POS >= __CPROVER_loop_entry(POS) && ' + POSB),
                                     ('skipComment.loop0.true_position', 'self->m_line == g_line && self->m_column == g_col'),
                                     ('skipComment.loop0.no_newline_consumed', '(gb >= __CPROVER_loop_entry(POS) && gb < POS) ==> SRC.p[gb] != 10')],
                      'decreases': 'SRC.n - POS'}},
    },
    'skipWhitespace': {
        'contract': wf() + [
            A(POSVARS),
            E('skipWhitespace.stops_at_end_or_token_start', 'POS >= __CPROVER_old(POS) && POS <= SRC.n && (POS == SRC.n || !(bl_isspace((unsigned char)SRC.p[POS]) || (SRC.p[POS] == 47 && POS + 1 < SRC.n && SRC.p[POS + 1] == 47)))', ['C15', 'C13']),
            E('skipWhitespace.true_position_kept', WF_ENS, ['C15']),
            E('skipWhitespace.no_exception', 'bl_exc == 0', ['C13']),
        ],
        'loops': {0: {'assigns': POSVARS,
                      'invariants': [('skipWhitespace.loop0.bounds', 'POS <= SRC.n && POS >= __CPROVER_loop_entry(POS) && ' + POSB),
                                     ('skipWhitespace.loop0.true_position', 'self->m_line == g_line && self->m_column == g_col && bl_exc == 0')],
                      'decreases': 'SRC.n - POS'}},
    },
    'scanNumber': {
        'contract': wf() + [R(INTOK + ' && g_p0 == POS - 1'), A(POSVARS + ', ' + EXC_VARS)] + tok_ens('scanNumber'),
        'loops': {0: scan_loop('scanNumber', 0), 1: scan_loop('scanNumber', 1)},
        'locals': ['start'],
    },
    'scanIdentifierOrKeyword': {
        'contract': wf() + [R(INTOK + ' && g_p0 == POS - 1'), A(POSVARS + ', ' + EXC_VARS)] + tok_ens('scanIdentifierOrKeyword'),
        'loops': {0: scan_loop('scanIdentifierOrKeyword', 0)},
        'locals': ['start', 'text'],
    },
    'scanString': {
        'contract': wf() + [R(INTOK + ' && g_p0 == POS - 1'), A(POSVARS + ', ' + EXC_VARS)] + tok_ens('scanString'),
        'loops': {0: scan_loop('scanString', 0)},
        'locals': ['start'],
    },
    'scanChar': {
        'contract': wf() + [R(INTOK + ' && g_p0 == POS - 1'), A(POSVARS + ', ' + EXC_VARS)] + tok_ens('scanChar'),
        'locals': ['start'],
    },
    # property level (C15): the token scanToken returns is located where its first character
    # really is, and its text is exactly the bytes consumed for it
    'scanToken': {
        'contract': wf() + [
            R('POS < SRC.n'),
            A(POSVARS + ', ' + EXC_VARS + ', g_p0, g_l0, g_c0, __CPROVER_object_whole(self)'),
            E('scanToken.source_untouched', 'SRC.p == __CPROVER_old(SRC.p) && SRC.n == __CPROVER_old(SRC.n)', ['C15']),
            E('scanToken.progress_and_bounds', 'POS > __CPROVER_old(POS) && POS <= SRC.n', ['C13']),
            E('scanToken.true_position_kept', WF_ENS, ['C15']),
            E('scanToken.token_located_at_first_char', '(bl_exc == 0) ==> (__CPROVER_return_value.line == __CPROVER_old(g_line) && __CPROVER_return_value.column == __CPROVER_old(g_col))', ['C15']),
            E('scanToken.token_text_length', '(bl_exc == 0) ==> (__CPROVER_return_value.value.n == POS - __CPROVER_old(POS))', ['C15']),
            E('scanToken.token_text_is_consumed_bytes', '(bl_exc == 0) ==> (__CPROVER_return_value.value.p == SRC.p + __CPROVER_old(POS) || (gb < __CPROVER_return_value.value.n ==> __CPROVER_return_value.value.p[gb] == SRC.p[__CPROVER_old(POS) + gb]))', ['C15'], enforce_only=True),
            E('scanToken.only_lexical_errors', 'bl_exc == 0 || bl_exc == EXC_LEX', ['C13', 'C12']),
        ],
        'prologue': 'g_p0 = POS; g_l0 = g_line; g_c0 = g_col;',
    },
    'tokenize': {
        'contract': wf() + [
            R('bl_tok_count < 100000000'),
            A(POSVARS + ', ' + EXC_VARS + ', g_p0, g_l0, g_c0, bl_last_tok, bl_tok_count, __CPROVER_object_whole(self)'),
            E('tokenize.source_untouched', 'SRC.p == __CPROVER_old(SRC.p) && SRC.n == __CPROVER_old(SRC.n)', ['C15']),
            E('tokenize.consumes_whole_source', '(bl_exc == 0) ==> POS == SRC.n', ['C15', 'C13']),
            E('tokenize.ends_with_eof_at_true_end', '(bl_exc == 0) ==> (__CPROVER_return_value.size >= 1 && bl_tok_count == __CPROVER_old(bl_tok_count) + __CPROVER_return_value.size && bl_last_tok.type == BL_Eof && bl_last_tok.value.n == 0 && bl_last_tok.line == XL && bl_last_tok.column == XC)', ['C15', 'C13']),
            E('tokenize.only_lexical_errors', 'bl_exc == 0 || bl_exc == EXC_LEX', ['C13', 'C12']),
            E('tokenize.true_position_kept', WF_ENS, ['C15']),
        ],
        'loops': {0: {'assigns': POSVARS + ', ' + EXC_VARS + ', g_p0, g_l0, g_c0, bl_last_tok, bl_tok_count, tokens, __CPROVER_object_whole(self)',
                      'invariants': [('tokenize.loop0.bounds', 'SRC.p == __CPROVER_loop_entry(SRC.p) && SRC.n == __CPROVER_loop_entry(SRC.n) && POS <= SRC.n && ' + POSB + ' && bl_exc == 0'),
                                     ('tokenize.loop0.true_position', 'self->m_line == g_line && self->m_column == g_col'),
                                     ('tokenize.loop0.count', 'tokens.size <= POS && bl_tok_count == __CPROVER_loop_entry(bl_tok_count) + tokens.size && tokens.cap == 0')],
                      'decreases': 'SRC.n - POS'}},
        'locals': ['tokens'],
    },
}

PRIMS = ['peek', 'peekNext', 'advance', 'match', 'reportError']   # makeToken (loop-free, returns a pointer) is inlined
F = []
BD = dict(bounded_defs=['SRCMAX=5'], unwind=7, bounded_replace=['bl_kw_find'], bounded_timeout=900)
ALWAYS_REPLACE = ['bl_kw_find', 'bl_sv_find_char', 'bl_sv_rfind_char', 'bl_sv_count_char']
HARNESSES = [
    dict(name='peek', fn='peek', replace=[], flags=F, props=['C13', 'C12'], timeout=120),
    dict(name='peekNext', fn='peekNext', replace=[], flags=F, props=['C13', 'C12'], timeout=120),
    dict(name='advance', fn='advance', replace=[], flags=F, props=['C15', 'C13', 'C12'], timeout=120),
    dict(name='match', fn='match', replace=[], flags=F, props=['C15', 'C13', 'C12'], timeout=120),
    dict(name='reportError', fn='reportError', replace=[], flags=F, props=['C13'], timeout=120, canaries=[('bl_exc != 0', 'exceptional return')]),
    dict(name='makeToken', fn='makeToken', replace=[], flags=F, props=['C15'], timeout=120),
    dict(name='skipComment', fn='skipComment', replace=['advance'], flags=F, props=['C15', 'C13', 'C12'], timeout=300),
    dict(name='skipWhitespace', fn='skipWhitespace', replace=['advance', 'peek', 'peekNext', 'skipComment'], flags=F, props=['C15', 'C13', 'C12'], timeout=300),
    dict(name='scanNumber', fn='scanNumber', replace=PRIMS, flags=F, props=['C15', 'C13', 'C12'], timeout=600),
    dict(name='scanIdentifierOrKeyword', fn='scanIdentifierOrKeyword', replace=PRIMS, flags=F, props=['C15', 'C13', 'C12'], timeout=600,
         canaries=[('bl_exc == 0', 'normal return')]),
    dict(name='scanString', fn='scanString', replace=PRIMS, flags=F, props=['C15', 'C13', 'C12'], timeout=600),
    dict(name='scanChar', fn='scanChar', replace=PRIMS, flags=F, props=['C15', 'C13', 'C12'], timeout=600),
    dict(name='scanToken', fn='scanToken', replace=PRIMS + ['scanNumber', 'scanIdentifierOrKeyword', 'scanString', 'scanChar'], flags=F,
         props=['C15', 'C13', 'C12'], timeout=900),
    dict(name='tokenize', fn='tokenize', replace=['skipWhitespace', 'scanToken'], flags=F, props=['C15', 'C13', 'C12'], timeout=600,
         bounded_defs=['SRCMAX=2'], unwind=4, bounded_timeout=240),
]

for _h in HARNESSES:
    for _k, _v in BD.items():
        _h.setdefault(_k, _v)


# =========================================================================== native side
import json, glob
from tools import native as _nat

REAL_CPP = SRC


def _build(wd, which):
    b = os.path.join(wd, 'lex_' + which)
    if not os.path.exists(b):
        objs = []
        if which == 'coexec':
            objs = [os.path.join(wd, 'lex_native.o')]
        _nat.build_cxx([os.path.join(_nat.ROOT, 'native', 'lex_%s.cpp' % which), REAL_CPP], b, objs=objs)
    return b


def native_validate(pu, work, tier, seed):
    wd = pu['wd']
    try:
        _nat.build_c(pu['src_c'], os.path.join(wd, 'lex_native.o'))
        b = _build(wd, 'coexec')
        files = sorted(glob.glob(_REPO + '/examples/**/*.bloch', recursive=True) + glob.glob(_REPO + '/library/**/*.bloch', recursive=True))[:60]
        rc, out, dt = _nat.run([b, str(seed), '3000' if tier == 'quick' else '200000', '24' if tier == 'quick' else '40'] + files)
        js = _nat.last_json(out)
        res = dict(unit='LEX', kind='co-execution lowered C vs real Lexer (every token field and diagnostic)', status='agree' if rc == 0 else 'disagree',
                   comparisons=js.get('checks'), differences=js.get('diffs'), inputs=js.get('inputs'), tokens=js.get('tokens'), wall_s=round(dt, 1))
        if rc != 0:
            res['detail'] = out[-600:]
            return res
        ob = _build(wd, 'oracle')
        rc2, out2, dt2 = _nat.run([ob, 'sweep', str(seed), '3000' if tier == 'quick' else '200000', '24'])
        rc3, out3, dt3 = _nat.run([ob, 'small', '4' if tier == 'quick' else '5'])
        js2, js3 = _nat.last_json(out2), _nat.last_json(out3)
        res['oracle_sweep'] = dict(checks=(js2.get('oracle_checks') or 0) + (js3.get('oracle_checks') or 0),
                                   failures=(js2.get('oracle_failures') or 0) + (js3.get('oracle_failures') or 0),
                                   failing_labels=sorted(set(re.findall(r'FAIL label=(\S+)', out2 + out3))))
        return res
    except _nat.Break as e:
        return dict(unit='LEX', status='error', detail=str(e))


def replay_counterexample(pu, h, label, failure, work, tier, seed):
    """bytes consumed in the counterexample (the values `advance` read, in order) are tried as a
    source text; then every string of length <= 4 over a small alphabet (exhaustive neighbourhood)"""
    ob = _build(pu['wd'], 'oracle')
    trace = failure.get('trace', '')
    consumed = []
    cur_fn = ''
    for ln in trace.split('\n'):
        m = re.match(r'^State \d+ file \S+ function (\S+) line', ln)
        if m:
            cur_fn = m.group(1)
            continue
        m = re.match(r'^  c=(-?\d+) ', ln)
        if m and cur_fn == 'Lexer_advance':
            consumed.append(int(m.group(1)) & 255)
    tried = []
    cands = []
    if consumed:
        s = bytes(consumed)
        cands += [s, s + b' zz', b'\n' + s + b' zz']
    for s in cands:
        cmd = [ob, 'case', s.hex()]
        rc, out, dt = _nat.run(cmd)
        tried.append('case ' + s.hex())
        fails = [l for l in out.split('\n') if l.startswith('FAIL ')]
        if fails:
            return dict(failing_input_found=True, failing_input=fails[0], native_failures=fails[:5], signature='source=' + s.hex(), oracle_label=re.search(r'label=(\S+)', fails[0]).group(1),
                        reproduce_args=cmd[1:], reproduce='bin/check <property> --replay <this file>  (runs the real lexer on the source bytes ' + s.hex() + ')',
                        replay_inputs_tried=tried, matched_same_obligation=any(('label=' + label + ' ') in l for l in fails))
    cmd = [ob, 'small', '4']
    rc, out, dt = _nat.run(cmd)
    tried.append('small 4')
    fails = [l for l in out.split('\n') if l.startswith('FAIL ')]
    if fails:
        m = re.search(r'source_hex=(\w*)', fails[0])
        return dict(failing_input_found=True, failing_input=fails[0], native_failures=fails[:5], signature='source=' + (m.group(1) if m else ''), oracle_label=re.search(r'label=(\S+)', fails[0]).group(1),
                    reproduce_args=['case', m.group(1) if m else ''], reproduce='bin/check <property> --replay <this file>',
                    replay_inputs_tried=tried, matched_same_obligation=any(('label=' + label + ' ') in l for l in fails))
    return dict(failing_input_found=False, replay_inputs_tried=tried, signature='',
                replay_note='the real lexer satisfies the oracle on the counterexample bytes and on every string of length <= 4 over the small alphabet')


def run_reproduce(rec, work):
    wd = os.path.join(work, 'replay')
    os.makedirs(wd, exist_ok=True)
    ob = _build(wd, 'oracle')
    rc, out, dt = _nat.run([ob] + rec['reproduce_args'])
    print(out)
    return 1 if rc else 0
