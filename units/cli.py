"""Unit CLI — cli/cli.cpp: regions of runImpl that decide C17's command-line clauses.
  shots_policy : statements of the try block from `bool isAnnotationShots = ...` up to (not including)
                 `SemanticAnalyser analyser;` — which shot count is used (@shots(N) over --shots=N) and whether
                 echo output is shown (--echo=all, or a single run in auto mode).
  prob_rows    : inside `for (auto& var : aggregate)`: the statements that compute and print one table row per
                 outcome (from the declaration of the per-variable total to the end of the row loop) — the
                 probability column is count / that variable's total."""
import re, os
from tools import cxx2c
from tools.cxx2c import Lower, Unsupported, kids, qt, qt_sugar, strip, strip_parens, callee_name, norm_type, walk
from tools.cxx2c import REPO as _REPO

NAME = 'CLI'
SRC = _REPO + '/src/bloch/cli/cli.cpp'
NAMESPACE = 'bloch::cli'
FUNCS = []
AST_FILTER = ['runImpl']
CLANG_ARGS = ()
SHIM = 'cli.h'
THROWING = set()
DROPS = ['region aggregate: the range-for over evaluator.trackedCounts() inside the shot loop (per-shot table added into `aggregate`); the per-shot table is an array of (variable key, array of (outcome, count)), `aggregate[k][o]` is observed at one arbitrary (key, outcome) pair (ghost)',
         'region shots_policy: `program->shots` becomes two parameters (annotation present, annotation value); the option text `echoOpt` is an interned literal id (0 = empty); blochWarning / blochInfo are counted, their text dropped',
         'region prob_rows: `vals` (vector<pair<string,int>>) becomes an array of (outcome id, count); a `std::cout << ...` statement becomes one ghost output record holding its non-manipulator operands in order; stream manipulators and column widths are dropped',
         'everything else of runImpl (argument parsing, loading, analysis, the shot loop, sorting, file output)']
ASSUMPTIONS = ['double division is an uninterpreted function (flag UF): the printed probability is specified as D_DIV((double)count, (double)total) with total the exact integer sum of the counts of that variable',
               'that the per-shot tables are added into `aggregate` correctly and that evaluator.setEcho(echoAll) is what controls echo output is outside these regions']


class Profile(Lower):
    CLS = 'cli'
    SELF_T = ''
    IS_METHOD = False
    WRAP_DOUBLE_OPS = True
    TYPE_MAP = [
        (r'^(std::)?(basic_string<char.*>|string)$', 'bl_lit'),
        (r'^std::pair<bool, int>$', 'pair_bool_int'),
        (r'^std::unique_ptr<(bloch::compiler::)?Program(, std::default_delete<.*>)?>$', 'bl_prog'),
        (r'^std::pair<std::(basic_string<char.*>|string), int>$', 'OutcomeCount'),
        (r'^std::vector<std::pair<std::(basic_string<char.*>|string), int>(, .*)?>$', 'vec_OC'),
        (r'^std::pair<std::(basic_string<char>|string), int>$', 'OutcomeCount'),
        (r'^std::pair<std::(basic_string<char>|string), std::unordered_map<std::(basic_string<char>|string), int>>$', 'VarRow'),
        (r'^std::unordered_map<std::(basic_string<char.*>|string), int(, .*)?>$', 'bl_inner'),
        (r'^std::unordered_map<std::(basic_string<char.*>|string), std::unordered_map<std::(basic_string<char.*>|string), int.*>.*>$', 'bl_outer'),
    ]

    def __init__(self, *a, **k):
        super().__init__(*a, **k)
        self.lits = ['""']

    def lit_id(self, value):
        if value not in self.lits:
            self.lits.append(value)
        return self.lits.index(value)

    def subst(self, text):
        return re.sub(r'SLIT\(("(?:[^"\\]|\\.)*")\)', lambda m: str(self.lit_id(m.group(1))), text)

    def file_prelude(self):
        return ['/* literal ids: %s */' % ', '.join('%d=%s' % (i, l) for i, l in enumerate(self.lits))]

    def string_literal(self, n):
        return str(self.lit_id(n['value']))

    def cast(self, n):
        if n.get('castKind') == 'ArrayToPointerDecay' and strip_parens(kids(n)[0]).get('kind') == 'StringLiteral':
            return self.expr(kids(n)[0])
        return super().cast(n)

    def member(self, n):
        base = kids(n)[0]
        sb = strip(base)
        nm = n['name']
        if nm == 'shots' and self.ctype_safe(qt(n)) == 'pair_bool_int':
            return 'g_prog_shots'
        if self.ct(sb) in ('pair_bool_int', 'OutcomeCount') and nm in ('first', 'second'):
            return '(%s).%s' % (self.expr(sb), nm)
        if self.ct(sb) == 'VarRow' and nm == 'first':
            return 'g_tc[BL_IDX(%s, VMAXC)].key' % self.expr(sb)
        if self.ct(sb) == 'VarRow' and nm == 'second':
            return 'BL_INNER(%s)' % self.expr(sb)
        raise Unsupported('member %s of %s' % (nm, qt(sb)))

    def opcall(self, n):
        ks = kids(n)
        op = callee_name(ks[0])
        args = ks[1:]
        t0 = self.ct(args[0])
        if op in ('operator==', 'operator!=') and t0 == 'bl_lit':
            return '(%s %s %s)' % (self.expr(args[0]), op[len('operator'):], self.expr(args[1]))
        if op == 'operator<<':
            return self.out_chain(n)
        if op == 'operator[]' and t0 == 'bl_inner':
            inner = strip_parens(args[0])
            if inner.get('kind') == 'CXXOperatorCallExpr' and callee_name(kids(inner)[0]) == 'operator[]' and self.ct(kids(inner)[1]) == 'bl_outer':
                m = strip(kids(inner)[1])
                if m.get('kind') == 'DeclRefExpr' and m['referencedDecl']['name'] == 'aggregate':
                    return 'BL_AGG_CELL(%s, %s)' % (self.expr(kids(inner)[2]), self.expr(args[1]))
            raise Unsupported('operator[] on a count map other than aggregate[key][outcome]')
        raise Unsupported('operator %s on %s' % (op, qt(args[0])))

    def out_chain(self, n):
        """std::cout << a << manip << b ...  ->  cli_out<k>(a, b, ...) with the non-manipulator operands"""
        ops = []
        cur = n
        while True:
            c = strip_parens(cur)
            while c.get('kind') in ('ImplicitCastExpr', 'ExprWithCleanups', 'MaterializeTemporaryExpr', 'CXXBindTemporaryExpr') and kids(c):
                c = strip_parens(kids(c)[0])
            if c.get('kind') == 'CXXOperatorCallExpr' and callee_name(kids(c)[0]) == 'operator<<':
                ops.append(kids(c)[2])
                cur = kids(c)[1]
                continue
            if c.get('kind') == 'CXXMemberCallExpr' and strip(kids(c)[0]).get('name') == 'operator<<':
                ops.append(kids(c)[1])
                cur = kids(strip(kids(c)[0]))[0]
                continue
            if c.get('kind') == 'DeclRefExpr' and c['referencedDecl']['name'] == 'cout':
                break
            raise Unsupported('stream insertion into something other than std::cout')
        ops.reverse()
        vals = []
        for o in ops:
            t = norm_type(qt(o))
            s = strip_parens(o)
            while s.get('kind') in ('ImplicitCastExpr', 'MaterializeTemporaryExpr', 'CXXBindTemporaryExpr', 'ExprWithCleanups', 'CXXFunctionalCastExpr') and kids(s):
                s = strip_parens(kids(s)[0])
            if s.get('kind') == 'StringLiteral':
                continue                                   # separators / fixed text
            if re.search(r'_Setw|_Setprecision|ios_base &\s*\(|basic_ostream<char> &\s*\(', t) or 'std::ios_base &(' in t or s.get('kind') == 'CallExpr' and callee_name(kids(s)[0]) in ('setw', 'setprecision'):
                continue                                   # manipulators
            if s.get('kind') == 'DeclRefExpr' and s['referencedDecl']['name'] in ('left', 'right', 'fixed', 'endl'):
                continue
            ct = self.ctype_safe(qt(o))
            if ct in ('bl_lit', 'int', 'double', 'size_t'):
                vals.append((ct, self.expr(o)))
                continue
            if s.get('kind') in ('CXXConstructExpr', 'CXXTemporaryObjectExpr') and ct == 'bl_lit':
                continue                                   # std::string(width, '-') rule lines
            raise Unsupported('stream operand of type ' + qt(o))
        sig = '_'.join(ct.replace(' ', '') for ct, _ in vals)
        return 'cli_out_%s(%s)' % (sig or 'text', ', '.join(e for _, e in vals))

    def compound_assign(self, n):
        a, b = kids(n)
        ea = self.expr(a)
        if ea.startswith('BL_AGG_CELL('):
            if n['opcode'] == '+=':
                return 'cli_agg_add(%s, %s)' % (ea[len('BL_AGG_CELL('):-1], self.expr(b))
            raise Unsupported('aggregate cell updated with ' + n['opcode'])
        return super().compound_assign(n)

    def unary(self, n):
        if n.get('opcode') == '++':
            ea = self.expr(kids(n)[0])
            if ea.startswith('BL_AGG_CELL('):
                return 'cli_agg_add(%s, 1)' % ea[len('BL_AGG_CELL('):-1]
        return super().unary(n)

    def binary(self, n):
        if n.get('opcode') == '=':
            ea = self.expr(kids(n)[0])
            if ea.startswith('BL_AGG_CELL('):
                return 'cli_agg_set(%s, %s)' % (ea[len('BL_AGG_CELL('):-1], self.expr(kids(n)[1]))
        return super().binary(n)

    def membercall_other(self, n, name, obj, args):
        if name == 'trackedCounts' and not args:
            return 'BL_TRACKED_COUNTS'
        t = self.ct(obj)
        o = self.expr(obj)
        if t == 'bl_lit' and name == 'empty':
            return '(%s == 0)' % o
        raise Unsupported('member call %s on %s' % (name, qt(obj)))

    def membercall(self, n):
        ks = kids(n)
        me = strip(ks[0])
        if me.get('name') == 'operator<<':
            return self.out_chain(n)
        return self.membercall_other(n, me['name'], kids(me)[0], ks[1:])

    def call_named(self, n, name, args):
        if name in ('blochWarning', 'blochInfo'):
            return 'cli_stub_%s()' % name
        return super().call_named(n, name, args)

    def range_for(self, n, ind):
        ks = [k for k in n['inner']]
        rangevar = loopvar = None
        body = ks[-1]
        for k in ks:
            if k.get('kind') == 'DeclStmt':
                for v in kids(k):
                    if v.get('name', '').startswith('__range'):
                        rangevar = v
                    elif v.get('kind') == 'VarDecl' and not v.get('name', '').startswith('__'):
                        loopvar = v
        if rangevar is None or loopvar is None:
            raise Unsupported('range-for shape')
        rng = strip(kids(rangevar)[0])
        p = '  ' * ind
        rs = self.expr(rng)
        if rs == 'BL_TRACKED_COUNTS':
            size, et, elem = 'g_ntc', 'VarRow', None
        elif rs.startswith('BL_INNER('):
            row = rs[len('BL_INNER('):-1]
            size, et, elem = 'g_tc[BL_IDX(%s, VMAXC)].n' % row, 'OutcomeCount', 'g_tc[BL_IDX(%s, VMAXC)].cells[BL_IDX(IV, OMAXC)]' % row
        elif self.ct(rng) == 'vec_OC':
            size, et, elem = 'VEC_SIZE(%s)' % rs, 'OutcomeCount', 'VEC_AT(%s, IV)' % rs
        else:
            raise Unsupported('range-for over ' + qt(rng))
        k = self.loop_marker(p)
        iv = 'bl_i%d' % k
        self.locals.add(iv)
        self.locals.add(loopvar['name'])
        out = [p + '/*@BEFORELOOP:%s:%d@*/' % (self.fn, k), p + '{', p + '  size_t %s = 0;' % iv,
               p + '  for (; %s < %s; ++%s)' % (iv, size, iv),
               p + '    /*@LOOP:%s:%d@*/' % (self.fn, k), p + '  {',
               p + '    /*@LOOPBODY:%s:%d@*/' % (self.fn, k),
               p + '    %s %s = %s;' % (et, loopvar['name'], elem.replace('IV', iv) if elem else iv)]
        out += self.block(body, ind + 2)
        out += [p + '  }', p + '}', p + '/*@AFTERLOOP:%s:%d@*/' % (self.fn, k)]
        return out


def _try_block(docs):
    fn = [d for d in docs if d.get('kind') == 'FunctionDecl' and d.get('name') == 'runImpl' and any(k.get('kind') == 'CompoundStmt' for k in kids(d))]
    if len(fn) != 1:
        raise Unsupported('runImpl: %d definitions' % len(fn))
    tr = []
    walk(fn[0], lambda z: tr.append(z) if z.get('kind') == 'CXXTryStmt' else None)
    if len(tr) != 1:
        raise Unsupported('runImpl: %d try statements' % len(tr))
    return fn[0], kids(tr[0])[0]


def _decl_index(stmts, name):
    for i, s in enumerate(stmts):
        if s.get('kind') == 'DeclStmt' and any(v.get('name') == name for v in kids(s)):
            return i
    return None


def lower_regions(docs, prof):
    out = []
    heads = {'shots_policy': 'void cli_shots_policy(_Bool isCliShots, int cliShots, bl_lit echoOpt)',
             'prob_rows': 'void cli_prob_rows(vec_OC vals, int shots)'}

    def region(name, builder):
        try:
            out.append((heads[name], builder()))
        except Unsupported as e:
            if not hasattr(prof, 'region_unlowered'):
                prof.region_unlowered = {}
            prof.region_unlowered[name] = str(e)
            out.append((heads[name], None))

    def shots_policy():
        fn, blk = _try_block(docs)
        st = kids(blk)
        a, b = _decl_index(st, 'isAnnotationShots'), _decl_index(st, 'analyser')
        if a is None or b is None or not a < b:
            raise Unsupported('shots_policy: region delimiters (isAnnotationShots .. analyser) not found')
        body2 = dict(kind='CompoundStmt', inner=st[a:b])
        d = dict(kind='FunctionDecl', name='shots_policy', type=dict(qualType='void ()'), inner=[body2])
        prof.locals |= {'isCliShots', 'cliShots', 'echoOpt'}
        head, lines = prof.func(d, cname='shots_policy', is_method=False)
        # the region's results (shots, shotsProvided live in the enclosing function; echoAll is declared inside the region)
        assert lines[-1].strip() == '}'
        return lines[:-1] + ['  GHOST(g_echoAll = echoAll;)', '}']

    def prob_rows():
        fn, blk = _try_block(docs)
        loops = []
        walk(blk, lambda z: loops.append(z) if z.get('kind') == 'CXXForRangeStmt' else None)
        outer = None
        for lp in loops:
            vs = []
            walk(lp, lambda z: vs.append(z.get('name')) if z.get('kind') == 'VarDecl' else None)
            if 'var' in vs and 'vals' in vs:
                outer = lp
                break
        if outer is None:
            raise Unsupported('prob_rows: `for (auto& var : aggregate)` not found')
        body = kids(outer)[-1]
        st = kids(body)
        # from the first statement after the declaration of `vals` that mentions `prob` or `total` ... simplest stable
        # delimiter: the last range-for of the body (the row loop) plus every DeclStmt / loop between the header rule
        # line and it that declares or updates a variable the row loop reads
        rows = [i for i, s in enumerate(st) if s.get('kind') == 'CXXForRangeStmt' and any(v == 'prob' for v in _names(s))]
        if len(rows) != 1:
            raise Unsupported('prob_rows: %d row loops computing `prob`' % len(rows))
        r = rows[0]
        reads = set(_refs(st[r])) - {'vals', 'shots', 'outcomeWidth', 'cout', 'left', 'right', 'setw', 'p', 'prob'}
        keep = [st[r]]
        need = set(reads)
        for s in reversed(st[:r]):
            ws = set(_names(s)) | set(_assigned(s))
            if ws & need:
                keep.insert(0, s)
                need |= set(_refs(s)) - {'vals', 'shots', 'p'}
        body2 = dict(kind='CompoundStmt', inner=keep)
        d = dict(kind='FunctionDecl', name='prob_rows', type=dict(qualType='void ()'), inner=[body2])
        prof.locals |= {'vals', 'shots'}
        head, lines = prof.func(d, cname='prob_rows', is_method=False)
        return lines

    def aggregate():
        fn, blk = _try_block(docs)
        loops = []
        walk(blk, lambda z: loops.append(z) if z.get('kind') == 'CXXForRangeStmt' else None)
        tgt = None
        for lp in loops:
            calls = []
            rv = [v for s0 in kids(lp) if s0.get('kind') == 'DeclStmt' for v in kids(s0) if v.get('name', '').startswith('__range')]
            if rv:
                walk(rv[0], lambda z: calls.append(strip(kids(z)[0]).get('name')) if z.get('kind') == 'CXXMemberCallExpr' else None)
            if 'trackedCounts' in calls:
                tgt = lp
                break
        if tgt is None:
            raise Unsupported('aggregate: range-for over evaluator.trackedCounts() not found')
        d = dict(kind='FunctionDecl', name='aggregate', type=dict(qualType='void ()'), inner=[dict(kind='CompoundStmt', inner=[tgt])])
        prof.locals |= {'aggregate', 'evaluator'}
        head, lines = prof.func(d, cname='aggregate', is_method=False)
        return lines

    heads['aggregate'] = 'void cli_aggregate(void)'
    region('shots_policy', shots_policy)
    region('prob_rows', prob_rows)
    region('aggregate', aggregate)
    return out


def _names(s):
    r = []
    walk(s, lambda z: r.append(z.get('name')) if z.get('kind') == 'VarDecl' and not (z.get('name') or '').startswith('__') else None)
    return r


def _refs(s):
    r = []
    walk(s, lambda z: r.append(z['referencedDecl'].get('name')) if z.get('kind') == 'DeclRefExpr' and z.get('referencedDecl', {}).get('kind') in ('VarDecl', 'ParmVarDecl') and not (z['referencedDecl'].get('name') or '').startswith('__') else None)
    return r


def _assigned(s):
    r = []

    def f(z):
        if z.get('kind') in ('BinaryOperator', 'CompoundAssignOperator') and z.get('opcode', '').endswith('=') and z.get('opcode') not in ('==', '!=', '<=', '>='):
            l = strip_parens(kids(z)[0])
            if l.get('kind') == 'DeclRefExpr':
                r.append(l['referencedDecl'].get('name'))
    walk(s, f)
    return r



OMAXN = 8
GHOSTS = r"""
int bl_exc, bl_exc_line, bl_exc_col;
/* ---- region shots_policy */
int shots; _Bool shotsProvided;            /* locals of runImpl that the region updates */
pair_bool_int g_prog_shots;                /* program->shots: (annotation present, annotation value) */
_Bool g_echoAll; int g_warnings, g_infos;
static inline void cli_stub_blochWarning(void) { if (g_warnings < 1000) g_warnings = g_warnings + 1; }
static inline void cli_stub_blochInfo(void) { if (g_infos < 1000) g_infos = g_infos + 1; }
/* ---- region prob_rows */
size_t gr; int g_rows; bl_lit g_obs_outcome; int g_obs_count; double g_obs_prob;
static inline void cli_out_bl_lit_int_double(bl_lit outcome, int count, double prob) {
  if ((size_t)g_rows == gr) { g_obs_outcome = outcome; g_obs_count = count; g_obs_prob = prob; }
  if (g_rows < 1000) g_rows = g_rows + 1;
}
/* ---- region aggregate */
typedef struct { bl_lit key; size_t n; OutcomeCount cells[OMAXC]; } TcRow;
TcRow g_tc[VMAXC]; size_t g_ntc;           /* this shot's table: evaluator.trackedCounts() */
bl_lit gK, gO; long g_agg_obs;              /* ghost: aggregate[gK][gO] (one arbitrary cell) */
_Bool g_agg_overwritten;
static inline void cli_agg_add(bl_lit k, bl_lit o, int c) { if (k == gK && o == gO) g_agg_obs = g_agg_obs + c; }
static inline void cli_agg_set(bl_lit k, bl_lit o, int c) { if (k == gK && o == gO) { g_agg_obs = c; g_agg_overwritten = 1; } }
#define CELL(i, j) (((i) < g_ntc && (j) < g_tc[i].n && g_tc[i].key == gK && g_tc[i].cells[j].first == gO) ? (long)g_tc[i].cells[j].second : 0L)
#define ROWSUM(i, jl) (((0 < (jl)) ? CELL(i, 0) : 0L) + ((1 < (jl)) ? CELL(i, 1) : 0L) + ((2 < (jl)) ? CELL(i, 2) : 0L))
#define TABSUM(il) (((0 < (il)) ? ROWSUM(0, OMAXC) : 0L) + ((1 < (il)) ? ROWSUM(1, OMAXC) : 0L) + ((2 < (il)) ? ROWSUM(2, OMAXC) : 0L))
#define TC_WF (g_ntc <= VMAXC && g_tc[0].n <= OMAXC && g_tc[1].n <= OMAXC && g_tc[2].n <= OMAXC && g_tc[0].cells[0].second >= 0 && g_tc[0].cells[0].second <= 100000000 && g_tc[0].cells[1].second >= 0 && g_tc[0].cells[1].second <= 100000000 && g_tc[0].cells[2].second >= 0 && g_tc[0].cells[2].second <= 100000000 && g_tc[1].cells[0].second >= 0 && g_tc[1].cells[0].second <= 100000000 && g_tc[1].cells[1].second >= 0 && g_tc[1].cells[1].second <= 100000000 && g_tc[1].cells[2].second >= 0 && g_tc[1].cells[2].second <= 100000000 && g_tc[2].cells[0].second >= 0 && g_tc[2].cells[0].second <= 100000000 && g_tc[2].cells[1].second >= 0 && g_tc[2].cells[1].second <= 100000000 && g_tc[2].cells[2].second >= 0 && g_tc[2].cells[2].second <= 100000000)
#define CNT(j) ((j) < vals.size ? (long)vals.data[j].second : 0L)
#define PCNT(j, i) (((j) < (i) && (j) < vals.size) ? (long)vals.data[j].second : 0L)
#define PSUM(i) (""" + ' + '.join('PCNT(%d, i)' % j for j in range(OMAXN)) + r""")
#define TOTAL (""" + ' + '.join('CNT(%d)' % j for j in range(OMAXN)) + r""")
"""
RET = '__CPROVER_return_value'


def R(t):
    return ('', 'requires', t, [])


def E(label, t, props, **o):
    return (label, 'ensures', t, props, o)


def A(t):
    return ('', 'assigns', t, [])


ANN = 'g_prog_shots.first'
AUTO = '(echoOpt == SLIT("") || echoOpt == SLIT("auto"))'
CONTRACTS = {
    'shots_policy': {
        'contract': [
            R('bl_exc == 0 && shots == 1 && !shotsProvided && cliShots >= 1 && g_prog_shots.second >= 1 && g_warnings == 0 && g_infos == 0'),
            R('echoOpt == SLIT("") || echoOpt == SLIT("all") || echoOpt == SLIT("auto") || echoOpt == SLIT("none")'),
            A('shots, shotsProvided, g_echoAll, g_warnings, g_infos'),
            # C17: @shots(N) on main takes precedence over --shots
            E('cli.shots.annotation_takes_precedence_over_flag', ANN + ' ==> (shotsProvided && shots == g_prog_shots.second)', ['C17']),
            E('cli.shots.flag_used_only_without_annotation', '(!' + ANN + ' && isCliShots) ==> (shotsProvided && shots == cliShots)', ['C17']),
            E('cli.shots.single_run_without_flag_or_annotation', '(!' + ANN + ' && !isCliShots) ==> (!shotsProvided && shots == 1)', ['C17']),
            # C17: echo output appears exactly when --echo=all or a single shot is run (auto mode, named or default); --echo=none never
            E('cli.echo.all_always', '(echoOpt == SLIT("all")) ==> g_echoAll', ['C17']),
            E('cli.echo.none_never', '(echoOpt == SLIT("none")) ==> !g_echoAll', ['C17']),
            E('cli.echo.auto_exactly_for_a_single_shot', AUTO + ' ==> ((g_echoAll != 0) == (shots == 1))', ['C17']),
            E('cli.echo.suppression_is_announced_once', '(' + AUTO + ' && shots > 1) ==> g_infos == 1', ['C17']),
        ],
    },
    'prob_rows': {
        'contract': [
            R('bl_exc == 0 && vals.size <= OMAX && __CPROVER_is_fresh(vals.data, OMAX * sizeof(OutcomeCount)) && gr < OMAX && g_rows == 0 && shots >= 1'),
            R(' && '.join('(%d >= vals.size || (vals.data[%d].second >= 1 && vals.data[%d].second <= 100000000))' % (j, j, j) for j in range(OMAXN))),
            A('g_rows, g_obs_outcome, g_obs_count, g_obs_prob'),
            E('cli.table.one_row_per_outcome', 'g_rows >= 0 && (size_t)g_rows == vals.size', ['C17']),
            E('cli.table.row_shows_outcome_and_count', '(gr < vals.size) ==> (g_obs_outcome == vals.data[gr].first && g_obs_count == vals.data[gr].second)', ['C17']),
            # C17: probabilities are the counts divided by that variable's total
            E('cli.table.prob_is_count_over_total', '(gr < vals.size) ==> __CPROVER_equal(g_obs_prob, D_DIV((double)vals.data[gr].second, (double)(TOTAL)))', ['C17']),
        ],
        'loops': {
            0: {'assigns': 'bl_i0, total',
                'invariants': [('prob_rows.total.bounds', 'bl_i0 <= vals.size'),
                               ('prob_rows.total.partial_sum', 'total == PSUM(bl_i0)')],
                'decreases': 'vals.size - bl_i0'},
            1: {'assigns': 'bl_i1, g_rows, g_obs_outcome, g_obs_count, g_obs_prob', 'ghost_in_bounded': True,
                'invariants': [('prob_rows.rows.bounds', 'bl_i1 <= vals.size && g_rows >= 0 && (size_t)g_rows == bl_i1 && total == TOTAL'),
                               ('prob_rows.rows.observed', '(gr < bl_i1) ==> (g_obs_outcome == vals.data[gr].first && g_obs_count == vals.data[gr].second && __CPROVER_equal(g_obs_prob, g_spec_prob))')],
                'decreases': 'vals.size - bl_i1'},
        },
        'prologue': 'g_spec_prob = (gr < vals.size) ? D_DIV((double)vals.data[gr].second, (double)(TOTAL)) : 0.0;',
    },
}
GHOSTS += 'double g_spec_prob; long g_agg0;\n'
CONTRACTS['aggregate'] = {
    'contract': [
        R('bl_exc == 0 && TC_WF && g_agg_obs >= 0 && g_agg_obs <= 1000000000000L && !g_agg_overwritten'),
        A('g_agg_obs, g_agg_overwritten, g_agg0'),
        # C17: the aggregate table is the per-shot tables added together (observed at one arbitrary (variable, outcome) cell)
        E('cli.aggregate.adds_this_shots_counts', 'g_agg_obs == __CPROVER_old(g_agg_obs) + TABSUM(VMAXC) && !g_agg_overwritten', ['C17']),
    ],
    'prologue': 'g_agg0 = g_agg_obs;',
    'loops': {
        0: {'assigns': 'bl_i0, g_agg_obs, g_agg_overwritten',
            'invariants': [('aggregate.vars.bounds', 'bl_i0 <= g_ntc && !g_agg_overwritten'),
                           ('aggregate.vars.partial_sum', 'g_agg_obs == g_agg0 + TABSUM(bl_i0)')],
            'decreases': 'g_ntc - bl_i0'},
        1: {'assigns': 'bl_i1, g_agg_obs, g_agg_overwritten',
            'invariants': [('aggregate.cells.bounds', 'bl_i1 <= g_tc[vk].n && vk < g_ntc && !g_agg_overwritten'),
                           ('aggregate.cells.partial_sum', 'g_agg_obs == g_agg0 + TABSUM(vk) + ROWSUM(vk, bl_i1)')],
            'decreases': 'g_tc[vk].n - bl_i1'},
    },
}
CONTRACTS['prob_rows']['contract'][2] = A('g_rows, g_obs_outcome, g_obs_count, g_obs_prob, g_spec_prob')
HARNESSES = [
    dict(name='shots_policy', fn='shots_policy', replace=[], flags=[], props=['C17'], timeout=120,
         canaries=[('g_echoAll', 'echo shown'), ('!g_echoAll && shots > 1', 'echo suppressed for many shots')]),
    dict(name='aggregate', fn='aggregate', replace=[], flags=[], props=['C17', 'C12'], timeout=300, unwind=6,
         canaries=[('g_agg_obs > 5', 'counts were added')]),
    dict(name='prob_rows', fn='prob_rows', replace=[], flags=['UF'], props=['C17', 'C12'], timeout=300, unwind=10,
         canaries=[('g_rows >= 2', 'several outcomes')]),
]


from tools import native as _nat


def _oracle():
    bd = _nat.repo_build(('bloch',))
    return _nat.run(['python3', os.path.join(_nat.ROOT, 'native', 'cli_oracle.py'), os.path.join(bd, 'bin', 'bloch'), 'sweep'], timeout=900)


def native_validate(pu, work, tier, seed):
    try:
        rc, out, dt = _oracle()
        js = _nat.last_json(out)
        return dict(unit='CLI', kind='oracle on the real command line (every combination of @shots / --shots / --echo on an echoing program; loop-scoped tracked qubits for the probability column); no co-execution for this unit', status='agree',
                    oracle_sweep=dict(checks=js.get('oracle_checks'), failures=js.get('oracle_failures'), failing_labels=sorted(set(re.findall(r'FAIL label=(\S+)', out)))), wall_s=round(dt, 1))
    except _nat.Break as e:
        return dict(unit='CLI', status='error', detail=str(e))


def replay_counterexample(pu, h, label, failure, work, tier, seed):
    rc, out, dt = _oracle()
    fails = [l for l in out.split('\n') if l.startswith('FAIL ')]
    same = [l for l in fails if label and ('label=' + label + ' ') in l]
    pref = {'prob_rows': 'cli.table.', 'aggregate': 'cli.aggregate.'}.get(h['fn'], 'cli.')
    pick = same or [l for l in fails if ('label=' + pref) in l and (h['fn'] != 'shots_policy' or ('cli.table.' not in l and 'cli.aggregate.' not in l))]
    if pick:
        m = re.search(r'label=(\S+)', pick[0])
        return dict(failing_input_found=True, failing_input=pick[0], native_failures=fails[:5], oracle_label=m.group(1), signature=re.sub(r' detail=.*', '', pick[0])[:160],
                    reproduce_args=['sweep'], reproduce='bin/check <property> --replay <this file>', replay_inputs_tried=['sweep'], matched_same_obligation=bool(same))
    return dict(failing_input_found=False, replay_inputs_tried=['sweep'], signature='')


def run_reproduce(rec, work):
    rc, out, dt = _oracle()
    print(out)
    return 1 if rc else 0
