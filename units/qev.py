"""Unit QEV — runtime/runtime_evaluator.cpp: the quantum branches of the evaluator.
  gate_dispatch : the `if (builtin != builtInGates.end())` block of the CallExpression branch of eval
  measure_expr  : the MeasureExpression branch of eval
  reset_stmt    : the ResetStatement branch of exec
  measure_stmt  : the MeasureStatement branch of exec
Evaluator side of C01/C05 (the like-named simulator operation is called once, with the call's own operands), C06 (the
measured-lock is consulted before the simulator is touched), C02 (returned bit = recorded bit = simulator's bit)."""
import re, os
from tools import cxx2c
from tools.cxx2c import Lower, Unsupported, kids, qt, qt_sugar, strip, strip_parens, callee_name, norm_type, walk
from tools.cxx2c import REPO as _REPO
from units.arith import find_region

NAME = 'QEV'
SRC = _REPO + '/src/bloch/runtime/runtime_evaluator.cpp'
NAMESPACE = 'bloch::runtime'
FUNCS = []
AST_FILTER = ['RuntimeEvaluator::eval', 'RuntimeEvaluator::exec', 'bloch::runtime::Value']
SHIM = 'qev.h'
THROWING = {'gate_dispatch', 'measure_expr', 'reset_stmt', 'measure_stmt'}
GATES = ['h', 'x', 'y', 'z', 'rx', 'ry', 'rz', 'cx']
DROPS = ['the AST node of the region (callExpr / idx / reset / meas): line and column become parameters, sub-expressions opaque ids; eval(sub-expression) is a contract-only stub returning an arbitrary Value',
         'the callee name is an interned literal id; Value members other than type, qubit, floatValue, bitValue, qubitArray',
         'simulator operations, ensureQubitActive / ensureQubitExists / markMeasured / unmarkMeasured and m_measurements[e].push_back are ghost-recording models (their own contracts are proved in units SIM and QBK)',
         'gate_dispatch starts after the argument vector has been built; the argument count is a precondition (the analyser checks arity)']
ASSUMPTIONS = ['arity: the argument vector holds at least the operands the named gate reads (caller obligation discharged by the semantic analyser, not verified here)',
               'ensureQubitActive / ensureQubitExists raise or return as their contracts in unit QBK say; here they may raise for any handle']


class Profile(Lower):
    CLS = 'qev'
    SELF_T = ''
    IS_METHOD = False
    WRAP_DOUBLE_OPS = False
    TYPE_MAP = [
        (r'^(bloch::runtime::)?Value$', 'Value'),
        (r'^(bloch::runtime::)?Value::Type$', 'int'),
        (r'^(std::)?(basic_string<char.*>|string)$', 'bl_lit'),
        (r'^std::vector<int>$', 'vec_int'),
        (r'^std::vector<(bloch::runtime::)?Value(, std::allocator<.*>)?>$', 'vec_Value'),
        (r'^std::unique_ptr<.*Expression.*>$', 'bl_ast'),
        (r'^(bloch::compiler::|bloch::runtime::)?Expression \*$', 'bl_ast'),
    ]

    def __init__(self, *a, **k):
        super().__init__(*a, **k)
        self.ctx = None
        self.lits = ['""']
        self.tagenum = []

    def prepare(self, docs, workdir):
        recs = [d for d in docs if d.get('kind') == 'CXXRecordDecl' and d.get('name') == 'Value' and d.get('completeDefinition')]
        if len(recs) != 1:
            raise Unsupported('struct Value: %d definitions' % len(recs))
        for f in kids(recs[0]):
            if f.get('kind') == 'EnumDecl' and f.get('name') == 'Type':
                self.tagenum = [c['name'] for c in kids(f) if c.get('kind') == 'EnumConstantDecl']
        ctors = [c for c in kids(recs[0]) if c.get('kind') == 'CXXConstructorDecl' and len([p for p in kids(c) if p.get('kind') == 'ParmVarDecl']) == 6]
        if len(ctors) != 1:
            raise Unsupported('Value 6-argument constructor not found')
        inits = [(i.get('anyInit', {}).get('name')) for i in kids(ctors[0]) if i.get('kind') == 'CXXCtorInitializer' and not any(x.get('kind') == 'CXXDefaultInitExpr' for x in kids(i))
                 and not (kids(i) and strip_parens(kids(i)[0]).get('kind') == 'CXXConstructExpr' and not kids(strip_parens(kids(i)[0])))]
        if inits != ['type', 'intValue', 'floatValue', 'bitValue', 'stringValue', 'charValue']:
            raise Unsupported('Value constructor initialiser list changed: %s' % inits)
        self.gates = self.gate_table(workdir)
        for g, _ in self.gates:
            self.lit_id(g)

    def gate_table(self, workdir):
        docs = cxx2c.ast_dump(_REPO + '/src/bloch/compiler/semantics/built_ins.cpp', ['builtInGates'], workdir)
        vs = [d for d in docs if d.get('kind') == 'VarDecl' and d.get('name') == 'builtInGates' and kids(d)]
        if len(vs) != 1:
            raise Unsupported('builtInGates: %d definitions' % len(vs))
        ents = []
        walk(vs[0], lambda z: ents.append(z) if z.get('kind') in ('CXXConstructExpr', 'InitListExpr') and 'pair<' in qt(z) and 'BuiltInGate' in qt(z) else None)
        tab = []
        for e in ents:
            sl, en = [], []
            walk(e, lambda z: sl.append(z['value']) if z.get('kind') == 'StringLiteral' else None)
            walk(e, lambda z: en.append(z['referencedDecl']['name']) if z.get('kind') == 'DeclRefExpr' and z['referencedDecl'].get('kind') == 'EnumConstantDecl' else None)
            if len(sl) == 2 and sl[0] == sl[1] and len(en) >= 2:
                tab.append((sl[0], en[:-1]))
        if not tab:
            raise Unsupported('builtInGates: no entries recognised')
        return tab

    def lit_id(self, value):
        if value not in self.lits:
            self.lits.append(value)
        return self.lits.index(value)

    def subst(self, text):
        gates = getattr(self, 'gates', [])
        text = text.replace('IS_GATE_NAME', '(' + ' || '.join('name == %d' % self.lit_id(g) for g, _ in gates) + ')')
        text = text.replace('GATE_ARITY', '(' + ' : '.join('name == %d ? %d' % (self.lit_id(g), len(ps)) for g, ps in gates) + ' : 0)')
        text = text.replace('GATE_HAS_ANGLE', '(' + ' || '.join(['0'] + ['name == %d' % self.lit_id(g) for g, ps in gates if ps[1:] == ['Float']]) + ')')
        text = text.replace('GATE_HAS_SECOND_QUBIT', '(' + ' || '.join(['0'] + ['name == %d' % self.lit_id(g) for g, ps in gates if ps[1:] == ['Qubit']]) + ')')
        return re.sub(r'SLIT\(("(?:[^"\\]|\\.)*")\)', lambda m: str(self.lit_id(m.group(1))), text)

    def file_prelude(self):
        return ['enum { %s };' % ', '.join('BL_' + e for e in self.tagenum),
                'typedef struct { int type; int intValue; double floatValue; int bitValue; int qubit; vec_int qubitArray; } Value;',
                'typedef struct { Value *data; size_t size; } vec_Value;',
                'static inline Value bl_value_default(void) { Value v; v.type = BL_Void; v.intValue = 0; v.floatValue = 0.0; v.bitValue = 0; v.qubit = -1; v.qubitArray.size = 0; return v; }',
                'static inline Value bl_value_ctor(int t, int i, double f, int b) { Value v = bl_value_default(); v.type = t; v.intValue = i; v.floatValue = f; v.bitValue = b; return v; }',
                '/* literal ids: %s */' % ', '.join('%d=%s' % (i, l) for i, l in enumerate(self.lits))]

    def declref(self, n):
        rd = n['referencedDecl']
        if rd.get('kind') == 'EnumConstantDecl':
            return 'BL_' + rd['name']
        if rd.get('name') == 'e' and rd.get('kind') == 'ParmVarDecl':
            return 'node_id'
        return super().declref(n)

    def string_literal(self, n):
        return str(self.lit_id(n['value']))

    def cast(self, n):
        if n.get('castKind') == 'ArrayToPointerDecay' and strip_parens(kids(n)[0]).get('kind') == 'StringLiteral':
            return self.expr(kids(n)[0])
        return super().cast(n)

    def member(self, n):
        base = strip_parens(kids(n)[0])
        if self.ctx and base.get('kind') == 'DeclRefExpr' and base['referencedDecl']['name'] == self.ctx:
            return '%s_%s' % (self.ctx, n['name'])
        if strip(base).get('kind') == 'CXXThisExpr':
            return 'ev_' + n['name']
        return super().member(n)

    def opcall(self, n):
        ks = kids(n)
        op = callee_name(ks[0])
        args = ks[1:]
        t0 = self.ct(args[0])
        if op in ('operator==', 'operator!=') and t0 == 'bl_lit':
            return '(%s %s %s)' % (self.expr(args[0]), op[len('operator'):], self.expr(args[1]))
        if op == 'operator[]' and t0 in ('vec_int', 'vec_Value'):
            return 'VEC_AT(%s, %s)' % (self.expr(args[0]), self.expr(args[1]))
        if op == 'operator[]' and strip(args[0]).get('kind') == 'MemberExpr' and strip(args[0]).get('name') == 'm_measurements':
            return 'QEV_MEAS_SLOT(%s)' % self.expr(args[1])
        raise Unsupported('operator %s on %s' % (op, qt(args[0])))

    def construct(self, n):
        ct = self.ctype_safe(qt(n))
        args = [a for a in kids(n) if a.get('kind') != 'CXXDefaultArgExpr']
        if ct == 'Value':
            if not args:
                return 'bl_value_default()'
            if len(args) == 1 and self.ct(args[0]) == 'Value':
                return self.expr(args[0])
            if 2 <= len(args) <= 4:
                es = [self.expr(a) for a in args]
                return 'bl_value_ctor(%s)' % ', '.join(es + ['0', '0', '0.0', '0'][len(es):])
        raise Unsupported('ctor %s/%d' % (qt(n), len(args)))

    def initlist(self, n):
        if self.ct(n) == 'Value' and not kids(n):
            return 'bl_value_default()'
        return super().initlist(n)

    SIMOPS = {'h': 1, 'x': 1, 'y': 1, 'z': 1, 'rx': 2, 'ry': 2, 'rz': 2, 'cx': 2, 'measure': 1, 'reset': 1}
    EVOPS = {'ensureQubitActive', 'ensureQubitExists', 'markMeasured', 'unmarkMeasured'}

    def membercall_other(self, n, name, obj, args):
        so = strip(obj)
        if so.get('kind') == 'MemberExpr' and so.get('name') == 'm_sim' and name in self.SIMOPS and len(args) == self.SIMOPS[name]:
            self.needs_prop = True
            return 'qev_sim_%s(%s)' % (name, ', '.join(self.expr(a) for a in args))
        if so.get('kind') == 'CXXThisExpr' and name in self.EVOPS:
            self.needs_prop = True
            return 'qev_%s(%s)' % (name, ', '.join(self.expr(a) for a in args))
        if so.get('kind') == 'CXXThisExpr' and name == 'eval' and len(args) == 1:
            self.needs_prop = True
            return 'qev_eval_operand(%s)' % self.expr(args[0])
        t = self.ct(obj)
        if name == 'get' and t == 'bl_ast':
            return self.expr(obj)
        o = self.expr(obj)
        if t in ('vec_int', 'vec_Value') and name == 'size':
            return 'VEC_SIZE(%s)' % o
        if o.startswith('QEV_MEAS_SLOT(') and name == 'push_back' and len(args) == 1:
            return 'qev_record_measurement(%s, %s)' % (o[len('QEV_MEAS_SLOT('):-1], self.expr(args[0]))
        raise Unsupported('member call %s on %s' % (name, qt(obj)))

    def membercall(self, n):
        ks = kids(n)
        me = strip(ks[0])
        return self.membercall_other(n, me['name'], kids(me)[0], ks[1:])


def _fn_body(docs, name):
    ds = cxx2c.find_functions(docs, name)
    if len(ds) != 1:
        raise Unsupported('RuntimeEvaluator::%s: %d definitions' % (name, len(ds)))
    return [k for k in kids(ds[0]) if k.get('kind') == 'CompoundStmt'][0]


def lower_regions(docs, prof):
    out = []
    heads = {'gate_dispatch': 'Value qev_gate_dispatch(bl_lit name, vec_Value args, int callExpr_line, int callExpr_column)',
             'measure_expr': 'Value qev_measure_expr(bl_ast node_id, bl_ast idx_qubit, int idx_line, int idx_column)',
             'reset_stmt': 'void qev_reset_stmt(bl_ast reset_target, int reset_line, int reset_column)',
             'measure_stmt': 'void qev_measure_stmt(bl_ast meas_qubit, int meas_line, int meas_column)'}

    def region(name, builder):
        try:
            out.append((heads[name], builder()))
        except Unsupported as e:
            if not hasattr(prof, 'region_unlowered'):
                prof.region_unlowered = {}
            prof.region_unlowered[name] = str(e)
            out.append((heads[name], None))

    def branch(fn, var, cls, cname, rt):
        def b():
            body = _fn_body(docs, fn)
            n, cast = find_region(body, var)
            if not any(cls in c for c in cast):
                raise Unsupported('region `%s` is no longer the dynamic_cast<%s*> branch' % (var, cls))
            then = kids(n)[2]
            prof.ctx = var
            d = dict(kind='FunctionDecl', name=cname, type=dict(qualType=('bloch::runtime::Value ()' if rt == 'Value' else 'void ()')), inner=[then])
            head, lines = prof.func(d, cname=cname, is_method=False)
            prof.ctx = None
            if rt == 'Value':
                assert lines[-1].strip() == '}'
                lines = lines[:-1] + ['  return bl_value_default();', '}']
            return lines
        return b

    def gate_dispatch():
        body = _fn_body(docs, 'eval')
        n, cast = find_region(body, 'callExpr')
        ifs = []
        walk(kids(n)[2], lambda z: ifs.append(z) if z.get('kind') == 'IfStmt' else None)
        tgt = None
        for s in ifs:
            refs = []
            walk(kids(s)[0], lambda z: refs.append(z['referencedDecl'].get('name')) if z.get('kind') == 'DeclRefExpr' else None)
            if 'builtin' in refs and 'builtInGates' in refs:
                tgt = s
                break
        if tgt is None:
            raise Unsupported('gate_dispatch: `if (builtin != builtInGates.end())` not found')
        prof.ctx = 'callExpr'
        prof.locals |= {'name', 'args'}
        d = dict(kind='FunctionDecl', name='gate_dispatch', type=dict(qualType='bloch::runtime::Value ()'), inner=[kids(tgt)[1]])
        head, lines = prof.func(d, cname='gate_dispatch', is_method=False)
        prof.ctx = None
        assert lines[-1].strip() == '}'
        return lines[:-1] + ['  return bl_value_default();', '}']

    region('gate_dispatch', gate_dispatch)
    region('measure_expr', branch('eval', 'idx', 'MeasureExpression', 'measure_expr', 'Value'))
    region('reset_stmt', branch('exec', 'reset', 'ResetStatement', 'reset_stmt', 'void'))
    region('measure_stmt', branch('exec', 'meas', 'MeasureStatement', 'measure_stmt', 'void'))
    return out



GHOSTS = r"""
int bl_exc, bl_exc_line, bl_exc_col;
#define EXC_RT BL_EXC(BL_Runtime)
vec_int ev_m_lastMeasurement;
size_t ge, g_cur_elem;                 /* ghost: observed element of a qubit array / element being processed (scalars: equal) */
#define OBS (g_cur_elem == ge)
int g_clock;
int g_ens_n, g_ens_q[2], g_ens_line[2], g_ens_col[2], g_ens_t[2], g_ens_kind[2]; _Bool g_ens_raised;   /* lock consultations (observed element) */
int g_sim_n, g_sim_gate, g_sim_q0, g_sim_q1, g_sim_t, g_sim_bit; double g_sim_theta; _Bool g_sim_raised;
int g_mark_n, g_mark_q, g_mark_t, g_unmark_n, g_unmark_q, g_unmark_t, g_rec_n, g_rec_bit; bl_ast g_rec_node;
int g_total_sim;                       /* simulator calls for ALL elements */
size_t g_lm_size0; Value g_q;                             /* ghost: what eval(sub-expression) returned */
enum { GATE_MEASURE = 100, GATE_RESET = 101, ENS_ACTIVE = 1, ENS_EXISTS = 2 };
static inline int tick(void) { if (g_clock < 1000000) g_clock = g_clock + 1; return g_clock; }
static inline void qev_ens(int kind, int q, int line, int col) {
  int t = tick();
  if (OBS) { if (g_ens_n >= 0 && g_ens_n < 2) { g_ens_q[g_ens_n] = q; g_ens_line[g_ens_n] = line; g_ens_col[g_ens_n] = col; g_ens_t[g_ens_n] = t; g_ens_kind[g_ens_n] = kind; } if (g_ens_n < 1000) g_ens_n = g_ens_n + 1; }
  if (nondet_bool()) { if (OBS) g_ens_raised = 1; bl_throw(BL_Runtime, line, col); }
}
static inline void qev_ensureQubitActive(int q, int line, int col) { qev_ens(ENS_ACTIVE, q, line, col); }
static inline void qev_ensureQubitExists(int q, int line, int col) { qev_ens(ENS_EXISTS, q, line, col); }
static inline void qev_sim(int gate, int q0, int q1, double theta) {
  int t = tick();
  if (g_total_sim < 1000) g_total_sim = g_total_sim + 1;
  if (OBS) { g_sim_gate = gate; g_sim_q0 = q0; g_sim_q1 = q1; g_sim_theta = theta; g_sim_t = t; if (g_sim_n < 1000) g_sim_n = g_sim_n + 1; }
  if (nondet_bool()) { if (OBS) g_sim_raised = 1; bl_throw(BL_Runtime, 0, 0); }     /* the simulator's own refusal */
}
#define qev_sim_h(q) qev_sim(SLIT("h"), q, -1, 0.0)
#define qev_sim_x(q) qev_sim(SLIT("x"), q, -1, 0.0)
#define qev_sim_y(q) qev_sim(SLIT("y"), q, -1, 0.0)
#define qev_sim_z(q) qev_sim(SLIT("z"), q, -1, 0.0)
#define qev_sim_rx(q, th) qev_sim(SLIT("rx"), q, -1, th)
#define qev_sim_ry(q, th) qev_sim(SLIT("ry"), q, -1, th)
#define qev_sim_rz(q, th) qev_sim(SLIT("rz"), q, -1, th)
#define qev_sim_cx(c, t) qev_sim(SLIT("cx"), c, t, 0.0)
#define qev_sim_reset(q) qev_sim(GATE_RESET, q, -1, 0.0)
static inline int qev_sim_measure(int q) { qev_sim(GATE_MEASURE, q, -1, 0.0); int b = nondet_bool() ? 1 : 0; if (OBS) g_sim_bit = b; return b; }
static inline void qev_markMeasured(int q) { int t = tick(); if (OBS) { g_mark_q = q; g_mark_t = t; if (g_mark_n < 1000) g_mark_n = g_mark_n + 1; } }
static inline void qev_unmarkMeasured(int q) { int t = tick(); if (OBS) { g_unmark_q = q; g_unmark_t = t; if (g_unmark_n < 1000) g_unmark_n = g_unmark_n + 1; } }
static inline void qev_record_measurement(bl_ast node, int bit) { g_rec_node = node; g_rec_bit = bit; if (g_rec_n < 1000) g_rec_n = g_rec_n + 1; }
#ifndef NATIVE
Value qev_eval_operand(bl_ast e)
__CPROVER_requires(bl_exc == 0)
__CPROVER_assigns(bl_exc, bl_exc_line, bl_exc_col, g_q)
__CPROVER_ensures(bl_exc == 0 || bl_exc == EXC_RT)
__CPROVER_ensures(__CPROVER_return_value.qubitArray.size <= VCAP && __CPROVER_return_value.type == g_q.type && __CPROVER_return_value.qubit == g_q.qubit && __CPROVER_return_value.qubitArray.size == g_q.qubitArray.size)
__CPROVER_ensures(__CPROVER_return_value.qubitArray.data[0] == g_q.qubitArray.data[0] && __CPROVER_return_value.qubitArray.data[1] == g_q.qubitArray.data[1] && __CPROVER_return_value.qubitArray.data[2] == g_q.qubitArray.data[2] && __CPROVER_return_value.qubitArray.data[3] == g_q.qubitArray.data[3] && __CPROVER_return_value.qubitArray.data[4] == g_q.qubitArray.data[4] && __CPROVER_return_value.qubitArray.data[5] == g_q.qubitArray.data[5] && __CPROVER_return_value.qubitArray.data[6] == g_q.qubitArray.data[6] && __CPROVER_return_value.qubitArray.data[7] == g_q.qubitArray.data[7])
;
#endif
#define FRESH_RECORDS (g_clock == 0 && g_ens_n == 0 && !g_ens_raised && g_sim_n == 0 && !g_sim_raised && g_mark_n == 0 && g_unmark_n == 0 && g_rec_n == 0 && g_total_sim == 0)
#define LM ev_m_lastMeasurement
#define GE_DISTINCT(arr) ((0 == ge || 0 >= (arr).size || (arr).data[0] != (arr).data[ge < VCAP ? ge : 0]) && (1 == ge || 1 >= (arr).size || (arr).data[1] != (arr).data[ge < VCAP ? ge : 0]) && (2 == ge || 2 >= (arr).size || (arr).data[2] != (arr).data[ge < VCAP ? ge : 0]) && (3 == ge || 3 >= (arr).size || (arr).data[3] != (arr).data[ge < VCAP ? ge : 0]) && (4 == ge || 4 >= (arr).size || (arr).data[4] != (arr).data[ge < VCAP ? ge : 0]) && (5 == ge || 5 >= (arr).size || (arr).data[5] != (arr).data[ge < VCAP ? ge : 0]) && (6 == ge || 6 >= (arr).size || (arr).data[6] != (arr).data[ge < VCAP ? ge : 0]) && (7 == ge || 7 >= (arr).size || (arr).data[7] != (arr).data[ge < VCAP ? ge : 0]))
#define INLM(q) ((q) >= 0 && (q) < (int)LM.size)
"""
RET = '__CPROVER_return_value'


def R(t):
    return ('', 'requires', t, [])


def E(label, t, props, **o):
    return (label, 'ensures', t, props, o)


def A(t):
    return ('', 'assigns', t, [])


REC = ('bl_exc, bl_exc_line, bl_exc_col, g_clock, g_ens_n, __CPROVER_object_whole(g_ens_q), __CPROVER_object_whole(g_ens_line), __CPROVER_object_whole(g_ens_col), __CPROVER_object_whole(g_ens_t), __CPROVER_object_whole(g_ens_kind), g_ens_raised, '
       'g_sim_n, g_sim_gate, g_sim_q0, g_sim_q1, g_sim_t, g_sim_bit, g_sim_theta, g_sim_raised, g_mark_n, g_mark_q, g_mark_t, g_unmark_n, g_unmark_q, g_unmark_t, g_rec_n, g_rec_bit, g_rec_node, g_total_sim, g_q')
A0 = 'args.data[0]'
A1 = 'args.data[1]'
AT_CALL = lambda k, ln, co: '(g_ens_line[%d] == %s && g_ens_col[%d] == %s)' % (k, ln, k, co)
MEASURED_OK = ('(g_ens_n == 1 && g_ens_kind[0] == ENS_ACTIVE && g_ens_q[0] == QID && %s && g_sim_n == 1 && g_sim_gate == GATE_MEASURE && g_sim_q0 == QID && g_ens_t[0] < g_sim_t '
               '&& g_mark_n == 1 && g_mark_q == QID && g_sim_t < g_mark_t)')
CONTRACTS = {
    'gate_dispatch': {
        'contract': [
            R('bl_exc == 0 && FRESH_RECORDS && g_cur_elem == ge && IS_GATE_NAME && args.size >= (size_t)GATE_ARITY && args.size <= 2 && __CPROVER_is_fresh(args.data, 2 * sizeof(Value))'),
            A(REC),
            E('eval.gate.only_located_runtime_errors', 'bl_exc == 0 || bl_exc == EXC_RT', ['C12', 'C06']),
            # C01 / C05: the like-named simulator operation is applied exactly once to the call's own operands, in order
            E('eval.gate.exactly_one_like_named_simulator_operation', '(bl_exc == 0) ==> (g_sim_n == 1 && g_sim_gate == name)', ['C01', 'C05']),
            E('eval.gate.simulator_gets_the_calls_own_operands_in_order', '(g_sim_n >= 1) ==> (g_sim_q0 == %s.qubit && (!GATE_HAS_SECOND_QUBIT || g_sim_q1 == %s.qubit) && (!GATE_HAS_ANGLE || __CPROVER_equal(g_sim_theta, %s.floatValue)))' % (A0, A1, A1), ['C01', 'C05']),
            E('eval.gate.at_most_one_simulator_operation', 'g_sim_n <= 1 && g_total_sim == g_sim_n', ['C01', 'C05']),
            # C06: the measured-lock is consulted for every qubit operand, at the call position, before the simulator is touched
            E('eval.gate.lock_consulted_for_every_qubit_operand_before_the_simulator', '(g_sim_n >= 1) ==> (g_ens_n == (GATE_HAS_SECOND_QUBIT ? 2 : 1) && g_ens_kind[0] == ENS_ACTIVE && g_ens_q[0] == %s.qubit && g_ens_t[0] < g_sim_t && %s '
              '&& (!GATE_HAS_SECOND_QUBIT || (g_ens_kind[1] == ENS_ACTIVE && g_ens_q[1] == %s.qubit && g_ens_t[1] < g_sim_t && %s)))' % (A0, AT_CALL(0, 'callExpr_line', 'callExpr_column'), A1, AT_CALL(1, 'callExpr_line', 'callExpr_column')), ['C06']),
            E('eval.gate.refused_operand_never_reaches_the_simulator', 'g_ens_raised ==> (g_sim_n == 0 && bl_exc == EXC_RT && bl_exc_line == callExpr_line && bl_exc_col == callExpr_column)', ['C06']),
            E('eval.gate.returns_void', '(bl_exc == 0) ==> %s.type == BL_Void' % RET, ['C07']),
        ],
    },
    'measure_expr': {
        'contract': [
            R('bl_exc == 0 && FRESH_RECORDS && g_cur_elem == ge && LM.size <= VCAP && ge < VCAP'),
            A(REC + ', __CPROVER_object_upto(ev_m_lastMeasurement.data, VCAP * sizeof(int))'),
            E('eval.measure.only_located_runtime_errors', 'bl_exc == 0 || bl_exc == EXC_RT', ['C12', 'C06']),
            E('eval.measure.lock_then_simulator_then_flag', '(bl_exc == 0) ==> ' + (MEASURED_OK % AT_CALL(0, 'idx_line', 'idx_column')).replace('QID', 'g_q.qubit'), ['C06', 'C02']),
            E('eval.measure.refused_qubit_is_not_measured', 'g_ens_raised ==> (g_sim_n == 0 && g_mark_n == 0 && g_rec_n == 0 && bl_exc == EXC_RT && bl_exc_line == idx_line && bl_exc_col == idx_column)', ['C06']),
            # C02: the returned bit, the recorded measurement and the tracked last measurement are the simulator's bit
            E('eval.measure.returned_bit_is_the_simulators_bit', '(bl_exc == 0) ==> (%s.type == BL_Bit && %s.bitValue == g_sim_bit)' % (RET, RET), ['C02']),
            E('eval.measure.recorded_and_tracked_bit_is_the_simulators_bit', '(bl_exc == 0) ==> (g_rec_n == 1 && g_rec_bit == g_sim_bit && g_rec_node == node_id && ((g_q.qubit >= 0 && g_q.qubit < (int)LM.size) ==> LM.data[g_q.qubit] == g_sim_bit))', ['C02', 'C17']),
            E('eval.measure.other_tracked_bits_kept', '(ge < VCAP && (int)ge != g_q.qubit) ==> LM.data[ge] == __CPROVER_old(LM.data[ge])', ['C02', 'C17']),
        ],
    },
    'reset_stmt': {
        'contract': [
            R('bl_exc == 0 && FRESH_RECORDS && g_cur_elem == ge'),
            A(REC),
            E('exec.reset.only_located_runtime_errors', 'bl_exc == 0 || bl_exc == EXC_RT', ['C12', 'C06']),
            E('exec.reset.exists_check_then_simulator_reset_then_unlock', '(bl_exc == 0) ==> (g_ens_n == 1 && g_ens_kind[0] == ENS_EXISTS && g_ens_q[0] == g_q.qubit && %s && g_sim_n == 1 && g_sim_gate == GATE_RESET && g_sim_q0 == g_q.qubit && g_ens_t[0] < g_sim_t '
              '&& g_unmark_n == 1 && g_unmark_q == g_q.qubit && g_sim_t < g_unmark_t && g_mark_n == 0)' % AT_CALL(0, 'reset_line', 'reset_column'), ['C06', 'C04']),
            E('exec.reset.failed_reset_does_not_unlock', '(g_ens_raised || g_sim_raised) ==> g_unmark_n == 0', ['C06']),
        ],
    },
    'measure_stmt': {
        'contract': [
            R('bl_exc == 0 && FRESH_RECORDS && LM.size <= VCAP && ge < VCAP'),
            A(REC + ', g_cur_elem, g_lm_size0, __CPROVER_object_upto(ev_m_lastMeasurement.data, VCAP * sizeof(int))'),
            E('exec.measure.only_located_runtime_errors', 'bl_exc == 0 || bl_exc == EXC_RT', ['C12', 'C06']),
            E('exec.measure.scalar.lock_then_simulator_then_flag', '(bl_exc == 0 && g_q.type != BL_QubitArray) ==> (' + (MEASURED_OK % AT_CALL(0, 'meas_line', 'meas_column')).replace('QID', 'g_q.qubit') + ' && g_total_sim == 1 && ((g_q.qubit >= 0 && g_q.qubit < (int)LM.size) ==> LM.data[g_q.qubit] == g_sim_bit))', ['C06', 'C02']),
            E('exec.measure.array.every_element_lock_then_simulator_then_flag', '(bl_exc == 0 && g_q.type == BL_QubitArray && ge < g_q.qubitArray.size) ==> ' + (MEASURED_OK % AT_CALL(0, 'meas_line', 'meas_column')).replace('QID', 'g_q.qubitArray.data[ge]'), ['C06', 'C02']),
            E('exec.measure.array.tracked_bit_is_the_simulators_bit', '(bl_exc == 0 && g_q.type == BL_QubitArray && ge < g_q.qubitArray.size && GE_DISTINCT(g_q.qubitArray) && INLM(g_q.qubitArray.data[ge])) ==> LM.data[g_q.qubitArray.data[ge]] == g_sim_bit', ['C02', 'C17']),
            E('exec.measure.array.one_measurement_per_element', '(bl_exc == 0 && g_q.type == BL_QubitArray) ==> (g_total_sim >= 0 && (size_t)g_total_sim == g_q.qubitArray.size)', ['C02', 'C05']),
            E('exec.measure.refused_element_is_not_measured', 'g_ens_raised ==> (g_sim_n == 0 && g_mark_n == 0 && bl_exc == EXC_RT && bl_exc_line == meas_line && bl_exc_col == meas_column)', ['C06']),
        ],
        'prologue': 'g_cur_elem = ge; g_lm_size0 = LM.size;',
        'loops': {
            0: {'assigns': 'idx, g_cur_elem, __CPROVER_object_upto(ev_m_lastMeasurement.data, VCAP * sizeof(int)), ' + REC.replace(', g_q', ''), 'ghost_in_bounded': True,
                'body_begin': 'g_cur_elem = (size_t)idx;',
                'invariants': [('measure_stmt.loop.bounds', 'idx >= 0 && (size_t)idx <= q.qubitArray.size && bl_exc == 0 && g_total_sim == idx && g_clock >= 0 && g_clock <= 3 * idx && !g_ens_raised && !g_sim_raised'),
                               ('measure_stmt.loop.element_done', '((size_t)idx > ge) ==> ' + (MEASURED_OK % AT_CALL(0, 'meas_line', 'meas_column')).replace('QID', 'q.qubitArray.data[ge]')),
                               ('measure_stmt.loop.element_pending', '((size_t)idx <= ge) ==> (g_ens_n == 0 && g_sim_n == 0 && g_mark_n == 0 && !g_ens_raised)'),
                               ('measure_stmt.loop.element_tracked', '((size_t)idx > ge && ge < q.qubitArray.size && GE_DISTINCT(q.qubitArray) && INLM(q.qubitArray.data[ge])) ==> LM.data[q.qubitArray.data[ge]] == g_sim_bit'),
                               ('measure_stmt.loop.table_size_kept', 'LM.size == g_lm_size0'),
                               ('measure_stmt.loop.times', 'g_ens_n >= 0 && g_sim_n >= 0 && g_mark_n >= 0 && g_unmark_n == 0 && g_rec_n == 0')],
                'decreases': 'q.qubitArray.size - idx'},
        },
    },
}
HARNESSES = [
    dict(name='gate_dispatch', fn='gate_dispatch', replace=[], flags=[], props=['C01', 'C05', 'C06', 'C07', 'C12'], timeout=300,
         canaries=[('bl_exc == 0 && g_sim_gate == SLIT("cx")', 'a two-qubit gate was applied'), ('bl_exc != 0', 'refused')]),
    dict(name='measure_expr', fn='measure_expr', replace=['qev_eval_operand'], flags=[], props=['C02', 'C06', 'C12', 'C17'], timeout=300, bounded_replace=['qev_eval_operand'],
         canaries=[('bl_exc == 0', 'measured'), ('bl_exc != 0', 'refused')]),
    dict(name='reset_stmt', fn='reset_stmt', replace=['qev_eval_operand'], flags=[], props=['C04', 'C06', 'C12'], timeout=300, bounded_replace=['qev_eval_operand'],
         canaries=[('bl_exc == 0', 'reset'), ('bl_exc != 0', 'refused')]),
    dict(name='measure_stmt', fn='measure_stmt', replace=['qev_eval_operand'], flags=[], props=['C02', 'C05', 'C06', 'C12', 'C17'], timeout=600, bounded_replace=['qev_eval_operand'], unwind=10,
         canaries=[('bl_exc == 0 && g_total_sim >= 2', 'an array of several qubits was measured'), ('bl_exc != 0', 'refused')]),
]


from tools import native as _nat


def _oracle():
    bd = _nat.repo_build(('bloch',))
    return _nat.run(['python3', os.path.join(_nat.ROOT, 'native', 'qev_oracle.py'), os.path.join(bd, 'bin', 'bloch'), 'sweep'], timeout=900)


def native_validate(pu, work, tier, seed):
    try:
        rc, out, dt = _oracle()
        js = _nat.last_json(out)
        return dict(unit='QEV', kind='oracle on the real interpreter through the CLI (every built-in gate read back from the emitted OpenQASM; located refusal of operations on measured qubits; measure result vs echo vs tracked outcome); no co-execution for this unit', status='agree',
                    oracle_sweep=dict(checks=js.get('oracle_checks'), failures=js.get('oracle_failures'), failing_labels=sorted(set(re.findall(r'FAIL label=(\S+)', out)))), wall_s=round(dt, 1))
    except _nat.Break as e:
        return dict(unit='QEV', status='error', detail=str(e))


def replay_counterexample(pu, h, label, failure, work, tier, seed):
    rc, out, dt = _oracle()
    fails = [l for l in out.split('\n') if l.startswith('FAIL ')]
    same = [l for l in fails if label and ('label=' + label + ' ') in l]
    pref = {'gate_dispatch': 'eval.gate.', 'measure_expr': 'eval.measure.', 'reset_stmt': 'exec.reset.', 'measure_stmt': 'exec.measure.'}[h['fn']]
    pick = same or [l for l in fails if ('label=' + pref) in l]
    if pick:
        m = re.search(r'label=(\S+)', pick[0])
        return dict(failing_input_found=True, failing_input=pick[0], native_failures=fails[:5], oracle_label=m.group(1), signature=re.sub(r' detail=.*', '', pick[0])[:160],
                    reproduce_args=['sweep'], reproduce='bin/check <property> --replay <this file>', replay_inputs_tried=['sweep'], matched_same_obligation=bool(same))
    return dict(failing_input_found=False, replay_inputs_tried=['sweep'], signature='')


def run_reproduce(rec, work):
    rc, out, dt = _oracle()
    print(out)
    return 1 if rc else 0
