"""Unit SIM — runtime/qasm_simulator.cpp, every member function of QasmSimulator.
Profile (type/callee tables for the lowering) + sidecar contracts + harness list."""
import re
from tools.cxx2c import Lower, Unsupported, kids, qt, strip, callee_name, norm_type
from tools.cxx2c import REPO as _REPO

NAME = 'SIM'
SRC = _REPO + '/src/bloch/runtime/qasm_simulator.cpp'
AST_FILTER = 'QasmSimulator'
SHIM = 'sim.h'
NAMESPACE = 'bloch::runtime'
FUNCS = ['ensureQubitActive', 'allocateQubit', 'applySingleQubitGate', 'h', 'x', 'y', 'z', 'rx', 'ry', 'rz',
         'cx', 'reset', 'measure', 'getQasm']
THROWING = {'ensureQubitActive', 'applySingleQubitGate', 'h', 'x', 'y', 'z', 'rx', 'ry', 'rz', 'cx', 'reset',
            'measure'}
DROPS = ['diagnostic message strings of BlochError (category, line, column are kept)',
         'std::string contents: built strings are piece lists (interned literal | decimal int | to_string(double)); '
         'string sizes in getQasm are an uninterpreted function',
         'std::mt19937 state: one draw of uniform_real_distribution(0,1) is the harness-chosen value bl_next_draw',
         'allocator failure; std::vector capacity/reallocation (vector = {data,size})',
         'std::string::reserve (no observable effect)']


class Profile(Lower):
    CLS = 'QasmSimulator'
    SELF_T = 'QasmSimulator'
    TYPE_MAP = [
        (r'^std::vector<std::complex<double>>$', 'vec_cplx'),
        (r'^std::vector<bool>$', 'vec_bool'),
        (r'^std::vector<std::(basic_)?string(<char>)?>$', 'vec_str'),
        (r'^std::complex<double>$', 'cplx'),
        (r'^(std::)?(basic_string<char.*>|string)$', 'bl_str'),
        (r'^std::uniform_real_distribution<(double)?>$', 'bl_urd'),
    ]

    def __init__(self, *a, **k):
        super().__init__(*a, **k)
        self.lits = []
        self.ropes = set()

    def lit_id(self, value):
        if value not in self.lits:
            self.lits.append(value)
        return self.lits.index(value)

    def ctype(self, t):
        t0 = norm_type(t)
        m = re.match(r'^std::array<std::complex<double>, (\d+)>$', t0)
        if m:
            return 'ARRAY_cplx_' + m.group(1)
        return super().ctype(t)

    def is_cplx(self, n):
        return self.ct(n) == 'cplx'

    # ---- strings as piece lists
    def str_pieces(self, n):
        n = strip(n)
        k = n.get('kind')
        if k == 'StringLiteral':
            return ['BL_LIT(%d)' % self.lit_id(n['value'])]
        if k == 'CXXConstructExpr' and self.ct(n) == 'bl_str':
            out = []
            for a in kids(n):
                if a.get('kind') == 'CXXDefaultArgExpr':
                    continue
                out += self.str_pieces(a)
            return out
        if k == 'CXXOperatorCallExpr' and callee_name(kids(n)[0]) == 'operator+':
            return self.str_pieces(kids(n)[1]) + self.str_pieces(kids(n)[2])
        if k == 'CallExpr' and callee_name(kids(n)[0]) == 'to_string':
            a = kids(n)[1]
            return [('BL_D2S(%s)' if self.is_double(a) else 'BL_I2S(%s)') % self.expr(a)]
        raise Unsupported('string piece ' + str(k))

    def str_expr(self, n):
        p = self.str_pieces(n)
        if len(p) not in (1, 3, 5):
            raise Unsupported('string with %d pieces' % len(p))
        return 'bl_cat%d(%s)' % (len(p), ', '.join(p))

    def string_literal(self, n):
        return self.str_expr(n)

    def declref(self, n):
        if n['referencedDecl']['name'] == 'rng':
            return 'bl_rng'
        return super().declref(n)

    def construct(self, n):
        ct = self.ctype(qt(n))
        args = [a for a in kids(n) if a.get('kind') != 'CXXDefaultArgExpr']
        if ct == 'cplx':
            if len(args) == 1 and self.is_cplx(args[0]):
                return self.expr(args[0])
            es = [self.expr(a) for a in args]
            if len(es) not in (1, 2):
                raise Unsupported('complex ctor arity')
            return 'c_make(%s, %s)' % (es[0], es[1] if len(es) > 1 else '0.0')
        if ct == 'bl_str':
            if not args:
                return None   # default-constructed: handled in decl (rope)
            if len(args) == 1 and self.ct(args[0]) == 'bl_str' and strip(args[0]).get('kind') in ('DeclRefExpr', 'MemberExpr'):
                return self.expr(args[0])
            return self.str_expr(n)
        if ct == 'vec_cplx' and len(args) == 1:
            return 'vec_cplx_make(%s)' % self.expr(args[0])
        if ct == 'bl_urd':
            return 'bl_urd_make(%s)' % ', '.join(self.expr(a) for a in args)
        raise Unsupported('ctor ' + ct)

    def opcall(self, n):
        ks = kids(n)
        op = callee_name(ks[0])
        args = ks[1:]
        t0 = self.ct(args[0])
        if op == 'operator[]':
            if t0 and t0.startswith('vec_'):
                return 'VEC_AT(%s, %s)' % (self.expr(args[0]), self.expr(args[1]))
            if t0 and t0.startswith('ARRAY_'):
                m = int(t0.split('_')[-1])
                return '%s[BL_IDX(%s, %d)]' % (self.expr(args[0]), self.expr(args[1]), m)
        if op == 'operator=':
            if t0 == 'cplx' or norm_type(qt(args[0])).endswith('value_type'):
                rhs = args[1]
                r = self.expr(rhs) if self.is_cplx(rhs) else 'c_make(%s, 0.0)' % self.expr(rhs)
                return '(%s = %s)' % (self.expr(args[0]), r)
            if 'Bit_reference' in qt(args[0]) or t0 == '_Bool':
                return '(%s = %s)' % (self.expr(args[0]), self.expr(args[1]))
        if t0 == 'cplx' or self.is_cplx(args[0]) or (len(args) > 1 and self.is_cplx(args[1])):
            cm = {'operator*': 'c_mul', 'operator+': 'c_add'}
            if op in cm and self.is_cplx(args[0]) and self.is_cplx(args[1]):
                return '%s(%s, %s)' % (cm[op], self.expr(args[0]), self.expr(args[1]))
            if op == 'operator*=' and self.is_double(args[1]):
                return '(%s = c_scale(%s, %s))' % (self.expr(args[0]), self.expr(args[0]), self.expr(args[1]))
            if op == 'operator/=' and self.is_double(args[1]):
                return '(%s = c_divd(%s, %s))' % (self.expr(args[0]), self.expr(args[0]), self.expr(args[1]))
            if op == 'operator/' and self.is_cplx(args[0]) and self.is_double(args[1]):
                return 'c_divd(%s, %s)' % (self.expr(args[0]), self.expr(args[1]))
            if op == 'operator*' and self.is_cplx(args[0]) and self.is_double(args[1]):
                return 'c_scale(%s, %s)' % (self.expr(args[0]), self.expr(args[1]))
        if op in ('operator==', 'operator!=') and self.is_cplx(args[0]):
            neg = '!' if op == 'operator!=' else ''
            if self.is_cplx(args[1]):
                return '(%sc_eq(%s, %s))' % (neg, self.expr(args[0]), self.expr(args[1]))
            if self.is_double(args[1]):
                return '(%sc_eqd(%s, %s))' % (neg, self.expr(args[0]), self.expr(args[1]))
        if op == 'operator-' and self.is_cplx(args[0]) and len(args) == 2 and self.is_cplx(args[1]):
            return 'c_sub(%s, %s)' % (self.expr(args[0]), self.expr(args[1]))
        if op == 'operator+' and self.ct(n) == 'bl_str':
            return self.str_expr(n)
        if op == 'operator()' and t0 == 'bl_urd':
            return 'bl_urd_draw(&%s, &%s)' % (self.expr(args[0]), self.expr(args[1]))
        raise Unsupported('operator %s on %s' % (op, qt(args[0])))

    def membercall_other(self, n, name, obj, args):
        t = self.ct(obj)
        if name == 'operator bool':
            return self.expr(obj)
        o = self.expr(obj)
        if t and t.startswith('vec_'):
            if name == 'size':
                return 'VEC_SIZE(%s)' % o
            if name == 'resize' and t == 'vec_bool' and len(args) == 2:
                return 'vec_bool_resize(&%s, %s)' % (o, ', '.join(self.expr(a) for a in args))
            if name == 'swap' and t == 'vec_cplx':
                return 'vec_cplx_swap(&%s, &%s)' % (o, self.expr(args[0]))
            if name == 'emplace_back' and t == 'vec_str':
                return 'vec_str_push(&%s, %s)' % (o, self.str_expr(args[0]))
        if t == 'bl_str':
            so = strip(obj)
            is_rope = so.get('kind') == 'DeclRefExpr' and so['referencedDecl']['name'] in self.ropes
            if name == 'size' and not is_rope:
                return 'bl_str_size(%s)' % o
            if name == 'reserve' and is_rope:
                return '(void)(%s)' % self.expr(args[0])
            if name == 'append' and is_rope and len(args) == 1:
                return 'bl_rope_append(&%s, %s)' % (o, self.expr(args[0]))
        raise Unsupported('member call %s on %s' % (name, qt(obj)))

    def call_named(self, n, name, args):
        simple = {'sqrt': 'BL_SQRT', 'cos': 'BL_COS', 'sin': 'BL_SIN'}
        if name in simple and self.is_double(args[0]):
            return '%s(%s)' % (simple[name], self.expr(args[0]))
        if name == 'exp' and self.is_cplx(args[0]):
            return 'c_exp(%s)' % self.expr(args[0])
        if name == 'norm' and self.is_cplx(args[0]):
            return 'c_norm(%s)' % self.expr(args[0])
        if name in ('min', 'max') and self.ct(args[0]) in ('int', 'size_t', 'long', 'double', 'unsigned int'):
            return 'BL_%s(%s, %s)' % (name.upper(), self.expr(args[0]), self.expr(args[1]))
        if name == 'abs' and self.is_cplx(args[0]):
            return 'c_abs(%s)' % self.expr(args[0])
        if name in ('abs', 'fabs') and self.is_double(args[0]):
            return 'D_ABS(%s)' % self.expr(args[0])
        if name == 'swap' and self.is_cplx(args[0]):
            return 'c_swap(&%s, &%s)' % (self.expr(args[0]), self.expr(args[1]))
        return super().call_named(n, name, args)

    def decl(self, v):
        name = v['name']
        ct = self.ctype(qt(v))
        init = [i for i in kids(v) if 'kind' in i]
        self.locals.add(name)
        if ct.startswith('ARRAY_'):
            _, el, cnt = ct.split('_')
            il = strip(init[0])
            while il.get('kind') == 'InitListExpr' and len(kids(il)) == 1 and strip(kids(il)[0]).get('kind') == 'InitListExpr':
                il = strip(kids(il)[0])
            if il.get('kind') != 'InitListExpr' or len(kids(il)) != int(cnt):
                raise Unsupported('array initialiser shape')
            elems = []
            for a in kids(il):
                elems.append(self.expr(a) if self.is_cplx(a) else 'c_make(%s, 0.0)' % self.expr(a))
            return 'const %s %s[%s] = { %s };' % (el, name, cnt, ', '.join(elems))
        if ct == 'bl_str' and init and strip(init[0]).get('kind') == 'CXXConstructExpr' and \
                not [a for a in kids(strip(init[0])) if a.get('kind') != 'CXXDefaultArgExpr']:
            self.ropes.add(name)
            return 'bl_rope %s = bl_rope_make();' % name
        return super().decl(v)

    def param(self, pd):
        ct = self.ctype(qt(pd))
        if ct.startswith('ARRAY_'):
            return 'const cplx *%s' % pd['name']
        return super().param(pd)

    def ret_ctype(self, d):
        if d['name'] == 'getQasm':
            return 'bl_rope'
        return super().ret_ctype(d)

    def range_for(self, n, ind):
        # for (const auto& op : <vec_str member>) body   ->  index loop
        ks = [k for k in n['inner']]
        rangevar = None
        loopvar = None
        body = ks[-1]
        for k in ks:
            if k.get('kind') == 'DeclStmt':
                for v in kids(k):
                    if v.get('name', '').startswith('__range'):
                        rangevar = v
                    elif v.get('kind') == 'VarDecl' and not v.get('name', '').startswith('__'):
                        loopvar = v
        if rangevar is None or loopvar is None:
            raise Unsupported('range-for shape')
        rng = strip(kids(rangevar)[0])
        if self.ct(rng) != 'vec_str':
            raise Unsupported('range-for over ' + qt(rng))
        p = '  ' * ind
        k = self.loop_marker(p)
        iv = '__i%d' % k
        out = [p + '/*@BEFORELOOP:%s:%d@*/' % (self.fn, k), p + '{', p + '  size_t %s = 0;' % iv,
               p + '  for (; %s < VEC_SIZE(%s); ++%s)' % (iv, self.expr(rng), iv),
               p + '    /*@LOOP:%s:%d@*/' % (self.fn, k), p + '  {',
               p + '    /*@LOOPBODY:%s:%d@*/' % (self.fn, k),
               p + '    bl_str %s = VEC_AT(%s, %s);' % (loopvar['name'], self.expr(rng), iv)]
        self.locals.add(loopvar['name'])
        out += self.block(body, ind + 2)
        out += [p + '  }', p + '}', p + '/*@AFTERLOOP:%s:%d@*/' % (self.fn, k)]
        return out

    def file_prelude(self):
        tab = ', '.join('"%s"' % l.strip('"') if not l.startswith('"') else l for l in self.lits)
        return ['const char *const bl_lit_tab[] = { %s };' % tab,
                '#define BL_NLIT %d' % len(self.lits)]


# =========================================================================== sidecar contracts

BIT = '((size_t)1 << q)'
ST = 'self->m_state.data'
GHOSTS = r'''
#define CEQ(a, b) __CPROVER_equal(a, b)
#define EXC_RT BL_EXC(BL_Runtime)
#define QOK(q) ((q) >= 0 && (q) < self->m_qubits)
#define CXOK (QOK(control) && QOK(target))
#define TB ((size_t)1 << target)
#define PIECE_LIT(p, id) ((p).kind == 0 && (p).lit == (id))
#define PIECE_INT(p, v) ((p).kind == 1 && (p).ival == (long)(v))
#define PIECE_DBL(p, v) ((p).kind == 2 && __CPROVER_equal((p).dval, (double)(v)))
/* ghost indices (arbitrary, constrained only by requires clauses) and ghost snapshots */
size_t gk, gk2, g_base, g_cur, g_rs_k, g_mk_k, g_app_k, g_opk;
cplx g_e0, g_e1, g_s0, g_s1, g_zero, g_q0, g_e2, g_src;
double g_p1;
bl_str g_app_item, bl_last_push, g_hdr, g_qreg, g_creg;
size_t bl_push_count;
int bl_exc, bl_exc_line, bl_exc_col, bl_draw_count;
double bl_next_draw; bl_rng_t bl_rng;
'''

# well-formedness of a simulator object (DESIGN.md §2.4), as requires clauses
WF_REQ = [
    '__CPROVER_is_fresh(self, sizeof(*self))',
    'self->m_qubits >= 0 && self->m_qubits <= NMAX',
    'self->m_state.size == ((size_t)1 << self->m_qubits)',
    '__CPROVER_is_fresh(self->m_state.data, self->m_state.size * sizeof(cplx))',
    'self->m_measured.size >= (size_t)self->m_qubits && self->m_measured.size <= NMAX',
    '__CPROVER_is_fresh(self->m_measured.data, self->m_measured.size ? self->m_measured.size : 1)',
    'self->m_ops.cap == 0 && self->m_ops.size < 1000000000 && bl_push_count < 1000000000 && bl_draw_count >= 0 && bl_draw_count < 1000000000',
    'bl_exc == 0',
]
WF_ENS = 'self->m_qubits >= 0 && self->m_qubits <= NMAX && self->m_state.size == ((size_t)1 << self->m_qubits) && self->m_measured.size >= (size_t)self->m_qubits'
EXC_VARS = 'bl_exc, bl_exc_line, bl_exc_col'
LOG_VARS = 'self->m_ops.size, bl_last_push, bl_push_count'


def R(text):
    return ('', 'requires', text, [])


def wf():
    return [R(t) for t in WF_REQ]


def E(label, text, props):
    return (label, 'ensures', text, props)


def A(text):
    return ('', 'assigns', text, [])


def matrix_spec(g):
    H = 'c_make(D_DIV(1.0, BL_SQRT(2.0)), 0.0)'
    Z0 = 'c_make(0.0, 0.0)'
    C = 'BL_COS(D_DIV(t, 2.0))'
    S = 'BL_SIN(D_DIV(t, 2.0))'
    return {
        'h': [H, H, H, 'c_make(D_DIV(-1.0, BL_SQRT(2.0)), 0.0)'],
        'x': [Z0, 'c_make(1.0, 0.0)', 'c_make(1.0, 0.0)', Z0],
        'y': [Z0, 'c_make(0.0, -1.0)', 'c_make(0.0, 1.0)', Z0],
        'z': ['c_make(1.0, 0.0)', Z0, Z0, 'c_make(D_NEG(1.0), 0.0)'],
        'rx': ['c_make(%s, 0.0)' % C, 'c_make(0.0, D_NEG(%s))' % S, 'c_make(0.0, D_NEG(%s))' % S, 'c_make(%s, 0.0)' % C],
        'ry': ['c_make(%s, 0.0)' % C, 'c_make(D_NEG(%s), 0.0)' % S, 'c_make(%s, 0.0)' % S, 'c_make(%s, 0.0)' % C],
        'rz': ['c_exp(c_make(0.0, D_DIV(D_NEG(t), 2.0)))', Z0, Z0, 'c_exp(c_make(0.0, D_DIV(t, 2.0)))'],
    }[g]


def log_spec(g):
    """expected pieces of the one log line of gate g (docs/reference/qasm-mapping.md)"""
    if g in ('h', 'x', 'y', 'z'):
        return 'bl_last_push.n == 3 && PIECE_LIT(bl_last_push.p[0], LIT("%s q[")) && PIECE_INT(bl_last_push.p[1], q) && PIECE_LIT(bl_last_push.p[2], LIT("];\\n"))' % g
    return ('bl_last_push.n == 5 && PIECE_LIT(bl_last_push.p[0], LIT("%s(")) && PIECE_DBL(bl_last_push.p[1], t) && '
            'PIECE_LIT(bl_last_push.p[2], LIT(") q[")) && PIECE_INT(bl_last_push.p[3], q) && PIECE_LIT(bl_last_push.p[4], LIT("];\\n"))' % g)


LOGGED1 = '(self->m_ops.size == __CPROVER_old(self->m_ops.size) + 1 && bl_push_count == __CPROVER_old(bl_push_count) + 1)'
LOGGED0 = '(self->m_ops.size == __CPROVER_old(self->m_ops.size) && bl_push_count == __CPROVER_old(bl_push_count))'
REFUSED = '(!QOK(q) || self->m_measured.data[q])'


def gate_contract(g):
    m = matrix_spec(g)
    e0 = '__CPROVER_old(%s[gk])' % ST
    e1 = '__CPROVER_old(%s[gk | (QOK(q) ? %s : 0)])' % (ST, BIT)
    return wf() + [
        R('gk < self->m_state.size && (QOK(q) ? (gk & %s) == 0 : 1)' % BIT),
        A('__CPROVER_object_whole(%s), %s, %s, g_e0, g_e1, g_s0, g_s1' % (ST, LOG_VARS, EXC_VARS)),
        E(g + '.refused_iff_out_of_range_or_measured',
          'bl_exc == (%s ? EXC_RT : 0)' % REFUSED, ['C06', 'C01']),
        E(g + '.refused_leaves_state_and_log',
          '%s ==> (CEQ(%s[gk], %s) && (QOK(q) ==> CEQ(%s[gk | %s], %s)) && %s)' % (REFUSED, ST, e0, ST, BIT, e1, LOGGED0),
          ['C06', 'C01', 'C05']),
        E(g + '.acts_as_unitary_on_q.row0',
          '!%s ==> CEQ(%s[gk], c_add(c_mul(%s, %s), c_mul(%s, %s)))' % (REFUSED, ST, m[0], e0, m[1], e1), ['C01']),
        E(g + '.acts_as_unitary_on_q.row1',
          '!%s ==> CEQ(%s[gk | %s], c_add(c_mul(%s, %s), c_mul(%s, %s)))' % (REFUSED, ST, BIT, m[2], e0, m[3], e1), ['C01']),
        E(g + '.logs_exactly_own_line',
          '!%s ==> (self->m_logOps ? (%s && %s) : %s)' % (REFUSED, LOGGED1, log_spec(g), LOGGED0), ['C05']),
        E(g + '.wf_preserved', WF_ENS, ['C03']),
    ]


# ---- the cx invariant: the three loop counters occupy disjoint bit ranges, so "already
# processed" for the pair containing gk is a lexicographic comparison on (block, between, lowOffset)
CX_GB = '(gk & ~(blockSize - 1))'                       # block of gk
CX_GM = '((gk & (highBit - 1)) >> (low + 1))'           # between-index of gk
CX_GL = '(gk & (lowBit - 1))'                           # lowOffset of gk

CONTRACTS = {
    'ensureQubitActive': {
        'contract': [
            R('__CPROVER_is_fresh(self, sizeof(*self))'),
            R('self->m_qubits >= 0 && self->m_qubits <= NMAX'),
            R('self->m_measured.size >= (size_t)self->m_qubits && self->m_measured.size <= NMAX'),
            R('__CPROVER_is_fresh(self->m_measured.data, self->m_measured.size ? self->m_measured.size : 1)'),
            R('bl_exc == 0'),
            A(EXC_VARS),
            E('ensureQubitActive.throws_iff_out_of_range_or_measured',
              'bl_exc == (%s ? EXC_RT : 0)' % REFUSED, ['C06']),
        ],
    },
    'allocateQubit': {
        'contract': wf() + [
            R('self->m_qubits < NMAX && gk < self->m_state.size'),
            A('self->m_qubits, self->m_measured, __CPROVER_object_whole(self->m_measured.data), self->m_state, g_zero'),
            E('allocateQubit.returns_next_index', '__CPROVER_return_value == __CPROVER_old(self->m_qubits) && self->m_qubits == __CPROVER_old(self->m_qubits) + 1', ['C03']),
            E('allocateQubit.size_doubles', 'self->m_state.size == 2 * __CPROVER_old(self->m_state.size)', ['C03']),
            E('allocateQubit.existing_amplitudes_kept', 'CEQ(self->m_state.data[gk], __CPROVER_old(%s[gk]))' % ST, ['C03']),
            E('allocateQubit.new_half_is_zero', 'CEQ(self->m_state.data[gk + __CPROVER_old(self->m_state.size)], g_zero) && CEQ(g_zero, c_make(0.0, 0.0))', ['C03']),
            E('allocateQubit.new_qubit_unmeasured', 'self->m_measured.size >= (size_t)self->m_qubits && !self->m_measured.data[__CPROVER_return_value]', ['C06', 'C03']),
            E('allocateQubit.other_flags_kept',
              '(g_rs_k < (size_t)__CPROVER_old(self->m_qubits)) ==> (self->m_measured.data[g_rs_k] == __CPROVER_old(self->m_measured.data[g_rs_k < self->m_measured.size ? g_rs_k : 0]))', ['C06']),
            E('allocateQubit.wf_preserved', WF_ENS, ['C03']),
        ],
        'prologue': 'g_zero = c_make(0.0, 0.0);',
        'loops': {0: {
            'assigns': 'i, __CPROVER_object_whole(newState.data)',
            'invariants': [
                ('allocateQubit.loop.bounds', 'i <= self->m_state.size'),
                ('allocateQubit.loop.copied_prefix', '(gk < i) ==> (CEQ(newState.data[gk], self->m_state.data[gk]) && CEQ(newState.data[gk + self->m_state.size], g_zero))'),
            ],
            'decreases': 'self->m_state.size - i',
        }},
        'locals': ['index', 'newState', 'i'],
    },
    'applySingleQubitGate': {
        'contract': wf() + [
            R('__CPROVER_is_fresh(m, 4 * sizeof(cplx))'),
            R('gk < self->m_state.size && (QOK(q) ? (gk & %s) == 0 : 1)' % BIT),
            A('__CPROVER_object_whole(%s), g_e0, g_e1, g_s0, g_s1, %s' % (ST, EXC_VARS)),
            E('applySingleQubitGate.refused_iff_out_of_range_or_measured', 'bl_exc == (%s ? EXC_RT : 0)' % REFUSED, ['C06', 'C01']),
            E('applySingleQubitGate.ghost_entry_values', 'CEQ(g_e0, __CPROVER_old(%s[gk])) && CEQ(g_e1, __CPROVER_old(%s[gk | (QOK(q) ? %s : 0)]))' % (ST, ST, BIT), ['C01']),
            E('applySingleQubitGate.refused_leaves_state', '%s ==> (CEQ(%s[gk], g_e0) && (QOK(q) ==> CEQ(%s[gk | %s], g_e1)))' % (REFUSED, ST, ST, BIT), ['C06', 'C01']),
            E('applySingleQubitGate.pair_update.row0', '!%s ==> CEQ(%s[gk], c_add(c_mul(m[0], g_e0), c_mul(m[1], g_e1)))' % (REFUSED, ST), ['C01']),
            E('applySingleQubitGate.pair_update.row1', '!%s ==> CEQ(%s[gk | %s], c_add(c_mul(m[2], g_e0), c_mul(m[3], g_e1)))' % (REFUSED, ST, BIT), ['C01']),
            E('applySingleQubitGate.wf_preserved', WF_ENS, ['C03']),
        ],
        'prologue': ('g_e0 = %s[gk]; g_e1 = %s[gk | (QOK(q) ? %s : 0)]; '
                     'g_s0 = c_add(c_mul(m[0], g_e0), c_mul(m[1], g_e1)); g_s1 = c_add(c_mul(m[2], g_e0), c_mul(m[3], g_e1));' % (ST, ST, BIT)),
        'loops': {
            0: {'assigns': 'i, __CPROVER_object_whole(%s)' % ST,
                'invariants': [
                    ('applySingleQubitGate.outer.bounds', 'i <= size && (i & (2 * step - 1)) == 0'),
                    ('applySingleQubitGate.outer.blocks_below_i_updated',
                     '((gk & ~(2 * step - 1)) < i) ? (CEQ(%s[gk], g_s0) && CEQ(%s[gk | step], g_s1)) : (CEQ(%s[gk], g_e0) && CEQ(%s[gk | step], g_e1))' % (ST, ST, ST, ST)),
                ],
                'decreases': 'size - i'},
            1: {'assigns': 'j, __CPROVER_object_whole(%s)' % ST,
                'invariants': [
                    ('applySingleQubitGate.inner.bounds', 'j <= step'),
                    ('applySingleQubitGate.inner.pairs_below_j_updated',
                     '(((gk & ~(2 * step - 1)) < i) || ((gk & ~(2 * step - 1)) == i && (gk - i) < j)) ? (CEQ(%s[gk], g_s0) && CEQ(%s[gk | step], g_s1)) : (CEQ(%s[gk], g_e0) && CEQ(%s[gk | step], g_e1))' % (ST, ST, ST, ST)),
                ],
                'decreases': 'step - j'},
        },
        'locals': ['step', 'size', 'i', 'j'],
    },
    'cx': {
        'contract': wf() + [
            # gk: an index with control bit 1, target bit 0; gk2: an index with control bit 0
            R('gk < self->m_state.size && gk2 < self->m_state.size'),
            R('(CXOK && control != target) ==> ((gk & ((size_t)1 << control)) != 0 && (gk & TB) == 0 && (gk2 & ((size_t)1 << control)) == 0)'),
            A('__CPROVER_object_whole(%(ST)s), %(LOG)s, %(EXC)s, g_e0, g_e1, g_e2, g_base' % dict(ST=ST, LOG=LOG_VARS, EXC=EXC_VARS)),
            E('cx.refused_iff_out_of_range_or_measured_or_same_qubit',
              'bl_exc == ((!CXOK || self->m_measured.data[control] || self->m_measured.data[target] || control == target) ? EXC_RT : 0)', ['C06', 'C05', 'C01']),
            E('cx.refused_leaves_state_and_log',
              '(bl_exc != 0) ==> (CEQ(%(ST)s[gk], __CPROVER_old(%(ST)s[gk])) && CEQ(%(ST)s[gk2], __CPROVER_old(%(ST)s[gk2])) && %(L0)s)' % dict(ST=ST, L0=LOGGED0), ['C06', 'C05', 'C01']),
            E('cx.swaps_target_pairs_where_control_is_1',
              '(bl_exc == 0) ==> (CEQ(%(ST)s[gk], __CPROVER_old(%(ST)s[gk | (CXOK ? TB : 0)])) && CEQ(%(ST)s[gk | TB], __CPROVER_old(%(ST)s[gk])))' % dict(ST=ST), ['C01']),
            E('cx.identity_where_control_is_0', '(bl_exc == 0) ==> CEQ(%(ST)s[gk2], __CPROVER_old(%(ST)s[gk2]))' % dict(ST=ST), ['C01']),
            E('cx.logs_exactly_own_line',
              '(bl_exc == 0) ==> (self->m_logOps ? (%(L1)s && bl_last_push.n == 5 && PIECE_LIT(bl_last_push.p[0], LIT("cx q[")) && PIECE_INT(bl_last_push.p[1], control) && PIECE_LIT(bl_last_push.p[2], LIT("],q[")) && PIECE_INT(bl_last_push.p[3], target) && PIECE_LIT(bl_last_push.p[4], LIT("];\\n"))) : %(L0)s)' % dict(L1=LOGGED1, L0=LOGGED0), ['C05']),
            E('cx.wf_preserved', WF_ENS, ['C03']),
        ],
        'prologue': 'g_e0 = %(ST)s[gk]; g_e1 = %(ST)s[gk | (CXOK ? TB : 0)]; g_e2 = %(ST)s[gk2];' % dict(ST=ST),
        # the three loop counters occupy disjoint bit ranges (block: bits above high, between: bits
        # strictly between low and high, lowOffset: bits below low), so "the pair of gk has been
        # processed" is a numeric comparison of gk with its control/target bits cleared (g_base)
        'loops': {
            0: {'before': 'g_base = gk & ~(lowBit | highBit);',
                'assigns': 'block, __CPROVER_object_whole(%s)' % ST,
                'invariants': [
                    ('cx.block.bounds', 'block <= self->m_state.size && (block & (blockSize - 1)) == 0'),
                    ('cx.block.control0_untouched', 'CEQ(%s[gk2], g_e2)' % ST),
                    ('cx.block.pairs_below_swapped', '(control != target) ==> ((g_base < block) ? (CEQ(%(ST)s[gk], g_e1) && CEQ(%(ST)s[gk | TB], g_e0)) : (CEQ(%(ST)s[gk], g_e0) && CEQ(%(ST)s[gk | TB], g_e1)))' % dict(ST=ST)),
                ],
                'decreases': 'self->m_state.size - block'},
            1: {'assigns': 'between, __CPROVER_object_whole(%s)' % ST,
                'invariants': [
                    ('cx.between.bounds', 'between <= betweenSpan'),
                    ('cx.between.control0_untouched', 'CEQ(%s[gk2], g_e2)' % ST),
                    ('cx.between.pairs_below_swapped', '(control != target) ==> ((g_base < (block | (between << (low + 1)))) ? (CEQ(%(ST)s[gk], g_e1) && CEQ(%(ST)s[gk | TB], g_e0)) : (CEQ(%(ST)s[gk], g_e0) && CEQ(%(ST)s[gk | TB], g_e1)))' % dict(ST=ST)),
                ],
                'decreases': 'betweenSpan - between'},
            2: {'assigns': 'lowOffset, __CPROVER_object_whole(%s)' % ST,
                'invariants': [
                    ('cx.low.bounds', 'lowOffset <= lowSpan'),
                    ('cx.low.control0_untouched', 'CEQ(%s[gk2], g_e2)' % ST),
                    ('cx.low.pairs_below_swapped', '(control != target) ==> ((g_base < (block | mid | lowOffset) || (lowOffset == lowSpan && g_base < (block | mid) + lowSpan)) ? (CEQ(%(ST)s[gk], g_e1) && CEQ(%(ST)s[gk | TB], g_e0)) : (CEQ(%(ST)s[gk], g_e0) && CEQ(%(ST)s[gk | TB], g_e1)))' % dict(ST=ST)),
                ],
                'decreases': 'lowSpan - lowOffset'},
        },
        'locals': ['low', 'high', 'lowBit', 'highBit', 'blockSize', 'lowSpan', 'betweenSpan', 'block', 'between', 'mid', 'lowOffset'],
    },
    'measure': {
        'contract': wf() + [
            R('gk < self->m_state.size && bl_next_draw >= 0.0 && bl_next_draw < 1.0'),
            A('__CPROVER_object_whole(%s), __CPROVER_object_whole(self->m_measured.data), %s, %s, g_e0, g_p1, g_cur, g_zero, g_q0, bl_draw_count' % (ST, LOG_VARS, EXC_VARS)),
            E('measure.refused_iff_out_of_range_or_measured', 'bl_exc == ((!QOK(q) || __CPROVER_old(self->m_measured.data[QOK(q) ? q : 0])) ? EXC_RT : 0)', ['C06', 'C02']),
            E('measure.refused_leaves_state_and_log', '(bl_exc != 0) ==> (CEQ(%s[gk], __CPROVER_old(%s[gk])) && %s && bl_draw_count == __CPROVER_old(bl_draw_count))' % (ST, ST, LOGGED0), ['C06', 'C02', 'C05']),
            E('measure.p1_is_fold_over_all_indices', '(bl_exc == 0) ==> g_cur == self->m_state.size', ['C02']),
            E('measure.outcome_follows_born_draw', '(bl_exc == 0) ==> (__CPROVER_return_value == (D_LT(bl_next_draw, g_p1) ? 1 : 0) && bl_draw_count == __CPROVER_old(bl_draw_count) + 1)', ['C02']),
            E('measure.collapse_is_normalised_projection',
              '(bl_exc == 0) ==> (((((gk & %s) != 0) ? 1 : 0) != __CPROVER_return_value) ? CEQ(%s[gk], c_make(0.0, 0.0)) : CEQ(%s[gk], c_divd(__CPROVER_old(%s[gk]), BL_SQRT(__CPROVER_return_value ? g_p1 : D_SUB(1.0, g_p1)))))' % (BIT, ST, ST, ST), ['C02', 'C03']),
            E('measure.marks_measured', '(bl_exc == 0) ==> self->m_measured.data[q]', ['C06']),
            E('measure.other_flags_kept', '(g_rs_k < self->m_measured.size && (bl_exc != 0 || g_rs_k != (size_t)q)) ==> self->m_measured.data[g_rs_k] == __CPROVER_old(self->m_measured.data[g_rs_k < self->m_measured.size ? g_rs_k : 0])', ['C06']),
            E('measure.logs_exactly_own_line',
              '(bl_exc == 0) ==> (self->m_logOps ? (%s && bl_last_push.n == 5 && PIECE_LIT(bl_last_push.p[0], LIT("measure q[")) && PIECE_INT(bl_last_push.p[1], q) && PIECE_LIT(bl_last_push.p[2], LIT("] -> c[")) && PIECE_INT(bl_last_push.p[3], q) && PIECE_LIT(bl_last_push.p[4], LIT("];\\n"))) : %s)' % (LOGGED1, LOGGED0), ['C05']),
            E('measure.wf_preserved', WF_ENS, ['C03']),
        ],
        'prologue': 'g_e0 = %s[gk]; g_p1 = 0.0; g_cur = 0; g_zero = c_make(0.0, 0.0);' % ST,
        'bounded_prologue': 'if (QOK(q)) { for (size_t gi_ = 0; gi_ < self->m_state.size; ++gi_) if ((gi_ & %s) != 0) g_p1 = D_ADD(g_p1, c_norm(%s[gi_])); } g_cur = self->m_state.size;' % (BIT, ST),
        'loops': {
            0: {'assigns': 'i, p1, g_p1, g_cur',
                'invariants': [('measure.fold.bounds_and_ghost', 'i <= self->m_state.size && g_cur == i && __CPROVER_equal(p1, g_p1)')],
                'decreases': 'self->m_state.size - i',
                # the definition of p1: sum of |amp|^2 over indices whose bit q is 1, in index order
                'body_begin': 'if ((i & %s) != 0) g_p1 = D_ADD(g_p1, c_norm(%s[i])); g_cur = i + 1;' % (BIT, ST)},
            1: {'before': 'g_q0 = c_divd(g_e0, norm);',
                'assigns': 'i, __CPROVER_object_whole(%s)' % ST,
                'invariants': [
                    ('measure.collapse.bounds', 'i <= self->m_state.size'),
                    ('measure.collapse.prefix_done', '(gk < i) ? (((((gk & bit) != 0) ? 1 : 0) != res) ? CEQ(%s[gk], g_zero) : CEQ(%s[gk], g_q0)) : CEQ(%s[gk], g_e0)' % (ST, ST, ST)),
                ],
                'decreases': 'self->m_state.size - i'},
        },
        'locals': ['bit', 'p1', 'res', 'norm', 'i'],
    },
}


# reset: written from the property (C04) — the qubit is sampled as a measurement would be (Born
# rule, one draw), the state collapses onto that branch, and the |1> branch is moved to |0>:
# Kraus operators {P0, X.P1}; that form (not post-selection onto |0>) is what leaves the reduced
# state of the other qubits unchanged on average (DESIGN.md §5, L4).
CONTRACTS['reset'] = {
    'contract': wf() + [
        R('gk < self->m_state.size && (QOK(q) ? (gk & %s) == 0 : 1) && bl_next_draw >= 0.0 && bl_next_draw < 1.0' % BIT),
        A('__CPROVER_object_whole(%s), __CPROVER_object_whole(self->m_measured.data), %s, %s, g_e0, g_e1, g_p1, g_cur, g_zero, g_q0, bl_draw_count' % (ST, LOG_VARS, EXC_VARS)),
        E('reset.refused_iff_out_of_range', 'bl_exc == (!QOK(q) ? EXC_RT : 0)', ['C04', 'C06']),
        E('reset.refused_leaves_state_and_log', '(bl_exc != 0) ==> (CEQ(%s[gk], __CPROVER_old(%s[gk])) && %s)' % (ST, ST, LOGGED0), ['C04', 'C05']),
        E('reset.p1_is_fold_over_all_indices', '(bl_exc == 0) ==> g_cur == self->m_state.size', ['C04']),
        E('reset.branch_follows_born',
          '(bl_exc == 0) ==> CEQ(%(ST)s[gk], c_divd(D_LT(bl_next_draw, g_p1) ? __CPROVER_old(%(ST)s[gk | (QOK(q) ? %(BIT)s : 0)]) : __CPROVER_old(%(ST)s[gk]), BL_SQRT(D_LT(bl_next_draw, g_p1) ? g_p1 : D_SUB(1.0, g_p1))))' % dict(ST=ST, BIT=BIT), ['C04', 'C03']),
        E('reset.samples_once', '(bl_exc == 0) ==> bl_draw_count == __CPROVER_old(bl_draw_count) + 1', ['C04']),
        E('reset.target_left_in_zero', '(bl_exc == 0) ==> CEQ(%s[gk | %s], c_make(0.0, 0.0))' % (ST, BIT), ['C04', 'C03']),
        E('reset.clears_measured_flag', '(bl_exc == 0) ==> !self->m_measured.data[q]', ['C06']),
        E('reset.other_flags_kept', '(g_rs_k < self->m_measured.size && (bl_exc != 0 || g_rs_k != (size_t)q)) ==> self->m_measured.data[g_rs_k] == __CPROVER_old(self->m_measured.data[g_rs_k < self->m_measured.size ? g_rs_k : 0])', ['C06']),
        E('reset.logs_exactly_own_line',
          '(bl_exc == 0) ==> (self->m_logOps ? (%s && bl_last_push.n == 3 && PIECE_LIT(bl_last_push.p[0], LIT("reset q[")) && PIECE_INT(bl_last_push.p[1], q) && PIECE_LIT(bl_last_push.p[2], LIT("];\\n"))) : %s)' % (LOGGED1, LOGGED0), ['C05']),
        E('reset.wf_preserved', WF_ENS, ['C03']),
    ],
    'prologue': 'g_e0 = %s[gk]; g_e1 = %s[gk | (QOK(q) ? %s : 0)]; g_p1 = 0.0; g_cur = 0; g_zero = c_make(0.0, 0.0);' % (ST, ST, BIT),
    'bounded_prologue': 'if (QOK(q)) { for (size_t gi_ = 0; gi_ < self->m_state.size; ++gi_) if ((gi_ & %s) != 0) g_p1 = D_ADD(g_p1, c_norm(%s[gi_])); } g_cur = self->m_state.size;' % (BIT, ST),
    'loops': {
        0: {'assigns': 'i, p1, g_p1, g_cur',
            'invariants': [('reset.fold.bounds_and_ghost', 'i <= self->m_state.size && g_cur == i && __CPROVER_equal(p1, g_p1)')],
            'decreases': 'self->m_state.size - i',
            'body_begin': 'if ((i & %s) != 0) g_p1 = D_ADD(g_p1, c_norm(%s[i])); g_cur = i + 1;' % (BIT, ST)},
        1: {'before': 'g_q0 = c_divd(one ? g_e1 : g_e0, norm);',
            'assigns': 'i, __CPROVER_object_whole(%s)' % ST,
            'invariants': [
                ('reset.collapse.bounds', 'i <= self->m_state.size'),
                ('reset.collapse.prefix_done', '(gk < i) ? (CEQ(%(ST)s[gk], g_q0) && CEQ(%(ST)s[gk | bit], g_zero)) : (CEQ(%(ST)s[gk], g_e0) && CEQ(%(ST)s[gk | bit], g_e1))' % dict(ST=ST)),
            ],
            'decreases': 'self->m_state.size - i'},
    },
    'locals': ['bit', 'p1', 'one', 'norm', 'i'],
}


OPS_MAX = 4096
CONTRACTS['getQasm'] = {
    'contract': [
        R('__CPROVER_is_fresh(self, sizeof(*self))'),
        R('self->m_qubits >= 0 && self->m_qubits <= NMAX'),
        R('self->m_ops.size <= %d && self->m_ops.cap == self->m_ops.size' % OPS_MAX),
        R('__CPROVER_is_fresh(self->m_ops.data, (self->m_ops.size ? self->m_ops.size : 1) * sizeof(bl_str))'),
        R('bl_exc == 0'),
        A('g_app_item, g_hdr'),
        E('getQasm.emits_header_qreg_creg_then_every_op', '__CPROVER_return_value.n_appended == 3 + self->m_ops.size', ['C05']),
        E('getQasm.header', '(g_app_k == 0) ==> (g_app_item.n == 1 && PIECE_LIT(g_app_item.p[0], LIT("OPENQASM 2.0;\\ninclude \\"qelib1.inc\\";\\n")))', ['C05']),
        E('getQasm.qreg_sized_to_qubits', '(g_app_k == 1) ==> (g_app_item.n == 3 && PIECE_LIT(g_app_item.p[0], LIT("qreg q[")) && PIECE_INT(g_app_item.p[1], self->m_qubits) && PIECE_LIT(g_app_item.p[2], LIT("];\\n")))', ['C05']),
        E('getQasm.creg_sized_to_qubits', '(g_app_k == 2) ==> (g_app_item.n == 3 && PIECE_LIT(g_app_item.p[0], LIT("creg c[")) && PIECE_INT(g_app_item.p[1], self->m_qubits) && PIECE_LIT(g_app_item.p[2], LIT("];\\n")))', ['C05']),
        E('getQasm.ops_in_execution_order', '(g_app_k >= 3 && g_app_k < 3 + self->m_ops.size) ==> CEQ(g_app_item, self->m_ops.data[g_app_k - 3])', ['C05']),
        E('getQasm.no_exception', 'bl_exc == 0', ['C05', 'C12']),
    ],
    'loops': {
        0: {'assigns': '__i0, total', 'invariants': [('getQasm.size_loop.bounds', '__i0 <= self->m_ops.size')], 'decreases': 'self->m_ops.size - __i0'},
        1: {'before': 'g_hdr = g_app_item;',
            'assigns': '__i1, out, g_app_item',
            'invariants': [
                ('getQasm.append_loop.bounds', '__i1 <= self->m_ops.size && out.n_appended == 3 + __i1'),
                ('getQasm.append_loop.prefix_appended', '(g_app_k < 3) ? CEQ(g_app_item, g_hdr) : ((g_app_k < 3 + __i1) ==> CEQ(g_app_item, self->m_ops.data[g_app_k - 3]))'),
            ],
            'decreases': 'self->m_ops.size - __i1'},
    },
    'locals': ['header', 'qreg', 'creg', 'total', 'out'],
}

for _g in ('h', 'x', 'y', 'z', 'rx', 'ry', 'rz'):
    CONTRACTS[_g] = {'contract': gate_contract(_g)}

SIM_FLAGS = ['UF']
HARNESSES = [
    dict(name='getQasm', fn='getQasm', replace=[], flags=SIM_FLAGS, props=['C05', 'C12'], timeout=600, no_checks=['--unsigned-overflow-check'], bounded_defs=['NMAX=2', 'OPS_MAX_B=3']),
    dict(name='reset', fn='reset', replace=[], flags=SIM_FLAGS, props=['C04', 'C03', 'C05', 'C06', 'C12'], timeout=600),
    # cx is discharged as a case split on the operand order (the union covers every call)
    dict(name='cx_control_below_target', fn='cx', replace=['ensureQubitActive'], flags=SIM_FLAGS, props=['C01', 'C05', 'C06', 'C03', 'C12'], timeout=1500, unwind=5,
         pre=['__CPROVER_assume(a1 < a2);']),
    dict(name='cx_control_not_below_target', fn='cx', replace=['ensureQubitActive'], flags=SIM_FLAGS, props=['C01', 'C05', 'C06', 'C03', 'C12'], timeout=1500, unwind=5,
         pre=['__CPROVER_assume(a1 >= a2);']),
    dict(name='ensureQubitActive', fn='ensureQubitActive', replace=[], flags=SIM_FLAGS, props=['C06', 'C12'], timeout=120),
    dict(name='allocateQubit', fn='allocateQubit', replace=[], flags=SIM_FLAGS, props=['C03', 'C06', 'C12'], timeout=600),
    dict(name='applySingleQubitGate', fn='applySingleQubitGate', replace=['ensureQubitActive'], flags=SIM_FLAGS,
         props=['C01', 'C06', 'C03', 'C12'], timeout=900),
    dict(name='measure', fn='measure', replace=['ensureQubitActive'], flags=SIM_FLAGS,
         props=['C02', 'C06', 'C05', 'C03', 'C12'], timeout=600),
]
for _g in ('h', 'x', 'y', 'z', 'rx', 'ry', 'rz'):
    HARNESSES.append(dict(name=_g, fn=_g, replace=['applySingleQubitGate'], flags=SIM_FLAGS,
                          props=['C01', 'C05', 'C06', 'C03', 'C12'], timeout=300))


# =========================================================================== native side
import os, json
from tools import native as _nat

REAL_CPP = SRC
OPS = ['h', 'x', 'y', 'z', 'rx', 'ry', 'rz', 'cx', 'reset', 'measure', 'allocateQubit']


def _build_oracle(wd):
    b = os.path.join(wd, 'sim_oracle')
    if not os.path.exists(b):
        _nat.build_cxx([os.path.join(_nat.ROOT, 'native', 'sim_oracle.cpp')], b, defs=['REAL_CPP="%s"' % REAL_CPP])
    return b


def native_validate(pu, work, tier, seed):
    """transliteration validation (bit-exact co-execution) + supporting oracle sweep"""
    wd = pu['wd']
    try:
        o = os.path.join(wd, 'sim_native.o')
        _nat.build_c(pu['src_c'], o)
        b = os.path.join(wd, 'sim_coexec')
        _nat.build_cxx([os.path.join(_nat.ROOT, 'native', 'sim_coexec.cpp')], b, defs=['REAL_CPP="%s"' % REAL_CPP], objs=[o])
        rc, out, dt = _nat.run([b, str(seed), '5' if tier == 'quick' else '7', '40' if tier == 'quick' else '400'])
        js = _nat.last_json(out)
        res = dict(unit='SIM', kind='co-execution lowered C vs real QasmSimulator (bit-exact)', status='agree' if rc == 0 else 'disagree',
                   comparisons=js.get('checks'), differences=js.get('diffs'), operations=js.get('ops'), wall_s=round(dt, 1))
        if rc != 0:
            res['detail'] = out[-600:]
            return res
        ob = _build_oracle(wd)
        rc2, out2, dt2 = _nat.run([ob, 'sweep', str(seed), '4' if tier == 'quick' else '6', '2' if tier == 'quick' else '4'])
        js2 = _nat.last_json(out2)
        res['oracle_sweep'] = dict(checks=js2.get('oracle_checks'), failures=js2.get('oracle_failures'), wall_s=round(dt2, 1),
                                   failing_labels=sorted(set(re.findall(r'FAIL label=(\S+)', out2))))
        return res
    except _nat.Break as e:
        return dict(unit='SIM', status='error', detail=str(e))


def replay_counterexample(pu, h, label, failure, work, tier, seed):
    """turn the structural part of a CBMC counterexample into runs of the real class"""
    vals, first = _nat.trace_values(failure.get('trace', ''), failure)
    fn = h['fn']
    if fn not in OPS:
        return dict(failing_input_found=False, replay_note='no native replay for ' + fn)

    def ival(*names, default=None):
        for nm in names:
            v = vals.get(nm)
            if v is not None and re.match(r'^-?\d+$', v):
                return int(v)
        return default
    q = ival('q', 'control', 'a1', default=0)
    t = ival('target', 'a2', default=0) if fn == 'cx' else 0
    n = None
    for k, v in first.items():
        if k.endswith('.m_qubits') and re.match(r'^\d+$', v):
            n = int(v)
            break
    cands = []
    if n is not None and 1 <= n <= 10:
        cands += [(n, q, t), (n - 1, q, t), (n + 1, q, t)]
    if fn == 'allocateQubit':
        cands += [(k, 0, 0) for k in range(1, 12)]
    # small-n neighbourhood: every operand choice for n = 1..5 (a loop-invariant counterexample is a
    # havocked mid-loop state, so the structure of the trace alone is not a reliable input)
    for nn in (2, 3, 4, 5, 1):
        for qq in list(range(0, nn)) + [-1, nn]:
            if fn == 'cx':
                for tt in range(0, nn):
                    cands.append((nn, qq, tt))
            else:
                cands.append((nn, qq, 0))
    ob = _build_oracle(pu['wd'])
    tried = []
    for (nn, qq, tt) in cands:
        for mask in (0,):
            cmd = [ob, 'case', fn, str(nn), str(qq), str(tt), '0.7', '1', str(mask), str(seed)]
            rc, out, dt = _nat.run(cmd, timeout=300)
            tried.append(' '.join(cmd[1:]))
            fails = [ln for ln in out.split('\n') if ln.startswith('FAIL ')]
            same = [ln for ln in fails if label and ('label=' + label + ' ') in ln]
            pick = same or [ln for ln in fails if ('label=' + fn + '.') in ln]
            if pick:
                sig = 'op=%s%s' % (fn, ' control==target' if (fn == 'cx' and qq == tt) else '')
                m = re.search(r'label=(\S+)', pick[0])
                return dict(failing_input_found=True, failing_input=pick[0], signature=sig, native_failures=fails[:10], oracle_label=m.group(1) if m else None,
                            reproduce_args=cmd[1:], reproduce='bin/check %s --replay <this file>   (rebuilds native/sim_oracle.cpp against /repo and runs: sim_oracle %s)' % ('<property>', ' '.join(cmd[1:])),
                            replay_inputs_tried=tried, matched_same_obligation=bool(same))
    return dict(failing_input_found=False, signature='op=%s' % fn, replay_inputs_tried=tried,
                replay_note='the native oracle found no failing input in the neighbourhood of the counterexample')


def run_reproduce(rec, work):
    wd = os.path.join(work, 'replay')
    os.makedirs(wd, exist_ok=True)
    ob = _build_oracle(wd)
    rc, out, dt = _nat.run([ob] + rec['reproduce_args'])
    print(out)
    return 1 if rc else 0
