"""Unit VTB — runtime/runtime_evaluator.cpp: how RuntimeEvaluator::buildClassTable fills a class's method buckets and
its vtable (the loop over the members of a class declaration, method branch).  C08: the vtable entry for a signature the
class declares virtual / override is that class's own method; C12: every vtable entry points to LIVE storage - a pointer
to an element of a growing container is dangling after the container reallocates."""
import re, os
from tools import cxx2c
from tools.cxx2c import Lower, Unsupported, kids, qt, qt_sugar, strip, strip_parens, callee_name, norm_type, walk
from tools.cxx2c import REPO as _REPO

NAME = 'VTB'
SRC = _REPO + '/src/bloch/runtime/runtime_evaluator.cpp'
NAMESPACE = 'bloch::runtime'
FUNCS = []
AST_FILTER = ['RuntimeEvaluator::buildClassTable']
SHIM = 'vtb.h'
THROWING = set()
DROPS = ['region member_methods: in the loop of buildClassTable that populates a class, the range-for over clsNode->members; the field / constructor / destructor branches are ONE opaque event each (they do not touch buckets or vtable); the parameter-type loop of a method and runtimeSignatureLabel are replaced by the uninterpreted signature of the declaration',
         'a method bucket (rc->methods[name]) is an array of at most BMAXV elements with a size and a GENERATION: push_back on a std::vector may reallocate, which starts a new generation (every pointer taken before is dangling); push_back on a std::deque or std::list never does (library contract of the container named in the declaration of RuntimeClass::methods, read from the AST on every run)',
         'a RuntimeMethod* is (bucket, index, generation); dereferencing it asserts the generation is current; the vtable is observed at one arbitrary signature (ghost); the base class\'s buckets are separate, complete storage']
ASSUMPTIONS = ['KNV = 4 method names, BMAXV = 3 overloads per name, MMAXV = 6 members (object-size bounds)',
               'the base class was populated before (unit CTAB) and is not changed here']


class Profile(Lower):
    CLS = 'vtb'
    SELF_T = ''
    IS_METHOD = False
    WRAP_DOUBLE_OPS = False
    TYPE_MAP = [
        (r'^std::unique_ptr<(bloch::compiler::)?(ASTNode|ClassMember|Statement)(, std::default_delete<.*>)?>$', 'bl_member'),
        (r'^(bloch::compiler::)?(ASTNode|ClassMember) \*$', 'bl_member'),
        (r'^(bloch::compiler::)?MethodDeclaration \*$', 'bl_member'),
        (r'^(bloch::runtime::)?RuntimeMethod$', 'RuntimeMethod'),
        (r'^(bloch::runtime::)?RuntimeMethod \*$', 'bl_mptr'),
        (r'^(bloch::runtime::)?RuntimeClass \*$', 'bl_rc'),
        (r'^(std::)?(basic_string<char.*>|string)$', 'bl_cname'),
        (r'^std::(vector|deque|list)<(bloch::runtime::)?RuntimeMethod(, .*)?>$', 'bl_bucket'),
        (r'^std::unordered_map<std::(basic_string<char.*>|string), std::(vector|deque|list)<(bloch::runtime::)?RuntimeMethod.*>::mapped_type$', 'bl_bucket'),
        (r'^std::unordered_map<std::(basic_string<char.*>|string), std::(vector|deque|list)<(bloch::runtime::)?RuntimeMethod.*>::iterator$', 'bl_bit'),
        (r'^std::__detail::_Node_iterator(_base)?<std::pair<(const )?std::(basic_string<char.*>|string), std::(vector|deque|list)<(bloch::runtime::)?RuntimeMethod.*$', 'bl_bit'),
    ]

    def prepare(self, docs, workdir):
        hpp = open(os.path.join(os.path.dirname(SRC), 'runtime_evaluator.hpp')).read()
        m = re.search(r'std::unordered_map<std::string,\s*std::(\w+)<RuntimeMethod>>\s+methods;', hpp)
        if not m or m.group(1) not in ('vector', 'deque', 'list'):
            raise Unsupported('RuntimeClass::methods is no longer a map from name to a vector / deque / list of RuntimeMethod')
        self.container = m.group(1)

    def file_prelude(self):
        return ['#define VTB_PUSH_MAY_REALLOCATE %d   /* RuntimeClass::methods buckets are std::%s */' % (1 if self.container == 'vector' else 0, self.container)]

    def declref(self, n):
        rd = n['referencedDecl']
        if rd.get('kind') == 'EnumConstantDecl':
            return 'BL_' + rd['name']
        return super().declref(n)

    def decl(self, v):
        ct = self.ctype_safe(qt(v))
        init = [i for i in kids(v) if 'kind' in i]
        if ct == 'RuntimeMethod' and (not init or not kids(strip_parens(init[0]))):
            self.locals.add(v['name'])
            return 'RuntimeMethod %s = vtb_method_default();' % v['name']
        if ct == 'bl_bucket' and qt(v).rstrip().endswith('&'):
            self.locals.add(v['name'])
            return 'bl_bucket %s = %s;' % (v['name'], self.expr(init[0]))
        if ct == 'bl_mptr' and init and self.expr(init[0]) == 'BL_NULL':
            self.locals.add(v['name'])
            return 'bl_mptr %s = vtb_null();' % v['name']
        return super().decl(v)

    def member(self, n):
        base = kids(n)[0]
        sb = strip(base)
        nm = n['name']
        if sb.get('kind') == 'CXXOperatorCallExpr' and callee_name(kids(sb)[0]) == 'operator->':
            sb = kids(sb)[1]
        bt = self.ct(sb)
        if bt == 'bl_member' and nm in ('isStatic', 'isVirtual', 'isOverride', 'name'):
            return 'g_md[BL_IDX(%s, MMAXV + 1)].%s' % (self.expr(sb), nm)
        if bt == 'bl_member' and nm == 'params':
            return 'MD_PARAMS(%s)' % self.expr(sb)
        if bt == 'RuntimeMethod':
            if nm == 'params':
                return 'RM_PARAMS'
            return '(%s).%s' % (self.expr(sb), nm)
        if bt == 'bl_mptr' and nm in ('isVirtual', 'isOverride', 'signature', 'isStatic'):
            return 'vtb_deref(%s).%s' % (self.expr(sb), nm)
        if bt == 'bl_rc' and nm in ('methods', 'vtable', 'base'):
            return 'RC_%s(%s)' % (nm, self.expr(sb))
        if bt == 'bl_bit' and nm == 'second':
            return self.expr(sb)
        if sb.get('kind') == 'DeclRefExpr' and sb['referencedDecl']['name'] == 'clsNode' and nm == 'members':
            return 'BL_MEMBERS'
        raise Unsupported('member %s of %s' % (nm, qt(sb)))

    def unary(self, n):
        if n.get('opcode') == '&':
            inner = strip_parens(kids(n)[0])
            e = self.expr(inner)
            if e.startswith('vtb_bucket_back('):
                return 'vtb_ptr_to_back(%s)' % e[len('vtb_bucket_back('):-1]
            if self.ct(inner) == 'RuntimeMethod' and e.startswith('BASE_ELEM('):
                return 'vtb_ptr_to_base(%s)' % e[len('BASE_ELEM('):-1]
        return super().unary(n)

    def opcall(self, n):
        ks = kids(n)
        op = callee_name(ks[0])
        args = ks[1:]
        t0 = self.ct(args[0])
        if op == 'operator[]':
            a0 = self.expr(args[0])
            if a0.startswith('RC_methods(') and a0 == 'RC_methods(rc)':
                return 'vtb_bucket_of(%s)' % self.expr(args[1])
            if a0 == 'RC_vtable(rc)':
                return 'VT_SLOT(%s)' % self.expr(args[1])
        if op == 'operator=' and self.expr(args[0]).startswith('VT_SLOT('):
            return 'vtb_vtable_set(%s, %s)' % (self.expr(args[0])[len('VT_SLOT('):-1], self.expr(args[1]))
        if op == 'operator=' and t0 in ('bl_cname', 'bl_mptr'):
            return '(%s = %s)' % (self.expr(args[0]), self.expr(args[1]))
        if op in ('operator==', 'operator!=') and t0 in ('bl_cname', 'bl_bit'):
            return '(%s %s %s)' % (self.expr(args[0]), op[len('operator'):], self.expr(args[1]))
        if op == 'operator->' and t0 in ('bl_member', 'bl_bit'):
            return self.expr(args[0])
        raise Unsupported('operator %s on %s' % (op, qt(args[0])))

    def binop_assign_ptr(self, n):
        return None

    def cast_other(self, n, ck, inner):
        if ck in ('PointerToBoolean', 'UserDefinedConversion') and self.ct(inner) == 'bl_mptr':
            return '(%s).nonnull' % self.expr(inner)
        if ck in ('PointerToBoolean', 'UserDefinedConversion') and self.ct(inner) == 'bl_rc':
            return '(%s != 0)' % self.expr(inner)
        if ck == 'NullToPointer':
            return 'BL_NULL'
        if ck == 'UserDefinedConversion':
            return self.expr(inner)
        return super().cast_other(n, ck, inner)

    def call_named(self, n, name, args):
        if name == 'runtimeSignatureLabel':
            return 'SIG_OF(m.decl)'          # the label is a function of the declaration (its name and parameter types)
        return super().call_named(n, name, args)

    def membercall(self, n):
        ks = kids(n)
        me = strip(ks[0])
        return self.membercall_other(n, me['name'], kids(me)[0], ks[1:])

    def membercall_other(self, n, name, obj, args):
        t = self.ct(obj)
        if t == 'bl_member' and name == 'get':
            return self.expr(obj)
        o = self.expr(obj)
        if t == 'bl_bucket' and name == 'push_back' and len(args) == 1:
            return 'vtb_bucket_push(%s, %s)' % (o, self.expr(args[0]))
        if t == 'bl_bucket' and name == 'back' and not args:
            return 'vtb_bucket_back(%s)' % o
        if o == 'RC_methods(RC_base(rc))' and name == 'find' and len(args) == 1:
            return 'vtb_base_find(%s)' % self.expr(args[0])
        if o == 'RC_methods(RC_base(rc))' and name == 'end':
            return 'BL_BIT_END'
        raise Unsupported('member call %s on %s' % (name, qt(obj)))

    def if_with_var(self, n, ind):
        p = '  ' * ind
        ks = kids(n)
        if n.get('hasInit') or not n.get('hasVar'):
            raise Unsupported('if with init')
        v = kids(ks[0])[0]
        dc = []
        walk(v, lambda z: dc.append(z) if z.get('kind') == 'CXXDynamicCastExpr' else None)
        if len(dc) != 1:
            raise Unsupported('if with condition variable ' + v.get('name', ''))
        tgt = dc[0].get('type', {}).get('qualType', '')
        src = self.expr(kids(dc[0])[0])
        rest = ks[2:]
        kind = {'FieldDeclaration': 'K_FIELD', 'MethodDeclaration': 'K_METHOD', 'ConstructorDeclaration': 'K_CTOR', 'DestructorDeclaration': 'K_DTOR'}
        k = [kk for nm, kk in kind.items() if nm in tgt]
        if len(k) != 1:
            raise Unsupported('dynamic_cast to ' + tgt)
        out = [p + 'if (MEMBER_KIND(%s) == %s)' % (src, k[0])]
        if k[0] == 'K_METHOD':
            self.locals.add(v['name'])
            out += [p + '{', p + '  bl_member %s = %s;' % (v['name'], src)] + self.block(rest[0], ind + 1) + [p + '}']
        else:
            out += [p + '{', p + '  vtb_other_member_event(%s);   /* %s branch: no bucket, no vtable */' % (src, tgt.replace(' *', '')), p + '}']
        if len(rest) > 1:
            out.append(p + 'else')
            out += self.block(rest[1], ind)
        return out

    def range_for(self, n, ind):
        p = '  ' * ind
        ks = kids(n)
        rng = [k for k in ks if k.get('kind') == 'DeclStmt']
        var = kids(rng[-1])[0]
        rdecl = kids(rng[0])[0]
        init = [i for i in kids(rdecl) if 'kind' in i][0]
        try:
            seq = self.expr(init)
        except Unsupported:
            seq = ''
        body = ks[-1]
        if seq.startswith('MD_PARAMS('):
            return [p + '/* parameter types of the method: dropped (they only feed the signature label) */;']
        if seq == 'BL_MEMBERS':
            n_, at, vt = 'g_nmembers', 'g_members[BL_IDX(%s, MMAXV)]', 'bl_member'
        elif self.ctype_safe(qt(init)) == 'bl_bucket' or seq.startswith('vtb_base_bucket('):
            b = seq
            n_, at, vt = 'BASE_SIZE(%s)' % b, 'BASE_ELEM(%s, %%s)' % b, 'RuntimeMethod'
        else:
            raise Unsupported('range-for over ' + qt(init))
        k = self.loop_k
        self.loop_k += 1
        iv = 'bl_i%d' % k
        self.locals.add(iv)
        self.locals.add(var['name'])
        out = [p + '/*@BEFORELOOP:%s:%d@*/' % (self.fn, k), p + '{', p + '  size_t %s = 0;' % iv,
               p + '  for (; %s < %s; ++%s)' % (iv, n_, iv), p + '    /*@LOOP:%s:%d@*/' % (self.fn, k), p + '  {',
               p + '    /*@LOOPBODY:%s:%d@*/' % (self.fn, k)]
        if vt == 'bl_member':
            out.append(p + '    bl_member %s = %s;' % (var['name'], at % iv))
        else:
            self.cand = (var['name'], at % iv)
        inner = kids(body) if body.get('kind') == 'CompoundStmt' else [body]
        for st in inner:
            out += self.stmt(st, ind + 2)
        out += [p + '  }', p + '}', p + '/*@AFTERLOOP:%s:%d@*/' % (self.fn, k)]
        return out

    def expr(self, n):
        if n.get('kind') == 'BinaryOperator' and n.get('opcode') == '=':
            lhs = self.expr(kids(n)[0])
            if lhs.startswith('VT_SLOT('):
                return 'vtb_vtable_set(%s, %s)' % (lhs[len('VT_SLOT('):-1], self.expr(kids(n)[1]))
        if n.get('kind') == 'DeclRefExpr' and getattr(self, 'cand', None) and n['referencedDecl'].get('name') == self.cand[0]:
            return self.cand[1]
        return super().expr(n)


def lower_regions(docs, prof):
    head = 'void vtb_member_methods(bl_rc rc)'
    try:
        ds = cxx2c.find_functions(docs, 'buildClassTable')
        if len(ds) != 1:
            raise Unsupported('buildClassTable: %d definitions' % len(ds))
        loops = []
        walk(ds[0], lambda z: loops.append(z) if z.get('kind') == 'CXXForRangeStmt' else None)
        tgt = None
        for lp in loops:
            rng = [k for k in kids(lp) if k.get('kind') == 'DeclStmt']
            nm = []
            walk(rng[0], lambda z: nm.append(z.get('name')) if z.get('kind') == 'MemberExpr' else None)
            if 'members' in nm:
                tgt = lp
        if tgt is None:
            raise Unsupported('buildClassTable: no loop over clsNode->members')
        d = dict(kind='FunctionDecl', name='member_methods', type=dict(qualType='void ()'), inner=[dict(kind='CompoundStmt', inner=[tgt])])
        prof.cand = None
        h, lines = prof.func(d, cname='member_methods', is_method=False)
        return [(head, lines)]
    except Unsupported as e:
        prof.region_unlowered = {'member_methods': str(e)}
        return [(head, None)]


GHOSTS = r"""
int bl_exc, bl_exc_line, bl_exc_col;
typedef struct { _Bool isStatic, isVirtual, isOverride; bl_cname name; int kind; } MemberRow;
MemberRow g_md[MMAXV + 1]; bl_member g_members[MMAXV]; size_t g_nmembers;
#define MEMBER_KIND(m) (g_md[BL_IDX(m, MMAXV + 1)].kind)
/* ---- this class's buckets: elements, size, generation */
RuntimeMethod g_b[KNV][BMAXV]; size_t g_bsize[KNV]; unsigned g_gen[KNV];
/* ---- the base class's buckets (complete, never reallocated here) */
RuntimeMethod g_bb[KNV][BMAXV]; size_t g_bbsize[KNV]; _Bool g_base_has[KNV]; bl_rc g_base;
#define RC_base(rc) g_base
#define BASE_SIZE(b) g_bbsize[BL_IDX(b, KNV)]
#define BASE_ELEM(b, i) g_bb[BL_IDX(b, KNV)][BL_IDX(i, BMAXV)]
#define BL_BIT_END (-1)
static inline RuntimeMethod vtb_method_default(void) { RuntimeMethod m; m.decl = 0; m.isStatic = 0; m.isVirtual = 0; m.isOverride = 0; m.signature = 0; m.owner = 0; return m; }
static inline bl_mptr vtb_null(void) { bl_mptr p; p.bucket = 0; p.idx = 0; p.gen = 0; p.nonnull = 0; p.in_base = 0; return p; }
#ifndef NATIVE
_Bool nondet_bool(void);
int __CPROVER_uninterpreted_sig_of(bl_member);
#define SIG_OF(d) __CPROVER_uninterpreted_sig_of(d)
static inline bl_bucket vtb_bucket_of(bl_cname name) { return (bl_bucket)BL_IDX(name, KNV); }
/* container contract: push_back on a std::vector may reallocate - every pointer into it taken before is then dangling */
static inline void vtb_bucket_push(bl_bucket b, RuntimeMethod m) {
  bl_trap(g_bsize[BL_IDX(b, KNV)] < BMAXV, "overload bound BMAXV reached");
  if (VTB_PUSH_MAY_REALLOCATE && nondet_bool()) g_gen[b] = g_gen[b] + 1u;
  g_b[b][g_bsize[b]] = m; g_bsize[b] = g_bsize[b] + 1;
}
#define vtb_bucket_back(b) (b)
static inline bl_mptr vtb_ptr_to_back(bl_bucket b) { bl_mptr p; p.bucket = b; p.idx = g_bsize[BL_IDX(b, KNV)] - 1; p.gen = g_gen[b]; p.nonnull = 1; p.in_base = 0; return p; }
static inline bl_mptr vtb_ptr_to_base(bl_bucket b, size_t i) { bl_mptr p; p.bucket = b; p.idx = i; p.gen = 0; p.nonnull = 1; p.in_base = 1; return p; }
#define PTR_LIVE(p) ((p).nonnull && ((p).in_base ? ((p).bucket >= 0 && (p).bucket < KNV && (p).idx < g_bbsize[(p).bucket]) : ((p).bucket >= 0 && (p).bucket < KNV && (p).idx < g_bsize[(p).bucket] && (p).gen == g_gen[(p).bucket])))
static inline RuntimeMethod vtb_deref(bl_mptr p) { BL_ASSERT(PTR_LIVE(p), "RuntimeMethod* points to live storage"); return p.in_base ? g_bb[p.bucket][p.idx] : g_b[p.bucket][p.idx]; }
static inline bl_bit vtb_base_find(bl_cname name) { return g_base_has[BL_IDX(name, KNV)] ? (bl_bit)name : BL_BIT_END; }
/* the vtable, observed at one arbitrary signature */
int gs; _Bool g_vt_has; bl_mptr g_vt_ptr; int g_others; int g_sig[MMAXV];      /* g_sig[j]: signature of member j, computed once (no calls in loop invariants) */
static inline void vtb_vtable_set(int sig, bl_mptr p) { if (sig == gs) { g_vt_has = 1; g_vt_ptr = p; } }
static inline void vtb_other_member_event(bl_member m) { if (g_others < 1000) g_others = g_others + 1; }
#endif
#define VT_ENTRY_LIVE (!g_vt_has || PTR_LIVE(g_vt_ptr))
#define VT_ENTRY_OWN (!g_vt_has || (!g_vt_ptr.in_base && PTR_LIVE(g_vt_ptr) && g_b[g_vt_ptr.bucket][g_vt_ptr.idx].signature == gs && g_b[g_vt_ptr.bucket][g_vt_ptr.idx].owner == rc))
#define VIRT_MEMBER(j) ((j) < g_nmembers && g_md[g_members[j]].kind == K_METHOD && (g_md[g_members[j]].isVirtual || g_md[g_members[j]].isOverride) && g_sig[j] == gs)
#define DECLARED_BELOW(n) (""" + ' || '.join('(%d < (n) && VIRT_MEMBER(%d))' % (j, j) for j in range(6)) + r""")
#define WF_V (g_nmembers <= MMAXV && """ + ' && '.join('(g_members[%d] >= 1 && g_members[%d] <= MMAXV && g_md[g_members[%d]].name >= 0 && g_md[g_members[%d]].name < KNV)' % (k, k, k, k) for k in range(6)) + ' && ' + ' && '.join('(g_bsize[%d] == 0 && g_bbsize[%d] <= BMAXV)' % (k, k) for k in range(4)) + r""")
"""


def R(t):
    return ('', 'requires', t, [])


def E(label, t, props, **o):
    return (label, 'ensures', t, props, o)


def A(t):
    return ('', 'assigns', t, [])


ST = '__CPROVER_object_whole(g_b), __CPROVER_object_whole(g_bsize), __CPROVER_object_whole(g_gen), g_vt_has, g_vt_ptr, g_others'
SIGS = ' '.join('g_sig[%d] = SIG_OF(g_members[%d]);' % (j, j) for j in range(6))
CONTRACTS = {
    'member_methods': {
        'contract': [
            R('bl_exc == 0 && WF_V && rc >= 1 && !g_vt_has && g_others == 0 && ' + ' && '.join('(g_bsize[%d] + (size_t)(' % k + ' + '.join('((%d < g_nmembers && g_md[g_members[%d]].kind == K_METHOD && g_md[g_members[%d]].name == %d) ? 1 : 0)' % (j, j, j, k) for j in range(6)) + ') <= BMAXV)' for k in range(4))),
            A(ST + ', __CPROVER_object_whole(g_sig)'),
            # C12: when the class is populated, every vtable entry points to live storage (no pointer into a reallocated container)
            E('buildClassTable.vtable_entries_point_to_live_methods', 'VT_ENTRY_LIVE', ['C12', 'C08']),
            # C08: the entry for a signature this class declares virtual / override is this class's own method with that signature
            E('buildClassTable.vtable_entry_is_the_classes_own_method', 'VT_ENTRY_OWN', ['C08']),
            # ... and EVERY method the class declares virtual or override has its entry - also an override whose virtual original is declared further up than the direct base
            E('buildClassTable.every_virtual_or_override_method_gets_its_entry', 'DECLARED_BELOW(g_nmembers) ==> g_vt_has', ['C08']),
        ],
        'prologue': SIGS,
        'loops': {
            0: {'assigns': 'bl_i0, ' + ST,
                'invariants': [('member_methods.loop.bounds', 'bl_i0 <= g_nmembers && ' + ' && '.join('g_bsize[%d] <= BMAXV' % k for k in range(4))),
                               ('member_methods.loop.room_left', ' && '.join('(g_bsize[%d] + (size_t)(' % k + ' + '.join('((%d >= bl_i0 && %d < g_nmembers && g_md[g_members[%d]].kind == K_METHOD && g_md[g_members[%d]].name == %d) ? 1 : 0)' % (j, j, j, j, k) for j in range(6)) + ') <= BMAXV)' for k in range(4))),
                               ('member_methods.loop.entries_live_so_far', 'VT_ENTRY_LIVE && VT_ENTRY_OWN'),
                               ('member_methods.loop.declared_so_far_have_their_entry', 'DECLARED_BELOW(bl_i0) ==> g_vt_has')],
                'decreases': 'g_nmembers - bl_i0'},
            1: {'assigns': 'bl_i1, baseMethod',
                'invariants': [('member_methods.base_lookup.bounds', 'bl_i1 <= g_bbsize[it]')],
                'decreases': 'g_bbsize[it] - bl_i1'},
        },
    },
}
HARNESSES = [
    dict(name='member_methods', fn='member_methods', replace=[], flags=[], props=['C08', 'C12'], timeout=600, unwind=8,
         canaries=[('g_vt_has', 'the observed signature got an entry'), ('g_others > 0', 'a non-method member was seen')]),
]


from tools import native as _nat


def _oracle():
    bd = _nat.repo_build(('bloch',))
    return _nat.run(['python3', os.path.join(_nat.ROOT, 'native', 'vtb_oracle.py'), os.path.join(bd, 'bin', 'bloch'), 'sweep'], timeout=600)


def native_validate(pu, work, tier, seed):
    try:
        rc, out, dt = _oracle()
        js = _nat.last_json(out)
        return dict(unit='VTB', kind='oracle on the real interpreter through the CLI (classes with 1..4 virtual overloads of one name, overridden or not, called through base references; a crash is a failure); no co-execution for this unit', status='agree',
                    oracle_sweep=dict(checks=js.get('oracle_checks'), failures=js.get('oracle_failures'), failing_labels=sorted(set(re.findall(r'FAIL label=(\S+)', out)))), wall_s=round(dt, 1))
    except _nat.Break as e:
        return dict(unit='VTB', status='error', detail=str(e))


def replay_counterexample(pu, h, label, failure, work, tier, seed):
    rc, out, dt = _oracle()
    fails = [l for l in out.split('\n') if l.startswith('FAIL ')]
    if fails:
        m = re.search(r'label=(\S+)', fails[0])
        return dict(failing_input_found=True, failing_input=fails[0][:1500], native_failures=[f[:300] for f in fails[:4]], oracle_label=m.group(1), signature=re.sub(r' program=.*', '', fails[0])[:160],
                    reproduce_args=['sweep'], reproduce='bin/check <property> --replay <this file>', replay_inputs_tried=['sweep'], matched_same_obligation=(m.group(1) == label))
    return dict(failing_input_found=False, replay_inputs_tried=['sweep'], signature='')


def run_reproduce(rec, work):
    rc, out, dt = _oracle()
    print(out)
    return 1 if rc else 0
