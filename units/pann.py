"""Unit PANN — compiler/parser/parser.cpp: the token cursor of the parser (peek, previous, advance, expect, match,
check, checkNext, checkFunctionAnnotation, isAtEnd, reportError) and the annotation prefix parsers
(parseVariableAnnotation, parseFunctionAnnotation, parseAnnotations) — C14: the documented annotations @tracked,
@quantum, @shots(N) are accepted wherever an annotation prefix is parsed; C13: anything else after '@' is exactly one
Parse diagnostic at the offending token, and the cursor never leaves the token vector."""
import re, os
from tools import cxx2c
from tools.cxx2c import Lower, Unsupported, kids, qt, qt_sugar, strip, strip_parens, callee_name, norm_type, walk
from tools.cxx2c import REPO as _REPO

NAME = 'PANN'
SRC = _REPO + '/src/bloch/compiler/parser/parser.cpp'
NAMESPACE = 'bloch::compiler'
FUNCS = ['peek', 'previous', 'isAtEnd', 'advance', 'check', 'checkNext', 'checkFunctionAnnotation', 'match', 'reportError', 'expect',
         'parseVariableAnnotation', 'parseFunctionAnnotation', 'parseAnnotations', 'isTypeAhead']
AST_FILTER = ['Parser::' + f for f in FUNCS] + ['Parser::parseType', 'Parser::parseAssignmentExpression', 'TokenType']
SHIM = 'pann.h'
THROWING = {'reportError', 'expect', 'parseVariableAnnotation', 'parseFunctionAnnotation', 'parseAnnotations', 'parseType_array_size', 'parseAssignmentExpression_head'}
DROPS = ['diagnostic message strings: a std::string that only flows into reportError is not built (category, line, column are kept)',
         'token texts are interned identities; an AnnotationNode is a value {name, value, isVariableAnnotation, isFunctionAnnotation}; the returned vector of nodes is an array of at most ANN_MAX nodes',
         'const Token& results are returned by value (they are only read)',
         'region parseAssignmentExpression_head: the first statement of Parser::parseAssignmentExpression (the Pratt parse of the left operand) and its `if (match(TokenType::Equals))` cut after the first statement of the branch (the parse of the right operand); the construction of the assignment node from the two operands is dropped; parsePrattExpression and the recursive call are ghost-recording models that move the cursor forward inside the token vector or raise a Parse error',
         'region parseType_array_size: in Parser::parseType, the then-branch of `if (check(TokenType::IntegerLiteral))` inside the `while (match(TokenType::LBracket))` loop (conversion of a literal array size); the local arrSize becomes a file-level variable; std::stoi is a model: value and overflow are uninterpreted functions of the (interned) literal text, and - the token being an IntegerLiteral, i.e. digits only - the only exception it can raise is std::out_of_range']
ASSUMPTIONS = ['the token vector is what the lexer delivers: non-empty, ending in exactly one Eof token (proved for the lexer in unit LEX: tokenize.ends_with_eof)',
               'TMAXP = 8 tokens (object-size bound); the annotation loop is proved by a loop contract for any number of annotations up to ANN_MAX']


class Profile(Lower):
    CLS = 'Parser'
    SELF_T = 'Parser'
    IS_METHOD = True
    WRAP_DOUBLE_OPS = False
    TYPE_MAP = [
        (r'^(bloch::compiler::)?Token$', 'Token'), (r'^(bloch::compiler::)?TokenType$', 'int'),
        (r'^std::vector<(bloch::compiler::)?Token(, .*)?>$', 'vec_Token'),
        (r'^(std::)?(basic_string<char.*>|string)$', 'bl_txt'),
        (r'^std::unique_ptr<(bloch::compiler::)?AnnotationNode(, std::default_delete<.*>)?>$', 'AnnotationNode'),
        (r'^std::vector<std::unique_ptr<(bloch::compiler::)?AnnotationNode(, std::default_delete<.*>)?>(, .*)?>$', 'vec_Ann'),
        (r'^(bloch::support::)?BlochError$', 'int'),
        (r'^std::unique_ptr<(bloch::compiler::)?Expression(, std::default_delete<.*>)?>$', 'bl_expr'),
    ]

    def prepare(self, docs, workdir):
        enums = [d for d in docs if d.get('kind') == 'EnumDecl' and d.get('name') == 'TokenType']
        if not enums:
            raise Unsupported('enum TokenType not found')
        self.enum = [c['name'] for c in kids(enums[0]) if c.get('kind') == 'EnumConstantDecl']

    def file_prelude(self):
        return ['enum { %s };' % ', '.join('BL_' + e for e in self.enum)]

    def func(self, d, cname=None, is_method=True):
        # strings that only flow into reportError(...) are diagnostic text: not built
        self.msg_only = set()
        decls = {}
        uses = {}

        def rec(n, in_report):
            if not isinstance(n, dict):
                return
            k = n.get('kind')
            if k == 'VarDecl' and self.ctype_safe(qt(n)) == 'bl_txt':
                decls[n.get('id')] = n.get('name')
            here = in_report
            if k == 'CXXMemberCallExpr' and strip(kids(n)[0]).get('name') == 'reportError':
                here = True
            if k == 'DeclRefExpr' and n.get('referencedDecl', {}).get('kind') == 'VarDecl':
                uses.setdefault(n['referencedDecl'].get('id'), []).append(here)
            for c in kids(n):
                rec(c, here)
        rec(d, False)
        for i, nm in decls.items():
            if uses.get(i) and all(uses[i]):
                self.msg_only.add(nm)
        return super().func(d, cname=cname, is_method=is_method)

    def decl(self, v):
        init0 = [i for i in kids(v) if 'kind' in i]
        if init0 and strip_parens(init0[0]).get('kind') == 'LambdaExpr':
            self.hoist_lambda(v['name'], strip_parens(init0[0]))
            self.locals.add(v['name'])
            return '/* lambda %s hoisted to Parser_%s_%s */;' % (v['name'], self.fn, v['name'])
        if v.get('name') in getattr(self, 'msg_only', set()):
            self.locals.add(v['name'])
            return '/* %s: diagnostic text only, not built */;' % v['name']
        ct = self.ctype_safe(qt(v))
        init = [i for i in kids(v) if 'kind' in i]
        if ct == 'Token' and (not init or (strip_parens(init[0]).get('kind') == 'CXXConstructExpr' and not kids(strip_parens(init[0])))):
            self.locals.add(v['name'])
            return 'Token %s = bl_token_default();' % v['name']
        if ct == 'vec_Ann' and (not init or not kids(strip_parens(init[0]))):
            self.locals.add(v['name'])
            return 'vec_Ann %s; %s.size = 0;' % (v['name'], v['name'])
        return super().decl(v)

    def hoist_lambda(self, name, lam):
        """a [&] lambda that captures only `this`: lowered to a function of (self, parameters); a `T&` parameter becomes a pointer"""
        rec = [k for k in kids(lam) if k.get('kind') == 'CXXRecordDecl'][0]
        call = [m for m in kids(rec) if m.get('kind') == 'CXXMethodDecl' and m.get('name') == 'operator()'][0]
        body = [k for k in kids(lam) if k.get('kind') == 'CompoundStmt'][-1]
        params = [pd for pd in kids(call) if pd.get('kind') == 'ParmVarDecl']
        caps = []
        walk(body, lambda z: caps.append(z['referencedDecl'].get('name')) if z.get('kind') == 'DeclRefExpr' and z['referencedDecl'].get('kind') == 'VarDecl' else None)
        declared = []
        walk(body, lambda z: declared.append(z.get('name')) if z.get('kind') == 'VarDecl' else None)
        free = set(caps) - set(declared)
        if free:
            raise Unsupported('lambda %s captures locals %s' % (name, sorted(free)))
        saved = (self.fn, self.loop_k, self.locals, self.tmpn, self.rt, self.ret0, self.needs_prop, self.pre, getattr(self, 'ptr_params', set()))
        outer = self.fn
        self.fn = outer + '_' + name
        self.loop_k = 0
        self.locals = set(pd['name'] for pd in params)
        self.rt = 'void'
        self.ret0 = ''
        self.ptr_params = set(pd['name'] for pd in params if qt(pd).rstrip().endswith('&') and not qt(pd).strip().startswith('const'))
        lines = self.stmt(body, 0)
        lines = [lines[0], '  /*@PROLOGUE:%s@*/' % self.fn] + lines[1:]
        ps = ['struct Parser *self'] + ['%s %s%s' % (self.ctype(qt(pd)), '*' if pd['name'] in self.ptr_params else '', pd['name']) for pd in params]
        head = 'void Parser_%s(%s)' % (self.fn, ', '.join(ps))
        self.fn_loops[self.fn] = self.loop_k
        self.fn_locals[self.fn] = set(self.locals)
        self.hoisted = getattr(self, 'hoisted', []) + [(head, ['/*@CONTRACT:%s@*/' % self.fn] + lines)]
        self.lambda_fns = getattr(self, 'lambda_fns', {})
        self.lambda_fns[name] = ('Parser_%s' % self.fn, [pd['name'] in self.ptr_params for pd in params])
        (self.fn, self.loop_k, self.locals, self.tmpn, self.rt, self.ret0, self.needs_prop, self.pre, self.ptr_params) = saved

    def declref(self, n):
        if n['referencedDecl']['name'] in getattr(self, 'ptr_params', set()) and n['referencedDecl'].get('kind') == 'ParmVarDecl':
            return '(*%s)' % n['referencedDecl']['name']
        return super().declref(n)

    def string_literal(self, n):
        return 'bl_txt_lit(%s)' % ('0' if n['value'] == '""' else '1')

    def construct(self, n):
        ct = self.ctype_safe(qt(n))
        args = [a for a in kids(n) if a.get('kind') != 'CXXDefaultArgExpr']
        if ct in ('Token', 'AnnotationNode', 'bl_txt', 'vec_Ann') and len(args) == 1:
            return self.expr(args[0])
        if ct == 'bl_txt' and not args:
            return 'bl_txt_lit(0)'
        if ct == 'int' and 'BlochError' in qt(n):
            return '0'
        if ct == 'bl_expr' and len(args) == 1:
            return self.expr(args[0])
        raise Unsupported('ctor %s/%d' % (qt(n), len(args)))

    def initlist(self, n):
        if self.ctype_safe(qt(n)) == 'bl_txt':
            ks = kids(n)
            return self.expr(ks[0]) if ks else 'bl_txt_lit(0)'
        return super().initlist(n)

    def cast(self, n):
        if n.get('castKind') == 'ArrayToPointerDecay' and strip_parens(kids(n)[0]).get('kind') == 'StringLiteral':
            return self.expr(kids(n)[0])
        if n.get('kind') == 'CXXFunctionalCastExpr' and self.ctype_safe(qt(n)) == 'bl_txt':
            return self.expr(kids(n)[0])
        return super().cast(n)

    def opcall(self, n):
        ks = kids(n)
        op = callee_name(ks[0])
        args = ks[1:]
        t0 = self.ct(args[0])
        if op == 'operator()' and strip_parens(args[0]).get('kind') == 'DeclRefExpr' and strip_parens(args[0])['referencedDecl']['name'] in getattr(self, 'lambda_fns', {}):
            fnm, isptr = self.lambda_fns[strip_parens(args[0])['referencedDecl']['name']]
            return '%s(%s)' % (fnm, ', '.join(['self'] + [('&' + self.expr(a)) if isptr[k] else self.expr(a) for k, a in enumerate(args[1:])]))
        if op == 'operator[]' and t0 == 'vec_Token':
            return 'VEC_AT(%s, %s)' % (self.expr(args[0]), self.expr(args[1]))
        if op == 'operator=' and t0 in ('bl_txt', 'Token'):
            return '(%s = %s)' % (self.expr(args[0]), self.expr(args[1]))
        if op == 'operator->' and t0 == 'AnnotationNode':
            return self.expr(args[0])
        if op == 'operator+' and self.ct(n) == 'bl_txt':
            raise Unsupported('string concatenation outside a diagnostic message')
        raise Unsupported('operator %s on %s' % (op, qt(args[0])))

    def member(self, n):
        base = kids(n)[0]
        sb = strip(base)
        if sb.get('kind') == 'CXXOperatorCallExpr' and callee_name(kids(sb)[0]) == 'operator->':
            return '(%s).%s' % (self.expr(sb), n['name'])
        return super().member(n)

    def call_named(self, n, name, args):
        if name == 'stoi' and args and self.ct(args[0]) == 'bl_txt' and all(a.get('kind') == 'CXXDefaultArgExpr' for a in args[1:]):
            self.needs_prop = True
            return 'pann_stoi(%s)' % self.expr(args[0])
        if name == 'make_unique' and 'AnnotationNode' in qt(n):
            return 'bl_ann_default()'
        if name == 'move':
            return self.expr(args[0])
        return super().call_named(n, name, args)

    def self_call(self, name, args):
        if name == 'reportError':
            self.needs_prop = True
            return 'Parser_reportError(self)'           # the message text is dropped
        if name == 'expect':
            self.needs_prop = True
            return 'Parser_expect(self, %s)' % self.arg(args[0])
        return super().self_call(name, args)

    def membercall_other(self, n, name, obj, args):
        if strip(obj).get('kind') == 'CXXThisExpr' and self.fn == 'parseAssignmentExpression_head' and name in ('parsePrattExpression', 'parseAssignmentExpression'):
            self.needs_prop = True
            if name == 'parsePrattExpression':
                return 'pann_parsePrattExpression(self, %s)' % self.expr(args[0])
            return 'pann_parseAssignmentExpression_rec(self)'
        t = self.ct(obj)
        o = self.expr(obj)
        if t == 'vec_Token':
            if name == 'size':
                return 'VEC_SIZE(%s)' % o
            if name == 'back':
                return 'VEC_AT(%s, VEC_SIZE(%s) - 1)' % (o, o)
        if t == 'bl_txt' and name == 'empty':
            return '((%s).id == 0)' % o
        if t == 'vec_Ann' and name == 'push_back' and len(args) == 1:
            return 'vec_Ann_push_back(&%s, %s)' % (o, self.expr(args[0]))
        raise Unsupported('member call %s on %s' % (name, qt(obj)))

    def head_only(self, d, cname=None, is_method=True):
        h = super().head_only(d, cname, is_method)
        return self.fix_head(h)

    def fix_head(self, h):
        # message parameters are dropped
        h = re.sub(r',\s*bl_txt (message|msg)\b', '', h)
        h = re.sub(r'\(struct Parser \*self, bl_txt (message|msg)\)', '(struct Parser *self)', h)
        return h


def lower(docs, prof):
    """like the default lowering, with the message parameters removed from the prototypes"""
    protos, bodies, unlowered = [], [], {}
    for fn in FUNCS:
        ds = cxx2c.find_functions(docs, fn)
        if len(ds) != 1:
            raise Unsupported('function %s: %d definitions found' % (fn, len(ds)))
        try:
            head, lines = prof.func(ds[0], is_method=True)
            head = prof.fix_head(head)
        except Unsupported as e:
            unlowered[fn] = 'EXTRACTION BREAK (PANN::%s): %s' % (fn, e)
            head = prof.head_only(ds[0], is_method=True)
            lines = None
        for hh, hl in getattr(prof, 'hoisted', []):
            protos.append(hh + ';')
            bodies.append([hh] + hl)
        prof.hoisted = []
        protos.append(head + ';')
        if lines is not None:
            bodies.append([head] + lines)
    # region parseAssignmentExpression_head: left operand, '=', right operand
    heada = 'bl_expr Parser_parseAssignmentExpression_head(struct Parser *self)'
    try:
        ds = cxx2c.find_functions(docs, 'parseAssignmentExpression')
        if len(ds) != 1:
            raise Unsupported('parseAssignmentExpression: %d definitions' % len(ds))
        body = [k for k in kids(ds[0]) if k.get('kind') == 'CompoundStmt'][0]
        st = kids(body)
        if len(st) < 3 or st[0].get('kind') != 'DeclStmt' or st[1].get('kind') != 'IfStmt' or st[-1].get('kind') != 'ReturnStmt':
            raise Unsupported('parseAssignmentExpression: no longer `left = ...; if (match(=)) {...} return left;`')
        ifs = dict(st[1])
        thenb = kids(ifs)[1]
        first = kids(thenb)[0] if thenb.get('kind') == 'CompoundStmt' and kids(thenb) else None
        if first is None or first.get('kind') != 'DeclStmt':
            raise Unsupported('parseAssignmentExpression: the `=` branch no longer starts with the parse of the right operand')
        then2 = dict(thenb)
        then2['inner'] = [first]
        ifs['inner'] = [kids(ifs)[0], then2]
        body2 = dict(body)
        body2['inner'] = [st[0], ifs, st[-1]]
        d = dict(kind='FunctionDecl', name='parseAssignmentExpression_head', type=dict(qualType='std::unique_ptr<bloch::compiler::Expression> ()'), inner=[body2])
        h3, lines3 = prof.func(d, cname='parseAssignmentExpression_head', is_method=True)
        protos.append(heada + ';')
        bodies.append([heada] + lines3)
    except Unsupported as e:
        unlowered['parseAssignmentExpression_head'] = 'EXTRACTION BREAK (PANN::parseAssignmentExpression_head): %s' % e
        protos.append(heada + ';')
    # region parseType_array_size: conversion of the literal size in `T[123]`
    head = 'void Parser_parseType_array_size(struct Parser *self)'
    try:
        ds = cxx2c.find_functions(docs, 'parseType')
        if len(ds) != 1:
            raise Unsupported('parseType: %d definitions' % len(ds))
        ifs = []
        walk(ds[0], lambda z: ifs.append(z) if z.get('kind') == 'IfStmt' else None)
        tgt = None
        for st in ifs:
            cond = strip_parens(strip(kids(st)[0]))
            names = []
            walk(cond, lambda z: names.append(z['referencedDecl'].get('name')) if z.get('kind') == 'DeclRefExpr' else None)
            tries = []
            walk(kids(st)[1], lambda z: tries.append(z) if z.get('kind') == 'CXXTryStmt' else None)
            if cond.get('kind') == 'CXXMemberCallExpr' and strip(kids(cond)[0]).get('name') == 'check' and 'IntegerLiteral' in names and tries:
                tgt = st
                break
        if tgt is None:
            raise Unsupported('parseType: `if (check(TokenType::IntegerLiteral)) { ... try ... }` not found')
        d = dict(kind='FunctionDecl', name='parseType_array_size', type=dict(qualType='void ()'), inner=[kids(tgt)[1]])
        h2, lines = prof.func(d, cname='parseType_array_size', is_method=True)
        protos.append(head + ';')
        bodies.append([head] + lines)
    except Unsupported as e:
        unlowered['parseType_array_size'] = 'EXTRACTION BREAK (PANN::parseType_array_size): %s' % e
        protos.append(head + ';')
    prof.fn_unlowered = unlowered
    return dict(protos=protos, bodies=bodies, profile=prof, unlowered=unlowered)



TMAXN = 8
GHOSTS = r"""
int bl_exc, bl_exc_line, bl_exc_col;
#define EXC_PARSE BL_EXC(BL_Parse)
#define TK (self->m_tokens)
#define CUR (self->m_current)
/* the token vector the lexer delivers: non-empty, exactly one Eof, at the end; the cursor is on a token */
#define WF_PAR (TK.size >= 1 && TK.size <= TMAXP && CUR < TK.size && """ + ' && '.join('(%d >= TMAXP || ((%d + 1 >= TK.size) ? (%d >= TK.size || TK.data[%d %% TMAXP].type == BL_Eof) : TK.data[%d %% TMAXP].type != BL_Eof))' % (j, j, j, j, j) for j in range(TMAXN)) + r""")
#define TY(k) (((k) < TK.size) ? TK.data[(k) < TMAXP ? (k) : 0].type : BL_Eof)
#define TXT(k) (TK.data[(k) < TMAXP ? (k) : 0].value.id)
#define AT_TOKEN(k) (bl_exc == EXC_PARSE && bl_exc_line == TK.data[(k) < TMAXP ? (k) : 0].line && bl_exc_col == TK.data[(k) < TMAXP ? (k) : 0].column)
size_t g_c0;                      /* ghost: cursor on entry */
/* region parseType_array_size: std::stoi on the text of an IntegerLiteral token (digits only: std::invalid_argument is impossible) */
int bl_exc_kind; int arrSize;
/* region parseAssignmentExpression_head: ghost record of the two operand parses */
typedef int bl_expr;
int g_pratt_calls, g_pratt_minbp, g_rec_calls; size_t g_rec_at, g_after_left;
#ifndef NATIVE
int __CPROVER_uninterpreted_stoi_val(int); _Bool __CPROVER_uninterpreted_stoi_oor(int);
#define STOI_VAL(id) __CPROVER_uninterpreted_stoi_val(id)
#define STOI_OOR(id) __CPROVER_uninterpreted_stoi_oor(id)
size_t nondet_size_t(void); _Bool nondet_bool(void);
/* an operand parser: consumes some tokens (stays inside the vector, never passes Eof) or raises a Parse error */
static inline void pann_consume_some(struct Parser *self) { size_t k = nondet_size_t(); if (k >= CUR && k < TK.size) CUR = k; if (nondet_bool()) { bl_throw(BL_Parse, TK.data[CUR < TMAXP ? CUR : 0].line, TK.data[CUR < TMAXP ? CUR : 0].column); } }
static inline bl_expr pann_parsePrattExpression(struct Parser *self, int minBp) { if (g_pratt_calls == 0) g_pratt_minbp = minBp; if (g_pratt_calls < 10) g_pratt_calls = g_pratt_calls + 1; pann_consume_some(self); if (g_pratt_calls == 1) g_after_left = CUR; return 1; }
static inline bl_expr pann_parseAssignmentExpression_rec(struct Parser *self) { if (g_rec_calls == 0) g_rec_at = CUR; if (g_rec_calls < 10) g_rec_calls = g_rec_calls + 1; pann_consume_some(self); return 2; }
static inline int pann_stoi(bl_txt t) { if (STOI_OOR(t.id)) { bl_exc = BL_EXC_STD; bl_exc_kind = BL_STD_OUT_OF_RANGE; bl_exc_line = 0; bl_exc_col = 0; return 0; } return STOI_VAL(t.id); }
#endif
"""
RET = '__CPROVER_return_value'


def R(t):
    return ('', 'requires', t, [])


def E(label, t, props, **o):
    return (label, 'ensures', t, props, o)


def A(t):
    return ('', 'assigns', t, [])


FRESH = 'bl_exc == 0 && __CPROVER_is_fresh(self, sizeof(struct Parser)) && WF_PAR'
C0 = '__CPROVER_old(CUR)'
SHOTS_SEQ = '(TY(C0X + 1) == BL_Shots && TY(C0X + 2) == BL_LParen && TY(C0X + 3) == BL_IntegerLiteral && TY(C0X + 4) == BL_RParen)'
CONTRACTS = {
    'advance': {'contract': [R(FRESH + ' && (CUR >= 1 || TY(CUR) != BL_Eof)'), A('CUR'),
                             E('parser.cursor.advance_moves_one_token_and_stays_inside', 'CUR < TK.size && (CUR == %s + 1 || (CUR == %s && TY(CUR) == BL_Eof))' % (C0, C0), ['C13', 'C12'])]},
    'expect': {'contract': [R(FRESH), A('CUR, bl_exc, bl_exc_line, bl_exc_col'),
                            E('parser.cursor.expect_consumes_the_token_or_reports_it', '(TY(%s) == type && type != BL_Eof) ? (bl_exc == 0 && CUR == %s + 1 && %s.type == type) : (AT_TOKEN(%s) && CUR == %s)' % (C0, C0, RET, C0, C0), ['C13', 'C14'])]},
    'parseVariableAnnotation': {'contract': [
        R(FRESH), A('CUR, bl_exc, bl_exc_line, bl_exc_col'),
        E('parseVariableAnnotation.accepts_at_tracked', '(TY(%s) == BL_At && TY(%s + 1) == BL_Tracked) ==> (bl_exc == 0 && CUR == %s + 2 && %s.isVariableAnnotation && !%s.isFunctionAnnotation && %s.name.id == TXT(%s + 1))' % (C0, C0, C0, RET, RET, RET, C0), ['C14']),
        E('parseVariableAnnotation.anything_else_is_one_parse_error_at_the_token', '!(TY(%s) == BL_At && TY(%s + 1) == BL_Tracked) ==> (TY(%s) == BL_At ? AT_TOKEN(%s + 1 < TK.size ? %s + 1 : %s) : AT_TOKEN(%s))' % (C0, C0, C0, C0, C0, C0, C0), ['C13', 'C14']),
    ]},
    'parseFunctionAnnotation': {'contract': [
        R(FRESH), A('CUR, bl_exc, bl_exc_line, bl_exc_col'),
        E('parseFunctionAnnotation.accepts_at_quantum', '(TY(%s) == BL_At && TY(%s + 1) == BL_Quantum) ==> (bl_exc == 0 && CUR == %s + 2 && %s.isFunctionAnnotation && !%s.isVariableAnnotation && %s.name.id == TXT(%s + 1) && %s.value.id == 0)' % (C0, C0, C0, RET, RET, RET, C0, RET), ['C14']),
        E('parseFunctionAnnotation.accepts_at_shots_n', ('(TY(C0X) == BL_At && ' + SHOTS_SEQ + ') ==> (bl_exc == 0 && CUR == C0X + 5 && RETX.isFunctionAnnotation && RETX.name.id == TXT(C0X + 1) && RETX.value.id == TXT(C0X + 3))').replace('C0X', C0).replace('RETX', RET), ['C14', 'C17']),
        E('parseFunctionAnnotation.anything_else_is_one_parse_error', ('!(TY(C0X) == BL_At && (TY(C0X + 1) == BL_Quantum || ' + SHOTS_SEQ + ')) ==> bl_exc == EXC_PARSE').replace('C0X', C0), ['C13', 'C14']),
    ]},
    'parseAnnotations': {'contract': [
        R(FRESH), A('CUR, bl_exc, bl_exc_line, bl_exc_col, g_c0'),
        E('parseAnnotations.only_parse_errors', 'bl_exc == 0 || bl_exc == EXC_PARSE', ['C13', 'C14']),
        E('parseAnnotations.no_annotation_consumes_nothing', '(TY(%s) != BL_At) ==> (bl_exc == 0 && CUR == %s && %s.size == 0)' % (C0, C0, RET), ['C14']),
        # C14: each documented annotation is accepted as an annotation prefix
        E('parseAnnotations.accepts_tracked', '(TY(%s) == BL_At && TY(%s + 1) == BL_Tracked && TY(%s + 2) != BL_At) ==> (bl_exc == 0 && CUR == %s + 2 && %s.size == 1 && %s.data[0].isVariableAnnotation && %s.data[0].name.id == TXT(%s + 1))' % (C0, C0, C0, C0, RET, RET, RET, C0), ['C14']),
        E('parseAnnotations.accepts_quantum', '(TY(%s) == BL_At && TY(%s + 1) == BL_Quantum && TY(%s + 2) != BL_At) ==> (bl_exc == 0 && CUR == %s + 2 && %s.size == 1 && %s.data[0].isFunctionAnnotation && %s.data[0].name.id == TXT(%s + 1))' % (C0, C0, C0, C0, RET, RET, RET, C0), ['C14']),
        E('parseAnnotations.accepts_shots_n', ('(TY(C0X) == BL_At && ' + SHOTS_SEQ + ' && TY(C0X + 5) != BL_At) ==> (bl_exc == 0 && CUR == C0X + 5 && RETX.size == 1 && RETX.data[0].isFunctionAnnotation && RETX.data[0].value.id == TXT(C0X + 3))').replace('C0X', C0).replace('RETX', RET), ['C14', 'C17']),
        E('parseAnnotations.unknown_annotation_is_rejected', ('(TY(C0X) == BL_At && TY(C0X + 1) != BL_Tracked && TY(C0X + 1) != BL_Quantum && TY(C0X + 1) != BL_Shots) ==> bl_exc == EXC_PARSE').replace('C0X', C0), ['C13', 'C14']),
    ],
        'prologue': 'g_c0 = CUR;',
        'loops': {0: {'assigns': 'CUR, bl_exc, bl_exc_line, bl_exc_col, __CPROVER_object_whole(&annotations)',
                      'invariants': [('parseAnnotations.loop.bounds', 'bl_exc == 0 && CUR < TK.size && CUR >= g_c0 && annotations.size <= ANN_MAX && 2 * annotations.size <= CUR - g_c0'),
                                     ('parseAnnotations.loop.nothing_yet', '(annotations.size == 0) == (CUR == g_c0)'),
                                     ('parseAnnotations.loop.more_only_after_another_at', '(annotations.size >= 2) ==> (TY(g_c0 + 1) == BL_Shots ? TY(g_c0 + 5) == BL_At : TY(g_c0 + 2) == BL_At)'),
                                     ('parseAnnotations.loop.first_is_documented', '(annotations.size >= 1) ==> (TY(g_c0) == BL_At && (TY(g_c0 + 1) == BL_Tracked || TY(g_c0 + 1) == BL_Quantum || TY(g_c0 + 1) == BL_Shots))'),
                                     ('parseAnnotations.loop.first_is_tracked', '(annotations.size >= 1 && TY(g_c0 + 1) == BL_Tracked) ==> (annotations.data[0].isVariableAnnotation && annotations.data[0].name.id == TXT(g_c0 + 1) && (annotations.size == 1) == (CUR == g_c0 + 2))'),
                                     ('parseAnnotations.loop.first_is_quantum', '(annotations.size >= 1 && TY(g_c0 + 1) == BL_Quantum) ==> (annotations.data[0].isFunctionAnnotation && annotations.data[0].name.id == TXT(g_c0 + 1) && (annotations.size == 1) == (CUR == g_c0 + 2))'),
                                     ('parseAnnotations.loop.first_is_shots', '(annotations.size >= 1 && TY(g_c0 + 1) == BL_Shots) ==> (annotations.data[0].isFunctionAnnotation && annotations.data[0].value.id == TXT(g_c0 + 3) && (annotations.size == 1) == (CUR == g_c0 + 5))')],
                      'decreases': 'TK.size - CUR'}},
    },
}
CONTRACTS['parseType_array_size'] = {
    'contract': [
        R(FRESH + ' && TY(CUR) == BL_IntegerLiteral'), A('CUR, bl_exc, bl_exc_line, bl_exc_col, bl_exc_kind, arrSize'),
        # C13: a size literal too large for an int is a Parse diagnostic, never the raw std::out_of_range of std::stoi
        E('parseType.array_size.only_parse_errors', 'bl_exc == 0 || bl_exc == EXC_PARSE', ['C13']),
        E('parseType.array_size.too_large_a_literal_is_reported', 'STOI_OOR(TXT(%s)) ==> bl_exc == EXC_PARSE' % C0, ['C13']),
        E('parseType.array_size.value_is_the_literals', '!STOI_OOR(TXT(%s)) ==> (bl_exc == 0 && arrSize == STOI_VAL(TXT(%s)) && CUR == %s + 1)' % (C0, C0, C0), ['C13', 'C14']),
    ],
}
CONTRACTS['parseAssignmentExpression_head'] = {
    'contract': [
        R(FRESH + ' && g_pratt_calls == 0 && g_rec_calls == 0'), A('CUR, bl_exc, bl_exc_line, bl_exc_col, g_pratt_calls, g_pratt_minbp, g_rec_calls, g_rec_at, g_after_left'),
        E('parseAssignmentExpression.only_parse_errors', 'bl_exc == 0 || bl_exc == EXC_PARSE', ['C13']),
        # C14 (grammar: assignmentExpression = logicalOr [ "=" assignmentExpression ]): the left operand is a full Pratt expression, and
        # after an `=` the right operand is again an ASSIGNMENT expression (right associative: a = b = c), parsed from the token after the `=`
        E('parseAssignmentExpression.left_operand_is_a_full_expression', 'g_pratt_calls >= 1 && g_pratt_minbp == 0', ['C14']),
        E('parseAssignmentExpression.right_operand_is_an_assignment_expression', '(bl_exc == 0 && TY(g_after_left) == BL_Equals) ==> (g_rec_calls == 1 && g_rec_at == g_after_left + 1 && g_pratt_calls == 1)', ['C14']),
        E('parseAssignmentExpression.no_equals_no_right_operand', '(g_pratt_calls >= 1 && TY(g_after_left) != BL_Equals) ==> (g_rec_calls == 0 && g_pratt_calls == 1 && CUR == g_after_left)', ['C14']),
    ],
}
PRIM_TYPES = ['Void', 'Int', 'Float', 'Long', 'Char', 'String', 'Bit', 'Qubit', 'Boolean']
IS_PRIM_TOK = '(' + ' || '.join('TY(CUR) == BL_%s' % t for t in PRIM_TYPES) + ')'
CONTRACTS['isTypeAhead_skipTypeArgs'] = {
    'contract': [
        R('bl_exc == 0 && __CPROVER_is_fresh(self, sizeof(struct Parser)) && WF_PAR && __CPROVER_is_fresh(i, sizeof(size_t)) && *i < TK.size'),
        A('*i, g_i0'),
        E('isTypeAhead.skipTypeArgs.stays_inside_the_token_vector', '*i >= __CPROVER_old(*i) && *i < TK.size', ['C13', 'C12']),
        E('isTypeAhead.skipTypeArgs.moves_only_onto_a_closing_angle', '(*i != __CPROVER_old(*i)) ==> (TY(__CPROVER_old(*i) + 1) == BL_Less && TY(*i) == BL_Greater)', ['C14']),
    ],
    'loops': {0: {'assigns': 'j, depth, *i',
                  'invariants': [('skipTypeArgs.loop.bounds', 'j >= g_i0 + 1 && j <= TK.size && depth >= 0 && (size_t)depth <= j - g_i0 && *i == g_i0 && (j > g_i0 + 1 ==> depth >= 1)')],
                  'decreases': 'TK.size - j'}},
    'prologue': 'g_i0 = *i;',
}
CONTRACTS['isTypeAhead'] = {
    'contract': [
        R(FRESH), A('g_i0'),
        # C13: the look-ahead never leaves the token vector, terminates (three loops with decreases clauses) and does not move the cursor
        E('isTypeAhead.cursor_not_moved', 'CUR == %s' % C0, ['C13', 'C14']),
        E('isTypeAhead.primitive_type_keyword_starts_a_declaration', IS_PRIM_TOK + ' ==> %s' % RET, ['C14']),
        E('isTypeAhead.only_type_keywords_and_identifiers_can_start_one', '(!' + IS_PRIM_TOK + ' && TY(CUR) != BL_Identifier) ==> !%s' % RET, ['C14']),
        E('isTypeAhead.name_followed_by_name_is_a_declaration', '(TY(CUR) == BL_Identifier && TY(CUR + 1) == BL_Identifier) ==> %s' % RET, ['C14']),
    ],
    'loops': {0: {'assigns': 'idx', 'invariants': [('isTypeAhead.dots.bounds', 'idx >= CUR && idx < TK.size && TY(idx) == BL_Identifier')], 'decreases': 'TK.size - idx'},
              1: {'assigns': 'j', 'invariants': [('isTypeAhead.brackets.bounds', 'j >= idx + 2 && j <= TK.size')], 'decreases': 'TK.size - j'}},
}
GHOSTS += 'size_t g_i0;\n'
PARSERS = ['peek', 'previous', 'isAtEnd', 'advance', 'check', 'checkNext', 'match', 'reportError', 'expect']
HARNESSES = [
    dict(name='isTypeAhead_skipTypeArgs', fn='isTypeAhead_skipTypeArgs', replace=[], flags=[], props=['C13', 'C14', 'C12'], timeout=300, unwind=10, canaries=[('1', 'return')],
         cbmc_args=['--sat-solver', 'cadical'], bounded_cbmc_args=['--sat-solver', 'cadical'], second_solver=False),
    dict(name='isTypeAhead', fn='isTypeAhead', replace=['isTypeAhead_skipTypeArgs'], flags=[], props=['C13', 'C14', 'C12'], timeout=300, unwind=10,
         canaries=[('1', 'return')]),
    dict(name='parseType_array_size', fn='parseType_array_size', replace=[], flags=[], props=['C13', 'C14', 'C12'], timeout=300,
         canaries=[('bl_exc == 0', 'converted'), ('bl_exc != 0', 'reported')]),
    dict(name='parseAssignmentExpression_head', fn='parseAssignmentExpression_head', replace=[], flags=[], props=['C14', 'C13', 'C12'], timeout=300,
         canaries=[('bl_exc == 0 && g_rec_calls == 1', 'an assignment was parsed'), ('bl_exc == 0 && g_rec_calls == 0', 'a plain expression was parsed')]),
    dict(name='advance', fn='advance', replace=[], flags=[], props=['C13', 'C12'], timeout=120, canaries=[('1', 'return')]),
    dict(name='expect', fn='expect', replace=[], flags=[], props=['C13', 'C14', 'C12'], timeout=120, canaries=[('bl_exc == 0', 'consumed'), ('bl_exc != 0', 'reported')]),
    dict(name='parseVariableAnnotation', fn='parseVariableAnnotation', replace=[], flags=[], props=['C14', 'C13', 'C12'], timeout=300, canaries=[('bl_exc == 0', 'accepted'), ('bl_exc != 0', 'rejected')]),
    dict(name='parseFunctionAnnotation', fn='parseFunctionAnnotation', replace=[], flags=[], props=['C14', 'C13', 'C17', 'C12'], timeout=300, canaries=[('bl_exc == 0', 'accepted'), ('bl_exc != 0', 'rejected')]),
    dict(name='parseAnnotations', fn='parseAnnotations', replace=['parseVariableAnnotation', 'parseFunctionAnnotation'], flags=[], props=['C14', 'C13', 'C17'], timeout=900, cbmc_args=['--sat-solver', 'cadical'], bounded_cbmc_args=['--sat-solver', 'cadical'], bounded_timeout=300, second_solver=False, unwind=6, bounded_defs=['TMAXP=8'],
         canaries=[('bl_exc == 0', 'accepted'), ('bl_exc != 0', 'rejected')]),
]


from tools import native as _nat


def _oracle():
    bd = _nat.repo_build(('bloch',))
    return _nat.run(['python3', os.path.join(_nat.ROOT, 'native', 'pann_oracle.py'), os.path.join(bd, 'bin', 'bloch'), 'sweep'], timeout=900)


def native_validate(pu, work, tier, seed):
    try:
        rc, out, dt = _oracle()
        js = _nat.last_json(out)
        return dict(unit='PANN', kind='oracle on the real front end through the CLI (documented annotations on functions, methods - before and after the modifiers -, variables and fields; unknown annotations); no co-execution for this unit', status='agree',
                    oracle_sweep=dict(checks=js.get('oracle_checks'), failures=js.get('oracle_failures'), failing_labels=sorted(set(re.findall(r'FAIL label=(\S+)', out)))), wall_s=round(dt, 1))
    except _nat.Break as e:
        return dict(unit='PANN', status='error', detail=str(e))


def replay_counterexample(pu, h, label, failure, work, tier, seed):
    rc, out, dt = _oracle()
    fails = [l for l in out.split('\n') if l.startswith('FAIL ')]
    same = [l for l in fails if label and ('label=' + label + ' ') in l]
    pick = same or fails
    if pick:
        m = re.search(r'label=(\S+)', pick[0])
        return dict(failing_input_found=True, failing_input=pick[0][:1200], native_failures=[f[:300] for f in fails[:4]], oracle_label=m.group(1), signature=re.sub(r' program=.*', '', pick[0])[:160],
                    reproduce_args=['sweep'], reproduce='bin/check <property> --replay <this file>', replay_inputs_tried=['sweep'], matched_same_obligation=bool(same))
    return dict(failing_input_found=False, replay_inputs_tried=['sweep'], signature='')


def run_reproduce(rec, work):
    rc, out, dt = _oracle()
    print(out)
    return 1 if rc else 0
