"""Unit CTAB — runtime/runtime_evaluator.cpp: the order in which RuntimeEvaluator::buildClassTable populates the run-time
classes.  C10: what a program does must not depend on the order of its declarations - a class inherits the field layout
and the vtable of its base by COPY at the moment it is populated, so the base class has to be populated before every class
derived from it, wherever it is declared.
  appendBaseFirst : the (recursive) ordering helper, whole function
  populate_order  : buildClassTable from the statement after the loop that registers the classes to the end"""
import re, os
from tools import cxx2c
from tools.cxx2c import Lower, Unsupported, kids, qt, qt_sugar, strip, strip_parens, callee_name, norm_type, walk
from tools.cxx2c import REPO as _REPO

NAME = 'CTAB'
SRC = _REPO + '/src/bloch/runtime/runtime_evaluator.cpp'
NAMESPACE = 'bloch::runtime'
FUNCS = []
AST_FILTER = ['RuntimeEvaluator::buildClassTable', 'appendBaseFirst']
SHIM = 'ctab.h'
THROWING = set()
KNC = 6
DROPS = ['a class declaration is a row {does its base type name a class, last part of that name, last part of baseName, generic?, static?}; a declaration, its class name and its run-time class are ONE small integer (class names are distinct: the analyser rejects duplicates); program.classes is an array of at most KNC-1 declarations, null entries allowed',
         'std::unordered_set<std::string> is a flag array, std::vector<ClassDeclaration*> order an array with a length; both are file-level state, so the parameters program / queued / order of appendBaseFirst disappear',
         'region populate_order: the statements of buildClassTable after the second range-for over program.classes; in the loop that populates a class, `if (rc->base) { copy instanceFields / instanceFieldIndex / vtable }` is ONE ghost event (inherit), the loop over the members another (members: from here on the class is complete), the staticStorage resize is dropped; instantiateGeneric is a contract-only stub returning a specialisation (never a program class)',
         'the recursive call of appendBaseFirst is a contract-only copy carrying the contract being proved (induction on the recursion depth)']
ASSUMPTIONS = ['KNC = 6 class names (object-size bound); every universally quantified fact is a finite conjunction over them',
               'acyclic hierarchy: there is a rank with rank(base) < rank(class) for every declared class (the semantic analyser rejects inheritance cycles: unit CYC); used only to show that the ordering recursion never meets a class that is still in progress',
               'the class table holds every non-generic declared class and Object (established by the loop before the region, not lowered)',
               'class declarations are as the parser builds them: baseName is the copy of the base NamedType\'s name parts (parser.cpp: `cls->baseName = named->nameParts`), so a declaration never has a baseName without a NamedType base']


class Profile(Lower):
    CLS = 'ctab'
    SELF_T = ''
    IS_METHOD = False
    WRAP_DOUBLE_OPS = False
    TYPE_MAP = [
        (r'^std::unique_ptr<(bloch::compiler::|compiler::)?ClassDeclaration(, std::default_delete<.*>)?>$', 'bl_cd'),
        (r'^(bloch::compiler::|compiler::)?ClassDeclaration \*$', 'bl_cd'),
        (r'^(bloch::compiler::|compiler::)?NamedType \*$', 'bl_named'),
        (r'^(const )?(bloch::compiler::|compiler::)?NamedType \*$', 'bl_named'),
        (r'^(bloch::runtime::)?RuntimeClass \*$', 'bl_rc'),
        (r'^(std::)?(basic_string<char.*>|string)$', 'bl_cname'),
        (r'^std::vector<std::unique_ptr<(bloch::compiler::|compiler::)?ClassDeclaration(, .*)?>(, .*)?>$', 'bl_seq'),
        (r'^std::vector<(bloch::compiler::|compiler::)?ClassDeclaration \*(, .*)?>$', 'bl_order'),
        (r'^std::unordered_set<std::(basic_string<char.*>|string).*>$', 'bl_nameset'),
        (r'^(bloch::compiler::|compiler::)?Program$', 'bl_program'),
        (r'^std::unique_ptr<(bloch::compiler::|compiler::)?Type(, std::default_delete<.*>)?>$', 'bl_type'),
        (r'^(bloch::compiler::|compiler::)?Type \*$', 'bl_type'),
    ]

    def file_prelude(self):
        return []

    def string_literal(self, n):
        if n.get('value') == '"Object"':
            return 'BL_NAME_OBJECT'
        raise Unsupported('string literal ' + n.get('value', ''))

    def cast(self, n):
        if n.get('castKind') == 'ArrayToPointerDecay' and strip_parens(kids(n)[0]).get('kind') == 'StringLiteral':
            return self.expr(kids(n)[0])
        return super().cast(n)

    def cast_other(self, n, ck, inner):
        if ck in ('PointerToBoolean', 'UserDefinedConversion') and self.ct(inner) in ('bl_cd', 'bl_named', 'bl_rc', 'bl_type'):
            e = self.expr(inner)
            if e.startswith('CD_baseType('):
                return 'g_cd[BL_IDX(%s, KNC)].hasBaseType' % e[len('CD_baseType('):-1]
            return '(%s != 0)' % e
        if ck == 'UserDefinedConversion':
            return self.expr(inner)
        return super().cast_other(n, ck, inner)

    def decl(self, v):
        ct = self.ctype_safe(qt(v))
        if ct == 'bl_nameset':
            self.locals.add(v['name'])
            return '/* std::unordered_set<std::string> %s: file-level flag array, empty here */ ctab_set_clear();' % v['name']
        if ct == 'bl_order':
            self.locals.add(v['name'])
            return '/* std::vector<ClassDeclaration*> %s: file-level array, empty here */ ctab_order_clear();' % v['name']
        if ct == 'bl_cname' and not [i for i in kids(v) if 'kind' in i and not (strip_parens(i).get('kind') == 'CXXConstructExpr' and not kids(strip_parens(i)))]:
            self.locals.add(v['name'])
            return 'bl_cname %s = 0;' % v['name']
        return super().decl(v)

    def construct(self, n):
        ct = self.ctype_safe(qt(n))
        args = [a for a in kids(n) if a.get('kind') != 'CXXDefaultArgExpr']
        if ct == 'bl_cname' and len(args) == 1:
            return self.expr(args[0])
        raise Unsupported('ctor %s/%d' % (qt(n), len(args)))

    def member(self, n):
        base = kids(n)[0]
        sb = strip(base)
        nm = n['name']
        bt = self.ct(sb)
        if sb.get('kind') == 'CXXOperatorCallExpr' and callee_name(kids(sb)[0]) == 'operator->':
            sb = kids(sb)[1]
            bt = self.ct(sb)
        if nm == 'second':
            inner = strip_parens(strip(base))
            while inner.get('kind') in ('MaterializeTemporaryExpr', 'ExprWithCleanups', 'CXXBindTemporaryExpr', 'ImplicitCastExpr') and kids(inner):
                inner = strip_parens(kids(inner)[0])
            if inner.get('kind') == 'CXXMemberCallExpr' and strip(kids(inner)[0]).get('name') == 'insert' and self.ct(kids(strip(kids(inner)[0]))[0]) == 'bl_nameset':
                return self.expr(inner)           # set.insert(x).second : was x new?
        if bt == 'bl_cd':
            o = self.expr(sb)
            if nm == 'name':
                return '((bl_cname)%s)' % o
            if nm in ('baseType', 'baseName', 'typeParameters', 'members'):
                return 'CD_%s(%s)' % (nm, o)
            if nm in ('isStatic',):
                return 'g_cd[BL_IDX(%s, KNC)].isStatic' % o
        if bt == 'bl_rc':
            o = self.expr(sb)
            if nm == 'base':
                return 'g_rc[BL_IDX(%s, KNC + 1)].base' % o
            if nm == 'isStatic':
                return 'g_cd[BL_IDX(%s, KNC)].isStatic' % o       # rc->isStatic was copied from the declaration of the same name
            if nm == 'name':
                return '((bl_cname)%s)' % o
            if nm in ('instanceFields', 'instanceFieldIndex', 'vtable', 'staticStorage', 'staticFields'):
                return 'RC_%s(%s)' % (nm, o)
        if bt == 'bl_named' and nm in ('nameParts', 'typeArguments'):
            return 'NAMED_%s(%s)' % (nm, self.expr(sb))
        if bt == 'bl_program' and nm == 'classes':
            return 'BL_PROGRAM_CLASSES'
        if strip(base).get('kind') == 'CXXThisExpr':
            return 'ev_' + nm
        raise Unsupported('member %s of %s' % (nm, qt(sb)))

    def opcall(self, n):
        ks = kids(n)
        op = callee_name(ks[0])
        args = ks[1:]
        t0 = self.ct(args[0])
        if op == 'operator->' and t0 in ('bl_cd', 'bl_type'):
            return self.expr(args[0])
        if op in ('operator==', 'operator!=') and t0 == 'bl_cname':
            return '(%s %s %s)' % (self.expr(args[0]), op[len('operator'):], self.expr(args[1]))
        if op == 'operator=' and t0 == 'bl_cname':
            return '(%s = %s)' % (self.expr(args[0]), self.expr(args[1]))
        raise Unsupported('operator %s on %s' % (op, qt(args[0])))

    def expr(self, n):
        if n.get('kind') == 'CXXDynamicCastExpr' and 'NamedType' in qt(n):
            inner = self.expr(kids(n)[0])
            if not inner.startswith('CD_baseType('):
                raise Unsupported('dynamic_cast<NamedType*> of ' + inner)
            return 'g_cd[BL_IDX(%s, KNC)].baseNamed' % inner[len('CD_baseType('):-1]
        return super().expr(n)

    def call_named(self, n, name, args):
        if name == 'appendBaseFirst' and len(args) == 4:
            self.needs_prop = False
            return 'ctab_appendBaseFirst%s(%s)' % ('_rec' if self.fn == 'appendBaseFirst' else '', self.expr(args[0]))
        return super().call_named(n, name, args)

    def membercall(self, n):
        ks = kids(n)
        me = strip(ks[0])
        return self.membercall_other(n, me['name'], kids(me)[0], ks[1:])

    def membercall_other(self, n, name, obj, args):
        so = strip(obj)
        t = self.ct(obj)
        if t in ('bl_cd', 'bl_type') and name == 'get':
            return self.expr(obj)
        o = self.expr(obj)
        if o.startswith('CD_baseType(') and name == 'operator bool':
            return 'g_cd[BL_IDX(%s, KNC)].hasBaseType' % o[len('CD_baseType('):-1]
        if t in ('bl_cd', 'bl_type') and name == 'operator bool':
            return '(%s != 0)' % o
        if t == 'bl_type' and o.startswith('CD_baseType('):
            pass
        if o.startswith('CD_baseType(') and name == 'get':
            return o
        if o.startswith('CD_baseType(') and name == 'operator bool':
            return 'g_cd[BL_IDX(%s, KNC)].hasBaseType' % o[len('CD_baseType('):-1]
        if o.startswith('CD_baseName(') and name == 'empty':
            return 'g_cd[BL_IDX(%s, KNC)].baseNameEmpty' % o[len('CD_baseName('):-1]
        if o.startswith('CD_baseName(') and name == 'back':
            return 'g_cd[BL_IDX(%s, KNC)].baseNameLast' % o[len('CD_baseName('):-1]
        if o.startswith('CD_typeParameters(') and name == 'empty':
            return '(!g_cd[BL_IDX(%s, KNC)].generic)' % o[len('CD_typeParameters('):-1]
        if o.startswith('NAMED_nameParts(') and name == 'back':
            return 'g_named[BL_IDX(%s, KNC)].last' % o[len('NAMED_nameParts('):-1]
        if o.startswith('NAMED_typeArguments(') and name == 'empty':
            return 'g_named[BL_IDX(%s, KNC)].noTypeArgs' % o[len('NAMED_typeArguments('):-1]
        if t == 'bl_cname' and name == 'empty':
            return '(%s == 0)' % o
        if t == 'bl_nameset' and name == 'insert' and len(args) == 1:
            return 'ctab_set_insert(%s)' % self.expr(args[0])
        if t == 'bl_order' and name == 'push_back' and len(args) == 1:
            return 'ctab_order_push(%s)' % self.expr(args[0])
        if so.get('kind') == 'CXXThisExpr' and name == 'findClass' and len(args) == 1:
            return 'ctab_findClass(%s)' % self.expr(args[0])
        if so.get('kind') == 'CXXThisExpr' and name == 'instantiateGeneric':
            return 'ctab_instantiateGeneric(%s)' % self.expr(args[0])
        raise Unsupported('member call %s on %s' % (name, qt(obj)))

    def member_of_pair_second(self, n):
        return None

    def stmt(self, n, ind):
        p = '  ' * ind
        k = n.get('kind')
        if k == 'IfStmt' and not n.get('hasVar') and not n.get('hasInit'):
            cond = strip_parens(strip(kids(n)[0]))
            names = []
            walk(kids(n)[0], lambda z: names.append(z.get('name')) if z.get('kind') == 'MemberExpr' else None)
            body_names = []
            walk(kids(n)[1], lambda z: body_names.append(z.get('name')) if z.get('kind') == 'MemberExpr' else None)
            if names == ['base'] and 'instanceFields' in body_names and 'vtable' in body_names and len(kids(n)) == 2:
                rc = self.expr(kids(cond)[0]) if cond.get('kind') == 'MemberExpr' else None
                base = self.expr(kids(n)[0])
                return [p + 'if (%s) { ctab_inherit_event(rc, g_rc[BL_IDX(rc, KNC + 1)].base); }   /* copy of the base class\'s instance fields, field index and vtable */' % base]
            if 'staticStorage' in names and 'staticFields' in names:
                return [p + '/* staticStorage resize: dropped */;']
        if k == 'ExprWithCleanups' or k == 'CXXMemberCallExpr':
            sn = strip(n)
            if sn.get('kind') == 'CXXMemberCallExpr':
                me = strip(kids(sn)[0])
                if me.get('name') == 'second' or False:
                    pass
        return super().stmt(n, ind)

    def if_with_var(self, n, ind):
        # if (auto named = dynamic_cast<NamedType*>(X->baseType.get())) ...
        p = '  ' * ind
        ks = kids(n)
        if n.get('hasInit') or not n.get('hasVar'):
            raise Unsupported('if with init')
        v = kids(ks[0])[0]
        if self.ctype_safe(qt(v)) != 'bl_named':
            raise Unsupported('if with condition variable of type ' + qt(v))
        out = [p + '{'] + self.stmt(ks[0], ind + 1)
        out.append(p + '  if (%s != 0)' % v['name'])
        rest = ks[2:]
        out += self.block(rest[0], ind + 1)
        if len(rest) > 1:
            out.append(p + '  else')
            out += self.block(rest[1], ind + 1)
        out.append(p + '}')
        return out

    def range_for(self, n, ind):
        p = '  ' * ind
        ks = kids(n)
        rng = [k for k in ks if k.get('kind') == 'DeclStmt']
        var = kids(rng[-1])[0]
        rdecl = kids(rng[0])[0]
        init = [i for i in kids(rdecl) if 'kind' in i][0]
        t = self.ctype_safe(qt(init))
        body = ks[-1]
        if t is None:
            seq = None
            try:
                seq = self.expr(init)
            except Unsupported:
                pass
            if seq and seq.startswith('CD_members('):
                return [p + 'ctab_members_event(rc);   /* the loop over the members: fields, methods, constructors, destructor of this class */']
            raise Unsupported('range-for over ' + qt(init))
        if t not in ('bl_seq', 'bl_order'):
            raise Unsupported('range-for over ' + qt(init))
        k = self.loop_k
        self.loop_k += 1
        iv = 'bl_i%d' % k
        self.locals.add(iv)
        self.locals.add(var['name'])
        n_, at = ('g_nseq', 'g_seq') if t == 'bl_seq' else ('g_order_n', 'g_order')
        out = [p + '/*@BEFORELOOP:%s:%d@*/' % (self.fn, k), p + '{', p + '  size_t %s = 0;' % iv,
               p + '  for (; %s < %s; ++%s)' % (iv, n_, iv), p + '    /*@LOOP:%s:%d@*/' % (self.fn, k), p + '  {',
               p + '    /*@LOOPBODY:%s:%d@*/' % (self.fn, k),
               p + '    bl_cd %s = %s[BL_IDX(%s, KNC)];' % (var['name'], at, iv)]
        inner = kids(body) if body.get('kind') == 'CompoundStmt' else [body]
        for st in inner:
            out += self.stmt(st, ind + 2)
        out += [p + '  }', p + '}', p + '/*@AFTERLOOP:%s:%d@*/' % (self.fn, k)]
        return out


def lower_regions(docs, prof):
    out = []
    prof.region_unlowered = {}
    # the ordering helper (absent from a tree that populates in declaration order)
    ha = 'void ctab_appendBaseFirst(bl_cd cls)'
    try:
        ds = [d for d in cxx2c.find_functions(docs, 'appendBaseFirst')]
        if len(ds) != 1:
            raise Unsupported('appendBaseFirst: %d definitions' % len(ds))
        ps = [pd.get('name') for pd in kids(ds[0]) if pd.get('kind') == 'ParmVarDecl']
        if ps != ['cls', 'program', 'queued', 'order']:
            raise Unsupported('appendBaseFirst parameters changed: %s' % ps)
        h, lines = prof.func(ds[0], cname='appendBaseFirst', is_method=False)
        out.append((ha, lines))
    except Unsupported as e:
        prof.region_unlowered['appendBaseFirst'] = str(e)
        out.append((ha, None))
    hp = 'void ctab_populate_order(void)'
    try:
        ds = cxx2c.find_functions(docs, 'buildClassTable')
        if len(ds) != 1:
            raise Unsupported('buildClassTable: %d definitions' % len(ds))
        body = [k for k in kids(ds[0]) if k.get('kind') == 'CompoundStmt'][0]
        stmts = kids(body)

        def over_program_classes(st):
            if st.get('kind') != 'CXXForRangeStmt':
                return False
            rng = [k for k in kids(st) if k.get('kind') == 'DeclStmt']
            nm = []
            walk(rng[0], lambda z: nm.append(z.get('name')) if z.get('kind') == 'MemberExpr' else None)
            return 'classes' in nm
        idx = [i for i, st in enumerate(stmts) if over_program_classes(st)]
        if len(idx) < 3:
            raise Unsupported('buildClassTable: fewer than three loops over program.classes')
        # the second loop registers every class (m_classTable[rc->name] = rc): the region starts after it
        reg = []
        walk(stmts[idx[1]], lambda z: reg.append(z.get('name')) if z.get('kind') == 'MemberExpr' else None)
        if 'm_classTable' not in reg:
            raise Unsupported('buildClassTable: the second loop over program.classes no longer registers the classes')
        body2 = dict(body)
        body2['inner'] = stmts[idx[1] + 1:]
        d = dict(kind='FunctionDecl', name='populate_order', type=dict(qualType='void ()'), inner=[body2])
        h, lines = prof.func(d, cname='populate_order', is_method=False)
        out.append((hp, lines))
    except Unsupported as e:
        prof.region_unlowered['populate_order'] = str(e)
        out.append((hp, None))
    if not prof.region_unlowered:
        del prof.region_unlowered
    return out


def conj(fmt, lo=0, hi=KNC):
    return '(' + ' && '.join('(' + re.sub(r'\bK\b', str(k), fmt) + ')' for k in range(lo, hi)) + ')'


GHOSTS = r"""
int bl_exc, bl_exc_line, bl_exc_col;
typedef struct { bl_named baseNamed; _Bool hasBaseType; bl_cname baseNameLast; _Bool baseNameEmpty; _Bool generic; _Bool isStatic; } ClassDeclRow;
typedef struct { bl_cname last; _Bool noTypeArgs; } NamedRow;
typedef struct { bl_rc base; } RtClassRow;
ClassDeclRow g_cd[KNC]; NamedRow g_named[KNC]; RtClassRow g_rc[KNC + 1];
bl_cd g_seq[KNC]; size_t g_nseq;             /* program.classes */
_Bool g_isprog[KNC]; size_t g_seqpos[KNC];   /* ghost: the name is declared in program.classes, and where */
unsigned g_rank[KNC];                       /* ghost: acyclicity witness (rank of a base class < rank of the class) */
_Bool g_intable[KNC + 1];                   /* m_classTable has a class of that name */
/* ---- ordering state */
_Bool queued[KNC]; bl_cd g_order[KNC]; size_t g_order_n;
_Bool g_inord[KNC]; size_t g_pos[KNC];      /* ghost: membership and position in `order` */
static inline void ctab_set_clear(void) { """ + ' '.join('queued[%d] = 0;' % k for k in range(KNC)) + r""" }
static inline void ctab_order_clear(void) { g_order_n = 0; """ + ' '.join('g_inord[%d] = 0; g_pos[%d] = 0;' % (k, k) for k in range(KNC)) + r""" }
static inline _Bool ctab_set_insert(bl_cname n) { _Bool fresh = !queued[BL_IDX(n, KNC)]; queued[BL_IDX(n, KNC)] = 1; return fresh; }   /* .insert(n).second */
static inline void ctab_order_push(bl_cd c) { bl_trap(g_order_n < KNC, "order holds at most KNC declarations"); g_order[g_order_n] = c; if (c > 0 && c < KNC && !g_inord[c]) { g_inord[c] = 1; g_pos[c] = g_order_n; } g_order_n = g_order_n + 1; }
/* the base class the ordering follows: what appendBaseFirst computes from a declaration */
#define NBASE(c) (g_cd[c].baseNamed != 0 ? g_named[g_cd[c].baseNamed].last : (!g_cd[c].baseNameEmpty ? g_cd[c].baseNameLast : ((!g_cd[c].isStatic && (c) != BL_NAME_OBJECT) ? BL_NAME_OBJECT : 0)))
#define INPROG(k) (queued[k] && !g_inord[k])
#ifndef NATIVE
_Bool nondet_bool(void);
static inline bl_rc ctab_findClass(bl_cname n) { return (n > 0 && n <= KNC && g_intable[n]) ? (bl_rc)n : (bl_rc)0; }
static inline bl_rc ctab_instantiateGeneric(bl_named t) { return nondet_bool() ? (bl_rc)KNC : (bl_rc)0; }     /* a specialisation: complete when returned, never a declared class */
/* ---- populate events, observed at one arbitrary class gc */
bl_cd gc; _Bool populated[KNC + 1]; _Bool g_seen_gc, g_base_ok; size_t g_pop_i;
static inline void ctab_inherit_event(bl_rc rc, bl_rc base) {
  if (rc == gc && !g_seen_gc) { g_seen_gc = 1; g_base_ok = (base == KNC || !g_isprog[BL_IDX(base, KNC)] || g_cd[BL_IDX(base, KNC)].generic || populated[base]); }
}
static inline void ctab_members_event(bl_rc rc) { populated[BL_IDX(rc, KNC + 1)] = 1; }
#endif
#define DECLS_WF """ + conj('g_cd[K].baseNamed >= 0 && g_cd[K].baseNamed < KNC && g_cd[K].baseNameLast >= 0 && g_cd[K].baseNameLast < KNC && g_named[K].last >= 0 && g_named[K].last < KNC && (g_cd[K].baseNamed != 0 ==> g_cd[K].hasBaseType) && (!g_cd[K].baseNameEmpty ==> (g_cd[K].baseNamed != 0 && g_named[g_cd[K].baseNamed].last == g_cd[K].baseNameLast))') + r"""
#define SEQ_WF (g_nseq < KNC && !g_isprog[0] && """ + conj('(K < g_nseq) ==> (g_seq[K] >= 0 && g_seq[K] < KNC && (g_seq[K] != 0 ==> g_isprog[g_seq[K]]))') + ' && ' + conj('g_isprog[K] ==> (g_seqpos[K] < g_nseq && g_seq[g_seqpos[K]] == K)', 1) + r""")
#define RANKS_OK """ + conj('(g_isprog[K] && NBASE(K) != 0 && g_isprog[NBASE(K)]) ==> g_rank[NBASE(K)] < g_rank[K]', 1) + r"""
#define ORDER_LINK (g_order_n < KNC && !g_inord[0] && !queued[0] && """ + conj('(K < g_order_n) ==> (g_order[K] > 0 && g_order[K] < KNC && g_inord[g_order[K]] && g_pos[g_order[K]] == K)') + ' && ' + conj('g_inord[K] ==> (queued[K] && g_isprog[K] && g_pos[K] < g_order_n && g_order[g_pos[K]] == K)', 1) + r""")
#define BASE_FIRST_ALL """ + conj('(g_inord[K] && NBASE(K) != 0 && g_isprog[NBASE(K)]) ==> (g_inord[NBASE(K)] && g_pos[NBASE(K)] < g_pos[K])', 1) + r"""
#define ALL_INPROG_ABOVE(r) """ + conj('INPROG(K) ==> g_rank[K] > (r)', 1) + r"""
#define NONE_INPROG """ + conj('!INPROG(K)', 1) + r"""
#define ORD_INV (DECLS_WF && SEQ_WF && RANKS_OK && ORDER_LINK && BASE_FIRST_ALL)
/* what a call of appendBaseFirst(cls) leaves alone: everything already placed keeps its place, and no other class changes between "in progress" and not */
#define KEEP_PLACES """ + conj('__CPROVER_old(g_inord[K]) ==> (g_inord[K] && g_pos[K] == __CPROVER_old(g_pos[K]))', 1) + r"""
#define INPROG_SAME_EXCEPT(c) """ + conj('(K != (c)) ==> ((queued[K] && !g_inord[K]) == (__CPROVER_old(queued[K]) && !__CPROVER_old(g_inord[K])))', 1) + r"""
#ifdef BL_BOUNDED
#define BOUNDED_LIMITS (g_nseq <= 3)
#else
#define BOUNDED_LIMITS 1
#endif
#define ABF_PRE (BOUNDED_LIMITS && cls >= 0 && cls < KNC && (cls != 0 ==> g_isprog[cls]) && ORD_INV && (cls != 0 ==> ALL_INPROG_ABOVE(g_rank[cls])))
#ifndef NATIVE
void ctab_appendBaseFirst_rec(bl_cd cls)
__CPROVER_requires(ABF_PRE)
__CPROVER_assigns(__CPROVER_object_whole(queued), __CPROVER_object_whole(g_order), g_order_n, __CPROVER_object_whole(g_inord), __CPROVER_object_whole(g_pos))
__CPROVER_ensures(ORD_INV)
__CPROVER_ensures(cls != 0 ==> (g_inord[cls] || (__CPROVER_old(queued[cls]) && !__CPROVER_old(g_inord[cls]))))
__CPROVER_ensures(KEEP_PLACES)
__CPROVER_ensures(INPROG_SAME_EXCEPT(cls))
;
#endif
"""


def R(t):
    return ('', 'requires', t, [])


def E(label, t, props, **o):
    return (label, 'ensures', t, props, o)


def A(t):
    return ('', 'assigns', t, [])


ORDSTATE = '__CPROVER_object_whole(queued), __CPROVER_object_whole(g_order), g_order_n, __CPROVER_object_whole(g_inord), __CPROVER_object_whole(g_pos)'
SNAP = ' '.join('g_inord0[%d] = g_inord[%d]; g_pos0[%d] = g_pos[%d]; g_inprog0[%d] = INPROG(%d);' % (k, k, k, k, k, k) for k in range(KNC))
CONTRACTS = {
    'appendBaseFirst': {
        'contract': [
            R('ABF_PRE'),
            A(ORDSTATE + ', __CPROVER_object_whole(g_inord0), __CPROVER_object_whole(g_pos0), __CPROVER_object_whole(g_inprog0)'),
            # C10: `order` lists every class after the class it extends - whatever the order of declaration
            E('appendBaseFirst.order_stays_base_first', 'ORD_INV', ['C10']),
            E('appendBaseFirst.the_class_is_placed', 'cls != 0 ==> (g_inord[cls] || (__CPROVER_old(queued[cls]) && !__CPROVER_old(g_inord[cls])))', ['C10']),
            E('appendBaseFirst.earlier_entries_keep_their_place', 'KEEP_PLACES', ['C10']),
            E('appendBaseFirst.changes_the_state_of_no_other_class', 'INPROG_SAME_EXCEPT(cls)', ['C10']),
        ],
        'loops': {0: {'assigns': 'bl_i0, ' + ORDSTATE,
                      'invariants': [('appendBaseFirst.loop.bounds', 'bl_i0 <= g_nseq && ORD_INV && cls > 0 && cls < KNC && queued[cls] && !g_inord[cls] && baseName > 0 && baseName < KNC'),
                                     ('appendBaseFirst.loop.in_progress_classes_rank_above_the_base', conj('INPROG(K) ==> (g_rank[K] > g_rank[baseName] || !g_isprog[baseName])', 1)),
                                     ('appendBaseFirst.loop.base_placed_once_met', '(g_isprog[baseName] && g_seqpos[baseName] < bl_i0) ==> g_inord[baseName]'),
                                     ('appendBaseFirst.loop.frame', conj('(g_inord0[K] ==> (g_inord[K] && g_pos[K] == g_pos0[K])) && ((K != cls) ==> (INPROG(K) == g_inprog0[K]))', 1))],
                      'decreases': 'g_nseq - bl_i0'}},
        'prologue': SNAP,
    },
}
GHOSTS += '_Bool g_inord0[KNC], g_inprog0[KNC]; size_t g_pos0[KNC];\n'
POP_PRE = ('BOUNDED_LIMITS && DECLS_WF && SEQ_WF && RANKS_OK && gc >= 1 && gc < KNC && g_isprog[gc] && !g_seen_gc && g_intable[BL_NAME_OBJECT] && populated[KNC] && g_intable[KNC] && '
           + conj('(g_isprog[K] && !g_cd[K].generic) ==> g_intable[K]', 1) + ' && ' + conj('g_rc[K].base == 0 && (g_isprog[K] ==> !populated[K])', 0, KNC) + ' && g_rc[KNC].base == 0')
CONTRACTS['populate_order'] = {
    'contract': [
        R(POP_PRE),
        A(ORDSTATE + ', __CPROVER_object_whole(g_inord0), __CPROVER_object_whole(g_pos0), __CPROVER_object_whole(g_inprog0), __CPROVER_object_whole(g_rc), __CPROVER_object_whole(populated), g_seen_gc, g_base_ok'),
        # C10: when a class inherits (by copy) the layout and the vtable of its base class, the base class is complete - wherever it was declared
        E('buildClassTable.base_class_is_populated_before_the_derived_class', 'g_seen_gc ==> g_base_ok', ['C10', 'C08']),
        E('buildClassTable.every_declared_class_is_populated', '!g_cd[gc].generic ==> populated[gc]', ['C10', 'C08']),
    ],
    'loops': {
        0: {'assigns': 'bl_i0, ' + ORDSTATE + ', __CPROVER_object_whole(g_inord0), __CPROVER_object_whole(g_pos0), __CPROVER_object_whole(g_inprog0)',
            'invariants': [('populate_order.enqueue.bounds', 'bl_i0 <= g_nseq && ORD_INV && NONE_INPROG'),
                           ('populate_order.enqueue.placed_so_far', conj('(K < bl_i0 && K < g_nseq && g_seq[K] > 0 && g_seq[K] < KNC) ==> g_inord[g_seq[K]]'))],
            'decreases': 'g_nseq - bl_i0'},
        1: {'assigns': 'bl_i1, __CPROVER_object_whole(g_rc), __CPROVER_object_whole(populated), g_seen_gc, g_base_ok',
            'invariants': [('populate_order.populate.bounds', 'bl_i1 <= g_order_n && populated[KNC] && (g_seen_gc ==> g_base_ok)'),
                           ('populate_order.populate.classes_before_this_position_are_complete', conj('(g_inord[K] && g_pos[K] < bl_i1 && !g_cd[K].generic) ==> populated[K]', 1)),
                           ('populate_order.populate.not_yet_reached', '(g_inord[gc] && g_pos[gc] >= bl_i1) ==> !g_seen_gc'),
                           ('populate_order.populate.bases_in_range', conj('g_rc[K].base >= 0 && g_rc[K].base <= KNC', 0, KNC + 1)),
                           ('populate_order.populate.classes_from_this_position_on_are_untouched', conj('(g_inord[K] && g_pos[K] >= bl_i1) ==> (!populated[K] && g_rc[K].base == 0)', 1))],
            'decreases': 'g_order_n - bl_i1'},
    },
}
HARNESSES = [
    dict(name='appendBaseFirst', fn='appendBaseFirst', replace=['ctab_appendBaseFirst_rec'], flags=[], props=['C10', 'C12'], timeout=900, bounded_replace=['ctab_appendBaseFirst_rec'], unwind=5, bounded_timeout=300,
         canaries=[('g_order_n >= 2', 'a class was placed after another')]),
    dict(name='populate_order', fn='populate_order', replace=['appendBaseFirst'], flags=[], props=['C10', 'C08', 'C12'], timeout=900, bounded_replace=['ctab_appendBaseFirst_rec'], unwind=5, bounded_timeout=300,
         canaries=[('g_seen_gc && g_base_ok', 'the observed class inherited from a complete base')]),
]


from tools import native as _nat


def _oracle():
    bd = _nat.repo_build(('bloch',))
    return _nat.run(['python3', os.path.join(_nat.ROOT, 'native', 'ctab_oracle.py'), os.path.join(bd, 'bin', 'bloch'), 'sweep'], timeout=600)


def native_validate(pu, work, tier, seed):
    try:
        rc, out, dt = _oracle()
        js = _nat.last_json(out)
        return dict(unit='CTAB', kind='oracle on the real interpreter through the CLI (class hierarchies with inherited fields and overridden methods in every declaration order must print the same); no co-execution for this unit', status='agree',
                    oracle_sweep=dict(checks=js.get('oracle_checks'), failures=js.get('oracle_failures'), failing_labels=sorted(set(re.findall(r'FAIL label=(\S+)', out)))), wall_s=round(dt, 1))
    except _nat.Break as e:
        return dict(unit='CTAB', status='error', detail=str(e))


def replay_counterexample(pu, h, label, failure, work, tier, seed):
    rc, out, dt = _oracle()
    fails = [l for l in out.split('\n') if l.startswith('FAIL ')]
    if fails:
        m = re.search(r'label=(\S+)', fails[0])
        return dict(failing_input_found=True, failing_input=fails[0][:1500], native_failures=[f[:300] for f in fails[:4]], oracle_label=m.group(1), signature=re.sub(r' program=.*', '', fails[0])[:160],
                    reproduce_args=['sweep'], reproduce='bin/check <property> --replay <this file>', replay_inputs_tried=['sweep'], matched_same_obligation=(m.group(1) == label))
    return dict(failing_input_found=False, replay_inputs_tried=['sweep'], signature='')


def run_reproduce(rec, work):
    rc, out, dt = _oracle()
    print(out)
    return 1 if rc else 0
