"""Unit SCOPE — runtime/runtime_evaluator.cpp: the scope-stack walk of RuntimeEvaluator::lookup and
::assign (C09 kernel: a callee never sees or changes its caller's locals)."""
import re, os
from tools import cxx2c
from tools.cxx2c import Lower, Unsupported, kids, qt, qt_sugar, strip, strip_parens, callee_name, norm_type, walk
from tools.cxx2c import REPO as _REPO

NAME = 'SCOPE'
SRC = _REPO + '/src/bloch/runtime/runtime_evaluator.cpp'
NAMESPACE = 'bloch::runtime'
FUNCS = []
AST_FILTER = ['RuntimeEvaluator::lookup', 'RuntimeEvaluator::assign', 'RuntimeEvaluator::call', 'RuntimeEvaluator::callMethod', 'RuntimeEvaluator::runConstructorChain', 'RuntimeEvaluator::beginScope']
BIND = [('call', 'bind_params_call'), ('callMethod', 'bind_params_callMethod'), ('runConstructorChain', 'bind_params_ctor')]
SHIM = 'scope.h'
THROWING = set()
DROPS = ['regions bind_params_*: the parameter-binding loop (the first for statement after the beginScope() call) of call, callMethod and runConstructorChain; the parameter list becomes an array of names, the declaration handle an opaque integer; the scope being filled is observed at one arbitrary name (ghost)',
         'regions: the first statement (the for loop over m_env.rbegin()..rend()) of lookup and of assign; what follows (fields of `this`, statics, class names, creation in the top scope) is not lowered',
         'each scope map is an uninterpreted function (scope index, name) -> entry id; entries live in a ghost table; names are interned identities',
         'Value members other than type, className, objectValue']
ASSUMPTIONS = ['g_fb (index of the first scope of the innermost active call) is a free ghost parameter <= m_env.size(): that call / callMethod / runConstructorChain push exactly one scope and nothing below it belongs to the callee is the DEFINITION of the frame base, not verified here']
RIT = r'^std::(vector<std::unordered_map<.*VarEntry.*>::reverse_iterator|reverse_iterator<__gnu_cxx::__normal_iterator<std::unordered_map<.*)$'


class Profile(Lower):
    CLS = 'scope'
    SELF_T = ''
    IS_METHOD = False
    WRAP_DOUBLE_OPS = False
    TYPE_MAP = [
        (RIT, 'bl_rit'),
        (r'^std::vector<std::unordered_map<.*VarEntry.*>>::reverse_iterator$', 'bl_rit'),
        (r'^std::unordered_map<.*VarEntry.*>::iterator$', 'bl_mit'),
        (r'^std::__detail::_Node_iterator(_base)?<.*VarEntry.*$', 'bl_mit'),
        (r'^(bloch::runtime::)?Value$', 'Value'),
        (r'^(bloch::runtime::)?Value::Type$', 'int'),
        (r'^(bloch::runtime::)?(RuntimeEvaluator::)?VarEntry$', 'VarEntry'),
        (r'^(std::)?(basic_string<char.*>|string)$', 'bl_cname'),
        (r'^(std::)?shared_ptr<(bloch::runtime::)?Object>$', 'bl_objid'),
        (r'^std::__shared_ptr<(bloch::runtime::)?Object, __gnu_cxx::_S_atomic>$', 'bl_objid'),
        (r'^std::vector<std::unique_ptr<(bloch::compiler::)?Parameter(, std::default_delete<.*>)?>(, .*)?>$', 'bl_params'),
        (r'^std::vector<(bloch::runtime::)?Value(, std::allocator<.*>)?>$', 'bl_args'),
        (r'^(bloch::compiler::)?(FunctionDeclaration|ConstructorDeclaration|MethodDeclaration) \*$', 'bl_decl'),
        (r'^(bloch::runtime::)?RuntimeMethod \*$', 'bl_decl'),
    ]

    def file_prelude(self):
        return ['enum { BL_T_Int = 1, BL_T_Long = 2, BL_T_Object = 16 };   /* only the identity of the tags matters: the lowered code compares with Object only */',
                'typedef struct { int type; bl_cname className; bl_objid objectValue; } Value;',
                'typedef struct { Value value; _Bool tracked; _Bool initialized; } VarEntry;']

    def ctype(self, t):
        t0 = norm_type(t)
        if 'reverse_iterator' in t0 and 'unordered_map' in t0:
            return 'bl_rit'
        if '__normal_iterator' in t0 and 'unordered_map' in t0 and 'VarEntry' in t0 and 'vector' in t0:
            return 'bl_rit'        # a FORWARD iterator over the scope stack, same representation (k means "element k-1"): begin() is 1, end() is size+1, ++ adds one
        if ('_Node_iterator' in t0 or t0.endswith('::iterator')) and 'VarEntry' in t0 and 'reverse' not in t0:
            return 'bl_mit'
        return super().ctype(t)

    def declref(self, n):
        rd = n['referencedDecl']
        if rd.get('kind') == 'EnumConstantDecl' and rd['name'] == 'Object':
            return 'BL_T_Object'
        return super().declref(n)

    def cur_scope(self):
        return '(it - 1)'

    def opcall(self, n):
        ks = kids(n)
        op = callee_name(ks[0])
        args = ks[1:]
        t0 = self.ct(args[0])
        if op in ('operator==', 'operator!=') and t0 in ('bl_rit', 'bl_mit'):
            return '(%s %s %s)' % (self.expr(args[0]), op[len('operator'):], self.expr(args[1]))
        if op == 'operator++' and t0 == 'bl_rit':
            return '(%s = %s %s 1)' % (self.expr(args[0]), self.expr(args[0]), '-' if 'reverse_iterator' in norm_type(qt(args[0])) else '+')
        if op == 'operator->' and t0 == 'bl_mit':
            return 'BL_ENTRY(%s, %s)' % (self.cur_scope(), self.expr(args[0]))
        if op == 'operator[]' and t0 == 'bl_args':
            return 'g_args[BL_IDX(%s, g_nargs)]' % self.expr(args[1])
        if op == 'operator[]' and t0 == 'bl_params':
            return 'BL_PARAM(%s)' % self.expr(args[1])
        if op == 'operator->' and strip_parens(args[0]).get('kind') == 'CXXOperatorCallExpr' and self.ct(kids(strip_parens(args[0]))[1]) == 'bl_params':
            return self.expr(args[0])
        if op == 'operator=' and 'VarEntry' in norm_type(qt(args[0])):
            lhs = strip_parens(args[0])
            if lhs.get('kind') == 'CXXOperatorCallExpr' and callee_name(kids(lhs)[0]) == 'operator[]':
                m, key = kids(lhs)[1], kids(lhs)[2]
                if self.expr(m) == 'BL_TOP_SCOPE':
                    return 'scope_put_top(%s, %s)' % (self.expr(key), self.expr(args[1]))
            raise Unsupported('VarEntry assignment target')
        if op == 'operator=' and t0 in ('Value', 'bl_cname'):
            return '(%s = %s)' % (self.expr(args[0]), self.expr(args[1]))
        raise Unsupported('operator %s on %s' % (op, qt(args[0])))

    def member(self, n):
        base = kids(n)[0]
        sb = strip(base)
        if n.get('name') == 'params' and self.ctype_safe(qt(n)) == 'bl_params':
            return 'BL_PARAMS'        # fn->params / method->decl->params / ctor->params: the parameter list of the callee
        if n.get('name') == 'name' and sb.get('kind') == 'CXXOperatorCallExpr' and callee_name(kids(sb)[0]) == 'operator->' and self.expr(sb).startswith('BL_PARAM('):
            return 'g_param_names[BL_IDX(%s, g_nparams)]' % self.expr(sb)[len('BL_PARAM('):-1]
        if sb.get('kind') == 'CXXOperatorCallExpr' and callee_name(kids(sb)[0]) == 'operator->' and self.ct(kids(sb)[1]) == 'bl_mit':
            if n['name'] == 'second':
                return self.expr(sb)
        if sb.get('kind') == 'MemberExpr' and sb.get('name') == 'second':
            return '%s.%s' % (self.expr(sb), n['name'])
        return super().member(n)

    def membercall_other(self, n, name, obj, args):
        so = strip(obj)
        if name in ('rbegin', 'rend') and so.get('kind') == 'MemberExpr' and so.get('name') == 'm_env':
            return 'g_env_size' if name == 'rbegin' else '((bl_rit)0)'
        if name in ('begin', 'end') and so.get('kind') == 'MemberExpr' and so.get('name') == 'm_env':
            return '((bl_rit)1)' if name == 'begin' else '(g_env_size + 1)'
        if name in ('find', 'end') and so.get('kind') == 'CXXOperatorCallExpr' and callee_name(kids(so)[0]) == 'operator->' and self.ct(kids(so)[1]) == 'bl_rit':
            return 'scope_stub_find(%s, %s)' % (self.cur_scope(), self.expr(args[0])) if name == 'find' else 'BL_MAP_END'
        if so.get('kind') == 'CXXThisExpr' and name == 'assign':
            return 'scope_assign(%s)' % ', '.join(self.expr(a) for a in args)      # contract-only (its scope walk is proved as assign_walk; the rest is assumed)
        t = self.ct(obj)
        if t == 'bl_params' and name == 'size':
            return 'g_nparams'
        if t == 'bl_args' and name == 'size':
            return 'g_nargs'
        if name == 'back' and so.get('kind') == 'MemberExpr' and so.get('name') == 'm_env':
            return 'BL_TOP_SCOPE'
        o = self.expr(obj)
        if t == 'bl_cname' and name == 'empty':
            return '(%s == 0)' % o
        if t == 'bl_objid' and name == 'operator bool':
            return '(%s != 0)' % o
        raise Unsupported('member call %s on %s' % (name, qt(obj)))

    def initlist(self, n):
        if 'VarEntry' in norm_type(qt(n)) and len(kids(n)) == 3:
            return '(VarEntry){ %s }' % ', '.join(self.expr(a) for a in kids(n))
        return super().initlist(n)

    def string_literal(self, n):
        if n.get('value') == '"this"':
            return 'BL_NAME_THIS'
        raise Unsupported('string literal ' + n.get('value', ''))

    def construct(self, n):
        ct = self.ctype_safe(qt(n))
        args = [a for a in kids(n) if a.get('kind') != 'CXXDefaultArgExpr']
        if ct == 'VarEntry' and len(args) == 1:
            return self.expr(args[0])
        if ct == 'bl_cname' and len(args) == 1 and strip_parens(args[0]).get('kind') in ('StringLiteral', 'ImplicitCastExpr'):
            return self.expr(args[0])
        if ct in ('Value', 'bl_rit', 'bl_mit') and len(args) == 1:
            return self.expr(args[0])
        raise Unsupported('ctor %s/%d' % (ct, len(args)))

    def cast_other(self, n, ck, inner):
        if ck == 'PointerToBoolean' and self.ct(inner) == 'bl_decl':
            return '(%s != 0)' % self.expr(inner)
        if ck in ('UserDefinedConversion', 'PointerToBoolean'):
            return self.expr(inner)
        return super().cast_other(n, ck, inner)


def lower_regions(docs, prof):
    out = []
    for fn, cname, rt, params in (('lookup', 'lookup_walk', 'Value', 'bl_cname name'), ('assign', 'assign_walk', 'void', 'bl_cname name, Value v')):
        ds = cxx2c.find_functions(docs, fn)
        if len(ds) != 1:
            raise Unsupported('%s: %d definitions' % (fn, len(ds)))
        body = [k for k in kids(ds[0]) if k.get('kind') == 'CompoundStmt'][0]
        first = kids(body)[0]
        if first.get('kind') != 'ForStmt':
            raise Unsupported('%s no longer starts with the scope-stack loop' % fn)
        body2 = dict(body)
        body2['inner'] = [first]
        d = dict(kind='FunctionDecl', name=cname, type=dict(qualType=('bloch::runtime::Value ()' if rt == 'Value' else 'void ()')), inner=[body2])
        head, lines = prof.func(d, cname=cname, is_method=False)
        assert lines[-1].strip() == '}'
        lines = lines[:-1] + ['  GHOST(g_fell_through = 1;)'] + (['  return (Value){0};'] if rt == 'Value' else []) + ['}']
        out.append(('%s scope_%s(%s)' % (rt, cname, params), lines))
    # beginScope must still be the one-liner the frame model assumes: m_env.push_back({})
    bs = cxx2c.find_functions(docs, 'beginScope')
    ok = False
    if len(bs) == 1:
        st = kids([k for k in kids(bs[0]) if k.get('kind') == 'CompoundStmt'][0])
        if len(st) == 1:
            calls = []
            walk(st[0], lambda z: calls.append(z) if z.get('kind') == 'CXXMemberCallExpr' else None)
            ok = len(calls) == 1 and strip(kids(calls[0])[0]).get('name') == 'push_back' and strip(kids(strip(kids(calls[0])[0]))[0]).get('name') == 'm_env'
    if not ok:
        raise Unsupported('beginScope is no longer `m_env.push_back({})`')
    for fn, cname in BIND:
        head = 'void scope_%s(bl_decl %s)' % (cname, {'call': 'fn', 'callMethod': 'method', 'runConstructorChain': 'ctor'}[fn])
        try:
            ds = cxx2c.find_functions(docs, fn)
            if len(ds) != 1:
                raise Unsupported('%s: %d definitions' % (fn, len(ds)))
            body = [k for k in kids(ds[0]) if k.get('kind') == 'CompoundStmt'][0]
            stmts = kids(body)
            ib = None
            for i, st in enumerate(stmts):
                c = strip(st)
                if c.get('kind') == 'CXXMemberCallExpr' and strip(kids(c)[0]).get('name') == 'beginScope':
                    ib = i
                    break
            if ib is None:
                raise Unsupported('%s: no beginScope() statement' % fn)
            loops = [st for st in stmts[ib + 1:] if st.get('kind') == 'ForStmt']
            if not loops:
                raise Unsupported('%s: no binding loop after beginScope()' % fn)
            body2 = dict(body)
            body2['inner'] = [loops[0]]
            d = dict(kind='FunctionDecl', name=cname, type=dict(qualType='void ()'), inner=[body2])
            prof.locals_extra = {'fn', 'method', 'ctor', 'args'}
            h2, lines = prof.func(d, cname=cname, is_method=False)
            out.append((head, lines))
        except Unsupported as e:
            if not hasattr(prof, 'region_unlowered'):
                prof.region_unlowered = {}
            prof.region_unlowered[cname] = str(e)
            out.append((head, None))
    return out


# =========================================================================== sidecar contracts
GHOSTS = r'''
int bl_exc, bl_exc_line, bl_exc_col;
size_t g_env_size;            /* m_env.size() */
size_t g_fb;                  /* ghost frame base: index of the first scope of the innermost active call */
size_t gk; int g_e;           /* ghost scope index / entry id */
VarEntry g_entries[SCMAX][EMAX];
#define BL_ENTRY(s, e) (g_entries[BL_IDX(s, SCMAX)][BL_IDX(e, EMAX)])
int g_hit; size_t g_hit_scope; int g_fell_through;
VarEntry g_old_entry;
bl_mit g_find_gk;        /* ghost: FIND(gk, name), computed once (function calls are not allowed in loop invariants) */
/* ---- frame set-up (regions bind_params_*): the callee's parameter list, the arguments, and the scope being filled observed at one arbitrary name */
#ifndef PMAX
#define PMAX 8
#endif
#define BL_NAME_THIS 1
typedef int bl_decl; typedef int bl_params; typedef int bl_args;
size_t g_nparams, g_nargs, gi; bl_cname g_param_names[PMAX]; Value g_args[PMAX];
bl_cname g_n; _Bool g_top_has, g_top_has0, g_seen; VarEntry g_top_val;
static inline void scope_put_top(bl_cname name, VarEntry e) { if (name == g_n) { g_top_has = 1; g_top_val = e; } }
#ifndef NATIVE
/* RuntimeEvaluator::assign as a callee: only its frame is assumed here (it may write any binding on the stack or create one in the top scope) */
void scope_assign(bl_cname name, Value v)
__CPROVER_assigns(__CPROVER_object_whole(g_entries), g_top_has, g_top_val)
__CPROVER_ensures(1)
;
#endif
#ifdef NATIVE
bl_mit scope_stub_find(size_t s, bl_cname n) { abort(); }
#else
bl_mit __CPROVER_uninterpreted_scope_find(size_t, bl_cname);
#define FIND(s, n) __CPROVER_uninterpreted_scope_find(s, n)
bl_mit scope_stub_find(size_t s, bl_cname n)
__CPROVER_requires(s < SCMAX)
__CPROVER_assigns()
__CPROVER_ensures(__CPROVER_return_value == FIND(s, n) && (__CPROVER_return_value == BL_MAP_END || (__CPROVER_return_value >= 0 && __CPROVER_return_value < EMAX)))
;
#endif
'''
RET = '__CPROVER_return_value'


def R(t):
    return ('', 'requires', t, [])


def E(label, t, props, **o):
    return (label, 'ensures', t, props, o)


def A(t):
    return ('', 'assigns', t, [])


PRE = [R('g_env_size <= SCMAX && g_fb <= g_env_size && gk < g_env_size && g_hit == 0 && g_fell_through == 0 && bl_exc == 0')]
LOOP = {'assigns_lookup': 'it, g_hit, g_hit_scope', 'assigns_assign': 'it, g_hit, g_hit_scope, __CPROVER_object_whole(g_entries)'}


def walk_loop(fn, extra_assigns=''):
    return {0: {'assigns': 'it, g_hit, g_hit_scope' + extra_assigns,
                'invariants': [('%s.loop.bounds' % fn, 'it <= g_env_size && g_hit == 0'),
                               ('%s.loop.not_found_above' % fn, '(gk >= it) ==> g_find_gk == BL_MAP_END')] +
                              ([('%s.loop.nothing_written_yet' % fn, '__CPROVER_equal(g_entries[gk][g_e], g_old_entry)')] if extra_assigns else []),
                'decreases': 'it'}}


CONTRACTS = {
    'lookup_walk': {
        'contract': PRE + [
            A('g_hit, g_hit_scope, g_fell_through, g_find_gk'),
            E('lookup.scope_walk.finds_innermost_binding', '(g_hit != 0) ==> (g_hit_scope < g_env_size && FIND(g_hit_scope, name) != BL_MAP_END && ((gk > g_hit_scope) ==> FIND(gk, name) == BL_MAP_END))', ['C09']),
            E('lookup.scope_walk.falls_through_only_if_unbound', '(g_hit == 0) ==> (g_fell_through != 0 && FIND(gk, name) == BL_MAP_END)', ['C09']),
            # the property (C09): a bare name is resolved among the scopes of the CURRENT call only; a binding that exists
            # only in a caller's scope (below the frame base) must not be what the walk returns
            E('lookup.result_not_below_frame_base', '(g_hit != 0) ==> (g_hit_scope >= g_fb)', ['C09']),
        ],
        'prologue': 'g_find_gk = FIND(gk, name);',
        'after_decl': {'fit': 'if (fit != BL_MAP_END) { g_hit = 1; g_hit_scope = it - 1; }'},
        'loops': walk_loop('lookup'),
    },
    'assign_walk': {
        'contract': PRE + [
            R('g_e >= 0 && g_e < EMAX'),
            A('g_hit, g_hit_scope, g_fell_through, g_find_gk, g_old_entry, __CPROVER_object_whole(g_entries)'),
            E('assign.scope_walk.writes_innermost_binding', '(g_hit != 0) ==> (g_hit_scope < g_env_size && FIND(g_hit_scope, name) != BL_MAP_END && ((gk > g_hit_scope) ==> FIND(gk, name) == BL_MAP_END))', ['C09']),
            E('assign.scope_walk.other_entries_untouched', '(gk < SCMAX && !(g_hit != 0 && gk == g_hit_scope && g_e == FIND(gk, name))) ==> __CPROVER_equal(g_entries[gk][g_e], __CPROVER_old(g_entries[gk][g_e]))', ['C09']),
            # the property (C09): every scope below the frame base (the caller's locals) is unchanged
            E('assign.frame_below_base_unchanged', '(g_hit != 0) ==> (g_hit_scope >= g_fb)', ['C09']),
            # C07 ("int -> long promotion", "long is 64-bit"; language guide: "int values can widen to long in assignments"): a
            # variable that holds a long keeps holding a long when an int is assigned to it - otherwise the next `x + 1`
            # is computed in 32 bits
            E('assign.int_stored_in_a_long_variable_is_widened', '(g_hit != 0 && gk == g_hit_scope && g_e == FIND(gk, name) && g_old_entry.value.type == BL_T_Long && v.type == BL_T_Int) ==> g_entries[gk][g_e].value.type == BL_T_Long', ['C07']),
        ],
        'prologue': 'g_find_gk = FIND(gk, name); g_old_entry = g_entries[gk][g_e];',
        'after_decl': {'fit': 'if (fit != BL_MAP_END) { g_hit = 1; g_hit_scope = it - 1; }'},
        'loops': walk_loop('assign', ', __CPROVER_object_whole(g_entries)'),
    },
}
def bind_contract(fn, cond):
    lab = 'frame_setup.' + fn
    return {
        'contract': [
            R('g_env_size >= 1 && g_env_size <= SCMAX && g_fb == g_env_size - 1 && g_nparams <= PMAX && g_nargs <= PMAX && gi < PMAX && gk < g_fb && g_e >= 0 && g_e < EMAX && bl_exc == 0'),
            R('(!g_top_has || g_n == BL_NAME_THIS) && !g_seen'),
            A('g_top_has, g_top_has0, g_top_val, g_seen, g_old_entry, __CPROVER_object_whole(g_entries)'),
            # the property (C09): the callee's parameters live in the callee's own new frame, and binding them touches nothing of the caller
            E(lab + '.every_parameter_is_bound_in_the_new_frame', '(%sgi < g_nparams && gi < g_nargs && g_param_names[gi] == g_n) ==> (g_top_has && g_top_val.initialized)' % cond, ['C09']),
            E(lab + '.binds_parameter_names_only', '(g_top_has != 0) == (__CPROVER_old(g_top_has) != 0 || g_seen != 0)', ['C09']),
            E(lab + '.caller_scopes_untouched', '__CPROVER_equal(g_entries[gk][g_e], __CPROVER_old(g_entries[gk][g_e]))', ['C09']),
        ],
        'prologue': 'g_top_has0 = g_top_has; g_old_entry = g_entries[gk][g_e];',
        'loops': {0: {'assigns': 'i, g_top_has, g_top_val, g_seen, __CPROVER_object_whole(g_entries)',
                      'body_begin': 'if (g_param_names[i] == g_n) g_seen = 1;', 'ghost_in_bounded': True,
                      'invariants': [(lab + '.loop.bounds', 'i <= g_nparams && i <= g_nargs'),
                                     (lab + '.loop.bound_so_far', '(gi < i && g_param_names[gi] == g_n) ==> (g_top_has && g_top_val.initialized)'),
                                     (lab + '.loop.only_parameter_names', '(g_top_has != 0) == (g_top_has0 != 0 || g_seen != 0)'),
                                     (lab + '.loop.caller_untouched', '__CPROVER_equal(g_entries[gk][g_e], g_old_entry)')],
                      'decreases': 'g_nparams - i'}},
    }


CONTRACTS['bind_params_call'] = bind_contract('call', '')
CONTRACTS['bind_params_callMethod'] = bind_contract('callMethod', '')
CONTRACTS['bind_params_ctor'] = bind_contract('runConstructorChain', 'ctor != 0 && ')
HARNESSES = [
    dict(name='lookup_walk', fn='lookup_walk', replace=['scope_stub_find'], flags=[], props=['C09', 'C12'], timeout=120, bounded_replace=['scope_stub_find'], bounded_defs=['SCMAX=3'], unwind=5, canaries=[('1', 'return')]),
    dict(name='assign_walk', fn='assign_walk', replace=['scope_stub_find'], flags=[], props=['C09', 'C12', 'C07'], timeout=600, bounded_replace=['scope_stub_find'], bounded_defs=['SCMAX=3'], unwind=5, canaries=[('1', 'return')]),
] + [dict(name=c, fn=c, replace=['scope_assign'], flags=[], props=['C09', 'C12'], timeout=300, bounded_replace=['scope_assign'], bounded_defs=['SCMAX=3', 'PMAX=3'], unwind=5, canaries=[('g_top_has', 'a parameter was bound')])
     for c in ('bind_params_call', 'bind_params_callMethod', 'bind_params_ctor')]


# =========================================================================== native side
from tools import native as _nat


def _oracle():
    bd = _nat.repo_build(('bloch',))
    return _nat.run(['python3', os.path.join(_nat.ROOT, 'native', 'scope_oracle.py'), os.path.join(bd, 'bin', 'bloch'), 'sweep'], timeout=600)


def native_validate(pu, work, tier, seed):
    try:
        rc, out, dt = _oracle()
        js = _nat.last_json(out)
        return dict(unit='SCOPE', kind='oracle on the real interpreter (programs whose output must not depend on the caller\'s locals); no co-execution for this unit', status='agree',
                    oracle_sweep=dict(checks=js.get('oracle_checks'), failures=js.get('oracle_failures'), failing_labels=sorted(set(re.findall(r'FAIL label=(\S+)', out)))), wall_s=round(dt, 1))
    except _nat.Break as e:
        return dict(unit='SCOPE', status='error', detail=str(e))


def replay_counterexample(pu, h, label, failure, work, tier, seed):
    rc, out, dt = _oracle()
    fails = [l for l in out.split('\n') if l.startswith('FAIL ')]
    same = [l for l in fails if label and ('label=' + label + ' ') in l]
    pick = same or [l for l in fails if ('label=' + h['fn'].replace('_walk', '') + '.') in l]
    if pick:
        m = re.search(r'label=(\S+)', pick[0])
        vals, first = _nat.trace_values('', failure)
        sig = 'name bound only in a scope below the frame base (caller local) - dynamic scoping of %s' % h['fn'].replace('_walk', '')
        if 'widened' in m.group(1):
            sig = 'Int value stored by assign() into a variable that holds a Long keeps its Int tag (32-bit arithmetic afterwards)'
        return dict(failing_input_found=True, failing_input=pick[0], native_failures=fails[:4], oracle_label=m.group(1),
                    signature=sig,
                    reproduce_args=['sweep'], reproduce='bin/check <property> --replay <this file>', replay_inputs_tried=['sweep'], matched_same_obligation=bool(same))
    return dict(failing_input_found=False, replay_inputs_tried=['sweep'], signature='')


def run_reproduce(rec, work):
    rc, out, dt = _oracle()
    print(out)
    return 1 if rc else 0
