"""Unit SCOPE — runtime/runtime_evaluator.cpp: the scope-stack walk of RuntimeEvaluator::lookup and
::assign (C09 kernel: a callee never sees or changes its caller's locals)."""
import re, os
from tools import cxx2c
from tools.cxx2c import Lower, Unsupported, kids, qt, qt_sugar, strip, strip_parens, callee_name, norm_type, walk

NAME = 'SCOPE'
SRC = '/repo/src/bloch/runtime/runtime_evaluator.cpp'
NAMESPACE = 'bloch::runtime'
FUNCS = []
AST_FILTER = ['RuntimeEvaluator::lookup', 'RuntimeEvaluator::assign']
SHIM = 'scope.h'
THROWING = set()
DROPS = ['regions: the first statement (the for loop over m_env.rbegin()..rend()) of lookup and of assign; what follows (fields of `this`, statics, class names, creation in the top scope) is not lowered',
         'each scope map is an uninterpreted function (scope index, name) -> entry id; entries live in a ghost table; names are interned identities',
         'Value members other than type, className, objectValue']
ASSUMPTIONS = ['g_fb (index of the first scope of the innermost active call) is a free ghost parameter <= m_env.size(): that call / callMethod / runConstructorChain push exactly one scope and nothing below it belongs to the callee is the DEFINITION of the frame base, not verified here']
RIT = r'^std::(vector<std::unordered_map<.*VarEntry.*>::reverse_iterator|reverse_iterator<__gnu_cxx::__normal_iterator<std::unordered_map<.*)$'


class Profile(Lower):
    CLS = 'scope'
    SELF_T = ''
    IS_METHOD = False
    WRAP_DOUBLE_OPS = False
    TYPE_MAP = [
        (RIT, 'bl_rit'),
        (r'^std::vector<std::unordered_map<.*VarEntry.*>>::reverse_iterator$', 'bl_rit'),
        (r'^std::unordered_map<.*VarEntry.*>::iterator$', 'bl_mit'),
        (r'^std::__detail::_Node_iterator(_base)?<.*VarEntry.*$', 'bl_mit'),
        (r'^(bloch::runtime::)?Value$', 'Value'),
        (r'^(bloch::runtime::)?Value::Type$', 'int'),
        (r'^(bloch::runtime::)?(RuntimeEvaluator::)?VarEntry$', 'VarEntry'),
        (r'^(std::)?(basic_string<char.*>|string)$', 'bl_cname'),
        (r'^(std::)?shared_ptr<(bloch::runtime::)?Object>$', 'bl_objid'),
        (r'^std::__shared_ptr<(bloch::runtime::)?Object, __gnu_cxx::_S_atomic>$', 'bl_objid'),
    ]

    def file_prelude(self):
        return ['enum { BL_T_Object = 16 };',
                'typedef struct { int type; bl_cname className; bl_objid objectValue; } Value;',
                'typedef struct { Value value; _Bool tracked; _Bool initialized; } VarEntry;']

    def ctype(self, t):
        t0 = norm_type(t)
        if 'reverse_iterator' in t0 and 'unordered_map' in t0:
            return 'bl_rit'
        if ('_Node_iterator' in t0 or t0.endswith('::iterator')) and 'VarEntry' in t0 and 'reverse' not in t0:
            return 'bl_mit'
        return super().ctype(t)

    def declref(self, n):
        rd = n['referencedDecl']
        if rd.get('kind') == 'EnumConstantDecl' and rd['name'] == 'Object':
            return 'BL_T_Object'
        return super().declref(n)

    def cur_scope(self):
        return '(it - 1)'

    def opcall(self, n):
        ks = kids(n)
        op = callee_name(ks[0])
        args = ks[1:]
        t0 = self.ct(args[0])
        if op in ('operator==', 'operator!=') and t0 in ('bl_rit', 'bl_mit'):
            return '(%s %s %s)' % (self.expr(args[0]), op[len('operator'):], self.expr(args[1]))
        if op == 'operator++' and t0 == 'bl_rit':
            return '(%s = %s - 1)' % (self.expr(args[0]), self.expr(args[0]))
        if op == 'operator->' and t0 == 'bl_mit':
            return 'BL_ENTRY(%s, %s)' % (self.cur_scope(), self.expr(args[0]))
        if op == 'operator=' and t0 in ('Value', 'bl_cname'):
            return '(%s = %s)' % (self.expr(args[0]), self.expr(args[1]))
        raise Unsupported('operator %s on %s' % (op, qt(args[0])))

    def member(self, n):
        base = kids(n)[0]
        sb = strip(base)
        if sb.get('kind') == 'CXXOperatorCallExpr' and callee_name(kids(sb)[0]) == 'operator->' and self.ct(kids(sb)[1]) == 'bl_mit':
            if n['name'] == 'second':
                return self.expr(sb)
        if sb.get('kind') == 'MemberExpr' and sb.get('name') == 'second':
            return '%s.%s' % (self.expr(sb), n['name'])
        return super().member(n)

    def membercall_other(self, n, name, obj, args):
        so = strip(obj)
        if name in ('rbegin', 'rend') and so.get('kind') == 'MemberExpr' and so.get('name') == 'm_env':
            return 'g_env_size' if name == 'rbegin' else '((bl_rit)0)'
        if name in ('find', 'end') and so.get('kind') == 'CXXOperatorCallExpr' and callee_name(kids(so)[0]) == 'operator->' and self.ct(kids(so)[1]) == 'bl_rit':
            return 'scope_stub_find(%s, %s)' % (self.cur_scope(), self.expr(args[0])) if name == 'find' else 'BL_MAP_END'
        t = self.ct(obj)
        o = self.expr(obj)
        if t == 'bl_cname' and name == 'empty':
            return '(%s == 0)' % o
        if t == 'bl_objid' and name == 'operator bool':
            return '(%s != 0)' % o
        raise Unsupported('member call %s on %s' % (name, qt(obj)))

    def construct(self, n):
        ct = self.ctype(qt(n))
        args = [a for a in kids(n) if a.get('kind') != 'CXXDefaultArgExpr']
        if ct in ('Value', 'bl_rit', 'bl_mit') and len(args) == 1:
            return self.expr(args[0])
        raise Unsupported('ctor %s/%d' % (ct, len(args)))

    def cast_other(self, n, ck, inner):
        if ck in ('UserDefinedConversion', 'PointerToBoolean'):
            return self.expr(inner)
        return super().cast_other(n, ck, inner)


def lower_regions(docs, prof):
    out = []
    for fn, cname, rt, params in (('lookup', 'lookup_walk', 'Value', 'bl_cname name'), ('assign', 'assign_walk', 'void', 'bl_cname name, Value v')):
        ds = cxx2c.find_functions(docs, fn)
        if len(ds) != 1:
            raise Unsupported('%s: %d definitions' % (fn, len(ds)))
        body = [k for k in kids(ds[0]) if k.get('kind') == 'CompoundStmt'][0]
        first = kids(body)[0]
        if first.get('kind') != 'ForStmt':
            raise Unsupported('%s no longer starts with the scope-stack loop' % fn)
        body2 = dict(body)
        body2['inner'] = [first]
        d = dict(kind='FunctionDecl', name=cname, type=dict(qualType=('bloch::runtime::Value ()' if rt == 'Value' else 'void ()')), inner=[body2])
        head, lines = prof.func(d, cname=cname, is_method=False)
        assert lines[-1].strip() == '}'
        lines = lines[:-1] + ['  GHOST(g_fell_through = 1;)'] + (['  return (Value){0};'] if rt == 'Value' else []) + ['}']
        out.append(('%s scope_%s(%s)' % (rt, cname, params), lines))
    return out


# =========================================================================== sidecar contracts
GHOSTS = r'''
int bl_exc, bl_exc_line, bl_exc_col;
size_t g_env_size;            /* m_env.size() */
size_t g_fb;                  /* ghost frame base: index of the first scope of the innermost active call */
size_t gk; int g_e;           /* ghost scope index / entry id */
VarEntry g_entries[SCMAX][EMAX];
#define BL_ENTRY(s, e) (g_entries[BL_IDX(s, SCMAX)][BL_IDX(e, EMAX)])
int g_hit; size_t g_hit_scope; int g_fell_through;
VarEntry g_old_entry;
bl_mit g_find_gk;        /* ghost: FIND(gk, name), computed once (function calls are not allowed in loop invariants) */
#ifdef NATIVE
bl_mit scope_stub_find(size_t s, bl_cname n) { abort(); }
#else
bl_mit __CPROVER_uninterpreted_scope_find(size_t, bl_cname);
#define FIND(s, n) __CPROVER_uninterpreted_scope_find(s, n)
bl_mit scope_stub_find(size_t s, bl_cname n)
__CPROVER_requires(s < SCMAX)
__CPROVER_assigns()
__CPROVER_ensures(__CPROVER_return_value == FIND(s, n) && (__CPROVER_return_value == BL_MAP_END || (__CPROVER_return_value >= 0 && __CPROVER_return_value < EMAX)))
;
#endif
'''
RET = '__CPROVER_return_value'


def R(t):
    return ('', 'requires', t, [])


def E(label, t, props, **o):
    return (label, 'ensures', t, props, o)


def A(t):
    return ('', 'assigns', t, [])


PRE = [R('g_env_size <= SCMAX && g_fb <= g_env_size && gk < g_env_size && g_hit == 0 && g_fell_through == 0 && bl_exc == 0')]
LOOP = {'assigns_lookup': 'it, g_hit, g_hit_scope', 'assigns_assign': 'it, g_hit, g_hit_scope, __CPROVER_object_whole(g_entries)'}


def walk_loop(fn, extra_assigns=''):
    return {0: {'assigns': 'it, g_hit, g_hit_scope' + extra_assigns,
                'invariants': [('%s.loop.bounds' % fn, 'it <= g_env_size && g_hit == 0'),
                               ('%s.loop.not_found_above' % fn, '(gk >= it) ==> g_find_gk == BL_MAP_END')] +
                              ([('%s.loop.nothing_written_yet' % fn, '__CPROVER_equal(g_entries[gk][g_e], g_old_entry)')] if extra_assigns else []),
                'decreases': 'it'}}


CONTRACTS = {
    'lookup_walk': {
        'contract': PRE + [
            A('g_hit, g_hit_scope, g_fell_through, g_find_gk'),
            E('lookup.scope_walk.finds_innermost_binding', '(g_hit != 0) ==> (g_hit_scope < g_env_size && FIND(g_hit_scope, name) != BL_MAP_END && ((gk > g_hit_scope) ==> FIND(gk, name) == BL_MAP_END))', ['C09']),
            E('lookup.scope_walk.falls_through_only_if_unbound', '(g_hit == 0) ==> (g_fell_through != 0 && FIND(gk, name) == BL_MAP_END)', ['C09']),
            # the property (C09): a bare name is resolved among the scopes of the CURRENT call only; a binding that exists
            # only in a caller's scope (below the frame base) must not be what the walk returns
            E('lookup.result_not_below_frame_base', '(g_hit != 0) ==> (g_hit_scope >= g_fb)', ['C09']),
        ],
        'prologue': 'g_find_gk = FIND(gk, name);',
        'after_decl': {'fit': 'if (fit != BL_MAP_END) { g_hit = 1; g_hit_scope = it - 1; }'},
        'loops': walk_loop('lookup'),
    },
    'assign_walk': {
        'contract': PRE + [
            R('g_e >= 0 && g_e < EMAX'),
            A('g_hit, g_hit_scope, g_fell_through, g_find_gk, g_old_entry, __CPROVER_object_whole(g_entries)'),
            E('assign.scope_walk.writes_innermost_binding', '(g_hit != 0) ==> (g_hit_scope < g_env_size && FIND(g_hit_scope, name) != BL_MAP_END && ((gk > g_hit_scope) ==> FIND(gk, name) == BL_MAP_END))', ['C09']),
            E('assign.scope_walk.other_entries_untouched', '(gk < SCMAX && !(g_hit != 0 && gk == g_hit_scope && g_e == FIND(gk, name))) ==> __CPROVER_equal(g_entries[gk][g_e], __CPROVER_old(g_entries[gk][g_e]))', ['C09']),
            # the property (C09): every scope below the frame base (the caller's locals) is unchanged
            E('assign.frame_below_base_unchanged', '(g_hit != 0) ==> (g_hit_scope >= g_fb)', ['C09']),
        ],
        'prologue': 'g_find_gk = FIND(gk, name); g_old_entry = g_entries[gk][g_e];',
        'after_decl': {'fit': 'if (fit != BL_MAP_END) { g_hit = 1; g_hit_scope = it - 1; }'},
        'loops': walk_loop('assign', ', __CPROVER_object_whole(g_entries)'),
    },
}
HARNESSES = [
    dict(name='lookup_walk', fn='lookup_walk', replace=['scope_stub_find'], flags=[], props=['C09', 'C12'], timeout=120, bounded_replace=['scope_stub_find'], bounded_defs=['SCMAX=3'], unwind=5, canaries=[('1', 'return')]),
    dict(name='assign_walk', fn='assign_walk', replace=['scope_stub_find'], flags=[], props=['C09', 'C12'], timeout=600, bounded_replace=['scope_stub_find'], bounded_defs=['SCMAX=3'], unwind=5, canaries=[('1', 'return')]),
]


# =========================================================================== native side
from tools import native as _nat


def _oracle():
    bd = _nat.repo_build(('bloch',))
    return _nat.run(['python3', os.path.join(_nat.ROOT, 'native', 'scope_oracle.py'), os.path.join(bd, 'bin', 'bloch'), 'sweep'], timeout=600)


def native_validate(pu, work, tier, seed):
    try:
        rc, out, dt = _oracle()
        js = _nat.last_json(out)
        return dict(unit='SCOPE', kind='oracle on the real interpreter (programs whose output must not depend on the caller\'s locals); no co-execution for this unit', status='agree',
                    oracle_sweep=dict(checks=js.get('oracle_checks'), failures=js.get('oracle_failures'), failing_labels=sorted(set(re.findall(r'FAIL label=(\S+)', out)))), wall_s=round(dt, 1))
    except _nat.Break as e:
        return dict(unit='SCOPE', status='error', detail=str(e))


def replay_counterexample(pu, h, label, failure, work, tier, seed):
    rc, out, dt = _oracle()
    fails = [l for l in out.split('\n') if l.startswith('FAIL ')]
    same = [l for l in fails if label and ('label=' + label + ' ') in l]
    pick = same or [l for l in fails if ('label=' + h['fn'].replace('_walk', '') + '.') in l]
    if pick:
        m = re.search(r'label=(\S+)', pick[0])
        vals, first = _nat.trace_values('', failure)
        return dict(failing_input_found=True, failing_input=pick[0], native_failures=fails[:4], oracle_label=m.group(1),
                    signature='name bound only in a scope below the frame base (caller local) - dynamic scoping of %s' % h['fn'].replace('_walk', ''),
                    reproduce_args=['sweep'], reproduce='bin/check <property> --replay <this file>', replay_inputs_tried=['sweep'], matched_same_obligation=bool(same))
    return dict(failing_input_found=False, replay_inputs_tried=['sweep'], signature='')


def run_reproduce(rec, work):
    rc, out, dt = _oracle()
    print(out)
    return 1 if rc else 0
