"""Unit PTAB — compiler/parser/parser.cpp: the Pratt binding-power table (infixBinding,
kPrefixBindingPower) against the precedence ladder of docs/grammar.md (C14 kernel)."""
import re, os
from tools import cxx2c
from tools.cxx2c import Lower, Unsupported, kids, qt, qt_sugar, strip, strip_parens, callee_name, norm_type
from tools.cxx2c import REPO as _REPO

NAME = 'PTAB'
SRC = _REPO + '/src/bloch/compiler/parser/parser.cpp'
FUNCS = ['infixBinding']
AST_FILTER = ['infixBinding', 'Binding', 'kPrefixBindingPower', 'TokenType']
SHIM = 'ptab.h'
THROWING = set()
DROPS = ['nothing of the table itself: the switch, the Binding aggregates and the constant are lowered one-to-one; std::optional<Binding> is {has, value}']
ASSUMPTIONS = ['that parsePrattExpression consults exactly this table with `lbp < minBp` as the stop test and `rbp` as the right operand\'s minimum is NOT verified (the Pratt loop builds unique_ptr trees and is outside the lowering)']


class Profile(Lower):
    CLS = 'ptab'
    SELF_T = ''
    IS_METHOD = False
    WRAP_DOUBLE_OPS = False
    TYPE_MAP = [
        (r'^std::optional<(bloch::compiler::\(anonymous namespace\)::)?Binding>$', 'opt_Binding'),
        (r'^(bloch::compiler::\(anonymous namespace\)::)?Binding$', 'Binding'),
        (r'^(bloch::compiler::\(anonymous namespace\)::)?Binding::Kind$', 'int'),
        (r'^(bloch::compiler::)?TokenType$', 'int'),
        (r'^(const )?std::nullopt_t$', 'bl_nullopt'),
    ]

    def prepare(self, docs, workdir):
        enums = [d for d in docs if d.get('kind') == 'EnumDecl' and d.get('name') == 'TokenType']
        if not enums:
            raise Unsupported('enum TokenType not found')
        self.enum = [c['name'] for c in kids(enums[0]) if c.get('kind') == 'EnumConstantDecl']
        recs = [d for d in docs if d.get('kind') == 'CXXRecordDecl' and d.get('name') == 'Binding' and d.get('completeDefinition')]
        if len(recs) != 1:
            raise Unsupported('struct Binding not found')
        self.fields = []
        self.kinds = []
        for f in kids(recs[0]):
            if f.get('kind') == 'FieldDecl':
                self.fields.append((f['name'], self.ctype(qt(f))))
            if f.get('kind') == 'EnumDecl' and f.get('name') == 'Kind':
                self.kinds = [c['name'] for c in kids(f) if c.get('kind') == 'EnumConstantDecl']
        if [f for f, _ in self.fields] != ['lbp', 'rbp', 'kind'] or self.kinds != ['Infix', 'Postfix']:
            raise Unsupported('Binding layout changed: %s / %s' % (self.fields, self.kinds))
        vs = [d for d in docs if d.get('kind') == 'VarDecl' and d.get('name') == 'kPrefixBindingPower']
        lits = []
        if len(vs) == 1:
            cxx2c.walk(vs[0], lambda n: lits.append(n['value']) if n.get('kind') == 'IntegerLiteral' else None)
        if len(vs) != 1 or len(lits) != 1:
            raise Unsupported('kPrefixBindingPower is not a plain integer constant')
        self.prefix = lits[0]

    def file_prelude(self):
        return ['enum { %s, BL_TOKENTYPE_COUNT };' % ', '.join('BL_' + e for e in self.enum),
                'enum { BL_Infix = 0, BL_Postfix = 1 };',
                'typedef struct { int lbp; int rbp; int kind; } Binding;',
                'typedef struct { _Bool has; Binding v; } opt_Binding;',
                'static const int BLG_kPrefixBindingPower = %s;' % self.prefix]

    def cast(self, n):
        if n.get('kind') == 'CXXFunctionalCastExpr' and kids(n)[0].get('kind') == 'InitListExpr' and self.ct(n) == 'Binding':
            return self.expr(kids(n)[0])
        return super().cast(n)

    def initlist(self, n):
        if self.ct(n) == 'Binding':
            return '(Binding){ ' + ', '.join(self.expr(a) for a in kids(n)) + ' }'
        return super().initlist(n)

    def construct(self, n):
        ct = self.ctype(qt(n))
        args = [a for a in kids(n) if a.get('kind') != 'CXXDefaultArgExpr']
        if ct == 'opt_Binding' and len(args) == 1:
            if self.ct(args[0]) == 'Binding':
                return '(opt_Binding){ 1, %s }' % self.expr(args[0])
            if self.ct(args[0]) == 'bl_nullopt':
                return '(opt_Binding){ 0, { 0, 0, 0 } }'
        if ct == 'Binding' and len(args) == 1 and self.ct(args[0]) == 'Binding':
            return self.expr(args[0])
        raise Unsupported('ctor %s/%d' % (ct, len(args)))

    def declref(self, n):
        if n['referencedDecl']['name'] == 'nullopt':
            return 'BL_NULLOPT'
        return super().declref(n)


# =========================================================================== sidecar: the documented ladder
# docs/grammar.md: logicalOr < logicalAnd < bitwiseOr < bitwiseXor < bitwiseAnd < equality < comparison
#                  < additive < multiplicative < unary < postfix ; every binary level is left-associative.
LEVELS = [('PipePipe', 1), ('AmpersandAmpersand', 2), ('Pipe', 3), ('Caret', 4), ('Ampersand', 5), ('EqualEqual', 6), ('BangEqual', 6),
          ('Greater', 7), ('Less', 7), ('GreaterEqual', 7), ('LessEqual', 7), ('Plus', 8), ('Minus', 8), ('Star', 9), ('Slash', 9), ('Percent', 9),
          ('LParen', 11), ('LBracket', 11), ('PlusPlus', 11), ('MinusMinus', 11), ('Dot', 11)]
LEVEL = '(' + ' : '.join('(t) == BL_%s ? %d' % (n, l) for n, l in LEVELS) + ' : 0)'
GHOSTS = '''
#define LEVEL(t) %s
int bl_exc, bl_exc_line, bl_exc_col;
''' % LEVEL
RET = '__CPROVER_return_value'


def E(label, t, props, **o):
    return (label, 'ensures', t, props, o)


CONTRACTS = {
    'infixBinding': {'contract': [
        ('', 'assigns', '', []),
        E('infixBinding.operators_of_the_grammar_and_no_others', '%s.has == (LEVEL(type) != 0)' % RET, ['C14']),
        E('infixBinding.postfix_kind_iff_postfix_level', '%s.has ==> (%s.v.kind == (LEVEL(type) == 11 ? BL_Postfix : BL_Infix))' % (RET, RET), ['C14']),
        E('infixBinding.binary_levels_are_left_associative', '(%s.has && LEVEL(type) <= 9) ==> (%s.v.lbp < %s.v.rbp)' % (RET, RET, RET), ['C14']),
        E('infixBinding.binary_binds_looser_than_prefix', '(%s.has && LEVEL(type) <= 9) ==> (%s.v.lbp < BLG_kPrefixBindingPower && %s.v.lbp > 0)' % (RET, RET, RET), ['C14']),
        E('infixBinding.postfix_binds_tighter_than_prefix', '(%s.has && LEVEL(type) == 11) ==> (%s.v.lbp >= BLG_kPrefixBindingPower)' % (RET, RET), ['C14']),
    ]},
}
PAIR_BODY = '''  int t1, t2;
  __CPROVER_assume(t1 >= 0 && t1 < BL_TOKENTYPE_COUNT && t2 >= 0 && t2 < BL_TOKENTYPE_COUNT);
  opt_Binding b1 = ptab_infixBinding(t1), b2 = ptab_infixBinding(t2);
  __CPROVER_assume(b1.has && b2.has && LEVEL(t1) <= 9 && LEVEL(t2) <= 9);
  /* a op1 b op2 c: after op1 the right operand is parsed with minBp = rbp(op1); op2 is taken into it iff lbp(op2) >= rbp(op1) */
  __CPROVER_assert(!(LEVEL(t2) > LEVEL(t1)) || b2.v.lbp >= b1.v.rbp, "LEMMA a tighter operator on the right is absorbed by the right operand"); /*L:lemma.ptab.tighter_right_operator_absorbed*/
  __CPROVER_assert(!(LEVEL(t2) <= LEVEL(t1)) || b2.v.lbp < b1.v.rbp, "LEMMA an equal or looser operator on the right ends the right operand (left associativity)"); /*L:lemma.ptab.equal_or_looser_right_operator_ends_operand*/
  __CPROVER_assert(!(LEVEL(t1) == LEVEL(t2)) || (b1.v.lbp == b2.v.lbp && b1.v.rbp == b2.v.rbp), "LEMMA operators of one grammar level share one binding"); /*L:lemma.ptab.one_binding_per_level*/
  __CPROVER_assert(0, "VACUITY_CANARY lemma end reachable");'''
HARNESSES = [
    dict(name='infixBinding', fn='infixBinding', replace=[], flags=[], props=['C14'], timeout=120,
         pre=['__CPROVER_assume(a0 >= 0 && a0 < BL_TOKENTYPE_COUNT);']),
    # both calls are inlined (the function is loop-free): a full-domain proof on the lowered code, over every pair of token types
    dict(name='lemma_precedence_pairs', fn='infixBinding', lemma=True, replace=[], flags=[], props=['C14'], timeout=120, canaries=[], body=PAIR_BODY,
         labels={'lemma.ptab.tighter_right_operator_absorbed': ['C14'], 'lemma.ptab.equal_or_looser_right_operator_ends_operand': ['C14'], 'lemma.ptab.one_binding_per_level': ['C14']}),
]
