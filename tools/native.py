"""Native side: build the lowered C natively, co-execute with the real C++ (transliteration
validation) and run the oracle (replay of counterexamples on the real code)."""
import os, re, json, subprocess, time
from tools.vrun import sh, ROOT, WORK, Break
from tools.cxx2c import REPO

CXXFLAGS = ['-std=c++20', '-O1', '-w', '-DNATIVE', '-I' + REPO + '/src', '-I' + REPO + '/src/third_party', '-I' + os.path.join(ROOT, 'shim')]


def build_c(src_c, out_o, defs=()):
    rc, out, _ = sh(['gcc', '-O1', '-w', '-DNATIVE', '-I' + os.path.join(ROOT, 'shim')] + ['-D' + d for d in defs] + ['-c', src_c, '-o', out_o],
                    log=out_o + '.log', timeout=300)
    if rc != 0:
        raise Break('NATIVE BUILD BREAK: gcc failed on lowered C (%s)\n%s' % (out_o + '.log', out[-1500:]))


def build_cxx(srcs, out_bin, defs=(), objs=()):
    rc, out, _ = sh(['g++'] + CXXFLAGS + ['-D' + d for d in defs] + list(srcs) + list(objs) + ['-o', out_bin],
                    log=out_bin + '.build.log', timeout=600)
    if rc != 0:
        raise Break('NATIVE BUILD BREAK: g++ failed (%s)\n%s' % (out_bin + '.build.log', out[-1500:]))


def run(cmd, timeout=600):
    rc, out, dt = sh(cmd, timeout=timeout)
    return rc, out, dt


def last_json(out):
    for ln in reversed(out.strip().split('\n')):
        ln = ln.strip()
        if ln.startswith('{'):
            try:
                return json.loads(ln)
            except Exception:
                pass
    return {}


def trace_values(trace, failure=None):
    """last assignment per plain identifier in a CBMC trace: name -> text value"""
    if failure is not None and failure.get('trace_last'):
        return failure['trace_last'], failure.get('trace_first', {})
    vals = {}
    first = {}
    for m in re.finditer(r'^\s+([A-Za-z_][\w.$!@\[\]]*)=([^ \n]+)', trace, re.M):
        k, v = m.group(1), m.group(2)
        vals[k] = v
        first.setdefault(k, v)
    return vals, first


REPO_BUILD = os.path.join(WORK, '_repo_build')


def repo_build(targets=('bloch_runtime', 'bloch_compiler', 'bloch')):
    """(Re)build /repo's current working tree in a build directory private to /verif (shared by all
    checks, serialised by a lock).  Returns the build directory; raises Break when the build fails."""
    import fcntl
    os.makedirs(REPO_BUILD, exist_ok=True)
    with open(os.path.join(REPO_BUILD, '.lock'), 'w') as lk:
        fcntl.flock(lk, fcntl.LOCK_EX)
        if not os.path.exists(os.path.join(REPO_BUILD, 'build.ninja')):
            rc, out, _ = sh(['cmake', '-G', 'Ninja', '-S', REPO, '-B', REPO_BUILD, '-DCMAKE_BUILD_TYPE=Release'], log=os.path.join(REPO_BUILD, 'configure.log'), timeout=600)
            if rc != 0:
                raise Break('NATIVE BUILD BREAK: cmake configure of /repo failed\n' + out[-1000:])
        rc, out, _ = sh(['cmake', '--build', REPO_BUILD, '--target'] + list(targets), log=os.path.join(REPO_BUILD, 'build.log'), timeout=1800)
        if rc != 0:
            raise Break('NATIVE BUILD BREAK: /repo does not build\n' + out[-1500:])
    return REPO_BUILD
