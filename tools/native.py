"""Native side: build the lowered C natively, co-execute with the real C++ (transliteration
validation) and run the oracle (replay of counterexamples on the real code)."""
import os, re, json, subprocess, time
from tools.vrun import sh, ROOT, Break

CXXFLAGS = ['-std=c++20', '-O1', '-w', '-DNATIVE', '-I/repo/src', '-I/repo/src/third_party', '-I' + os.path.join(ROOT, 'shim')]


def build_c(src_c, out_o, defs=()):
    rc, out, _ = sh(['gcc', '-O1', '-w', '-DNATIVE', '-I' + os.path.join(ROOT, 'shim')] + ['-D' + d for d in defs] + ['-c', src_c, '-o', out_o],
                    log=out_o + '.log', timeout=300)
    if rc != 0:
        raise Break('NATIVE BUILD BREAK: gcc failed on lowered C (%s)\n%s' % (out_o + '.log', out[-1500:]))


def build_cxx(srcs, out_bin, defs=(), objs=()):
    rc, out, _ = sh(['g++'] + CXXFLAGS + ['-D' + d for d in defs] + list(srcs) + list(objs) + ['-o', out_bin],
                    log=out_bin + '.build.log', timeout=600)
    if rc != 0:
        raise Break('NATIVE BUILD BREAK: g++ failed (%s)\n%s' % (out_bin + '.build.log', out[-1500:]))


def run(cmd, timeout=600):
    rc, out, dt = sh(cmd, timeout=timeout)
    return rc, out, dt


def last_json(out):
    for ln in reversed(out.strip().split('\n')):
        ln = ln.strip()
        if ln.startswith('{'):
            try:
                return json.loads(ln)
            except Exception:
                pass
    return {}


def trace_values(trace):
    """last assignment per plain identifier in a CBMC trace: name -> text value"""
    vals = {}
    first = {}
    for m in re.finditer(r'^\s+([A-Za-z_][\w.$!@\[\]]*)=([^ \n]+)', trace, re.M):
        k, v = m.group(1), m.group(2)
        vals[k] = v
        first.setdefault(k, v)
    return vals, first
