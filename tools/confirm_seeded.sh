#!/bin/bash
# confirm_seeded.sh <worktree> : confirm a seeded change independently:
#   with the change: builds, the pinned suite passes, the demonstration FAILS
#   without it     : the demonstration PASSES
wt="$1"; cd "$wt" || exit 9
out="$wt/mutant_out/confirm.log"; : > "$out"
git diff --stat -- src >> "$out"
cmake -G Ninja -B _build -DCMAKE_BUILD_TYPE=Release >> "$out" 2>&1
cmake --build _build >> "$out" 2>&1 || { echo "RESULT build-failed-with-change" | tee -a "$out"; exit 1; }
t=$(./_build/bin/bloch_tests 2>&1 | tail -1); echo "tests with change: $t" >> "$out"
bash mutant_out/run_demo.sh >> "$out" 2>&1; d1=$?; echo "demo with change: exit $d1" >> "$out"
git diff -- src > /tmp/confirm_$$.diff
git apply -R /tmp/confirm_$$.diff
cmake --build _build >> "$out" 2>&1
bash mutant_out/run_demo.sh >> "$out" 2>&1; d0=$?; echo "demo without change: exit $d0" >> "$out"
git apply /tmp/confirm_$$.diff; rm -f /tmp/confirm_$$.diff
echo "RESULT tests='$t' demo_with=$d1 demo_without=$d0" | tee -a "$out"
