#!/usr/bin/env python3
"""debug aid: astshow.py <src> <filter> [maxdepth] — compact tree of the matching decls"""
import sys, os
sys.path.insert(0, os.path.dirname(os.path.dirname(os.path.abspath(__file__))))
from tools import cxx2c
docs = cxx2c.ast_dump(sys.argv[1], sys.argv[2], '/tmp/astshow')
maxd = int(sys.argv[3]) if len(sys.argv) > 3 else 12
def show(n, ind=0):
    if ind > maxd or not isinstance(n, dict) or 'kind' not in n: return
    extra = ' '.join(str(x) for x in [n.get('name', ''), n.get('opcode', ''), n.get('castKind', ''), n.get('value', '') if n.get('kind', '').endswith('Literal') else '',
             (n.get('referencedDecl') or {}).get('name', ''), '<' + (n.get('type', {}).get('qualType', ''))[:70] + '>'] if x)
    print('  ' * ind + n['kind'] + ' ' + extra)
    for k in n.get('inner', []): show(k, ind + 1)
for d in docs:
    if d.get('kind') in ('FunctionDecl', 'CXXMethodDecl') and not any(k.get('kind') == 'CompoundStmt' for k in d.get('inner', [])): continue
    show(d)
