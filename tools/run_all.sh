#!/bin/bash
# run_all.sh [quick|thorough]: every claimed check on the current tree, three at a time; prints one line per property
tier="${1:-quick}"; cd /verif || exit 9
ids=$(python3 -c "import json; print(' '.join(c['property_id'] for c in json.load(open('MANIFEST.json'))['checks']))")
mkdir -p .work/run_all
printf '%s\n' $ids | xargs -P 3 -I{} sh -c "bin/check {} --tier $tier > .work/run_all/{}.log 2>&1; echo \"{} exit=\$? \$(tail -1 .work/run_all/{}.log | cut -c1-160)\""
