#!/bin/bash
# mutant_check_wt.sh <worktree-with-change-applied> <PROP>... : run the quick check(s) against a scratch worktree of /repo
# (never /repo itself); scratch and evidence go under $MUT_BASE (default /tmp/bloch_mut), removed by the caller.
wt="$1"; shift
cd /verif || exit 9
base=${MUT_BASE:-/tmp/bloch_mut}/$(basename $wt); mkdir -p $base
for p in "$@"; do
  VERIF_REPO=$wt VERIF_WORK=$base/work VERIF_EVIDENCE_DIR=$base/evidence bin/check $p > $base/$p.log 2>&1; rc=$?
  echo "$(basename $wt) property=$p exit=$rc $(grep -E '^(VIOLATION|UNDECIDED|OK|KNOWN)' $base/$p.log | cut -c1-220 | head -4 | tr '\n' '|')"
done
